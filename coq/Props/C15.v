(* C15 — snapshot chunk transfer reassembles exactly or rejects.
   Statements only: each theorem is closed by [exact <lemma>]; proofs live in
   Proofs/Chunks.v. The receiver model is Model/Chunks.v [add]/[tick]/[run];
   D (chunk data), its operations and the validator (V, vinit, vadd, vfinal)
   are universally quantified. The repair flags of the model are the values
   regenerated from chunk.go: drop_stream_on_invalid_chunk,
   first_chunk_validated_before_discard (Gen/GenC15.v). *)
From DB Require Import Base.Bytes Model.Chunks Proofs.Chunks Proofs.ChunksFrame Proofs.ChunksSplit Proofs.ChunksInv.
Open Scope N_scope.

(* a chunk with a foreign deployment id or binary version is ignored: the state is unchanged *)
Theorem foreign_did_binver_rejected :
  forall D dapp V vinit vadd vfinal my_did max_slots (st : state D V) (c : chunk D),
    c_did (fst c) <> my_did \/ c_binver (fst c) <> transport_bin_version ->
    add D dapp V vinit vadd vfinal drop_stream_on_invalid_chunk first_chunk_validated_before_discard
        my_did max_slots st c = Done st false.
Proof. exact foreign_did_binver_rejected_gen. Qed.
Print Assumptions foreign_did_binver_rejected.

(* an accepted chunk has the right did/binver, its replica is not removed, and it is
   chunk 0 or the next expected chunk of a tracked stream from the sender that started it *)
Theorem only_next_chunk_from_same_sender_accepted :
  forall D dapp V vinit vadd vfinal my_did max_slots (st st' : state D V) (c : chunk D),
    add D dapp V vinit vadd vfinal drop_stream_on_invalid_chunk first_chunk_validated_before_discard
        my_did max_slots st c = Done st' true ->
    good my_did (fst c) /\ is_removed st (node_of (fst c)) = false /\
    (c_id (fst c) = 0 \/ expected D V st (fst c)).
Proof. exact only_next_chunk_accepted_gen. Qed.
Print Assumptions only_next_chunk_from_same_sender_accepted.

(* foreign chunks, chunks that are not the next expected one of their sender (out of
   order, repeated, other sender, untracked), a first chunk the validator refuses and
   a first chunk beyond the slot limit leave the receiver state exactly as it was *)
Theorem rejected_chunk_has_no_effect :
  forall D dapp V vinit vadd vfinal my_did max_slots (st : state D V) (c : chunk D),
    ignorable D V vinit vadd my_did max_slots st c ->
    add D dapp V vinit vadd vfinal drop_stream_on_invalid_chunk first_chunk_validated_before_discard
        my_did max_slots st c = Done st false.
Proof. exact rejected_chunk_has_no_effect_gen. Qed.
Print Assumptions rejected_chunk_has_no_effect.

(* A complete stream of one sender ([same_stream], ids 0..n-1, only the last chunk is a
   last chunk) delivered in order to a receiver that holds nothing of that snapshot, whose
   main-file chunks the validator accepts: every chunk is accepted, the final directory
   holds exactly what the chunks write ([replay]: per file name the concatenation of the
   chunk data, in order), one InstallSnapshot message built from the first chunk and the
   file infos is delivered, nothing stays tracked and no temp dir is left. *)
Theorem in_order_delivery_reassembles :
  forall D dapp V vinit vadd vfinal my_did max_slots (st : state D V) m0 d0 (r : list (chunk D)),
    clean D V max_slots st m0 ->
    same_stream D my_did m0 ((m0, d0) :: r) -> ids_from D 0 ((m0, d0) :: r) -> last_only D ((m0, d0) :: r) ->
    forall v' files',
      vfold D V vadd vinit ((m0, d0) :: r) = Some v' -> vfinal v' = true ->
      replay D dapp [] ((m0, d0) :: r) = Some files' ->
      exists st', adds D dapp V vinit vadd vfinal drop_stream_on_invalid_chunk first_chunk_validated_before_discard
                       my_did max_slots st ((m0, d0) :: r) = Some st' /\
                  done_with D V st' m0 (fileinfos D [] ((m0, d0) :: r)) files' (s_out st).
Proof. exact in_order_delivery_gen. Qed.
Print Assumptions in_order_delivery_reassembles.

(* SUPERSEDED by finalize_iff_complete_valid_sequence below (kept: it is the step-level
   form used by one_notification_per_finalized_snapshot). Proved: in every step of every run the
   set of final directories and the list of delivered messages change only when a chunk is
   accepted that is the last chunk of its stream, the snapshot was not finalised before,
   and then exactly one final directory and one message (its flag file) are added. With
   only_next_chunk_from_same_sender_accepted (each accepted chunk is chunk 0 or the next
   expected one of the same sender) and in_order_delivery_reassembles (the converse
   direction, including "files = what the accepted chunks wrote") this gives the property.
   Missing: the single run-level statement with the ghost list of the chunks accepted since
   the stream's last chunk 0 (needs the tracked-stream/temp-dir invariant over arbitrary
   interleavings; only proved along an in-order stream, lemma mid_rest). *)
Theorem finalize_iff_complete_valid_sequence_partial :
  forall D dapp V vinit vadd vfinal my_did gc_tick timeout max_slots (st : state D V) o st' b,
    step D dapp V vinit vadd vfinal drop_stream_on_invalid_chunk first_chunk_validated_before_discard
         my_did gc_tick timeout max_slots st o = Done st' b ->
    (s_finals st' = s_finals st /\ s_out st' = s_out st) \/
    (exists c, o = OAdd c /\ b = true /\ is_last (fst c) = true /\
     alookup key_eqb (key_of (fst c)) (s_finals st) = None /\
     exists fd n, s_finals st' = aset key_eqb (key_of (fst c)) fd (s_finals st) /\
                  s_out st' = n :: s_out st /\ fd_flag fd = n).
Proof. exact finalize_step_gen. Qed.
Print Assumptions finalize_iff_complete_valid_sequence_partial.

(* finalize_iff_complete_valid_sequence, FULL statement, over ALL operation sequences of the
   receiver model (chunks of any number of snapshots and senders in any interleaving,
   duplicates, gaps, out-of-order and foreign chunks, ticks with gc, replica removal, Close).

   ONLY IF. In every state reachable from the initial one, every final directory [fd] of
   snapshot [k] comes with a list [acc] of chunks that (a) is a subsequence of the chunks
   delivered so far, in delivery order, and (b) is a complete valid sequence ([complete]):
   it starts with chunk 0, chunk ids are 0,1,..,n-1, all chunks carry key k, the sender,
   deployment id and binary version of the first, only the last one is a last chunk, the
   validator accepted every main-file chunk in turn and the whole ([vfold] = Some v,
   vfinal v = true), and the final directory holds EXACTLY what these chunks wrote
   ([replay]: per file name the concatenation of the chunk data in order) with the flag
   file / InstallSnapshot message built from chunk 0 and the file infos.

   IF. From any reachable state that holds nothing of the snapshot and has a free slot
   ([clean]), when the chunks of a complete valid sequence arrive in order with arbitrary
   other traffic in between ([delivers]/[noise]: chunks of other snapshots whatever their
   fate, foreign chunks, chunks of this snapshot that are neither chunk 0 nor the next
   expected chunk of this sender - duplicates, gaps, out of order, other senders -, ticks,
   removal of other replicas) and fewer than [timeout] ticks pass, then, unless the
   receiver panicked on some other chunk, the snapshot is finalised with exactly the bytes
   the chunks wrote, the message is delivered, nothing stays tracked, no temp dir is left.

   What "valid" assumes: the validator is an oracle (vinit/vadd/vfinal, the C14 validator);
   it sees only chunks without file info (the main snapshot file). External files carry no
   checksum: for them the theorem says the final bytes are the concatenation of the
   delivered chunk data, whatever it is (KNOWN-FINDING EXT-FILE-CORRUPTION-UNDETECTED).
   That the sender's chunks replay to the source files: sender_chunks_replay_to_source. *)
Theorem finalize_iff_complete_valid_sequence :
  forall D dapp V vinit vadd vfinal my_did gc_tick timeout max_slots,
    (forall (ops : list (op D)) (st : state D V) k fd,
        run D dapp V vinit vadd vfinal drop_stream_on_invalid_chunk first_chunk_validated_before_discard
            my_did gc_tick timeout max_slots init ops = Some st ->
        alookup key_eqb k (s_finals st) = Some fd ->
        exists acc, subseq acc (chunks_of D ops) /\
                    complete D dapp V vinit vadd vfinal my_did k acc fd) /\
    (forall (ops0 : list (op D)) (st st' : state D V) m0 d0 r ops v' files',
        run D dapp V vinit vadd vfinal drop_stream_on_invalid_chunk first_chunk_validated_before_discard
            my_did gc_tick timeout max_slots init ops0 = Some st ->
        clean D V max_slots st m0 ->
        delivers D my_did m0 1 r ops ->
        count_ticks D ops < timeout ->
        same_stream D my_did m0 ((m0, d0) :: r) -> ids_from D 0 ((m0, d0) :: r) -> last_only D ((m0, d0) :: r) ->
        vfold D V vadd vinit ((m0, d0) :: r) = Some v' -> vfinal v' = true ->
        replay D dapp [] ((m0, d0) :: r) = Some files' ->
        run D dapp V vinit vadd vfinal drop_stream_on_invalid_chunk first_chunk_validated_before_discard
            my_did gc_tick timeout max_slots st (OAdd (m0, d0) :: ops) = Some st' ->
        finalized_as D V st' m0 (fileinfos D [] ((m0, d0) :: r)) files').
Proof. exact finalize_iff_complete_valid_sequence_gen. Qed.
Print Assumptions finalize_iff_complete_valid_sequence.

(* over every run from the initial state: the delivered InstallSnapshot messages are, in
   order, exactly the flag files of the final directories; one final directory per snapshot *)
Theorem one_notification_per_finalized_snapshot :
  forall D dapp V vinit vadd vfinal my_did gc_tick timeout max_slots ops (st' : state D V),
    run D dapp V vinit vadd vfinal drop_stream_on_invalid_chunk first_chunk_validated_before_discard
        my_did gc_tick timeout max_slots init ops = Some st' ->
    map (fun kf => fd_flag (snd kf)) (s_finals st') = rev (s_out st') /\
    NoDup (map fst (s_finals st')).
Proof. exact one_notification_per_final_gen. Qed.
Print Assumptions one_notification_per_finalized_snapshot.

(* F5, the code before the repair (both flags false): a validator-refused chunk does not
   stop the stream, the next chunk is accepted and a snapshot made of chunks 0 and 2 is
   finalised and announced; the repaired receiver finalises nothing on the same input.
   Witness replayed on the implementation: corpus/C15/f5.txt *)
Theorem chunk_finalize_refuted :
  exists (ops : list (op bytes)) (st : state bytes N),
    run bytes (@app N) N 0 toy_vadd (fun _ => true) false false 7 30 900 128 init ops = Some st /\
    map (fun kf => fd_files (snd kf)) (s_finals st) = [[([115], [10; 30])]] /\
    length (s_out st) = 1%nat /\
    exists st', run bytes (@app N) N 0 toy_vadd (fun _ => true) true true 7 30 900 128 init ops = Some st' /\
                s_finals st' = [] /\ s_out st' = [] /\ s_tracked st' = [] /\ s_temps st' = [].
Proof. exact chunk_finalize_refuted_proved. Qed.
Print Assumptions chunk_finalize_refuted.

(* in every state reachable from the initial one, offering a chunk of snapshot k (accepted
   or not) leaves the tracked stream, every temp dir and the final dir of any other snapshot
   k' exactly as they were (the only coupling between streams is the slot limit, which can
   refuse a first chunk) *)
Theorem streams_independent :
  forall D dapp V vinit vadd vfinal my_did gc_tick timeout max_slots ops (st st' : state D V) (c : chunk D) b k',
    run D dapp V vinit vadd vfinal drop_stream_on_invalid_chunk first_chunk_validated_before_discard
        my_did gc_tick timeout max_slots init ops = Some st ->
    add D dapp V vinit vadd vfinal drop_stream_on_invalid_chunk first_chunk_validated_before_discard
        my_did max_slots st c = Done st' b ->
    k' <> key_of (fst c) ->
    same_at D V k' st st'.
Proof. exact streams_independent_gen. Qed.
Print Assumptions streams_independent.

(* at a gc tick every tracked stream whose last accepted chunk is [timeout] ticks old is
   untracked and its temp dir is removed (wherever the tick falls between chunks) *)
Theorem stalled_stream_collected :
  forall D V gc_tick timeout (st : state D V) k td,
    alookup key_eqb k (s_tracked st) = Some td ->
    (s_tick st + 1) mod gc_tick = 0 ->
    timeout <= s_tick st + 1 - t_tick td ->
    alookup key_eqb k (s_tracked (tick D V gc_tick timeout st)) = None /\
    alookup tkey_eqb (tkey_of (t_first td)) (s_temps (tick D V gc_tick timeout st)) = None.
Proof. exact stalled_stream_collected_gen. Qed.
Print Assumptions stalled_stream_collected.

(* split_covers_exactly, FULL statement, both sender modes, every chunk size cs > 0 / block
   size bs > 0 and every file size in N.

   File mode (splitBySnapshotFile/getChunks). getChunks panics exactly when the main file
   or an external file has size 0 (panic("empty file")). Otherwise the chunk list is the
   main file's segment followed by one segment per external file, in order; within each
   segment ([seg_ok]) the ranges (FileChunkId * cs, ChunkSize) that loadChunkData reads
   partition [0, file size) in order ([covers]: consecutive, non-empty, ending exactly at
   the size - for a size that is a multiple of cs the last chunk is a full cs, for a size
   below cs there is one chunk), FileChunkId = 0..k-1 and FileChunkCount = k =
   ceil(size/cs), every chunk has 1..cs bytes and carries the file's path, size and file
   info; over the whole list ChunkId = 0..n-1 ([mids_from]) and ChunkCount = n.

   Stream mode (rsm.BlockWriter under rsm.ChunkWriter, model [block_ranges]/[stream_chunks]).
   The blocks of a payload of n bytes partition [0, n) in order: none for n = 0, all of size
   bs for n a multiple of bs, otherwise the last has n mod bs bytes; there are ceil(n/bs) of
   them. For any list of chunk payloads the emitted sequence has ChunkId = 0,1,2,.., all
   chunks of one sender/snapshot, only the final (empty, LastChunkCount) chunk is a last
   chunk, and what it writes is one file: the concatenation of the payloads. *)
Theorem split_covers_exactly :
  (forall cs, 0 < cs -> forall msg,
      (get_chunks cs msg = None <-> m_fsize msg = 0 \/ exists f, In f (m_files msg) /\ sf_size f = 0) /\
      (forall l, get_chunks cs msg = Some l ->
         exists seg0 segs,
           l = seg0 ++ concat segs /\
           seg_ok cs (m_path msg) (m_fsize msg) None (map (set_count 0) seg0) /\
           Forall2 (fun seg f => seg_ok cs (sf_path f) (sf_size f) (Some f) (map (set_count 0) seg)) segs (m_files msg) /\
           mids_from 0 l /\ Forall (fun m => c_count m = nlen l) l)) /\
  (forall bs, 0 < bs -> forall n,
      covers 0 (block_ranges bs n) n /\
      nlen (block_ranges bs n) = block_count bs n /\
      Forall (fun r => 1 <= snd r <= bs) (block_ranges bs n) /\
      (n mod bs = 0 -> Forall (fun r => snd r = bs) (block_ranges bs n))) /\
  (forall D dempty dapp dlen msg did (datas : list D),
      ids_from D 0 (stream_chunks D dempty dlen msg did datas) /\
      same_stream D did (stream_meta msg did 0 0 0) (stream_chunks D dempty dlen msg did datas) /\
      last_only D (stream_chunks D dempty dlen msg did datas) /\
      map snd (stream_chunks D dempty dlen msg did datas) = datas ++ [dempty] /\
      (forall d0 r, datas = d0 :: r -> bad_name (path_base (m_path msg)) = false ->
         replay D dapp [] (stream_chunks D dempty dlen msg did datas) =
         Some [(path_base (m_path msg), fold_left dapp (r ++ [dempty]) d0)])).
Proof. exact split_covers_exactly_full. Qed.
Print Assumptions split_covers_exactly.

(* sender_chunks_replay_to_source: "the finalised bytes are exactly the sender's". For any
   data type with the slicing law of byte strings (dsub_app; it holds for byte lists:
   bytes_slicing_law), whatever the file mode sender emits for a message whose files exist
   with at least the announced sizes and have plain base names replays at the receiver
   ([replay], the function in_order_delivery_reassembles / finalize_iff_complete_valid_
   sequence use for the final directory) to exactly [dsub f 0 size] of each source file f
   under its base name - the whole file when the announced size is its length. *)
Theorem sender_chunks_replay_to_source :
  forall D dapp dlen dsub,
    (forall f a n m, a + n + m <= dlen f -> dapp (dsub f a n) (dsub f (a + n) m) = dsub f a (n + m)) ->
    forall cs, 0 < cs ->
    forall src did msg chunks fm (fs : list D),
      send_snapshot D dlen dsub cs did src msg = Some chunks ->
      alookup bytes_eqb (m_path msg) src = Some fm -> m_fsize msg <= dlen fm ->
      bad_name (path_base (m_path msg)) = false ->
      Forall2 (fun sf f => alookup bytes_eqb (sf_path sf) src = Some f /\ 0 < sf_size sf /\ sf_size sf <= dlen f /\
                           bad_name (path_base (sf_path sf)) = false) (m_files msg) fs ->
      replay D dapp [] chunks =
      Some (written D dsub (combine (m_files msg) fs) [(path_base (m_path msg), dsub fm 0 (m_fsize msg))]).
Proof. exact sender_replay_proved. Qed.
Print Assumptions sender_chunks_replay_to_source.

(* the witness snapshot chunk (getWitnessChunk): one chunk that is by itself a complete
   in-order stream of one sender, without file info (so the validator sees it), marked
   witness, and that writes one file named witness_snapshot_filename holding the data - the
   receiver theorems above therefore apply to it as to any other stream *)
Theorem witness_chunk_is_complete_stream :
  forall D (dapp : D -> D -> D) dlen msg did (data : D),
    let c := witness_chunk D dlen msg did data in
    ids_from D 0 [c] /\ same_stream D did (fst c) [c] /\ last_only D [c] /\
    c_hasfi (fst c) = false /\ c_witness (fst c) = true /\
    replay D dapp [] [c] = Some [(witness_snapshot_filename, data)].
Proof. exact witness_chunk_complete. Qed.
Print Assumptions witness_chunk_is_complete_stream.

Theorem bytes_slicing_law :
  (forall (f : bytes) a n m, a + n + m <= nlen f -> bytes_sub f a n ++ bytes_sub f (a + n) m = bytes_sub f a (n + m)) /\
  (forall f : bytes, bytes_sub f 0 (nlen f) = f).
Proof. exact (conj bytes_sub_app bytes_sub_all). Qed.
Print Assumptions bytes_slicing_law.

(* non-vacuity: a 9 byte main file and a 4 byte external file, chunk size 4, on byte lists *)
Example sender_replay_witness :
  let src := [([47; 115], [1; 2; 3; 4; 5; 6; 7; 8; 9]); ([47; 120], [10; 11; 12; 13])] in
  let msg := mkSSMsg 1 2 3 100 5 0 [47; 115] 9 [mkSFile [47; 120] 4 1 []] false in
  option_map (replay bytes (@app N) []) (send_snapshot bytes (@nlen N) bytes_sub 4 7 src msg)
  = Some (Some [([115], [1; 2; 3; 4; 5; 6; 7; 8; 9]); ([120], [10; 11; 12; 13])]) /\
  map (fun n => block_ranges 4 n) [0; 3; 4; 8; 9]
  = [[]; [(0, 3)]; [(0, 4)]; [(0, 4); (4, 4)]; [(0, 4); (4, 4); (8, 1)]].
Proof. vm_compute. split; reflexivity. Qed.

(* SUPERSEDED by split_covers_exactly above (kept). Proved for every file, chunk size cs > 0 and file size
   > 0: the chunk sizes of splitBySnapshotFile add up to the file size, each chunk has
   1..cs bytes (all but the last exactly cs, so chunk i starts at offset i*cs, where
   loadChunkData reads it), file chunk ids are 0..cc-1, chunk ids continue from the start
   id, FileChunkCount/FileSize/Filepath are consistent; and getChunks stamps every chunk
   with the total number of chunks (a size 0 file panics: get_chunks = None).
   Missing: chunk ids consecutive across the files of one message, and the byte-level
   statement (concatenating the loaded slices gives the file) from the slicing laws of D;
   both are checked by the differential run and the SPLIT monitor on every sender case. *)
Theorem split_covers_exactly_partial :
  forall cs, 0 < cs -> forall msg path fsize start sf, 0 < fsize ->
    let l := split_file cs msg path fsize start sf in
    let cc := chunk_count cs fsize in
    nsum (map c_size l) = fsize /\
    map c_fcid l = nseq cc /\
    map c_id l = map (N.add start) (nseq cc) /\
    nlen l = cc /\
    Forall (fun m => 1 <= c_size m <= cs /\ c_fccount m = cc /\ c_fsize m = fsize /\
                     c_path m = path /\ c_size m = (if c_fcid m =? cc - 1 then fsize - (cc - 1) * cs else cs) /\
                     c_hasfi m = (match sf with Some _ => true | None => false end)) l.
Proof. exact split_file_covers. Qed.
Print Assumptions split_covers_exactly_partial.

Theorem split_chunk_count_consistent :
  forall cs, 0 < cs -> forall msg l, get_chunks cs msg = Some l ->
    Forall (fun m => c_count m = nlen l) l /\
    (0 < m_fsize msg /\ Forall (fun f => 0 < sf_size f) (m_files msg)).
Proof. exact get_chunks_count. Qed.
Print Assumptions split_chunk_count_consistent.

Example split_witness :
  option_map (map (fun m => (c_id m, c_fcid m, c_size m, c_count m)))
    (get_chunks 4 (mkSSMsg 1 2 3 100 5 0 [47; 115] 9 [mkSFile [47; 120] 4 1 []] false))
  = Some [(0, 0, 4, 4); (1, 1, 4, 4); (2, 2, 1, 4); (3, 0, 4, 4)].
Proof. vm_compute. reflexivity. Qed.

(* path.Base of any Filepath is ".", ".." or "/" (a directory: create fails, save
   errors) or a plain child name without a separator *)
Theorem filename_confined_base :
  forall p, bad_name (path_base p) = true \/ plain_child (path_base p).
Proof. exact path_base_confined_proved. Qed.
Print Assumptions filename_confined_base.

Example base_examples :
  map path_base [[]; [47]; [97; 47; 46; 46]; [46; 46; 47; 46; 46; 47; 101; 116; 99]; [120; 47]]
  = [[46]; [47]; [46; 46]; [101; 116; 99]; [120]].
Proof. vm_compute. reflexivity. Qed.

(* non-vacuity of in_order_delivery_reassembles: a main file in two chunks and an external
   file in one, delivered in order to the initial state, are finalised as the two files *)
Definition ex_meta (id fcid : N) (path : bytes) (fi : bool) : cmeta :=
  mkCMeta 1 1 5 id 1 3 100 3 path 3 7 fcid 2 fi (mkSFile path 2 9 []) transport_bin_version 0 false.
Definition ex_stream : list (chunk bytes) :=
  [(ex_meta 0 0 [47; 115] false, [1; 2]); (ex_meta 1 1 [47; 115] false, [3]); (ex_meta 2 0 [47; 120] true, [7; 8])].
Example in_order_witness :
  option_map (fun st => (map (fun kf => fd_files (snd kf)) (s_finals st), length (s_out st), s_tracked st, s_temps st))
    (adds bytes (@app N) N 0 toy_vadd (fun _ => true) drop_stream_on_invalid_chunk
          first_chunk_validated_before_discard 7 128 init ex_stream)
  = Some ([[([115], [1; 2; 3]); ([120], [7; 8])]], 1%nat, [], []) /\
  replay bytes (@app N) [] ex_stream = Some [([115], [1; 2; 3]); ([120], [7; 8])] /\
  vfold bytes N toy_vadd 0 ex_stream = Some 2.
Proof. vm_compute. repeat split; reflexivity. Qed.

(* non-vacuity of stalled_stream_collected / streams_independent: after the first chunk of
   ex_stream a stream is tracked; 30 ticks (default gc interval) with timeout 20 collect it *)
Example stalled_witness :
  option_map (fun st => (length (s_tracked st), length (s_temps st)))
    (run bytes (@app N) N 0 toy_vadd (fun _ => true) drop_stream_on_invalid_chunk
         first_chunk_validated_before_discard 7 snapshot_gc_tick 20 128 init
         (OAdd (ex_meta 0 0 [47; 115] false, [1; 2]) :: repeat OTick 29)) = Some (1%nat, 1%nat) /\
  option_map (fun st => (length (s_tracked st), length (s_temps st)))
    (run bytes (@app N) N 0 toy_vadd (fun _ => true) drop_stream_on_invalid_chunk
         first_chunk_validated_before_discard 7 snapshot_gc_tick 20 128 init
         (OAdd (ex_meta 0 0 [47; 115] false, [1; 2]) :: repeat OTick 30)) = Some (0%nat, 0%nat).
Proof. vm_compute. split; reflexivity. Qed.

(* non-vacuity of finalize_iff_complete_valid_sequence (IF part): ex_stream delivered with a
   tick, an out-of-order chunk, a duplicate and a chunk of another snapshot in between
   satisfies [delivers], and the run finalises the two files *)
Definition ex_c (i : nat) : chunk bytes := nth i ex_stream (ex_meta 9 9 [] false, []).
Definition ex_other : chunk bytes :=
  (mkCMeta 1 1 5 0 1 2 101 3 [47; 122] 3 7 0 2 false (mkSFile [] 0 0 []) transport_bin_version 0 false, [9]).
Definition ex_noisy : list (op bytes) :=
  [OTick; OAdd (ex_c 2); OAdd (ex_c 1); OAdd (ex_c 1); OAdd ex_other; OAdd (ex_c 2)].
Example delivers_witness :
  delivers bytes 7 (fst (ex_c 0)) 1 [ex_c 1; ex_c 2] ex_noisy /\
  count_ticks bytes ex_noisy < snapshot_chunk_timeout_tick /\
  option_map (fun st => (map (fun kf => (fst kf, fd_files (snd kf))) (s_finals st), length (s_out st)))
    (run bytes (@app N) N 0 toy_vadd (fun _ => true) drop_stream_on_invalid_chunk
         first_chunk_validated_before_discard 7 snapshot_gc_tick snapshot_chunk_timeout_tick 128 init
         (OAdd (ex_c 0) :: ex_noisy))
  = Some ([((1, 1, 100), [([115], [1; 2; 3]); ([120], [7; 8])])], 1%nat).
Proof.
  split; [|split; [vm_compute; reflexivity|vm_compute; reflexivity]].
  unfold ex_noisy.
  apply dl_noise; [exact I|].
  apply dl_noise; [simpl; right; right; right; split; [discriminate|left; discriminate]|].
  apply dl_chunk. simpl N.add.
  apply dl_noise; [simpl; right; right; right; split; [discriminate|left; discriminate]|].
  apply dl_noise; [simpl; left; discriminate|].
  apply dl_chunk. apply dl_done.
Qed.
