(* C15 — snapshot chunk transfer reassembles exactly or rejects.
   Statements only: each theorem is closed by [exact <lemma>]; proofs live in
   Proofs/Chunks.v. The receiver model is Model/Chunks.v [add]/[tick]/[run];
   D (chunk data), its operations and the validator (V, vinit, vadd, vfinal)
   are universally quantified. The repair flags of the model are the values
   regenerated from chunk.go: drop_stream_on_invalid_chunk,
   first_chunk_validated_before_discard (Gen/GenC15.v). *)
From DB Require Import Base.Bytes Model.Chunks Proofs.Chunks.
Open Scope N_scope.

(* a chunk with a foreign deployment id or binary version is ignored: the state is unchanged *)
Theorem foreign_did_binver_rejected :
  forall D dapp V vinit vadd vfinal my_did max_slots (st : state D V) (c : chunk D),
    c_did (fst c) <> my_did \/ c_binver (fst c) <> transport_bin_version ->
    add D dapp V vinit vadd vfinal drop_stream_on_invalid_chunk first_chunk_validated_before_discard
        my_did max_slots st c = Done st false.
Proof. exact foreign_did_binver_rejected_gen. Qed.
Print Assumptions foreign_did_binver_rejected.

(* an accepted chunk has the right did/binver, its replica is not removed, and it is
   chunk 0 or the next expected chunk of a tracked stream from the sender that started it *)
Theorem only_next_chunk_from_same_sender_accepted :
  forall D dapp V vinit vadd vfinal my_did max_slots (st st' : state D V) (c : chunk D),
    add D dapp V vinit vadd vfinal drop_stream_on_invalid_chunk first_chunk_validated_before_discard
        my_did max_slots st c = Done st' true ->
    good my_did (fst c) /\ is_removed st (node_of (fst c)) = false /\
    (c_id (fst c) = 0 \/ expected D V st (fst c)).
Proof. exact only_next_chunk_accepted_gen. Qed.
Print Assumptions only_next_chunk_from_same_sender_accepted.

(* foreign chunks, chunks that are not the next expected one of their sender (out of
   order, repeated, other sender, untracked), a first chunk the validator refuses and
   a first chunk beyond the slot limit leave the receiver state exactly as it was *)
Theorem rejected_chunk_has_no_effect :
  forall D dapp V vinit vadd vfinal my_did max_slots (st : state D V) (c : chunk D),
    ignorable D V vinit vadd my_did max_slots st c ->
    add D dapp V vinit vadd vfinal drop_stream_on_invalid_chunk first_chunk_validated_before_discard
        my_did max_slots st c = Done st false.
Proof. exact rejected_chunk_has_no_effect_gen. Qed.
Print Assumptions rejected_chunk_has_no_effect.

(* path.Base of any Filepath is ".", ".." or "/" (a directory: create fails, save
   errors) or a plain child name without a separator *)
Theorem filename_confined_base :
  forall p, bad_name (path_base p) = true \/ plain_child (path_base p).
Proof. exact path_base_confined_proved. Qed.
Print Assumptions filename_confined_base.

Example base_examples :
  map path_base [[]; [47]; [97; 47; 46; 46]; [46; 46; 47; 46; 46; 47; 101; 116; 99]; [120; 47]]
  = [[46]; [47]; [46; 46]; [101; 116; 99]; [120]].
Proof. vm_compute. reflexivity. Qed.
