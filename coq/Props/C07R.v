(* C07 — raft side (local) of "membership changes take effect one at a time": statements on the
   faithful L1 model. The global statements (election safety and agreement across every
   sequence of single-server changes, one unapplied change in a leader's log, no campaign with
   unapplied entries) are the stage-3 theorems of Props/L2.v, counted by the C07 check. *)
From DB Require Import Model.RaftCore Proofs.RaftConfigChange.
Open Scope N_scope.

Theorem propose_admits_one_cc :
  forall r ents,
    count_cc (snd (propose_scan r ents [])) <= (if r_pending_cc r then 0 else 1) /\
    r_pending_cc (fst (propose_scan r ents [])) = r_pending_cc r || existsb is_cc ents.
Proof. exact propose_admits_one_cc_proved. Qed.
Print Assumptions propose_admits_one_cc.

Theorem no_campaign_with_unapplied :
  forall r m, is_leader r = false -> r_applied r < l_committed (r_log r) -> handle_node_election r m = r.
Proof. exact no_campaign_with_unapplied_proved. Qed.
Print Assumptions no_campaign_with_unapplied.

Theorem apply_clears_pending :
  forall r m, r_panic (handle_node_config_change r m) = false ->
    m_hinthigh m = cc_AddNonVoting \/ m_hinthigh m = cc_AddWitness \/ m_reject m = true ->
    r_pending_cc (handle_node_config_change r m) = false.
Proof. exact apply_clears_pending_proved. Qed.
Print Assumptions apply_clears_pending.

(* non-vacuity: a leader with a pending change replaces a second one by an empty entry *)
Example second_cc_replaced :
  let r0 := new_raft 1 Follower 10 1 false false (mkLog 0 0 [] 0 0 0 None empty_snapshot) [1] [] [] None 12 in
  let r := r0 <| r_pending_cc := true |> in
  map e_type (snd (propose_scan r [mkEnt 0 0 et_ConfigChangeEntry 9 0 0 0 [1]] [])) = [et_ApplicationEntry].
Proof. vm_compute. reflexivity. Qed.
