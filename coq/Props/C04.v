(* C04 — acknowledged state is durable: persist-before-send and crash recovery.
   Statements only: each theorem is closed by [exact <lemma>]; proofs live in Proofs/Engine.v.
   [process_step] interprets the stage list regenerated from engine.go / node.go
   (Gen/GenC04.v) and the free-order predicate of Gen/GenRaft.v. *)
From DB Require Import Model.Engine Proofs.Engine.
Open Scope N_scope.

(* every occurrence of a Send of a non-free-order message, in every prefix of one
   processSteps call, is preceded by the Persist of the update the message came from *)
Theorem persist_before_send : forall us n l1 k m l2,
  firstn n (process_step us) = l1 ++ Send k m :: l2 ->
  is_free_order_message (m_type m) = false ->
  exists u, In u us /\ ukey u = k /\ In m (u_msgs u) /\ In (Persist u) l1.
Proof. exact persist_before_send_proved. Qed.
Print Assumptions persist_before_send.

(* conversely: a message of an update that leaves before that update is saved is free-order *)
Theorem send_before_persist_is_free : forall us l1 k m l2 u,
  process_step us = l1 ++ Send k m :: l2 -> In u us -> ukey u = k -> In m (u_msgs u) ->
  ~ In (Persist u) l1 -> is_free_order_message (m_type m) = true.
Proof. exact send_before_persist_is_free_proved. Qed.
Print Assumptions send_before_persist_is_free.
