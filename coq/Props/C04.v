(* C04 — acknowledged state is durable: persist-before-send and crash recovery.
   Statements only: each theorem is closed by [exact <lemma>]; proofs live in Proofs/Engine.v.
   [process_step] interprets the stage list regenerated from engine.go / node.go
   (Gen/GenC04.v: process_steps_stages, apply_stage_acts, send_*_selects) and the free-order
   predicate of Gen/GenRaft.v (node.go isFreeOrderMessage): a change of the call order in the
   Go source changes these definitions and the proofs are re-checked against them. *)
From Coq Require Import List NArith Bool.
From DB Require Import Model.Engine Proofs.Engine.
Import ListNotations.
Open Scope N_scope.

(* ---- the order of effects of one engine.processSteps call ---- *)

(* every occurrence of a Send of a non-free-order message, in every prefix of one
   processSteps call, is preceded by the Persist of the update the message came from *)
Theorem persist_before_send : forall us n l1 k m l2,
  firstn n (process_step us) = l1 ++ Send k m :: l2 ->
  is_free_order_message (m_type m) = false ->
  exists u, In u us /\ ukey u = k /\ In m (u_msgs u) /\ In (Persist u) l1.
Proof. exact persist_before_send_proved. Qed.
Print Assumptions persist_before_send.

(* conversely: a message of an update that leaves before that update is saved is free-order *)
Theorem send_before_persist_is_free : forall us l1 k m l2 u,
  process_step us = l1 ++ Send k m :: l2 -> In u us -> ukey u = k -> In m (u_msgs u) ->
  ~ In (Persist u) l1 -> is_free_order_message (m_type m) = true.
Proof. exact send_before_persist_is_free_proved. Qed.
Print Assumptions send_before_persist_is_free.

(* the free-order set regenerated from node.go contains no vote, vote request, replication
   acknowledgement or heartbeat response: exactly Replicate and Ping (thesis 10.2.1) *)
Theorem free_order_excludes_claims : forall m,
  is_free_order_message (m_type m) = true ->
  is_ack m = false /\ is_grant m = false /\ is_vote_request m = false /\
  (m_type m =? mt_HeartbeatResp) = false /\ (m_type m =? mt_RequestVoteResp) = false /\
  (m_type m =? mt_ReplicateResp) = false.
Proof. exact free_order_excludes_claims_proved. Qed.
Print Assumptions free_order_excludes_claims.

Theorem free_order_set : forall t,
  is_free_order_message t = true -> t = mt_Replicate \/ t = mt_Ping.
Proof. exact free_order_set_proved. Qed.
Print Assumptions free_order_set.

(* raft.setFastApply (after validateUpdate did not panic) returns false exactly when the update
   carries a snapshot or the committed range overlaps the range still to be saved *)
Theorem set_fast_apply_false_iff_overlap : forall snap commit committed save,
  contig committed = true -> contig save = true ->
  validate_update commit committed save = true ->
  (set_fast_apply snap committed save = false <->
   snap <> 0 \/ ranges_overlap committed save = true).
Proof. exact set_fast_apply_false_iff_proved. Qed.
Print Assumptions set_fast_apply_false_iff_overlap.

(* entries that are both in CommittedEntries and EntriesToSave of an update are handed to the
   apply queue only after that update is durable (every occurrence, every prefix) *)
Theorem apply_not_before_persist : forall us n l1 k es l2,
  (forall u, In u us -> wf_update u = true) ->
  firstn n (process_step us) = l1 ++ PushApply k es :: l2 ->
  exists u, In u us /\ ukey u = k /\ es = u_committed u /\
    (ranges_overlap es (u_save u) = true -> In (Persist u) l1).
Proof. exact apply_not_before_persist_proved. Qed.
Print Assumptions apply_not_before_persist.

(* Peer.Commit (savedTo / processed advance, messages dropped) follows the persist *)
Theorem commit_back_after_persist : forall us n l1 u l2,
  firstn n (process_step us) = l1 ++ CommitBack u :: l2 -> In (Persist u) l1.
Proof. exact commit_back_after_persist_proved. Qed.
Print Assumptions commit_back_after_persist.

(* ---- crash cuts ---- *)

(* crash after any number n of effects of a step: the durable image of replica k covers every
   message replica k handed to the transport within those n effects. Hypothesis update_covers
   (executable, checked on every recorded update by trace_ok): each update's messages are
   covered by the image once the same update is saved. *)
Theorem crash_cut_safe : forall us (imgs : key -> image) n k m,
  NoDup (map ukey us) ->
  (forall u, In u us -> update_covers (imgs (ukey u)) u = true) ->
  In (Send k m) (firstn n (process_step us)) ->
  covers (crash n (process_step us) k (imgs k)) m = true.
Proof. exact crash_cut_safe_proved. Qed.
Print Assumptions crash_cut_safe.

(* what "covers" means for the restarted replica (restart_term = i_term, restart_vote = i_vote,
   restart_last_index = last_durable): term not lower; the vote of that term is the one that
   was announced (or the term has moved on); acknowledged entries are there *)
Theorem covers_meaning : forall img m,
  covers img m = true -> claims_term m = true ->
  m_term m <= i_term img /\
  (is_vote_request m = true -> vote_ok img (m_term m) (m_from m) = true) /\
  (is_grant m = true -> vote_ok img (m_term m) (m_to m) = true) /\
  (is_ack m = true -> ack_ok img (m_term m) (m_logindex m) = true).
Proof. exact covers_meaning_proved. Qed.
Print Assumptions covers_meaning.

(* ---- the step worker loop ---- *)

(* any effect beyond the effects of batch b is preceded by the persist of every update of b *)
Theorem later_effects_after_persist : forall pre b post u l1 l2,
  In u b ->
  worker_loop (pre ++ b :: post) = l1 ++ l2 ->
  (length (worker_loop (pre ++ [b])) <= length l1)%nat ->
  In (Persist u) l1.
Proof. exact later_effects_after_persist_proved. Qed.
Print Assumptions later_effects_after_persist.

(* the leader counts its own match at append time, before its own write. A response to
   anything sent in batch b or later (e.g. the Replicate carrying the new entry) can only be
   consumed by a stepNode loop that follows that send; every such loop is preceded by the
   persist of every update of b. *)
Theorem leader_self_ack_after_persist : forall pre b post u l1 k m l2 l3,
  In u b ->
  worker_loop (pre ++ b :: post) = l1 ++ Send k m :: l2 ++ StepNodes :: l3 ->
  (length (worker_loop pre) <= length l1)%nat ->
  In (Persist u) (l1 ++ Send k m :: l2).
Proof. exact leader_self_ack_after_persist_proved. Qed.
Print Assumptions leader_self_ack_after_persist.

(* ---- recorded traces: soundness of the extracted checker the harness runs ---- *)

(* if trace_ok accepts the recorded event order of a replica, then at EVERY crash cut n of
   that trace the durable shadow covers every message that had left by then (including the
   images read back after the recorded crashes: TRecover) *)
Theorem trace_ok_crash_safe : forall img evs,
  trace_ok img evs = true ->
  forall n m, In (TSend m) (firstn n evs) ->
  covers (trace_image img (firstn n evs)) m = true.
Proof. exact trace_ok_crash_safe_proved. Qed.
Print Assumptions trace_ok_crash_safe.

(* partial: what is proved of "a proposal reported Completed is still applied after all
   replicas crash and restart" is the local half: in an accepted trace every entry handed to
   the state machine (a completion is reported after that) is already in the durable image of
   the replica that applied it. Missing for the full statement: that a restarted cluster
   re-commits it (leader completeness, C03) and re-applies it (C08); the harness checks the
   full statement on the implementation (event F of the monitor). *)
Theorem completed_survives_full_restart_partial : forall img evs,
  trace_ok img evs = true ->
  forall l1 i l2, evs = l1 ++ TApply i :: l2 -> i <= last_durable (trace_image img l1).
Proof. exact trace_ok_apply_durable_proved. Qed.
Print Assumptions completed_survives_full_restart_partial.

(* ---- what SaveRaftState must fsync (Tan: internal/tan/db.go db.write / stateSyncChange;
        Pebble: WriteOptions of internal/logdb/kv/pebble) ---- *)

(* Tan writes every record but fsyncs selectively. A write that changes anything a message can
   make a claim about (durable term, vote, log entries, snapshot record) is fsynced before
   SaveRaftState returns. The State fields compared are GENERATED from stateSyncChange
   ([tan_sync_fields]): dropping Term or Vote there breaks this theorem. *)
Theorem tan_claim_change_requires_sync : forall d u d' s,
  tan_inv d -> state_wf u = true -> tan_write d u = (d', s) ->
  ~ same_claims (td_written d') (td_written d) -> s = true.
Proof. exact tan_claim_change_requires_sync_proved. Qed.
Print Assumptions tan_claim_change_requires_sync.

(* power loss after any sequence of acknowledged saves on a Tan store (everything not fsynced
   is dropped): the surviving image covers exactly the messages the written image covers *)
Theorem tan_power_loss_keeps_claims : forall img us m,
  forallb state_wf us = true ->
  covers (td_synced (tan_run (tan_open img) us)) m = covers (td_written (tan_run (tan_open img) us)) m.
Proof. exact tan_power_loss_keeps_claims_proved. Qed.
Print Assumptions tan_power_loss_keeps_claims.

(* the same for a BATCH of updates of several replicas saved by one SaveRaftState call on one
   multiplexed log (concurrentSaveState): if any update of the batch changes a claim of its
   replica, the call fsyncs. How the per-update decisions are carried over the loop is
   GENERATED ([tan_mux_sync_accumulates], [tan_mux_sync_after_batch]): "the last update
   decides" breaks this theorem. *)
Theorem tan_batch_claim_change_requires_sync : forall m us m' s,
  minv m -> forallb state_wf us = true -> tan_mux_save m us = (m', s) ->
  (exists k, ~ same_claims (td_written (m' k)) (td_written (m k))) -> s = true.
Proof. exact tan_batch_claim_change_requires_sync_proved. Qed.
Print Assumptions tan_batch_claim_change_requires_sync.

(* power loss after any sequence of acknowledged SaveRaftState batches, multiplexed and
   regular Tan, every replica of the host *)
Theorem tan_batches_power_loss_keeps_claims : forall (imgs : key -> image) batches k msg,
  forallb (forallb state_wf) batches = true ->
  covers (td_synced (tan_mux_run (fun k => tan_open (imgs k)) batches k)) msg =
  covers (td_written (tan_mux_run (fun k => tan_open (imgs k)) batches k)) msg /\
  covers (td_synced (tan_seq_run (fun k => tan_open (imgs k)) batches k)) msg =
  covers (td_written (tan_seq_run (fun k => tan_open (imgs k)) batches k)) msg.
Proof. exact tan_batches_power_loss_keeps_claims_proved. Qed.
Print Assumptions tan_batches_power_loss_keeps_claims.

(* tan's rebuildLog (repair of a torn log tail on restart): at every instant of its GENERATED
   epilogue the replacement file is fsynced before it can take the place of the log, so a
   second power cut keeps every acknowledged record *)
Theorem rebuild_every_cut_safe : forall n,
  rebuild_safe (rebuild_run (firstn n tan_rebuild_log_steps)) = true.
Proof. exact rebuild_every_cut_safe_proved. Qed.
Print Assumptions rebuild_every_cut_safe.

(* restart: node.replayLog hands what the store holds to the LogReader on every path that
   returns without error (the early returns before the hand-over are GENERATED:
   [replay_log_guards] = nothing saved at all, read error); the launched raft peer starts
   from the durable term, vote, commit, entries and snapshot, so it covers every message the
   durable image covers (one vote per term also across restarts: C03) *)
Theorem restart_keeps_durable_state : forall img,
  same_claims (restart_image img) img /\ i_commit (restart_image img) = i_commit img.
Proof. exact restart_keeps_durable_state_proved. Qed.
Print Assumptions restart_keeps_durable_state.

Theorem restart_covers : forall img m, covers (restart_image img) m = covers img m.
Proof. exact restart_covers_proved. Qed.
Print Assumptions restart_covers.

(* Tan deletes a log file only when no replica of the db needs it; what a replica needs is
   GENERATED from nodeIndex.fileInUse: the file with its latest STATE record (term, vote), its
   latest snapshot record, its entries. Whatever a busy neighbour compacts, an idle replica's
   acknowledged vote stays on disk. *)
Theorem tan_needed_file_not_obsolete : forall nodes nf fn,
  In nf nodes ->
  (nf_state nf = fn \/ nf_snapshot nf = fn \/ In fn (nf_entries nf)) ->
  file_obsolete nodes fn = false.
Proof. exact tan_needed_file_not_obsolete_proved. Qed.
Print Assumptions tan_needed_file_not_obsolete.

(* node.doSave (step order GENERATED): log compaction is scheduled only after the snapshot
   was recorded for the replica; an exported snapshot (user's directory, not recorded) records
   nothing and schedules nothing, so acknowledged entries stay until a recorded snapshot
   covers them *)
Theorem do_save_compacts_only_recorded : forall exported l1 l2,
  do_save_run exported do_save_steps = l1 ++ EfCompactionScheduled :: l2 -> In EfRecorded l1.
Proof. exact do_save_compacts_only_recorded_proved. Qed.
Print Assumptions do_save_compacts_only_recorded.

Theorem do_save_exported_no_compaction :
  ~ In EfCompactionScheduled (do_save_run true do_save_steps) /\
  ~ In EfRecorded (do_save_run true do_save_steps).
Proof. exact do_save_exported_no_compaction_proved. Qed.
Print Assumptions do_save_exported_no_compaction.

(* on-disk state machines. rsm.StateMachine.concurrentSave (step order and the returns of
   sync() that precede the user Sync() are GENERATED) records a snapshot only at an index the
   user state machine has been synced up to: a sync() that can return without calling the
   user Sync() breaks this theorem *)
Theorem concurrent_save_synced_covers_snapshot : forall ip isy synced,
  ip <= isy ->
  match concurrent_save rsm_concurrent_save_steps ip isy synced None None with
  | (sy, Some i) => i <= sy
  | (_, None) => True
  end.
Proof. exact concurrent_save_synced_covers_snapshot_proved. Qed.
Print Assumptions concurrent_save_synced_covers_snapshot.

(* soundness of the extracted checker run on recorded runs of the real rsm.StateMachine over
   an on-disk state machine that keeps in-core and synced state apart: if it accepts, then at
   every instant a power cut reopens the state machine at or above every recorded snapshot *)
Theorem odsm_ok_snapshot_covered : forall evs,
  odsm_ok evs = true ->
  forall n, exists stn pn, odsm_run (mkOS 0 0) 0 (firstn n evs) = (stn, pn, 0) /\
                           os_snap stn <= os_synced stn.
Proof. exact odsm_ok_snapshot_covered_proved. Qed.
Print Assumptions odsm_ok_snapshot_covered.

(* faithful to the code: a commit-only State change is NOT fsynced by Tan; the commit index may
   lag after power loss (no message of the property makes a claim about it) *)
Theorem tan_commit_only_change_not_synced :
  exists d u d', tan_inv d /\ state_wf u = true /\ tan_write d u = (d', false) /\
                 i_commit (td_written d') <> i_commit (td_written d).
Proof. exact tan_commit_only_not_synced_proved. Qed.
Print Assumptions tan_commit_only_change_not_synced.

(* Pebble: every write batch of the log store is committed with Sync: true (GENERATED) *)
Theorem pebble_every_write_synced : pebble_write_sync = true.
Proof. exact (eq_refl true). Qed.
Print Assumptions pebble_every_write_synced.

(* ---- non-vacuity ---- *)

Definition ex_vote := mkMsg mt_RequestVoteResp 2 1 5 0 0 0 false [].
Definition ex_repl := mkMsg mt_Replicate 3 1 5 5 7 6 false [mkEnt 8 5].
Definition ex_ack := mkMsg mt_ReplicateResp 2 1 5 0 9 0 false [].
Definition ex_u1 := mkUpd 1 1 (mkHS 5 2 6) [mkEnt 8 5; mkEnt 9 5] [mkEnt 6 4] 0 0 [ex_repl; ex_vote; ex_ack] true.
Definition ex_u2 := mkUpd 2 1 (mkHS 0 0 0) [mkEnt 3 1] [mkEnt 3 1] 0 0 [] false.
Definition ex_img := mkImg 4 0 5 0 0 [mkEnt 6 4; mkEnt 7 4].   (* what replica (1,1) holds before the step *)

(* the step of this tree: free-order Replicate first, both persists, then everything else *)
Example process_step_example :
  process_step [ex_u1; ex_u2] =
  [StepNodes; PushApply (1, 1) [mkEnt 6 4]; Send (1, 1) ex_repl; Persist ex_u1; Persist ex_u2;
   PushApply (2, 1) [mkEnt 3 1];
   LogAppend (1, 1) [mkEnt 8 5; mkEnt 9 5]; Send (1, 1) ex_vote; Send (1, 1) ex_ack; CommitBack ex_u1;
   LogAppend (2, 1) [mkEnt 3 1]; CommitBack ex_u2].
Proof. vm_compute. reflexivity. Qed.

(* the hypotheses of the theorems are met by these updates; a cut before the persist leaves an
   image that does NOT cover the vote (so crash_cut_safe is not vacuous) *)
Example hypotheses_met :
  wf_update ex_u1 = true /\ wf_update ex_u2 = true /\
  update_covers ex_img ex_u1 = true /\ update_covers image0 ex_u2 = true /\
  covers (crash 3 (process_step [ex_u1; ex_u2]) (1, 1) ex_img) ex_vote = false /\
  covers (crash 8 (process_step [ex_u1; ex_u2]) (1, 1) ex_img) ex_vote = true /\
  set_fast_apply 0 [mkEnt 3 1] [mkEnt 3 1] = false /\ set_fast_apply 0 [mkEnt 6 4] [mkEnt 8 5; mkEnt 9 5] = true.
Proof. vm_compute. repeat split; reflexivity. Qed.

(* trace_ok accepts the projection of that step and rejects the same trace with the persist
   moved behind the vote, an acknowledgement beyond the durable log, an early apply, a
   recovery that lost the vote *)
Example trace_ok_examples :
  trace_ok ex_img (project_all (1, 1) (process_step [ex_u1; ex_u2])) = true /\
  trace_ok image0 [TSend ex_vote; TPersist ex_u1] = false /\
  trace_ok image0 [TPersist ex_u1; TSend (mkMsg mt_ReplicateResp 2 1 5 0 10 0 false [])] = false /\
  trace_ok image0 [TPersist ex_u1; TApply 10] = false /\
  trace_ok image0 [TPersist ex_u1; TSend ex_vote; TRecover (mkImg 5 3 6 0 0 [mkEnt 8 5; mkEnt 9 5])] = false /\
  trace_ok image0 [TPersist ex_u1; TSend ex_vote; TRecover (mkImg 5 2 6 0 0 [mkEnt 8 5; mkEnt 9 5])] = true.
Proof. vm_compute. repeat split; reflexivity. Qed.

(* the vote-only change in a term that is already on disk is a claim change, so it must sync *)
Example tan_vote_only_change_syncs :
  snd (tan_write (tan_open (mkImg 5 0 3 0 0 [])) (mkUpd 1 1 (mkHS 5 2 3) [] [] 0 0 [ex_vote] true)) = true /\
  snd (tan_write (tan_open (mkImg 5 2 3 0 0 [])) (mkUpd 1 1 (mkHS 5 2 4) [] [] 0 0 [] true)) = false /\
  snd (tan_write (tan_open (mkImg 5 2 3 0 0 [])) (mkUpd 1 1 (mkHS 6 0 3) [] [] 0 0 [] true)) = true.
Proof. vm_compute. repeat split; reflexivity. Qed.

(* a batch whose FIRST update carries the vote and whose last is commit-only must fsync; a
   rebuild epilogue without the file sync is unsafe at the cut after the rename *)
Example tan_batch_examples :
  snd (tan_mux_save (fun k => tan_open (mkImg 4 0 1 0 0 [mkEnt 1 4]))
         [mkUpd 1 1 (mkHS 4 2 1) [] [] 0 0 [] true; mkUpd 17 1 (mkHS 4 0 2) [] [] 0 0 [] true]) = true /\
  snd (tan_mux_save (fun k => tan_open (mkImg 4 0 1 0 0 [mkEnt 1 4]))
         [mkUpd 1 1 (mkHS 4 0 2) [] [] 0 0 [] true; mkUpd 17 1 (mkHS 4 0 2) [] [] 0 0 [] true]) = false /\
  rebuild_safe (rebuild_run [RsCloseFile; RsRename]) = false.
Proof. vm_compute. repeat split; reflexivity. Qed.

(* a store that holds only a State record (a vote granted with an empty log) restarts with it *)
Example restart_state_only : restart_image (mkImg 5 2 0 0 0 []) = mkImg 5 2 0 0 0 [].
Proof. vm_compute. reflexivity. Qed.

Example do_save_examples :
  do_save_run false do_save_steps = [EfSaved; EfCommitted; EfRecorded; EfCompactionScheduled] /\
  do_save_run true do_save_steps = [EfSaved; EfCommitted] /\
  file_obsolete [mkNF 0 4 [1; 2]; mkNF 7 9 [8; 9]] 4 = false /\
  file_obsolete [mkNF 0 4 [1; 2]; mkNF 7 9 [8; 9]] 5 = true.
Proof. vm_compute. repeat split; reflexivity. Qed.

Example odsm_examples :
  odsm_ok [OApply 1; OApply 2; OSync 2; OApply 3; OSync 3; OSnap 3; OCut 3] = true /\
  odsm_ok [OApply 1; OApply 2; OSync 2; OApply 3; OSnap 3] = false /\
  odsm_ok [OSync 2; OSnap 2; OCut 1] = false.
Proof. vm_compute. repeat split; reflexivity. Qed.
