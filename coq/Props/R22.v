(* R22 - progress through the NodeHost glue (sub-check of C17). Statements only; proofs in
   Proofs/NodeGlue.v. Model/NodeGlue.v puts the event loop of node.go around the quiesce state
   machine and the in-memory rate limiter of Model/RateQuiesce.v; every guard of node.go /
   quiesce.go / queue.go / request.go it relies on is a regenerated fact (Gen/GenR22.v), so a
   source change that drops a guard breaks the theorem that needs it.

   node level:  which requests and messages wake a quiesced replica; where a rate limited
                proposal is refused and when the queue accepts again.
   shard level: the outcome class of a request (connected quorum: Completed; none: Dropped /
                Timeout; messages being lost: some terminal result) and who is awake afterwards. *)
From Coq Require Import NArith List Bool.
From DB Require Import Model.RateQuiesce Model.NodeGlue Proofs.RateQuiesce Proofs.NodeGlue Gen.GenR22.
Import ListNotations.
Open Scope N_scope.

(* the guards of the source the theorems below rest on: handleReadIndex, handleConfigChange and
   handleProposals record their request with the quiesce state, recordMessage runs before
   raft sees a message and treats a heartbeat with a ReadIndex hint as a read, node.tick hands
   a quiesced replica QuiescedTick and still expires pending requests, handleProposals pauses
   the proposal queue while rate limited, a paused queue refuses, a refusal is ErrSystemBusy *)
Theorem glue_guards_present : glue_facts = true.
Proof. exact glue_facts_hold. Qed.
Print Assumptions glue_guards_present.

(* ---- node level: leaving quiesce ---- *)
Theorem read_request_wakes_node : forall n, n_quiesced (node_do n EvRead) = false.
Proof. exact read_request_wakes_node_proved. Qed.
Print Assumptions read_request_wakes_node.

Theorem config_change_wakes_node : forall n, n_quiesced (node_do n EvConfigChange) = false.
Proof. exact config_change_wakes_node_proved. Qed.
Print Assumptions config_change_wakes_node.

(* proposals taken from the queue wake the replica (repaired: /repo fac9bd1) *)
Theorem taken_proposals_wake_node : forall n, n_queue n <> [] -> n_quiesced (node_do n EvProposals) = false.
Proof. exact taken_proposals_wake_node_proved. Qed.
Print Assumptions taken_proposals_wake_node.

Theorem non_heartbeat_message_wakes_node : forall n t hint,
  handled_by_node t = false -> is_heartbeat_type t = false -> n_quiesced (node_do n (EvMsg t hint)) = false.
Proof. exact non_heartbeat_message_wakes_node_proved. Qed.
Print Assumptions non_heartbeat_message_wakes_node.

Theorem hinted_heartbeat_wakes_node : forall n t hint,
  is_heartbeat_type t = true -> 0 < hint -> n_quiesced (node_do n (EvMsg t hint)) = false.
Proof. exact hinted_heartbeat_wakes_node_proved. Qed.
Print Assumptions hinted_heartbeat_wakes_node.

(* bounded: a quiesced replica that only gets the periodic heartbeat of an awake leader is awake
   after one grace period (an election time-out of ticks) *)
Theorem heartbeat_after_grace_ticks_wakes : forall n k,
  n_quiesced n = true -> q_wf (n_q n) -> q_election (n_q n) <= N.of_nat k ->
  n_quiesced (node_do (node_run n (repeat EvTick k)) (EvMsg mt_heartbeat 0)) = false.
Proof. exact heartbeat_after_grace_ticks_wakes_proved. Qed.
Print Assumptions heartbeat_after_grace_ticks_wakes.

Theorem snapshot_request_keeps_quiesce : forall n, n_q (node_do n EvSnapshotReq) = n_q n.
Proof. exact snapshot_request_keeps_quiesce_proved. Qed.
Print Assumptions snapshot_request_keeps_quiesce.

(* ---- node level: rate limit ---- *)
Theorem refused_iff_paused : forall n sz, snd (node_step n (EvApiPropose sz)) = Some (negb (n_paused n)).
Proof. exact refused_iff_paused_proved. Qed.
Print Assumptions refused_iff_paused.

(* a refused proposal leaves no trace: it is in no queue and never reaches the log *)
Theorem refused_leaves_no_trace : forall n sz,
  snd (node_step n (EvApiPropose sz)) = Some false -> node_do n (EvApiPropose sz) = n.
Proof. exact refused_leaves_no_trace_proved. Qed.
Print Assumptions refused_leaves_no_trace.

Theorem over_limit_refuses : forall n sz,
  rl_enabled (n_rl n) = true -> rl_limited (n_rl n) = false ->
  (rl_tick_limited (n_rl n) = 0 \/ change_tick_threshold < rl_tick (n_rl n) - rl_tick_limited (n_rl n)) ->
  rl_max (n_rl n) < rl_size (n_rl n) ->
  n_paused (node_do n EvProposals) = true /\ snd (node_step (node_do n EvProposals) (EvApiPropose sz)) = Some false.
Proof. exact over_limit_refuses_proved. Qed.
Print Assumptions over_limit_refuses.

Theorem node_invariant : forall q e m, node_inv (node_new q e m) /\ forall n ev, node_inv n -> node_inv (node_do n ev).
Proof. intros q e m. split; [apply node_new_inv|exact node_step_inv]. Qed.
Print Assumptions node_invariant.

(* whatever happened before (node_inv holds in every reachable state): once the in-memory log
   has drained and the limiter clock ran for a while, the poll of handleProposals says "not
   limited", the queue is not paused, the next proposal is accepted *)
Theorem drained_node_accepts : forall n sz,
  node_inv n -> sane_max (rl_max (n_rl n)) -> n_queue n = [] ->
  drained (node_run n drain_events) /\ snd (node_step (node_run n drain_events) (EvApiPropose sz)) = Some true.
Proof. intros n sz Hi Hs Hq. split; [apply drained_node_accepts_proved; assumption|apply drained_accepts, drained_node_accepts_proved; assumption]. Qed.
Print Assumptions drained_node_accepts.

(* ... and it stays so for as long as the node is idle *)
Theorem drained_stays_while_idle : forall es m,
  sane_max (rl_max (n_rl m)) -> drained m -> forallb idle_event es = true -> drained (node_run m es).
Proof. exact drained_stays_while_idle_proved. Qed.
Print Assumptions drained_stays_while_idle.

(* ---- shard level: the request-outcome rule ---- *)
Theorem request_outcome_rule : forall s h k,
  (sh_loss s = true -> request_class s h k = OT) /\
  (sh_loss s = false -> quorum_at s h = false -> request_class s h k = OF) /\
  (sh_loss s = false -> quorum_at s h = true -> progress_possible s h k = true -> request_class s h k = OC) /\
  (request_class s h k = OC -> sh_loss s = false /\ quorum_at s h = true).
Proof.
  intros s h k. split; [apply class_lossy|]. split; [apply class_no_quorum|]. split; [apply class_quorum|apply class_completed_needs_quorum].
Qed.
Print Assumptions request_outcome_rule.

(* a request on a voter's host connected to a quorum completes in EVERY state - also when all
   replicas sleep and the leader is gone: the request wakes its replica, which campaigns *)
Theorem voter_request_completes : forall s h k,
  sh_loss s = false -> quorum_at s h = true -> origin_is_voter s h = true -> request_class s h k = OC.
Proof. exact voter_request_completes_proved. Qed.
Print Assumptions voter_request_completes.

(* Quiesce off: in every state that any script of faults, membership changes, bursts ... reaches,
   every request on a host connected to a quorum completes *)
Theorem awake_shard_progresses : forall ops e m n h k,
  let s := shard_state (shard_init false e m n) ops in
  sh_loss s = false -> quorum_at s h = true -> request_class s h k = OC.
Proof. exact awake_shard_progresses_proved. Qed.
Print Assumptions awake_shard_progresses.

(* from every state: after a completed request every replica on its path is awake *)
Theorem completed_request_wakes : forall s h k r,
  in_component s h r = true -> unconditional_path s h k r = true ->
  n_quiesced (rp_node (complete_rep s h k (next_log s k) r)) = false.
Proof. exact completed_request_wakes_proved. Qed.
Print Assumptions completed_request_wakes.

Theorem read_wakes_nonvoting_after_grace : forall s h r,
  in_component s h r = true -> unconditional_path s h KR r = false ->
  n_quiesced (rp_node r) = true -> q_wf (n_q (rp_node r)) ->
  q_election (n_q (rp_node r)) <= N.of_nat (grace_ticks s) ->
  n_quiesced (rp_node (complete_rep s h KR (next_log s KR) r)) = false.
Proof. exact read_wakes_nonvoting_after_grace_proved. Qed.
Print Assumptions read_wakes_nonvoting_after_grace.

(* after the probe of the fault-free period completed every running member has applied everything *)
Theorem fair_period_converges : forall s, snd (fair s) = OC -> same_state (fst (fair s)) = true.
Proof. exact fair_period_converges_proved. Qed.
Print Assumptions fair_period_converges.

(* REFUTED by the faithful model (and by the code: findings/known.txt
   QUIESCED-RESTARTED-NONVOTING-BEHIND, witness corpus/R22/restarted_nonvoting_in_quiesced_shard.txt):
   "after an idle period every running reachable member has caught up". A non-voting replica
   that is restarted while every other replica sleeps hears nothing, knows no leader and never
   campaigns; it stays behind until the next request wakes the shard (then it catches up). *)
Theorem restarted_nonvoting_in_quiesced_shard_stays_behind_refuted :
  exists ops, let r := shard_run (shard_init true 30 0 3) ops in
    last (snd r) LPlain = LLag true /\ same_state (fst r) = false /\
    same_state (fst (fair (fst r))) = true.
Proof.
  exists [SAdd 1 4 k_nonvoting; SXfer 1; SStop 4; SP 2 3; SQuiesce; SStart 4; SLag 4].
  vm_compute. repeat split; reflexivity.
Qed.
Print Assumptions restarted_nonvoting_in_quiesced_shard_stays_behind_refuted.

(* ---- non-vacuity ---- *)
(* three voters, quiesce on; leader pinned to 2, everything goes quiet, host 2 stops: the shard is
   quiesced, host 1 is connected to a quorum, a proposal on host 1 completes, everyone is awake *)
Example quiesced_shard_leader_gone :
  let s := shard_state (shard_init true 30 0 3) [SXfer 2; SQuiesce; SStop 2] in
  all_quiesced s = true /\ quorum_at s 1 = true /\ leader_live s 1 = false /\ some_awake_voter s 1 = false /\
  request_class s 1 KP = OC /\ all_awake (fst (apply_request s 1 KP)) = true.
Proof. vm_compute. repeat split; reflexivity. Qed.

(* without quorum: Dropped / Timeout *)
Example no_quorum_example :
  let s := shard_state (shard_init false 10 0 3) [SStop 2; SStop 3] in
  request_class s 1 KP = OF /\ request_class s 1 KR = OF /\ request_class s 1 KCC = OF.
Proof. vm_compute. repeat split; reflexivity. Qed.

(* the limiter engages on the host whose state machine is stopped, and through the RateLimit
   report of a stopped follower on the leader; after the drain nobody is limited *)
Example burst_example :
  snd (shard_run (shard_init false 10 16000 3) [SXfer 1; SGate 1 true; SBurst 1 4000 700; SGate 1 false; SDrain]) =
    [LXfer true; LPlain; LBurst true true; LPlain; LDrain false] /\
  snd (shard_run (shard_init false 10 16000 3) [SXfer 1; SGate 2 true; SBurst 1 4000 700; SGate 2 false; SDrain]) =
    [LXfer true; LPlain; LBurst true true; LPlain; LDrain false].
Proof. vm_compute. split; reflexivity. Qed.

Example drained_example :
  let n := fst (burst_node 100 (node_new false 10 16000) 700 false) in
  n_paused n = true /\ node_inv n /\ n_paused (node_run n drain_events) = false.
Proof. split; [vm_compute; reflexivity|]. split; [|vm_compute; reflexivity]. split; [vm_compute; discriminate|vm_compute; constructor]. Qed.
