(* C16 — snapshot directories are crash-atomic; restart cleans up and recovers.
   Statements only: each theorem is closed by [exact <lemma>]; proofs live in Proofs/.

   Reading guide.  [do_cmds ord init cs] runs any sequence [cs] of the calls a
   replica makes (Save, Commit, a received snapshot stream, the engine's
   persist-and-remove-flag step, Shrink, Compact, restart, crash+restart) on the
   model of the file system and returns the final state and the list of
   file-system / log-store operations that were executed.  A crash point is a
   prefix [firstn k] of that list: [run init (firstn k trace)] is the state when
   the power is lost, [run _ [OCrash]] discards what was not synced.
   [ord] is the (arbitrary) order in which a directory listing returns names. *)
From Coq Require Import List NArith Bool Permutation.
From DB Require Import Model.FS Model.SnapshotDir Proofs.SnapshotDir.
Import ListNotations.
Open Scope N_scope.

(* invariant over every prefix of every program: whenever the log store records
   snapshot i, directory i exists durably (and in the running view) and holds a
   durable, complete snapshot file *)
Theorem recorded_implies_complete : forall ord cs k,
  ord_ok ord ->
  let s := run init (firstn k (snd (do_cmds ord init cs))) in
  st_rec s <> 0 -> durable_complete s (st_rec s).
Proof. exact recorded_implies_complete_vs. Qed.
Print Assumptions recorded_implies_complete.

(* for all programs and all cut points: after the crash the start-up cleanup
   succeeds (no error, no panic), and what remains is clean: only the recorded
   snapshot's directory (complete file, no flag file), no .generating /
   .receiving directory; the record itself is unchanged *)
Theorem cleanup_yields_only_complete : forall ord cs k,
  ord_ok ord ->
  let s := run init (firstn k (snd (do_cmds ord init cs))) in
  exists u tr, process_orphans ord (run s [OCrash]) = (u, tr, true) /\ cleanb u = true /\ st_rec u = st_rec s.
Proof. exact cleanup_yields_only_complete_vs. Qed.
Print Assumptions cleanup_yields_only_complete.

(* the same two facts for ANY sequence of operations that respects the guards
   [allowed] (no write into a final directory except the shrunk file, rename to a
   final name only of a durable complete temporary directory, record only a
   durable final directory, never remove the recorded directory); the programs
   above are one instance (next theorem) *)
Theorem guarded_runs_keep_recorded_complete : forall ops k,
  allowed_run valid_snap init ops ->
  let s := run init (firstn k ops) in st_rec s <> 0 -> durable_complete s (st_rec s).
Proof. exact guarded_recorded_implies_complete_vs. Qed.
Print Assumptions guarded_runs_keep_recorded_complete.

Theorem programs_respect_guards : forall ord cs,
  ord_ok ord -> allowed_run valid_snap init (snd (do_cmds ord init cs)).
Proof. exact trace_allowed_vs. Qed.
Print Assumptions programs_respect_guards.

(* every allowed operation (crash included) preserves the invariant *)
Theorem allowed_step_preserves_invariant : forall s o t,
  Inv valid_snap s -> allowed valid_snap s o -> step s o = Some t -> Inv valid_snap t.
Proof. exact step_inv_vs. Qed.
Print Assumptions allowed_step_preserves_invariant.

(* the flag file is removed only after the record is durable: in Commit and in
   the engine the record precedes the removal (statement order regenerated from
   snapshotter.go / engine.go), and processOrphans removes a flag file only of
   the recorded snapshot *)
Theorem flag_removed_only_after_record_durable :
  (forall i, commit_tail i = [ORecord i; OFs (FRemove (DFinal i) FFlag)]) /\
  (forall i, apply_ops i = [ORecord i; OFs (FRemove (DFinal i) FFlag)]) /\
  (forall n s ops j, po_one n s = Some ops -> In (OFs (FRemove (DFinal j) FFlag)) ops -> st_rec s = j /\ j <> 0).
Proof. exact flag_removed_only_after_record_proved. Qed.
Print Assumptions flag_removed_only_after_record_durable.

(* local save versus incoming snapshot of the same index (FinalizeSnapshot under
   finalizeLock): whoever finds the final directory present gets OutOfDate,
   removes its own temporary directory, renames nothing and records nothing;
   whoever finds it absent renames and syncs the root *)
Theorem local_save_vs_incoming_same_index : forall tmp i tail s,
  has_dir tmp (st_fs s) = true -> has_dir (DFinal i) (st_fs s) = true ->
  exists t, finalize tmp i tail s = (t, flagfile_ops tmp FFlag i ++ rmdir_ops tmp, OutOfDate) /\
            has_dir tmp (st_fs t) = false /\ st_rec t = st_rec s.
Proof. exact finalize_loser. Qed.
Print Assumptions local_save_vs_incoming_same_index.

Theorem finalize_first_wins : forall tmp i tail s t tr oc,
  has_dir tmp (st_fs s) = true -> has_dir (DFinal i) (st_fs s) = false ->
  finalize tmp i tail s = (t, tr, oc) ->
  exists rest, tr = flagfile_ops tmp FFlag i ++ OFs (FRenameDir tmp (DFinal i)) :: OFs FSyncRoot :: rest /\
               oc <> OutOfDate.
Proof. exact finalize_winner. Qed.
Print Assumptions finalize_first_wins.

(* on-disk state machines, node.recover after snapshot i was recorded (live
   install: load = true; replica start: load as decided by init_recover): at
   EVERY crash cut of RecoverFromSnapshot ; Sync ; Shrink (source order
   regenerated from node.go) the replica is restartable: the recorded snapshot
   file is valid and either still the full image or the state machine is
   durable up to i (otherwise the restart panics in
   checkPartialSnapshotApplyOnDiskSM and entries up to i are lost).
   Hypotheses: a reachable state (J), snapshot i recorded, its file the full
   image (or the state machine already durable at i). *)
Theorem ondisk_recover_restartable : forall s i load k,
  J valid_snap (ds_st s) -> st_rec (ds_st s) = i -> i <> 0 ->
  (FullAt i (ds_st s) \/ i <= ds_smd s) ->
  (load = false -> i <= ds_smv s) ->
  let '(_, tr, _) := recover_prog s i load in
  restart_okb (dstep (drun s (firstn k tr)) (DBase OCrash)) = true.
Proof. exact ondisk_recover_restartable_vs. Qed.
Print Assumptions ondisk_recover_restartable.

(* a received image with an external file (transport.Chunk.save; which chunks
   fsync the file is regenerated from chunk.go): when the last chunk has been
   saved -- before FinalizeSnapshot renames the directory and the image is handed
   to raft -- EVERY file of the image is durably bound to its name and its
   durable content is the full file *)
Theorem received_files_durable : forall i n m fl,
  let fl' := apply_local (recvx_fs i n m) fl in
  durable_full (FSnap i) fl' /\ durable_full (FOther 1) fl'.
Proof. exact received_files_durable_vs. Qed.
Print Assumptions received_files_durable.

(* an on-disk replica's own snapshot at applied index ap (node.doSave ->
   StateMachine.Save: Sync ; write ; Commit ; release of the previous snapshot;
   that Save syncs first is regenerated from internal/rsm/statemachine.go): at
   every crash cut the replica is restartable, i.e. the recorded snapshot's
   OnDiskIndex never exceeds what the state machine has durably *)
Theorem ondisk_save_restartable : forall s lr ap k,
  J valid_snap (ds_st s) ->
  (st_rec (ds_st s) = 0 \/ FullAt (st_rec (ds_st s)) (ds_st s) \/ st_rec (ds_st s) <= ds_smd s) ->
  let '(_, tr, _) := cmd_save_ondisk s lr ap in
  restart_okb (dstep (drun s (firstn k tr)) (DBase OCrash)) = true.
Proof. exact ondisk_save_restartable_vs. Qed.
Print Assumptions ondisk_save_restartable.

(* the name codec: for EVERY uint64 snapshot index and EVERY uint64 replica /
   sender id, the names written by getDirName / getTempDirName ("%016X", id in
   decimal: up to 20 digits) fall within the repetition bounds of the expressions
   processOrphans classifies directories with (bounds, width and verb regenerated
   from internal/server/snapshotenv.go).  process_orphans' unconditional
   treatment of DGen / DRecv / DFinal names rests on this. *)
Theorem temp_names_recognised : forall idx id,
  idx < 2 ^ 64 -> id < 2 ^ 64 ->
  final_name_recognised idx = true /\ gen_name_recognised idx id = true /\ recv_name_recognised idx id = true.
Proof. exact temp_names_recognised_proved. Qed.
Print Assumptions temp_names_recognised.

(* reachable states satisfy J *)
Theorem reachable_states_J : forall ord cs s t tr,
  ord_ok ord -> J valid_snap s -> do_cmds ord s cs = (t, tr) ->
  allowed_run valid_snap s tr /\ t = run s tr /\ J valid_snap t.
Proof. exact cmds_ok_vs. Qed.
Print Assumptions reachable_states_J.

(* a replica with a regular (in-memory) state machine comes back no older than
   the recorded snapshot, which is also everything it acknowledged on the
   snapshot path (a received snapshot is acknowledged to raft only after the
   record; entries beyond it are the log's business, C04/C08): for every command
   sequence without Shrink (node.recover shrinks only for on-disk state machines),
   every crash cut and every listing order, the start-up cleanup succeeds, keeps
   the record, and the initial recovery (replayLog ; snapshotter.Load of the
   recorded file as the process then sees it) succeeds with the state machine
   at the recorded index: the file it reads is complete AND carries the image *)
Theorem restart_state_ge_recorded_and_acked : forall ord cs k sv sd,
  ord_ok ord -> ~ Exists is_shrink cs ->
  let s := run init (firstn k (snd (do_cmds ord init cs))) in
  exists u tr, process_orphans ord (run s [OCrash]) = (u, tr, true) /\ st_rec u = st_rec s /\
    exists t ops, init_recover_reg (mkDS u sv sd) = (t, ops, Done) /\
                  ds_st t = u /\ (st_rec s <> 0 -> ds_smv t = st_rec s).
Proof. exact restart_state_ge_recorded_proved. Qed.
Print Assumptions restart_state_ge_recorded_and_acked.

(* the stronger invariant behind it: without Shrink, every reachable state keeps
   every (volatile or durable) snapshot file of a final directory a full image *)
Theorem reachable_states_keep_full_images : forall ord cs s t tr,
  ord_ok ord -> ~ Exists is_shrink cs -> J full_snap s -> do_cmds ord s cs = (t, tr) ->
  allowed_run full_snap s tr /\ t = run s tr /\ J full_snap t.
Proof. exact cmds_ok_fs. Qed.
Print Assumptions reachable_states_keep_full_images.

(* not proved here: import_rerunnable (tools.ImportSnapshot; C20). Formerly also: restart_state_ge_recorded_and_acked (needs C04/C08: the state
   machine recovered from the recorded snapshot plus the log), import_rerunnable
   (tools.ImportSnapshot is not modelled; DESIGN section 7, O7). *)

(* ---- non-vacuity ---- *)
Definition ord_id (l : list dname) : list dname := l.
Lemma ord_id_ok : ord_ok ord_id.
Proof. intros l. apply Permutation_refl. Qed.

(* a save in progress, a snapshot of the same index arriving, commit losing, a
   later snapshot recorded, the old one compacted: 72 operations; crash after 60 *)
Definition demo : list cmd :=
  [CSave 5 2; CRecv 5 3; CCommit 5; CApply 5; CShrink 5; CSave 9 1; CCommit 9; CCompact 5].

Example demo_trace_length : length (snd (do_cmds ord_id init demo)) = 72%nat.
Proof. vm_compute. reflexivity. Qed.

Example demo_cut_nontrivial :
  let s := run init (firstn 60 (snd (do_cmds ord_id init demo))) in
  st_rec s = 5 /\ vnames (st_fs (run s [OCrash])) = [DGen 9; DFinal 5] /\
  (let '(u, tr, ok) := process_orphans ord_id (run s [OCrash]) in
   (ok, cleanb u, vnames (st_fs u), length tr)) = (true, true, [DFinal 5], 2%nat).
Proof. vm_compute. auto. Qed.

(* the loser's hypothesis is reachable *)
Example demo_loser :
  let s := fst (do_cmds ord_id init [CSave 5 2; CRecv 5 3]) in
  has_dir (DGen 5) (st_fs s) = true /\ has_dir (DFinal 5) (st_fs s) = true.
Proof. vm_compute. auto. Qed.

(* on-disk install of a received snapshot: 11 operations, restartable at every cut;
   with Shrink before Sync (the order the theorem excludes) a cut is not *)
Definition disk_demo : dstate :=
  mkDS (fst (do_cmds ord_id init [CRecv 5 3; CApply 5])) 0 0.

Example disk_demo_all_cuts :
  let '(_, tr, _) := recover_prog disk_demo 5 true in
  (length tr, forallb (fun k => restart_okb (dstep (drun disk_demo (firstn k tr)) (DBase OCrash))) (List.seq 0%nat 12%nat))
  = (11%nat, true).
Proof. vm_compute. reflexivity. Qed.

Example disk_demo_shrink_first_not_restartable :
  let '(_, shr, _) := do_cmd ord_id (ds_st disk_demo) (CShrink 5) in
  let tr := DSmRecover 5 :: map DBase shr ++ [DSmSync] in
  restart_okb (dstep (drun disk_demo (firstn 10 tr)) (DBase OCrash)) = false.
Proof. vm_compute. reflexivity. Qed.

(* an on-disk replica applies entries up to 7 and snapshots itself: 24 operations,
   restartable at every cut; without the Sync the recorded snapshot is ahead of
   the state machine after the record *)
Definition save_demo : dstate := cmd_entries (mkDS init 0 0) 7.

Example save_demo_all_cuts :
  let '(_, tr, oc) := cmd_save_ondisk save_demo 0 7 in
  (length tr, oc, forallb (fun k => restart_okb (dstep (drun save_demo (firstn k tr)) (DBase OCrash))) (List.seq 0%nat 26%nat))
  = (24%nat, Done, true).
Proof. vm_compute. reflexivity. Qed.

Example save_demo_without_sync_not_restartable :
  let '(_, tr, _) := cmd_save_ondisk save_demo 0 7 in
  restart_okb (dstep (drun save_demo (tl tr)) (DBase OCrash)) = false.
Proof. vm_compute. reflexivity. Qed.

(* a two-file image, main file in 2 chunks: if only the last file were fsynced the
   snapshot file handed over would be empty after a crash *)
Example recvx_demo :
  let s := fst (do_cmds ord_id init [CRecvX 5 2 1; CApply 5]) in
  (st_rec s, vnames (st_fs (run s [OCrash])),
   forallb (fun o => files_goodb 5 (d_files o) && ext_fullb (d_files o)) (st_fs (run s [OCrash])))
  = (5, [DFinal 5], true).
Proof. vm_compute. reflexivity. Qed.

(* the largest id has 20 decimal digits; a bound of 16 on the id part would reject it *)
Example name_len_witness :
  (printed_len 10 0 (2 ^ 64 - 1), printed_len 10 0 (10 ^ 16), printed_len 16 16 (2 ^ 64 - 1),
   part_ok 1 16 10 0 (10 ^ 16)) = (20, 17, 16, false).
Proof. vm_compute. reflexivity. Qed.

(* a regular replica: crash in the middle of a compaction after two snapshots *)
Example reg_restart_demo :
  let s := run init (firstn 50 (snd (do_cmds ord_id init [CSave 5 2; CCommit 5; CRecv 9 3; CApply 9; CCompact 5]))) in
  let '(u, _, ok) := process_orphans ord_id (run s [OCrash]) in
  let '(t, ops, oc) := init_recover_reg (mkDS u 0 0) in
  (st_rec s, ok, oc, ds_smv t, ops) = (9, true, Done, 9, [DSmRecover 9]).
Proof. vm_compute. reflexivity. Qed.
