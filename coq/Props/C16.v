(* C16 — snapshot directories are crash-atomic; restart cleans up and recovers.
   Statements only: each theorem is closed by [exact <lemma>]; proofs live in Proofs/. *)
From Coq Require Import List NArith Bool.
From DB Require Import Model.FS Model.SnapshotDir Proofs.SnapshotDir.
Import ListNotations.
Open Scope N_scope.

(* snapshotter.Commit records the snapshot before it removes the flag file, and
   the engine persists a received snapshot's record (SaveRaftState) before
   onSnapshotSaved removes its flag file: the statement orders are regenerated
   from snapshotter.go / engine.go on every run *)
Theorem commit_records_before_flag_removal : forall i,
  commit_tail i = [ORecord i; OFs (FRemove (DFinal i) FFlag)].
Proof. exact commit_tail_order. Qed.
Print Assumptions commit_records_before_flag_removal.

Theorem engine_records_before_flag_removal : forall i,
  apply_ops i = [ORecord i; OFs (FRemove (DFinal i) FFlag)].
Proof. exact apply_ops_order. Qed.
Print Assumptions engine_records_before_flag_removal.
