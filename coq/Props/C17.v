(* C17 — progress. Bounded-progress lemmas on the faithful L1 model; unconditional liveness is
   not a theorem (adversarial random time-outs) and is not claimed: the end-to-end
   "eventually" is covered by the deterministic simulation monitor of the check. *)
From DB Require Import Model.RaftCore Proofs.RaftProgress.
Open Scope N_scope.

(* a campaign (what the election timer triggers on a voter) moves to the next term, votes for
   itself and leaves the replica candidate (or leader when it is the only voter) *)
Theorem campaign_spec :
  forall r, is_leader r = false -> is_nonvoting r = false -> is_witness r = false ->
    r_term (campaign r) = r_term r + 1 /\ r_vote (campaign r) = r_id r /\
    (r_role (campaign r) = Candidate \/ r_role (campaign r) = Leader).
Proof. exact campaign_spec_proved. Qed.
Print Assumptions campaign_spec.

Theorem heartbeat_resp_unpauses_wait :
  forall p, rm_state p = RWait -> rm_is_paused (rm_wait_to_retry (p <| rm_active := true |>)) = false.
Proof. exact heartbeat_resp_unpauses_wait_proved. Qed.
Print Assumptions heartbeat_resp_unpauses_wait.

Theorem rejected_replicate_backs_off :
  forall p rejected last, rm_state p = RRetry \/ rm_state p = RWait ->
    rm_next p - 1 = rejected -> 1 <= rejected ->
    snd (rm_decrease_to p rejected last) = true /\
    rm_next (fst (rm_decrease_to p rejected last)) = N.max 1 (N.min rejected (last + 1)) /\
    rm_next (fst (rm_decrease_to p rejected last)) <= rejected.
Proof. exact rejected_replicate_next_proved. Qed.
Print Assumptions rejected_replicate_backs_off.

Theorem rejected_replicate_leaves_wait :
  forall p rejected last, rm_state p = RRetry \/ rm_state p = RWait -> rm_next p - 1 = rejected ->
    rm_state (fst (rm_decrease_to p rejected last)) = RRetry.
Proof. exact rejected_replicate_state_proved. Qed.
Print Assumptions rejected_replicate_leaves_wait.

Theorem snapshot_state_left_on_status :
  forall p, rm_state p = RSnapshot -> rm_state (rm_become_wait p) = RWait.
Proof. exact snapshot_state_left_on_status_proved. Qed.
Print Assumptions snapshot_state_left_on_status.

Theorem ack_enters_replicate :
  forall p, rm_state p = RRetry ->
    rm_state (rm_responded_to p) = RReplicate /\ rm_next (rm_responded_to p) = rm_match p + 1.
Proof. exact ack_enters_replicate_proved. Qed.
Print Assumptions ack_enters_replicate.

(* non-vacuity: a 3-voter follower whose timer expired becomes candidate of term 2 *)
Example election_fires_example :
  let r0 := new_raft 1 Follower 3 1 false false (mkLog 0 0 [] 0 0 0 None empty_snapshot) [1; 2; 3] [] [] (Some (1, 0, 0)) 3 in
  let r := peer_tick (peer_tick (peer_tick r0)) in (r_role r, r_term r, r_vote r) = (Candidate, 2, 1).
Proof. vm_compute. reflexivity. Qed.
