(* L2 — global safety of the Raft protocol of internal/raft on an abstract network.
     stage 1   fixed voting set V, quorum = |V|/2+1, no compaction, no membership change
     stage 2   + log compaction and InstallSnapshot          (forward simulation to stage 1)
     stage 3   + single-server membership change applied at commit, with the two guards
               the code has                                  (own inductive invariant)
     stage 2+3 both                                          (forward simulation to stage 3)
   The first part of this file is stage 1.
   Statements only: each theorem is closed by [exact <lemma>]; proofs live in
   Proofs/RaftNet{Lists,Election,Log,CommitDefs,Commit,Safety}.v.

   The model is Model/RaftNet.v: nodes (term, voted_for, role, log, commit), a
   grow-only soup of every message ever sent (loss, duplication, delay, reordering =
   "any message may be handled any number of times, by anybody, or never"), labels
   Timeout / HigherTerm / StepDown / HandleRV / BecomeLeader / Propose / SendAE /
   HandleAE / AdvanceCommit / SendHB / HandleHB / Restart.  Its header lists every
   deviation from raft.go (D1..D9); all of them make the model more permissive.

   Every theorem quantifies over every voting set V without duplicates and over ALL
   reachable states: [reachable V n] = there is a list of labels ls with
   [steps V (init) ls n], any length, any interleaving.  Used by C02 (replica
   agreement), C03 (election safety, leader completeness, one vote per term) and,
   through them, C01.

   Ghost state mentioned in some statements ([llog n t] = the log of the leader of term
   t; [committed V n t k] = entry k of that log has term t and a quorum of V
   acknowledged a prefix >= k in term t) has no influence on any guard; the
   ghost-free forms are [leader_completeness_trace], [state_machine_safety],
   [committed_never_replaced]. *)
From DB Require Import Model.RaftNet Model.RaftNetSnap Model.RaftNetCfg Model.RaftNetCfgSnap
  Proofs.RaftNetLists Proofs.RaftNetElection Proofs.RaftNetLog Proofs.RaftNetCommitDefs
  Proofs.RaftNetCommit Proofs.RaftNetSafety Proofs.RaftNetSnap Proofs.RaftNetCfgLemmas
  Proofs.RaftNetCfgInv Proofs.RaftNetCfgStep Proofs.RaftNetCfgSafety Proofs.RaftNetCfgSnap
  Model.RaftNetRead Proofs.RaftNetRead.

(* ================================================================== *)
(* quorums *)

(* two quorums of V share a member (no NoDup V needed) *)
Theorem quorum_intersect : forall (V Q1 Q2 : list id),
  incl Q1 V -> incl Q2 V -> NoDup Q1 -> NoDup Q2 ->
  quorum V <= length Q1 -> quorum V <= length Q2 ->
  exists x, In x Q1 /\ In x Q2.
Proof. exact RaftNetLists.quorum_intersect. Qed.
Print Assumptions quorum_intersect.

(* ================================================================== *)
(* (1) election safety *)

(* all granted votes of one voter in one term name one candidate; Restart keeps
   (term, voted_for), so this holds across restarts *)
Theorem one_vote_per_term : forall V, NoDup V -> forall n t w c1 c2 vl1 vl2,
  reachable V n ->
  In (Vote t w c1 vl1) (msgs n) -> In (Vote t w c2 vl2) (msgs n) -> c1 = c2.
Proof. exact RaftNetElection.one_vote_per_term. Qed.
Print Assumptions one_vote_per_term.

(* two nodes that are Leader in the same term are the same node *)
Theorem election_safety : forall V, NoDup V -> forall n i j,
  reachable V n ->
  role (nodes n i) = Leader -> role (nodes n j) = Leader ->
  term (nodes n i) = term (nodes n j) -> i = j.
Proof. exact RaftNetElection.election_safety. Qed.
Print Assumptions election_safety.

(* a granted vote is the voter's recorded vote while it stays in that term
   (grant_msg_reflects_vote), and a node never changes its vote within a term *)
Theorem grant_reflects_vote : forall V, NoDup V -> forall n t w c vl,
  reachable V n -> In (Vote t w c vl) (msgs n) ->
  t < term (nodes n w) \/ (term (nodes n w) = t /\ voted (nodes n w) = Some c).
Proof. exact RaftNetElection.grant_reflects_vote. Qed.
Print Assumptions grant_reflects_vote.

Theorem vote_stable_in_term : forall V n l n' w c,
  step V n l n' -> voted (nodes n w) = Some c -> term (nodes n' w) = term (nodes n w) ->
  voted (nodes n' w) = Some c.
Proof. exact RaftNetElection.vote_stable_in_term. Qed.
Print Assumptions vote_stable_in_term.

Theorem terms_monotone : forall V n l n' i,
  step V n l n' -> term (nodes n i) <= term (nodes n' i).
Proof. exact RaftNetElection.step_term_mono. Qed.
Print Assumptions terms_monotone.

(* a leader owns a quorum of Vote messages of its term (leader_only_via_quorum) *)
Theorem leader_has_vote_quorum : forall V, NoDup V -> forall n i,
  reachable V n -> role (nodes n i) = Leader ->
  exists Q, is_quorum V Q /\
            forall w, In w Q -> exists vl, In (Vote (term (nodes n i)) w i vl) (msgs n).
Proof. exact RaftNetElection.leader_has_vote_quorum. Qed.
Print Assumptions leader_has_vote_quorum.

(* ================================================================== *)
(* (2) log matching *)

(* the logs that exist in a state are: node logs, the sender's view implied by an AE
   message (its prefix up to prev and its entries), logs recorded in votes, leader
   logs.  If two of them have the same term at the same index they are equal up to
   that index. *)
Theorem log_matching : forall V, NoDup V -> forall n a b k,
  reachable V n -> known_log n a -> known_log n b ->
  1 <= k -> k <= length a -> k <= length b ->
  term_at a k = term_at b k -> firstn k a = firstn k b.
Proof. exact RaftNetLog.log_matching. Qed.
Print Assumptions log_matching.

(* a receiver whose log has the AE's prevTerm at prevIndex holds the sender's whole
   prefix up to prevIndex *)
Theorem ae_prev_match : forall V, NoDup V -> forall n t ldr prev pt ents lc i,
  reachable V n -> In (AE t ldr prev pt ents lc) (msgs n) ->
  term_at (log (nodes n i)) prev = pt ->
  firstn prev (log (nodes n i)) = firstn prev (llog n t) /\ prev <= length (log (nodes n i)).
Proof. exact RaftNetLog.ae_prev_match. Qed.
Print Assumptions ae_prev_match.

(* terms never decrease along a log *)
Theorem log_terms_sorted : forall V, NoDup V -> forall n l,
  reachable V n -> known_log n l -> sorted l.
Proof. exact RaftNetLog.log_terms_sorted. Qed.
Print Assumptions log_terms_sorted.

(* ================================================================== *)
(* (3) leader completeness *)

(* state form *)
Theorem leader_completeness : forall V, NoDup V -> forall n t k i,
  reachable V n -> committed V n t k ->
  role (nodes n i) = Leader -> t < term (nodes n i) ->
  firstn k (log (nodes n i)) = firstn k (llog n t).
Proof. exact RaftNetSafety.leader_completeness. Qed.
Print Assumptions leader_completeness.

(* event form, ghost-free: once a leader i advanced its commit index to k (step
   AdvanceCommit i k in state n), its entries 1..k are in the log of every leader of
   every later term in every later state *)
Theorem leader_completeness_trace : forall V, NoDup V -> forall n i k n1 ls n2 j,
  reachable V n -> step V n (LAdvanceCommit i k) n1 -> steps V n1 ls n2 ->
  role (nodes n2 j) = Leader -> term (nodes n i) < term (nodes n2 j) ->
  firstn k (log (nodes n2 j)) = firstn k (log (nodes n i)).
Proof. exact RaftNetSafety.leader_completeness_trace. Qed.
Print Assumptions leader_completeness_trace.

(* ================================================================== *)
(* (4) state machine safety *)

Theorem state_machine_safety : forall V, NoDup V -> forall n a b k,
  reachable V n -> k <= commit (nodes n a) -> k <= commit (nodes n b) ->
  firstn k (log (nodes n a)) = firstn k (log (nodes n b)).
Proof. exact RaftNetSafety.state_machine_safety. Qed.
Print Assumptions state_machine_safety.

Theorem state_machine_safety_entry : forall V, NoDup V -> forall n a b k j,
  reachable V n -> k <= commit (nodes n a) -> k <= commit (nodes n b) -> 1 <= j <= k ->
  nth_error (log (nodes n a)) (j - 1) = nth_error (log (nodes n b)) (j - 1).
Proof. exact RaftNetSafety.state_machine_safety_entry. Qed.
Print Assumptions state_machine_safety_entry.

Theorem commit_in_range : forall V, NoDup V -> forall n i,
  reachable V n -> commit (nodes n i) <= length (log (nodes n i)).
Proof. exact RaftNetSafety.commit_in_range. Qed.
Print Assumptions commit_in_range.

(* ================================================================== *)
(* (5) committed entries are never replaced *)

(* once commit i >= k, the first k entries of node i never change in any later state
   (also across Restart, which may lower the commit index) *)
Theorem committed_never_replaced : forall V, NoDup V -> forall n ls n' i k,
  reachable V n -> steps V n ls n' -> k <= commit (nodes n i) ->
  firstn k (log (nodes n' i)) = firstn k (log (nodes n i)).
Proof. exact RaftNetSafety.committed_never_replaced. Qed.
Print Assumptions committed_never_replaced.

Theorem committed_entry_never_replaced : forall V, NoDup V -> forall n ls n' i k,
  reachable V n -> steps V n ls n' -> 1 <= k <= commit (nodes n i) ->
  nth_error (log (nodes n' i)) (k - 1) = nth_error (log (nodes n i)) (k - 1).
Proof. exact RaftNetSafety.committed_entry_never_replaced. Qed.
Print Assumptions committed_entry_never_replaced.

(* ================================================================== *)
(* the two panics on the replication path are unreachable (deviation D7) *)

(* tryAppend never finds a conflict at or below the committed index *)
Theorem append_never_conflicts_with_committed : forall V, NoDup V ->
  forall n j t ldr prev pt ents lc,
  reachable V n -> In (AE t ldr prev pt ents lc) (msgs n) ->
  t = term (nodes n j) -> term_at (log (nodes n j)) prev = pt ->
  try_append (log (nodes n j)) (commit (nodes n j)) prev ents <> None.
Proof. exact RaftNetSafety.append_never_conflicts_with_committed. Qed.
Print Assumptions append_never_conflicts_with_committed.

(* the commit value of a heartbeat addressed to j never exceeds j's last index *)
Theorem heartbeat_commit_in_range : forall V, NoDup V -> forall n j t ldr c,
  reachable V n -> In (HB t ldr j c) (msgs n) -> t = term (nodes n j) ->
  c <= length (log (nodes n j)).
Proof. exact RaftNetSafety.heartbeat_commit_in_range. Qed.
Print Assumptions heartbeat_commit_in_range.

(* ================================================================== *)
(* executable side: the step function is sound for the relation *)

Theorem step_fn_sound : forall V n l n', step_fn V n l = Some n' -> step V n l n'.
Proof. exact RaftNetSafety.step_fn_sound. Qed.
Print Assumptions step_fn_sound.

Theorem run_sound : forall V ls n n', run V n ls = Some n' -> steps V n ls n'.
Proof. exact RaftNetSafety.run_sound. Qed.
Print Assumptions run_sound.

Theorem step_ok_sound : forall V ids n l n',
  step_ok V ids n l n' = true ->
  exists n1, step V n l n1 /\ nodes_obs_eqb ids n1 n' = true.
Proof. exact RaftNetSafety.step_ok_sound. Qed.
Print Assumptions step_ok_sound.

Theorem nodes_obs_eqb_eq : forall ids a b i,
  nodes_obs_eqb ids a b = true -> In i ids ->
  term (nodes a i) = term (nodes b i) /\ voted (nodes a i) = voted (nodes b i) /\
  role (nodes a i) = role (nodes b i) /\ log (nodes a i) = log (nodes b i) /\
  commit (nodes a i) = commit (nodes b i).
Proof. exact RaftNetSafety.nodes_obs_eqb_eq. Qed.
Print Assumptions nodes_obs_eqb_eq.

(* ================================================================== *)
(* non-vacuity: a concrete 3-node run *)

Definition V3 : list id := [1; 2; 3].

Definition e1 : entry := noop 1.
Definition e2 : entry := mkE 1 42.

(* node 1 campaigns in term 1, node 2 votes, node 1 becomes leader (no-op at index 1),
   a client entry goes to index 2, node 2 and 3 replicate, node 1 commits index 2, node 2
   learns the commit from a heartbeat, node 2 restarts with commit 0 (log kept), then node 3
   campaigns in term 2 with the votes of 2 and 3, becomes leader, replicates and commits *)
Definition run_a : list label := [
  LTimeout 1;
  LHigherTerm 2 1; LHandleRV 2 1 1 0 0;
  LBecomeLeader 1;
  LPropose 1 42;
  LSendAE 1 0 2 0;
  LHandleAE 2 1 1 0 0 [e1; e2] 0;
  LSelfAck 1;
  LAdvanceCommit 1 2;
  LSendHB 1 2 2; LHandleHB 2 1 1 2 ].

Definition run_b : list label := [
  LHigherTerm 3 1; LHandleAE 3 1 1 0 0 [e1; e2] 0;
  LRestart 2 0 2;
  LTimeout 3;
  LHigherTerm 2 2; LHandleRV 2 2 3 2 1;
  LBecomeLeader 3;
  LSendAE 3 2 1 0;
  LHandleAE 2 2 3 2 1 [noop 2] 0;
  LSelfAck 3;
  LAdvanceCommit 3 3;
  LSendAE 3 3 0 3;
  LHigherTerm 1 2; LHandleAE 1 2 3 2 1 [noop 2] 0; LHandleAE 1 2 3 3 2 [] 3 ].

Definition obs (o : option net) (i : id) : option (nat * role_t * list entry * nat) :=
  match o with
  | Some n => Some (term (nodes n i), role (nodes n i), log (nodes n i), commit (nodes n i))
  | None => None
  end.

(* after run_a: node 1 leads term 1 and nodes 1, 2 have committed [e1; e2] *)
Example run1_elects_and_commits :
  obs (run V3 (init) run_a) 1 = Some (1, Leader, [e1; e2], 2) /\
  obs (run V3 (init) run_a) 2 = Some (1, Follower, [e1; e2], 2) /\
  obs (run V3 (init) run_a) 3 = Some (0, Follower, [], 0).
Proof. vm_compute. repeat split. Qed.

(* after run_a ++ run_b: node 3 leads term 2, holds the entries committed in term 1, and
   everybody has committed [e1; e2; noop 2] *)
Example run2_second_leader_is_complete :
  obs (run V3 (init) (run_a ++ run_b)) 3 = Some (2, Leader, [e1; e2; noop 2], 3) /\
  obs (run V3 (init) (run_a ++ run_b)) 2 = Some (2, Follower, [e1; e2; noop 2], 0) /\
  obs (run V3 (init) (run_a ++ run_b)) 1 = Some (2, Follower, [e1; e2; noop 2], 3).
Proof. vm_compute. repeat split. Qed.

(* so the hypotheses of the theorems are satisfiable: the final state is reachable ... *)
Example run2_reachable :
  forall n, run V3 (init) (run_a ++ run_b) = Some n -> reachable V3 n.
Proof. exact (RaftNetSafety.run_reachable V3 (run_a ++ run_b)). Qed.

(* ... and a disabled label is refused: node 2 cannot become leader without votes, a
   second vote in the same term for another candidate is refused, an AE that would cut
   committed entries does not exist in the soup *)
Example disabled_labels :
  run V3 (init) (run_a ++ [LBecomeLeader 2]) = None /\
  run V3 (init) [LTimeout 1; LTimeout 3; LHigherTerm 2 1; LHandleRV 2 1 1 0 0;
                 LHandleRV 2 1 3 0 0] = None /\
  run V3 (init) (run_a ++ [LHandleAE 2 1 1 0 0 [mkE 1 7] 0]) = None.
Proof. vm_compute. repeat split. Qed.

(* a leader that crashes after sending entries it has not written yet loses them
   (Restart 1 0 1 keeps one entry), but cannot lose what it acknowledged *)
Example crash_loses_unwritten_suffix_only :
  obs (run V3 (init) [LTimeout 1; LHigherTerm 2 1; LHandleRV 2 1 1 0 0; LBecomeLeader 1;
                      LSelfAck 1; LPropose 1 42; LSendAE 1 0 2 0; LRestart 1 0 1]) 1
    = Some (1, Follower, [e1], 0) /\
  run V3 (init) [LTimeout 1; LHigherTerm 2 1; LHandleRV 2 1 1 0 0; LBecomeLeader 1;
                 LSelfAck 1; LPropose 1 42; LSendAE 1 0 2 0; LRestart 1 0 0] = None.
Proof. vm_compute. repeat split. Qed.

(* ================================================================== *)
(* Stage 2: log compaction and InstallSnapshot (Model/RaftNetSnap.v)      *)
(* ================================================================== *)

(* A stage-2 state is a stage-1 state [base s] (whose node logs are the LOGICAL logs:
   the compacted prefix is kept as ghost) + the snapshot index [first s i] of every node
   + the snapshot messages sent.  What node i stores is
   [stored s i = (first, term at first, entries after first)]. *)

(* every reachable stage-2 state is a reachable stage-1 state with a bigger soup: the
   soup [ms] holds, for every snapshot message (t, ldr, sidx, sterm), the Replicate
   messages with every prev <= sidx that the snapshot stands for *)
Theorem stage2_refines_stage1 : forall V, NoDup V -> forall s,
  reachable2 V s ->
  exists ms, reachable V (with_msgs (base s) ms) /\ R s ms.
Proof. exact RaftNetSnap.stage2_refines_stage1. Qed.
Print Assumptions stage2_refines_stage1.

(* compaction never passes the commit index *)
Theorem snapshot_is_committed : forall V s i,
  reachable2 V s -> first s i <= commit (nodes (base s) i).
Proof. exact RaftNetSnap.snapshot_is_committed. Qed.
Print Assumptions snapshot_is_committed.

Theorem election_safety2 : forall V, NoDup V -> forall s i j,
  reachable2 V s ->
  role (nodes (base s) i) = Leader -> role (nodes (base s) j) = Leader ->
  term (nodes (base s) i) = term (nodes (base s) j) -> i = j.
Proof. exact RaftNetSnap.election_safety2. Qed.
Print Assumptions election_safety2.

Theorem log_matching2 : forall V, NoDup V -> forall s i j k,
  reachable2 V s ->
  1 <= k -> k <= length (log (nodes (base s) i)) -> k <= length (log (nodes (base s) j)) ->
  term_at (log (nodes (base s) i)) k = term_at (log (nodes (base s) j)) k ->
  firstn k (log (nodes (base s) i)) = firstn k (log (nodes (base s) j)).
Proof. exact RaftNetSnap.log_matching2. Qed.
Print Assumptions log_matching2.

Theorem leader_completeness2_trace : forall V, NoDup V -> forall s i k s1 ls s2 j,
  reachable2 V s -> step2 V s (L2Base (LAdvanceCommit i k)) s1 -> steps2 V s1 ls s2 ->
  role (nodes (base s2) j) = Leader ->
  term (nodes (base s) i) < term (nodes (base s2) j) ->
  firstn k (log (nodes (base s2) j)) = firstn k (log (nodes (base s) i)).
Proof. exact RaftNetSnap.leader_completeness2_trace. Qed.
Print Assumptions leader_completeness2_trace.

Theorem state_machine_safety2 : forall V, NoDup V -> forall s a b k,
  reachable2 V s -> k <= commit (nodes (base s) a) -> k <= commit (nodes (base s) b) ->
  firstn k (log (nodes (base s) a)) = firstn k (log (nodes (base s) b)).
Proof. exact RaftNetSnap.state_machine_safety2. Qed.
Print Assumptions state_machine_safety2.

(* ... and on what the nodes really store *)
Theorem state_machine_safety2_stored : forall V, NoDup V -> forall s a b k j,
  reachable2 V s -> k <= commit (nodes (base s) a) -> k <= commit (nodes (base s) b) ->
  first s a < j -> first s b < j -> j <= k ->
  nth_error (snd (stored s a)) (j - 1 - first s a)
  = nth_error (snd (stored s b)) (j - 1 - first s b).
Proof. exact RaftNetSnap.state_machine_safety2_stored. Qed.
Print Assumptions state_machine_safety2_stored.

Theorem committed_never_replaced2 : forall V, NoDup V -> forall s ls s' i k,
  reachable2 V s -> steps2 V s ls s' -> k <= commit (nodes (base s) i) ->
  firstn k (log (nodes (base s') i)) = firstn k (log (nodes (base s) i)).
Proof. exact RaftNetSnap.committed_never_replaced2. Qed.
Print Assumptions committed_never_replaced2.

(* a snapshot stands for a committed prefix *)
Theorem snapshot_content_committed : forall V, NoDup V -> forall s t ldr sidx sterm i k,
  reachable2 V s -> In (IS t ldr sidx sterm) (snaps s) ->
  k <= sidx -> k <= commit (nodes (base s) i) ->
  firstn k (log (nodes (base s) i)) = firstn k (llog (base s) t) /\
  sterm = term_at (llog (base s) t) sidx.
Proof. exact RaftNetSnap.snapshot_content_committed. Qed.
Print Assumptions snapshot_content_committed.

(* restore() leaves (snapshot index, snapshot term, no entries), committed = snapshot index *)
Theorem restore_stored : forall V, NoDup V -> forall s j t ldr sidx sterm s',
  reachable2 V s -> step2 V s (L2HandleIS j t ldr sidx sterm) s' ->
  commit (nodes (base s) j) < sidx -> term_at (log (nodes (base s) j)) sidx <> sterm ->
  stored s' j = (sidx, sterm, []) /\ commit (nodes (base s') j) = sidx.
Proof. exact RaftNetSnap.restore_stored. Qed.
Print Assumptions restore_stored.

Theorem step_fn2_sound : forall V s l s', step_fn2 V s l = Some s' -> step2 V s l s'.
Proof. exact RaftNetSnap.step_fn2_sound. Qed.
Print Assumptions step_fn2_sound.

Theorem run2_sound : forall V ls s s', run2 V s ls = Some s' -> steps2 V s ls s'.
Proof. exact RaftNetSnap.run2_sound. Qed.
Print Assumptions run2_sound.

(* non-vacuity: continue the run above; leader 3 compacts its log up to index 2, sends its
   snapshot at index 3; node 2 (restarted, commit 0, has the entries) fast-forwards its
   commit index; node 4 (a new non-voting node with an empty log) restores the snapshot *)
Definition run_c : list label2 :=
  map L2Base (run_a ++ run_b) ++
  [ L2Compact 3 2; L2SendIS 3 3;
    L2HandleIS 2 2 3 3 2;
    L2Base (LHigherTerm 4 2); L2HandleIS 4 2 3 3 2 ].

Definition obs2 (o : option net2) (i : id) :=
  match o with
  | Some s => Some (stored s i, commit (nodes (base s) i), log (nodes (base s) i))
  | None => None
  end.

Example run_c_snapshot :
  obs2 (run2 V3 init2 run_c) 3 = Some ((2, 1, [noop 2]), 3, [e1; e2; noop 2]) /\
  obs2 (run2 V3 init2 run_c) 2 = Some ((0, 0, [e1; e2; noop 2]), 3, [e1; e2; noop 2]) /\
  obs2 (run2 V3 init2 run_c) 4 = Some ((3, 2, []), 3, [e1; e2; noop 2]).
Proof. vm_compute. repeat split. Qed.

(* after compaction the leader cannot send a Replicate below its snapshot, and a node
   cannot restart below its snapshot *)
Example run_c_disabled :
  run2 V3 init2 (run_c ++ [L2Base (LSendAE 3 1 1 0)]) = None /\
  run2 V3 init2 (run_c ++ [L2Base (LRestart 4 0 3)]) = None /\
  run2 V3 init2 (run_c ++ [L2Compact 2 4]) = None.
Proof. vm_compute. repeat split. Qed.

(* ================================================================== *)
(* Stage 3: single-server membership change (Model/RaftNetCfg.v)          *)
(* ================================================================== *)

(* A stage-3 state is a stage-1 state [base3 s] + per node the applied index and the
   pendingConfigChange flag (+ ghost).  The voters a node counts are
   [cfg_of (first (applied s i) entries of its log)]: membership changes take effect
   when applied, as in dragonboat; the two guards of the code are steps guards
   (no campaign while committed > applied; at most one unapplied config change in a
   leader's log).  [cfg_of] / [is_cc] are arguments; every theorem holds for every pair
   that meets [cfg_contract]:
     an entry that is no config change does not change cfg_of,
     quorums of cfg_of l and cfg_of (l ++ [e]) intersect,
     cfg_of l has no duplicates, the no-op of a new leader is no config change. *)

(* quorums intersect when one voter is added or removed: the contract is met by every
   membership function that changes one voter per config change entry *)
Theorem quorum_intersect_adjacent : forall (C : list id) (x : id),
  NoDup C -> ~ In x C -> qnear C (x :: C) /\ qnear (x :: C) C.
Proof. exact RaftNetCfgLemmas.quorum_intersect_adjacent. Qed.
Print Assumptions quorum_intersect_adjacent.

(* ... for instance by this one (payload 100+v adds voter v, 200+v removes voter v) *)
Theorem cfg_fold_contract : forall C0, NoDup C0 -> cfg_contract (cfg_fold C0) cc_payload.
Proof. exact RaftNetCfgSafety.cfg_fold_contract. Qed.
Print Assumptions cfg_fold_contract.

Theorem election_safety3 : forall cfg_of is_cc, cfg_contract cfg_of is_cc -> forall s i j,
  reachable3 cfg_of is_cc s ->
  role (nodes (base3 s) i) = Leader -> role (nodes (base3 s) j) = Leader ->
  term (nodes (base3 s) i) = term (nodes (base3 s) j) -> i = j.
Proof. exact RaftNetCfgSafety.election_safety3_c. Qed.
Print Assumptions election_safety3.

Theorem one_vote_per_term3 : forall cfg_of is_cc, cfg_contract cfg_of is_cc ->
  forall s t w c1 c2 vl1 vl2,
  reachable3 cfg_of is_cc s ->
  In (Vote t w c1 vl1) (msgs (base3 s)) -> In (Vote t w c2 vl2) (msgs (base3 s)) -> c1 = c2.
Proof. exact RaftNetCfgSafety.one_vote_per_term3_c. Qed.
Print Assumptions one_vote_per_term3.

(* a leader owns a quorum of votes of the configuration it campaigned with *)
Theorem leader_has_vote_quorum3 : forall cfg_of is_cc, cfg_contract cfg_of is_cc -> forall s i,
  reachable3 cfg_of is_cc s -> role (nodes (base3 s) i) = Leader ->
  exists Q, is_quorum (lcfg s (term (nodes (base3 s) i))) Q /\
            forall w, In w Q -> voted_msg (base3 s) (term (nodes (base3 s) i)) w i.
Proof. exact RaftNetCfgSafety.leader_has_vote_quorum3_c. Qed.
Print Assumptions leader_has_vote_quorum3.

Theorem log_matching3 : forall cfg_of is_cc, cfg_contract cfg_of is_cc -> forall s i j k,
  reachable3 cfg_of is_cc s ->
  1 <= k -> k <= length (log (nodes (base3 s) i)) -> k <= length (log (nodes (base3 s) j)) ->
  term_at (log (nodes (base3 s) i)) k = term_at (log (nodes (base3 s) j)) k ->
  firstn k (log (nodes (base3 s) i)) = firstn k (log (nodes (base3 s) j)).
Proof. exact RaftNetCfgSafety.log_matching3_c. Qed.
Print Assumptions log_matching3.

(* [In (t, k, a) (cevents s)]: the leader of term t advanced its commit index to k with
   a quorum of the configuration of its first a (applied) entries *)
Theorem leader_completeness3 : forall cfg_of is_cc, cfg_contract cfg_of is_cc ->
  forall s t k a i,
  reachable3 cfg_of is_cc s -> In (t, k, a) (cevents s) ->
  role (nodes (base3 s) i) = Leader -> t < term (nodes (base3 s) i) ->
  firstn k (log (nodes (base3 s) i)) = firstn k (llog (base3 s) t).
Proof. exact RaftNetCfgSafety.leader_completeness3_c. Qed.
Print Assumptions leader_completeness3.

Theorem leader_completeness3_trace : forall cfg_of is_cc, cfg_contract cfg_of is_cc ->
  forall s i k s1 ls s2 j,
  reachable3 cfg_of is_cc s ->
  step3 cfg_of is_cc s (L3Base (LAdvanceCommit i k)) s1 -> steps3 cfg_of is_cc s1 ls s2 ->
  role (nodes (base3 s2) j) = Leader ->
  term (nodes (base3 s) i) < term (nodes (base3 s2) j) ->
  firstn k (log (nodes (base3 s2) j)) = firstn k (log (nodes (base3 s) i)).
Proof. exact RaftNetCfgSafety.leader_completeness3_trace_c. Qed.
Print Assumptions leader_completeness3_trace.

Theorem state_machine_safety3 : forall cfg_of is_cc, cfg_contract cfg_of is_cc -> forall s a b k,
  reachable3 cfg_of is_cc s ->
  k <= commit (nodes (base3 s) a) -> k <= commit (nodes (base3 s) b) ->
  firstn k (log (nodes (base3 s) a)) = firstn k (log (nodes (base3 s) b)).
Proof. exact RaftNetCfgSafety.state_machine_safety3_c. Qed.
Print Assumptions state_machine_safety3.

Theorem committed_never_replaced3 : forall cfg_of is_cc, cfg_contract cfg_of is_cc ->
  forall s ls s' i k,
  reachable3 cfg_of is_cc s -> steps3 cfg_of is_cc s ls s' -> k <= commit (nodes (base3 s) i) ->
  firstn k (log (nodes (base3 s') i)) = firstn k (log (nodes (base3 s) i)).
Proof. exact RaftNetCfgSafety.committed_never_replaced3_c. Qed.
Print Assumptions committed_never_replaced3.

(* the guards of the code, as facts about every reachable state *)
Theorem applied_le_committed : forall cfg_of is_cc, cfg_contract cfg_of is_cc -> forall s i,
  reachable3 cfg_of is_cc s -> applied s i <= commit (nodes (base3 s) i).
Proof. exact RaftNetCfgSafety.applied_le_committed_c. Qed.
Print Assumptions applied_le_committed.

Theorem no_campaign_with_unapplied_entries : forall cfg_of is_cc, cfg_contract cfg_of is_cc ->
  forall s i,
  reachable3 cfg_of is_cc s -> role (nodes (base3 s) i) = Candidate ->
  applied s i = commit (nodes (base3 s) i).
Proof. exact RaftNetCfgSafety.no_campaign_with_unapplied_entries_c. Qed.
Print Assumptions no_campaign_with_unapplied_entries.

Theorem one_unapplied_cc_in_leader_log : forall cfg_of is_cc, cfg_contract cfg_of is_cc ->
  forall s i,
  reachable3 cfg_of is_cc s -> role (nodes (base3 s) i) = Leader ->
  ccs is_cc (log (nodes (base3 s) i)) (applied s i) <= 1.
Proof. exact RaftNetCfgSafety.one_unapplied_cc_in_leader_log_c. Qed.
Print Assumptions one_unapplied_cc_in_leader_log.

(* no log ever has two config changes above its commit index, so the panic in
   preLeaderPromotionHandleConfigChange (the LBecomeLeader guard) is unreachable *)
Theorem one_cc_above_commit : forall cfg_of is_cc, cfg_contract cfg_of is_cc -> forall s i,
  reachable3 cfg_of is_cc s ->
  ccs is_cc (log (nodes (base3 s) i)) (commit (nodes (base3 s) i)) <= 1.
Proof. exact RaftNetCfgSafety.one_cc_above_commit_c. Qed.
Print Assumptions one_cc_above_commit.

Theorem append_never_conflicts_with_committed3 : forall cfg_of is_cc, cfg_contract cfg_of is_cc ->
  forall s j t ldr prev pt ents lc,
  reachable3 cfg_of is_cc s -> In (AE t ldr prev pt ents lc) (msgs (base3 s)) ->
  t = term (nodes (base3 s) j) -> term_at (log (nodes (base3 s) j)) prev = pt ->
  try_append (log (nodes (base3 s) j)) (commit (nodes (base3 s) j)) prev ents <> None.
Proof. exact RaftNetCfgSafety.append_never_conflicts_with_committed3_c. Qed.
Print Assumptions append_never_conflicts_with_committed3.

Theorem heartbeat_commit_in_range3 : forall cfg_of is_cc, cfg_contract cfg_of is_cc ->
  forall s j t ldr c,
  reachable3 cfg_of is_cc s -> In (HB t ldr j c) (msgs (base3 s)) ->
  t = term (nodes (base3 s) j) -> c <= length (log (nodes (base3 s) j)).
Proof. exact RaftNetCfgSafety.heartbeat_commit_in_range3_c. Qed.
Print Assumptions heartbeat_commit_in_range3.

Theorem step_fn3_sound : forall cfg_of is_cc s l s',
  step_fn3 cfg_of is_cc s l = Some s' -> step3 cfg_of is_cc s l s'.
Proof. exact RaftNetCfgSafety.step_fn3_sound. Qed.
Print Assumptions step_fn3_sound.

Theorem run3_sound : forall cfg_of is_cc ls s s',
  run3 cfg_of is_cc s ls = Some s' -> steps3 cfg_of is_cc s ls s'.
Proof. exact RaftNetCfgSafety.run3_sound. Qed.
Print Assumptions run3_sound.

(* non-vacuity: initial voters 1, 2, 3; node 1 becomes leader, proposes "add voter 4"
   (payload 104); a second config change is refused while the first is pending; the change
   is committed by two of {1,2,3} and applied by the leader; from then on a commit needs
   three of {4,1,2,3} *)
Definition cfg3 := cfg_fold [1; 2; 3].
Definition cc1 : entry := mkE 1 104.
Definition e7 : entry := mkE 1 7.

Definition run_d : list label3 :=
  map L3Base [ LTimeout 1; LHigherTerm 2 1; LHandleRV 2 1 1 0 0; LBecomeLeader 1;
               LPropose 1 104;
               LSendAE 1 0 2 0; LHandleAE 2 1 1 0 0 [e1; cc1] 0; LSelfAck 1;
               LAdvanceCommit 1 2 ] ++
  [ L3Apply 1; L3Apply 1 ] ++
  map L3Base [ LPropose 1 7; LSendAE 1 2 1 2; LHandleAE 2 1 1 2 1 [e7] 2; LSelfAck 1 ].

Definition obs3 (o : option net3) (i : id) :=
  match o with
  | Some s => Some (log (nodes (base3 s) i), commit (nodes (base3 s) i), applied s i,
                    cfg cfg3 s i, pending s i)
  | None => None
  end.

Example run_d_membership_change :
  obs3 (run3 cfg3 cc_payload init3 run_d) 1 = Some ([e1; cc1; e7], 2, 2, [4; 1; 2; 3], false) /\
  obs3 (run3 cfg3 cc_payload init3 run_d) 2 = Some ([e1; cc1; e7], 2, 0, [1; 2; 3], false).
Proof. vm_compute. repeat split. Qed.

(* with acknowledgements of 1 and 2 only, index 3 cannot be committed in the new
   configuration; with node 3 it can.  A second config change while one is pending, a
   campaign with unapplied entries, and a plain LRestart label are refused. *)
Example run_d_quorums :
  run3 cfg3 cc_payload init3 (run_d ++ [L3Base (LAdvanceCommit 1 3)]) = None /\
  obs3 (run3 cfg3 cc_payload init3
          (run_d ++ map L3Base [ LHigherTerm 3 1; LHandleAE 3 1 1 0 0 [e1; cc1] 0;
                                 LHandleAE 3 1 1 2 1 [e7] 2; LAdvanceCommit 1 3 ])) 1
    = Some ([e1; cc1; e7], 3, 2, [4; 1; 2; 3], false) /\
  run3 cfg3 cc_payload init3
       (map L3Base [ LTimeout 1; LHigherTerm 2 1; LHandleRV 2 1 1 0 0; LBecomeLeader 1;
                     LPropose 1 104; LPropose 1 105 ]) = None /\
  run3 cfg3 cc_payload init3 (run_d ++ [L3Base (LTimeout 2)]) = None /\
  run3 cfg3 cc_payload init3 (run_d ++ [L3Base (LRestart 2 0 3)]) = None /\
  obs3 (run3 cfg3 cc_payload init3 (run_d ++ [L3Crash 2 2 3 0])) 2
    = Some ([e1; cc1; e7], 2, 0, [1; 2; 3], false).
Proof. vm_compute. repeat split. Qed.

(* the run is a run of the relation, so its states are reachable *)
Example run_d_reachable :
  forall s, run3 cfg3 cc_payload init3 run_d = Some s -> reachable3 cfg3 cc_payload s.
Proof. exact (RaftNetCfgSafety.run3_reachable cfg3 cc_payload run_d). Qed.

(* ================================================================== *)
(* Stages 2 and 3 together (Model/RaftNetCfgSnap.v): membership change with     *)
(* log compaction and InstallSnapshot                                          *)
(* ================================================================== *)

(* every reachable state is a reachable stage-3 state with a bigger soup (the Replicate
   messages every snapshot stands for), so the stage-3 theorems hold for the logical logs *)
Theorem stage23_refines_stage3 : forall cfg_of is_cc, cfg_contract cfg_of is_cc -> forall s,
  reachable4 cfg_of is_cc s ->
  exists ms, reachable3 cfg_of is_cc (with_msgs3 (base4 s) ms) /\ R4 s ms.
Proof. exact RaftNetCfgSnap.stage23_refines_stage3. Qed.
Print Assumptions stage23_refines_stage3.

Theorem snapshot_is_committed4 : forall cfg_of is_cc s i,
  reachable4 cfg_of is_cc s -> first4 s i <= commit (nodes (base3 (base4 s)) i).
Proof. exact RaftNetCfgSnap.snapshot_is_committed4. Qed.
Print Assumptions snapshot_is_committed4.

Theorem election_safety4 : forall cfg_of is_cc, cfg_contract cfg_of is_cc -> forall s i j,
  reachable4 cfg_of is_cc s ->
  role (nodes (base3 (base4 s)) i) = Leader -> role (nodes (base3 (base4 s)) j) = Leader ->
  term (nodes (base3 (base4 s)) i) = term (nodes (base3 (base4 s)) j) -> i = j.
Proof. exact RaftNetCfgSnap.election_safety4. Qed.
Print Assumptions election_safety4.

Theorem log_matching4 : forall cfg_of is_cc, cfg_contract cfg_of is_cc -> forall s i j k,
  reachable4 cfg_of is_cc s -> 1 <= k ->
  k <= length (log (nodes (base3 (base4 s)) i)) -> k <= length (log (nodes (base3 (base4 s)) j)) ->
  term_at (log (nodes (base3 (base4 s)) i)) k = term_at (log (nodes (base3 (base4 s)) j)) k ->
  firstn k (log (nodes (base3 (base4 s)) i)) = firstn k (log (nodes (base3 (base4 s)) j)).
Proof. exact RaftNetCfgSnap.log_matching4. Qed.
Print Assumptions log_matching4.

Theorem leader_completeness4_trace : forall cfg_of is_cc, cfg_contract cfg_of is_cc ->
  forall s i k s1 ls s2 j,
  reachable4 cfg_of is_cc s ->
  step4 cfg_of is_cc s (L4Base (L3Base (LAdvanceCommit i k))) s1 -> steps4 cfg_of is_cc s1 ls s2 ->
  role (nodes (base3 (base4 s2)) j) = Leader ->
  term (nodes (base3 (base4 s)) i) < term (nodes (base3 (base4 s2)) j) ->
  firstn k (log (nodes (base3 (base4 s2)) j)) = firstn k (log (nodes (base3 (base4 s)) i)).
Proof. exact RaftNetCfgSnap.leader_completeness4_trace. Qed.
Print Assumptions leader_completeness4_trace.

Theorem state_machine_safety4 : forall cfg_of is_cc, cfg_contract cfg_of is_cc -> forall s a b k,
  reachable4 cfg_of is_cc s ->
  k <= commit (nodes (base3 (base4 s)) a) -> k <= commit (nodes (base3 (base4 s)) b) ->
  firstn k (log (nodes (base3 (base4 s)) a)) = firstn k (log (nodes (base3 (base4 s)) b)).
Proof. exact RaftNetCfgSnap.state_machine_safety4. Qed.
Print Assumptions state_machine_safety4.

Theorem committed_never_replaced4 : forall cfg_of is_cc, cfg_contract cfg_of is_cc ->
  forall s ls s' i k,
  reachable4 cfg_of is_cc s -> steps4 cfg_of is_cc s ls s' ->
  k <= commit (nodes (base3 (base4 s)) i) ->
  firstn k (log (nodes (base3 (base4 s')) i)) = firstn k (log (nodes (base3 (base4 s)) i)).
Proof. exact RaftNetCfgSnap.committed_never_replaced4. Qed.
Print Assumptions committed_never_replaced4.

Theorem applied_le_committed4 : forall cfg_of is_cc, cfg_contract cfg_of is_cc -> forall s i,
  reachable4 cfg_of is_cc s -> applied (base4 s) i <= commit (nodes (base3 (base4 s)) i).
Proof. exact RaftNetCfgSnap.applied_le_committed4. Qed.
Print Assumptions applied_le_committed4.

(* ================================================================== *)
(* ReadIndex (Model/RaftNetRead.v, stage-1 voter set): C06                      *)
(* ================================================================== *)

(* A read record r = (ctx, term, leader, index) is made by a leader that has committed
   an entry of its own term, with index := its commit index; [r_snap r] is the (ghost)
   state of the whole system at that moment.  Once a quorum of V has confirmed ctx in
   that term, the index is at least every commit index that any node had when the read
   was requested -- also the highest one a node ever had ([hcommit]), so it covers
   everything acknowledged to any client before the request. *)
Theorem read_index_not_stale : forall V, NoDup V -> forall s r j,
  reachableR V s -> In r (reads s) -> confirmed V s r ->
  hcommit (nodes (r_snap r) j) <= r_index r.
Proof. exact RaftNetRead.read_index_not_stale. Qed.
Print Assumptions read_index_not_stale.

Theorem read_index_covers_commits : forall V, NoDup V -> forall s r j,
  reachableR V s -> In r (reads s) -> confirmed V s r ->
  commit (nodes (r_snap r) j) <= r_index r.
Proof. exact RaftNetRead.read_index_covers_commits. Qed.
Print Assumptions read_index_covers_commits.

(* readIndex.confirm releases the older pending reads together with the confirmed one, at
   its index ([reads s] is newest first) *)
Theorem read_index_covers_older_reads : forall V, NoDup V -> forall s pre r post r' j,
  reachableR V s -> reads s = pre ++ r :: post -> In r' post -> confirmed V s r ->
  hcommit (nodes (r_snap r') j) <= r_index r.
Proof. exact RaftNetRead.read_index_covers_older_reads. Qed.
Print Assumptions read_index_covers_older_reads.

Theorem step_fnR_sound : forall V s l s', step_fnR V s l = Some s' -> stepR V s l s'.
Proof. exact RaftNetRead.step_fnR_sound. Qed.
Print Assumptions step_fnR_sound.

Theorem confirmed_b_sound : forall V, NoDup V -> forall s r,
  confirmed_b V s r = true -> confirmed V s r.
Proof. exact RaftNetRead.confirmed_b_sound. Qed.
Print Assumptions confirmed_b_sound.

(* non-vacuity: after run_a (leader 1 of term 1 has committed index 2, an entry of its own
   term) a read with ctx 7 is requested and confirmed by node 2; before that confirmation
   it is not confirmed; a leader that has not committed anything in its term cannot
   serve reads; a node of another term cannot confirm *)
Definition run_r : list labelR := map LRBase run_a ++ [LRRequest 1 7].

Definition read_obs (o : option netR) :=
  match o with
  | Some s => Some (map (fun r => (r_ctx r, r_term r, r_ldr r, r_index r, confirmed_b V3 s r)) (reads s))
  | None => None
  end.

Example read_confirmed :
  read_obs (runR V3 (initR) run_r) = Some [(7, 1, 1, 2, false)] /\
  read_obs (runR V3 (initR) (run_r ++ [LRRespond 2 1 7])) = Some [(7, 1, 1, 2, true)] /\
  runR V3 (initR) (run_r ++ [LRRespond 3 1 7]) = None /\
  runR V3 (initR) (map LRBase [LTimeout 1; LHigherTerm 2 1; LHandleRV 2 1 1 0 0; LBecomeLeader 1]
                     ++ [LRRequest 1 7]) = None.
Proof. vm_compute. repeat split. Qed.
