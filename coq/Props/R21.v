(* R21 - role restrictions at the NodeHost API and event level (sub-check of C18 and C03).
   Statements only; proofs in Proofs/RoleApi.v and Proofs/LeaderReport.v.
   C18: whatever a witness host is asked through the NodeHost API, in every state of host and
   shard, the request is refused and enters no request table; config validation refuses a
   witness that could snapshot; what a witness persists carries no payload.
   C03: given election safety of the raft core (the hypothesis is named after C03's theorem
   Props/L2.v election_safety), no two listeners and no GetLeaderID are ever told two
   different leaders for one term. *)
From Coq Require Import List NArith Bool.
From DB Require Import Gen.GenR21 Model.RoleApi Model.LeaderReport Proofs.RoleApi Proofs.LeaderReport.
Import ListNotations.
Open Scope N_scope.

(* ---- tie G: the guards stand where the model puts them ---- *)
Theorem source_has_every_witness_guard :
  src_guards = mkGuards true true true true true true true true true true /\
  src_is_witness_is_config_flag = true /\ src_rsm_save_panics_on_witness = true.
Proof. repeat split; reflexivity. Qed.
Print Assumptions source_has_every_witness_guard.

Theorem source_validates_witness_config :
  src_validate_witness_no_snapshot = true /\ src_validate_witness_not_nonvoting = true /\ src_new_raft_validates = true.
Proof. repeat split; reflexivity. Qed.
Print Assumptions source_validates_witness_config.

Theorem source_report_path_copies_fields :
  src_set_leader_id_straight = true /\ src_event_fields_straight = true /\ src_listener_pump_straight = true /\
  src_process_leader_update_straight = true /\ src_get_leader_id_straight = true.
Proof. repeat split; reflexivity. Qed.
Print Assumptions source_report_path_copies_fields.

(* ---- C18: API level ---- *)
(* every request kind, every state of host and shard: a witness never gets its request accepted *)
Theorem witness_request_refused : forall st a, a <> Compaction -> api_verdict src_guards Witness st a <> Accepted.
Proof. exact witness_refused_proved. Qed.
Print Assumptions witness_request_refused.

(* ... and nothing enters a request table (RequestCompaction included) *)
Theorem witness_never_enqueues : forall st a, api_enqueues src_guards Witness st a = None.
Proof. exact witness_never_enqueues_proved. Qed.
Print Assumptions witness_never_enqueues.

(* ... and the API goroutine never reaches the user state machine *)
Theorem witness_never_reaches_lookup : forall st a, api_calls_lookup src_guards Witness st a = false.
Proof. exact witness_never_reaches_lookup_proved. Qed.
Print Assumptions witness_never_reaches_lookup.

(* the verdict a running witness gives: ErrInvalidOperation, except where an argument check
   comes first, and a panic for a registered session handed to Propose *)
Theorem witness_ready_verdict : forall a, api_verdict src_guards Witness HReady a = witness_expected a.
Proof. exact witness_ready_verdict_proved. Qed.
Print Assumptions witness_ready_verdict.

(* in every state the refusal is ErrInvalidOperation, the panic, or the error any replica
   gets in that state (closed, not found, not ready, bad argument) *)
Theorem witness_refused_in_every_state : forall st a, a <> Compaction ->
  api_verdict src_guards Witness st a = ErrInvalidOperation \/ api_verdict src_guards Witness st a = Panics \/
  api_verdict src_guards Witness st a = api_verdict src_guards Voter st a.
Proof. exact witness_refused_in_every_state_proved. Qed.
Print Assumptions witness_refused_in_every_state.

(* non-voting members are served like voters at this level *)
Theorem nonvoting_as_voter : forall g st a, api_verdict g NonVoting st a = api_verdict g Voter st a.
Proof. exact nonvoting_as_voter_proved. Qed.
Print Assumptions nonvoting_as_voter.

Theorem nonvoting_served : forall a, args_ok a = true -> a <> Compaction ->
  api_verdict src_guards NonVoting HReady a = Accepted /\ api_enqueues src_guards NonVoting HReady a = table_of a.
Proof. exact nonvoting_served_proved. Qed.
Print Assumptions nonvoting_served.

(* the guards are what refuses: without them every well-formed request of a witness is accepted *)
Theorem witness_accepted_without_guards_refuted : forall a, args_ok a = true -> a <> Compaction ->
  api_verdict no_guards Witness HReady a = Accepted.
Proof. exact guards_are_what_refuses_proved. Qed.
Print Assumptions witness_accepted_without_guards_refuted.

(* ---- C18: witnesses never take state-machine snapshots, hold no user data ---- *)
Theorem witness_config_refused : forall c, sc_witness c = true ->
  (0 < sc_snapshot_entries c \/ sc_nonvoting c = true) -> src_start_replica c = StartRefused.
Proof. exact witness_config_refused_proved. Qed.
Print Assumptions witness_config_refused.

Theorem running_witness_never_snapshots : forall c, sc_witness c = true ->
  src_start_replica c = Started -> auto_snapshot_possible c = false.
Proof. exact running_witness_never_snapshots_proved. Qed.
Print Assumptions running_witness_never_snapshots.

(* every input: whatever batches of entries leaders have for a witness, in any order and with
   any overlap, nothing the witness persists carries a payload *)
Theorem witness_persists_no_payload : forall batches,
  Forall (fun e => carries_payload e = false) (witness_store batches) /\ payload_entries (witness_store batches) = 0.
Proof. exact witness_persists_no_payload_proved. Qed.
Print Assumptions witness_persists_no_payload.

Theorem no_payload_is_metadata_or_membership_change : forall e, carries_payload e = false ->
  e_type e = et_ConfigChangeEntry \/
  (e_type e = et_MetadataEntry /\ e_cmd e = [] /\ e_key e = 0 /\ e_client e = 0 /\ e_series e = 0 /\ e_resp e = 0).
Proof. exact no_payload_means. Qed.
Print Assumptions no_payload_is_metadata_or_membership_change.

Theorem witness_snapshot_has_no_file : forall s,
  ss_has_file (make_witness_snapshot s) = false /\ ss_witness (make_witness_snapshot s) = true /\
  ss_dummy (make_witness_snapshot s) = false /\ ss_index (make_witness_snapshot s) = ss_index s /\
  ss_term (make_witness_snapshot s) = ss_term s.
Proof. exact witness_snapshot_has_no_file_proved. Qed.
Print Assumptions witness_snapshot_has_no_file.

(* ---- C03: the reporting path ---- *)
Theorem at_most_one_reported_leader_per_term : forall tr
  (election_safety : forall i j t, In (i, RBecomeLeader t) tr -> In (j, RBecomeLeader t) tr -> i = j)
  (leader_messages_from_leaders : forall i t l, In (i, RFollow t l) tr -> In (l, RBecomeLeader t) tr)
  ids r1 r2,
  In r1 (all_reports ids tr) -> In r2 (all_reports ids tr) -> rp_term r1 = rp_term r2 ->
  rp_leader r1 <> 0 -> rp_leader r2 <> 0 -> rp_leader r1 = rp_leader r2.
Proof. exact at_most_one_reported_leader_per_term_proved. Qed.
Print Assumptions at_most_one_reported_leader_per_term.

(* the same as the boolean the harness's monitor computes *)
Theorem one_leader_named_per_term : forall tr
  (election_safety : forall i j t, In (i, RBecomeLeader t) tr -> In (j, RBecomeLeader t) tr -> i = j)
  (leader_messages_from_leaders : forall i t l, In (i, RFollow t l) tr -> In (l, RBecomeLeader t) tr)
  ids t, one_leader_named t (all_reports ids tr) = true.
Proof. exact one_leader_named_proved. Qed.
Print Assumptions one_leader_named_per_term.

Theorem get_leader_id_never_contradicts_reports : forall tr
  (election_safety : forall i j t, In (i, RBecomeLeader t) tr -> In (j, RBecomeLeader t) tr -> i = j)
  (leader_messages_from_leaders : forall i t l, In (i, RFollow t l) tr -> In (l, RBecomeLeader t) tr)
  ids i l t r,
  In i ids -> get_leader_id (replica_state tr i) = (l, t, true) ->
  In r (all_reports ids tr) -> rp_term r = t -> rp_leader r <> 0 -> rp_leader r = l.
Proof. exact get_leader_id_never_contradicts_reports_proved. Qed.
Print Assumptions get_leader_id_never_contradicts_reports.

(* one replica, no hypothesis: once the engine has taken its last update, GetLeaderID on its
   host returns what its listener was told last *)
Theorem get_leader_id_agrees_with_last_report : forall id evs r,
  last_report (rrun id (evs ++ [REngine])) = Some r -> rp_term r <> 0 ->
  get_leader_id (rrun id (evs ++ [REngine])) = (rp_leader r, rp_term r, negb (rp_leader r =? 0)).
Proof. exact get_leader_id_agrees_with_last_report_proved. Qed.
Print Assumptions get_leader_id_agrees_with_last_report.

(* with C18's only_voters_campaign_or_lead as hypothesis: a witness or non-voting member is
   never reported as leader *)
Theorem reported_leader_is_a_voter : forall tr
  (leader_messages_from_leaders : forall i t l, In (i, RFollow t l) tr -> In (l, RBecomeLeader t) tr)
  (is_voter : N -> bool)
  (only_voters_campaign_or_lead : forall i t, In (i, RBecomeLeader t) tr -> is_voter i = true)
  ids r, In r (all_reports ids tr) -> rp_leader r <> 0 -> is_voter (rp_leader r) = true.
Proof. exact reported_leader_is_a_voter_proved. Qed.
Print Assumptions reported_leader_is_a_voter.

Theorem two_leaders_are_both_reported_refuted : exists tr, one_leader_named 5 (all_reports [1; 2] tr) = false.
Proof. exact without_election_safety_two_leaders_reported. Qed.
Print Assumptions two_leaders_are_both_reported_refuted.

(* ---- non-vacuity ---- *)
Example witness_table : map (api_verdict src_guards Witness HReady)
    [Propose true; Propose false; ProposeSession; ReadIndex; StaleRead; Snapshot true true false;
     Snapshot false false false; LeaderTransfer true; QueryLog true; QueryLog false; ConfigChange false false; Compaction] =
  [ErrInvalidOperation; Panics; ErrInvalidOperation; ErrInvalidOperation; ErrInvalidOperation; ErrInvalidOperation;
   ErrInvalidOption; ErrInvalidOperation; ErrInvalidOperation; ErrInvalidRange; ErrInvalidOperation; Free].
Proof. vm_compute. reflexivity. Qed.

Example nonvoting_table : map (api_verdict src_guards NonVoting HReady)
    [Propose false; ReadIndex; StaleRead; Snapshot true true false; LeaderTransfer false; ConfigChange false false] =
  [Accepted; Accepted; Accepted; ErrDirNotExist; ErrInvalidTarget; ErrInvalidAddress].
Proof. vm_compute. reflexivity. Qed.

Example one_guard_dropped :
  api_verdict (mkGuards false true true true true true true true true true) Witness HReady (Propose true) = Accepted /\
  api_enqueues (mkGuards false true true true true true true true true true) Witness HReady (Propose true) = Some TProposals.
Proof. vm_compute. auto. Qed.

Example witness_store_example :
  let app i := mkEnt 2 i et_ApplicationEntry 77 5 6 0 [1; 2; 3] in
  let cc i := mkEnt 2 i et_ConfigChangeEntry 9 0 0 0 [4] in
  witness_store [[app 1; app 2; cc 3]; [app 3; app 4]] =
  [mkEnt 2 1 et_MetadataEntry 0 0 0 0 []; mkEnt 2 2 et_MetadataEntry 0 0 0 0 [];
   mkEnt 2 3 et_MetadataEntry 0 0 0 0 []; mkEnt 2 4 et_MetadataEntry 0 0 0 0 []] /\
  payload_entries [app 1; cc 2] = 1.
Proof. vm_compute. auto. Qed.

(* an election, a deposed leader that hears of the new one, the engine cycles in between *)
Example report_example :
  let tr := [(1, RNoLeader 1); (1, RBecomeLeader 1); (2, RFollow 1 1); (2, REngine); (1, REngine);
             (2, RNoLeader 2); (2, RBecomeLeader 2); (2, REngine); (1, RFollow 2 2); (1, REngine)] in
  all_reports [1; 2] tr =
    [mkReport 1 1 0; mkReport 1 1 1; mkReport 1 2 2; mkReport 2 1 1; mkReport 2 2 0; mkReport 2 2 2] /\
  get_leader_id (replica_state tr 1) = (2, 2, true) /\ get_leader_id (replica_state tr 2) = (2, 2, true) /\
  one_leader_named 1 (all_reports [1; 2] tr) = true /\ one_leader_named 2 (all_reports [1; 2] tr) = true.
Proof. vm_compute. auto 10. Qed.
