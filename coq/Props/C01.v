(* C01 — client-visible operations on a shard are linearizable.
   Statements only: each theorem is closed by [exact <lemma>]; proofs live in
   Proofs/Linearizability.v.  Definitions: Model/Linearizability.v
   (history, wf_hist, pts_ok, linearizes, linearizable_hist, check_witness, weave,
   and the hypotheses C02_.. C03_.. C05_.. C06_.. C12_.. of the composition).

   What is and is not proved here: the definition of the property on recorded
   histories, a verified certificate checker for it, and the composition
   "protocol properties => the log (with reads woven in) is a linearization".
   The unconditional statement over all traces of the protocol
   (DESIGN.md: linearizable : forall tr, trace init tr -> ...) needs the hypotheses
   of linearizable_from_log to be discharged from the L2 protocol model
   (C02 state_machine_safety, C03 leader_completeness, C06 read_index_not_stale);
   until then they are assumptions of this file and are exercised on the
   implementation by the end-to-end harness (recorded histories). *)
From Coq Require Import List NArith Arith Bool.
From DB Require Import Gen.GenC01 Model.Linearizability Proofs.Linearizability.
Import ListNotations.
Local Open Scope nat_scope.

(* The verified certificate checker: a recorded history that passes the check with
   ANY proposed order is linearizable in the sense of the property (every completed
   operation takes effect exactly once at a point between its invocation and its
   response, Timeout/Dropped/Terminated ones at most once and after their
   invocation, refused ones never, results are the sequential specification's). *)
Theorem check_witness_sound : forall h order,
  check_witness h order = true -> linearizable_hist h.
Proof. exact check_witness_sound_proved. Qed.
Print Assumptions check_witness_sound.

(* ... and the accepted order itself is a linearization of a well-formed history *)
Theorem check_witness_sound_order : forall h order,
  check_witness h order = true -> wf_hist h /\ linearizes h order.
Proof. exact check_witness_linearizes. Qed.
Print Assumptions check_witness_sound_order.

(* The greedy choice of effect points made by the checker loses nothing: effect
   points exist for an order iff the linear pass prec_ok accepts it. *)
Theorem effect_points_iff_greedy : forall h lin,
  (exists pt, pts_ok h lin pt) <-> prec_ok h 0 lin = true.
Proof. exact effect_points_iff_greedy_proved. Qed.
Print Assumptions effect_points_iff_greedy.

(* Composition (DESIGN.md "linearizable_from_safety"): IF the protocol-level
   properties hold of a history h, the agreed log of client writes, the prefix each
   read observed (obs) and the ghost commit count cmt, THEN h is linearizable, and
   the linearization is "log order with each completed read inserted after the
   prefix it observed" (weave). *)
Theorem linearizable_from_log : forall h log obs cmt,
  wf_hist h ->
  C05_at_most_once h log ->
  C02_state_machine_safety h log obs cmt ->
  C03_leader_completeness h log cmt ->
  C12_completed_after_local_apply h log cmt ->
  C06_read_index_not_stale h obs cmt ->
  linearizable_hist h /\ linearizes h (weave h log obs).
Proof. exact linearizable_from_log_proved. Qed.
Print Assumptions linearizable_from_log.

(* The checker decides the property for a given order: it accepts exactly the
   linearization orders of well-formed histories (sound and complete). *)
Theorem check_witness_iff : forall h lin,
  check_witness h lin = true <-> wf_hist h /\ linearizes h lin.
Proof. exact check_witness_iff_proved. Qed.
Print Assumptions check_witness_iff.

(* Hence, under the protocol-level hypotheses, the extracted checker accepts the
   witness the harness builds from the recorded Update stream: a rejection of
   that witness on a recorded history of the implementation means one of
   C02/C03/C05/C06/C12 failed there (this is what the end-to-end monitor reports
   as "the log order is not a linearization of the history"). *)
Theorem log_witness_accepted : forall h log obs cmt,
  wf_hist h ->
  C05_at_most_once h log ->
  C02_state_machine_safety h log obs cmt ->
  C03_leader_completeness h log cmt ->
  C12_completed_after_local_apply h log cmt ->
  C06_read_index_not_stale h obs cmt ->
  check_witness h (weave h log obs) = true.
Proof. exact log_witness_accepted_proved. Qed.
Print Assumptions log_witness_accepted.

(* non-vacuity.  Two clients, a write that times out but takes effect, a read that
   observes it, a refused write: *)
Example check_witness_accepts : check_witness ex_hist [1; 2; 3]%N = true.
Proof. vm_compute. reflexivity. Qed.
(* the checker rejects a stale read (10 is read after the write of 20 completed) *)
Example check_witness_rejects_stale :
  check_witness [ Inv 1 (OpWrite 7 10); Resp 1 (Completed (0, 1)%N);
                  Inv 2 (OpWrite 7 20); Resp 2 (Completed (10, 2)%N);
                  Inv 3 (OpRead 7); Resp 3 (Completed (10, 1)%N) ]%N [1; 3; 2]%N = false.
Proof. vm_compute. reflexivity. Qed.
(* the hypotheses of linearizable_from_log are met by that history with log [1;2],
   the read having observed 2 entries, commits at events 2 and 4 *)
Example from_log_hypotheses_met :
  wf_hist ex_hist /\
  C05_at_most_once ex_hist ex_log /\
  C02_state_machine_safety ex_hist ex_log ex_obs ex_cmt /\
  C03_leader_completeness ex_hist ex_log ex_cmt /\
  C12_completed_after_local_apply ex_hist ex_log ex_cmt /\
  C06_read_index_not_stale ex_hist ex_obs ex_cmt.
Proof. exact ex_hyps. Qed.
Example from_log_witness : weave ex_hist ex_log ex_obs = [1; 2; 3]%N.
Proof. vm_compute. reflexivity. Qed.

(* tie G: the anchors the argument rests on are present in the source, and the
   result codes are pairwise distinct *)
Example anchors_present :
  (c01_read_release_guard && c01_leader_readindex_guard && c01_apply_path_completion) = true.
Proof. vm_compute. reflexivity. Qed.
Example codes_distinct :
  nodupb [c01_code_requestTimeout; c01_code_requestCompleted; c01_code_requestTerminated;
          c01_code_requestRejected; c01_code_requestDropped; c01_code_requestAborted;
          c01_code_requestCommitted] = true.
Proof. vm_compute. reflexivity. Qed.
