(* C01 — client-visible operations on a shard are linearizable.
   Statements only: each theorem is closed by [exact <lemma>]; proofs live in
   Proofs/Linearizability.v.  Definitions: Model/Linearizability.v. *)
From Coq Require Import List NArith Arith Bool.
From DB Require Import Gen.GenC01 Model.Linearizability Proofs.Linearizability.
Import ListNotations.
Local Open Scope nat_scope.

(* the verified certificate checker: a recorded history that passes the check with
   ANY proposed order is linearizable in the sense of the property (every completed
   operation takes effect exactly once at a point between its invocation and its
   response, Timeout/Dropped/Terminated ones at most once and after their
   invocation, refused ones never, results are the sequential specification's) *)
Theorem check_witness_sound : forall h order,
  check_witness h order = true -> linearizable_hist h.
Proof. exact check_witness_sound_proved. Qed.
Print Assumptions check_witness_sound.

(* non-vacuity: two clients, a write that times out but takes effect later, a read
   that observes it, a refused write; the checker accepts the order [1;2;3] *)
Definition ex_hist : history :=
  [ Inv 1 (OpWrite 7 10); Inv 2 (OpWrite 7 20); Resp 1 (Completed (0, 1)%N);
    Resp 2 Timeout; Inv 3 (OpRead 7); Inv 4 (OpWrite 7 30); Resp 4 Refused;
    Resp 3 (Completed (20, 2)%N) ]%N.
Example check_witness_accepts : check_witness ex_hist [1; 2; 3]%N = true.
Proof. vm_compute. reflexivity. Qed.
(* ... and rejects a stale read (the read of 10 after write 2 completed) *)
Example check_witness_rejects_stale :
  check_witness [ Inv 1 (OpWrite 7 10); Resp 1 (Completed (0, 1)%N);
                  Inv 2 (OpWrite 7 20); Resp 2 (Completed (10, 2)%N);
                  Inv 3 (OpRead 7); Resp 3 (Completed (10, 1)%N) ]%N [1; 3; 2]%N = false.
Proof. vm_compute. reflexivity. Qed.

(* tie G: the anchors the argument rests on are present in the source *)
Example anchors_present :
  (c01_read_release_guard && c01_leader_readindex_guard && c01_apply_path_completion) = true.
Proof. vm_compute. reflexivity. Qed.
