(* C14 — snapshot files read back intact; corruption is detected, not loaded.
   Statements only: each theorem is closed by [exact <lemma>]; proofs live in Proofs/.
   bs is the block size (any positive value; the generated 2 MB constant is one instance).

   Not proved here (covered by the differential run and the monitor only, see checks/C14.json):
   the rejecting direction of the streaming validator (validator_language "only if",
   truncation_rejected, flipped streams), the
   general header round trip (unmarshal (marshal h) = h; concrete instances below), the
   checksum half of recorded_size_and_checksum_match (GetV2PayloadChecksum = recorded sum). *)
From DB Require Import Base.Bytes Base.CRC32 Gen.GenC14 Model.SnapshotHeader Model.BlockFile
  Proofs.CRC32 Proofs.BlockFile.
Open Scope N_scope.

(* two byte strings that differ in exactly one bit have different CRC-32 *)
Theorem crc32_single_bit_detected : forall l1 l2,
  wf_bytes l1 -> differ_one_bit l1 l2 -> crc32 l1 <> crc32 l2.
Proof. exact Proofs.CRC32.crc32_single_bit_detected. Qed.
Print Assumptions crc32_single_bit_detected.

(* any difference confined to a window of 32 consecutive bits is detected *)
Theorem crc32_burst_le_32_detected : forall l1 l2 p v,
  wf_bytes l1 -> wf_bytes l2 -> length l1 = length l2 ->
  N.lxor (le_dec l1) (le_dec l2) = 2 ^ N.of_nat p * v -> 0 < v < 2 ^ 32 ->
  crc32 l1 <> crc32 l2.
Proof. exact Proofs.CRC32.crc32_burst_le_32_detected. Qed.
Print Assumptions crc32_burst_le_32_detected.

(* BlockWriter: whatever the segmentation of the Write calls, the bytes handed to the file
   and the recorded payload checksum are the closed form over the concatenation
   (never a panic) *)
Theorem writer_closed_form : forall bs segs, (0 < bs)%nat ->
  v2_body_of bs segs = Some (file_body bs (concat segs), payload_checksum bs (concat segs)).
Proof. exact v2_body_closed_form. Qed.
Print Assumptions writer_closed_form.

Theorem write_depends_only_on_concat : forall bs segs1 segs2, (0 < bs)%nat ->
  concat segs1 = concat segs2 -> v2_body_of bs segs1 = v2_body_of bs segs2.
Proof. exact write_depends_only_on_concat_proved. Qed.
Print Assumptions write_depends_only_on_concat.

(* SnapshotReader on the body the writer produces, for ANY sequence of Read sizes: every
   Read returns the next bytes of the payload, a Read past the end returns the rest with
   io.EOF, later Reads return (0, EOF); no panic; payload lengths 0, multiples of bs etc.
   included *)
Theorem read_write_roundtrip : forall bs p reads, (0 < bs)%nat ->
  fst (sr_reads bs (v2_reader (file_body bs p)) reads) = spec_reads p false reads.
Proof. exact read_write_roundtrip_proved. Qed.
Print Assumptions read_write_roundtrip.

(* the size snapshotter.Save records (GetPayloadSize) is the size of what was written *)
Theorem recorded_size_matches : forall bs p, (0 < bs)%nat ->
  nlen (file_body bs p) = v2_payload_size (N.of_nat bs) (nlen p).
Proof. exact recorded_size_proved. Qed.
Print Assumptions recorded_size_matches.

(* any single bit of the body (block data, block CRCs, tail) flipped: whatever Reads are
   issued, the reader hands out exactly what it hands out for the intact file, or the
   same up to some Read which panics. Altered bytes are never handed out. *)
Theorem single_bit_flip_rejected_or_identical : forall bs p reads i, (0 < bs)%nat -> wf_bytes p ->
  agree_until_panic
    (fst (sr_reads bs (v2_reader (flip_bit (file_body bs p) i)) reads))
    (fst (sr_reads bs (v2_reader (file_body bs p)) reads)).
Proof. exact single_bit_flip_body_proved. Qed.
Print Assumptions single_bit_flip_rejected_or_identical.

(* the body ShrinkSnapshot writes reads back as the 16 byte empty session table, then EOF *)
Theorem shrunk_is_loadable_empty : forall bs, (0 < bs)%nat ->
  fst (sr_reads bs (v2_reader (file_body bs empty_lru_session)) [16%nat; 1%nat]) =
  [OData empty_lru_session; OEof []].
Proof. exact shrunk_body_reads_proved. Qed.
Print Assumptions shrunk_is_loadable_empty.

(* the streaming validator (v2validator.AddChunk loop + Validate) is independent of how the
   block region is cut into chunks: for EVERY chunking the result is Validate applied to
   the concatenation. bs >= 12 is what the 2*(bs+4) look-ahead of AddChunk needs (the tail
   is 16 bytes); the generated block size is 2 MB. *)
Theorem validator_chunking_independent : forall bs chunks, (12 <= bs)%nat -> forall Y T,
  vv_run bs (mkV2V Y T) chunks =
  vv_validate bs (mkV2V (Y ++ concat chunks) (T + nlen (concat chunks))).
Proof. exact vv_run_chunking_independent. Qed.
Print Assumptions validator_chunking_independent.

(* ... and it accepts what the writer produces: every payload (every length: 0, around
   and at multiples of bs, bs-16, ...), every cut of the block region into chunks *)
Theorem validator_accepts_writer_output : forall bs p chunks, (12 <= bs)%nat ->
  nlen (file_body bs p) < 2 ^ 64 -> concat chunks = file_body bs p ->
  vv_run bs (mkV2V [] 0) chunks = true.
Proof. exact validator_accepts_writer_output_proved. Qed.
Print Assumptions validator_accepts_writer_output.

(* SnapshotValidator after the header chunk (chunk ids > 0) is that v2 validator *)
Theorem validator_stream_after_header : forall bs chunks s id, id <> 0 ->
  sv_run bs (V2 s) id chunks = if vv_run bs s chunks then Accept else Reject.
Proof. exact sv_run_v2_proved. Qed.
Print Assumptions validator_stream_after_header.

(* pb.Snapshot.Validate (snapshot record against the files on disk): it returns true only
   when the main file and every external file exist with EXACTLY the recorded, non-zero
   size - shorter and longer files alike are refused (panic with the default settings) *)
Theorem snapshot_validate_exact : forall l, panic_on_size_mismatch = true ->
  snapshot_validate l = PvTrue -> l <> [] /\ Forall pv_exact l.
Proof. exact snapshot_validate_exact_proved. Qed.
Print Assumptions snapshot_validate_exact.

Example ex_snapshot_validate :
  panic_on_size_mismatch = true /\
  snapshot_validate [(true, 1040, Some 1040); (true, 7, Some 7)] = PvTrue /\
  snapshot_validate [(true, 1040, Some 1041)] = PvPanic /\
  snapshot_validate [(true, 1040, Some 1040); (true, 7, Some 8)] = PvPanic /\
  snapshot_validate [(true, 1040, Some 1039)] = PvPanic /\
  snapshot_validate [(true, 1040, Some 1040); (true, 0, Some 0)] = PvFalse.
Proof. vm_compute. repeat split; reflexivity. Qed.

(* ---- non-vacuity and the file level (header included), concrete instances ---- *)

Definition ex_ts : N := 1789000000123456789.
Definition ex_file : bytes :=
  match write_file_v2 8 ex_ts compression_snappy [[1; 2; 3]; []; [4; 5; 6; 7; 8; 9; 10; 11; 12; 13; 14; 15; 16; 17; 18; 19]] with
  | WOk f _ => f | WPanic => [] end.

(* the whole file: header block opens, payload comes back over a block boundary, close ok *)
Example ex_file_roundtrip :
  length ex_file = (1024 + 19 + 3 * 4 + 16)%nat /\
  match read_session 8 ex_file [5%nat; 0%nat; 20%nat; 1%nat] with
  | Sess h obs closed => h_ver h = 2 /\ h_comp h = compression_snappy /\ closed = true /\
      obs = [OData [1; 2; 3; 4; 5]; OData []; OEof [6; 7; 8; 9; 10; 11; 12; 13; 14; 15; 16; 17; 18; 19]; OEof []]
  | _ => False
  end.
Proof. vm_compute. repeat split; reflexivity. Qed.

(* recorded checksum = what GetV2PayloadChecksum computes from the file (instance) *)
Example ex_recorded_checksum :
  file_payload_checksum 8 ex_file = Some (payload_checksum 8 [1; 2; 3; 4; 5; 6; 7; 8; 9; 10; 11; 12; 13; 14; 15; 16; 17; 18; 19]).
Proof. vm_compute. reflexivity. Qed.

(* the stream validator accepts the writer's output under several chunkings (bs >= 12 is
   needed by the validator's 2*(bs+4) look-ahead), and refuses a flipped bit / a cut *)
Definition ex_file16 : bytes :=
  match write_file_v2 16 ex_ts compression_none [[1; 2; 3; 4; 5; 6; 7; 8; 9; 10; 11; 12; 13; 14; 15; 16; 17; 18; 19; 20; 21; 22; 23; 24; 25; 26; 27; 28; 29; 30; 31; 32; 33; 34; 35; 36; 37; 38; 39; 40]] with
  | WOk f _ => f | WPanic => [] end.
Example ex_validator :
  validate_stream 16 [ex_file16] = Accept /\
  validate_stream 16 [firstn 1030 ex_file16; firstn 45 (skipn 1030 ex_file16); skipn 1075 ex_file16] = Accept /\
  validate_stream 16 [flip_bit ex_file16 (8 * 1030 + 3)] = Reject /\
  validate_stream 16 [flip_bit ex_file16 (8 * 20 + 1)] = Reject /\     (* a header byte *)
  validate_stream 16 [firstn (length ex_file16 - 1) ex_file16] = Reject /\
  validate_stream 16 [firstn 1023 ex_file16] = Panic.
Proof. vm_compute. repeat split; reflexivity. Qed.

(* a flipped CompressionType bit in the header is refused (the stored header CRC is checked) *)
Example ex_header_flip_detected :
  exists i, nth (i / 8) ex_file 0 = compression_snappy /\
            read_session 8 (flip_bit ex_file i) [19%nat] = SessPanic.
Proof. exists (8 * 41)%nat. vm_compute. split; reflexivity. Qed.

(* the all-zero escape of validateHeader: a header whose 4 CRC bytes are zero is accepted
   unchecked - files written before the CRC was stored there, see checks/C14.json *)
Example ex_zero_crc_escape : validate_header [1; 2; 3] [0; 0; 0; 0] = true.
Proof. reflexivity. Qed.

(* shrink: the produced file is a valid v2 file, IsShrunkSnapshotFile says yes *)
Example ex_shrink :
  match shrink 16 ex_ts ex_file16 with
  | ShrinkOk nf => is_shrunk 16 nf = ShrOk true /\ validate_stream 16 [nf] = Accept /\
                   is_shrunk 16 ex_file16 = ShrOk false
  | _ => False
  end.
Proof. vm_compute. repeat split; reflexivity. Qed.

(* hypotheses of the bit flip theorem are satisfiable with an effect: a data bit flipped *)
Example ex_flip_panics :
  fst (sr_reads 8 (v2_reader (flip_bit (file_body 8 [1; 2; 3; 4; 5; 6; 7; 8; 9; 10]) 100)) [4%nat; 8%nat])
  = [OData [1; 2; 3; 4]; OPanic].
Proof. vm_compute. reflexivity. Qed.
