(* C14 — snapshot files read back intact; corruption is detected, not loaded.
   Statements only: each theorem is closed by [exact <lemma>]; proofs live in Proofs/. *)
From DB Require Import Base.Bytes Base.CRC32 Model.SnapshotHeader Model.BlockFile Proofs.CRC32.
Open Scope N_scope.

(* two byte strings that differ in exactly one bit have different CRC-32 *)
Theorem crc32_single_bit_detected : forall l1 l2,
  wf_bytes l1 -> differ_one_bit l1 l2 -> crc32 l1 <> crc32 l2.
Proof. exact Proofs.CRC32.crc32_single_bit_detected. Qed.
Print Assumptions crc32_single_bit_detected.

(* any difference confined to a window of 32 consecutive bits is detected *)
Theorem crc32_burst_le_32_detected : forall l1 l2 p v,
  wf_bytes l1 -> wf_bytes l2 -> length l1 = length l2 ->
  N.lxor (le_dec l1) (le_dec l2) = 2 ^ N.of_nat p * v -> 0 < v < 2 ^ 32 ->
  crc32 l1 <> crc32 l2.
Proof. exact Proofs.CRC32.crc32_burst_le_32_detected. Qed.
Print Assumptions crc32_burst_le_32_detected.
