(* C10 — the log store is crash-atomic and never reports a failed write as success.
   Statements only: each theorem is closed by [exact <lemma>]; proofs live in Proofs/.

   Vocabulary (Model/LogDBFaulty.v):
     fdb                       the Pebble-backed log db (durable KV map + in-memory cache) plus
                               the KV oracle: the call counter, the fault (n, kind) = the n-th KV
                               call returns an I/O error / the process dies before / after it
                               took effect, and the trace of KV calls
     f_step b fl d o           one API operation (b: batched entry format; fl: which repairs
                               the code contains); result FOk | FErr | FPanic | FCrash
     cur_flags                 the flags regenerated from the source of /repo (Gen/GenC10.v);
                               the theorems about the current code are stated for cur_flags and
                               proved for all_fixed: they stop checking when a repair is undone
     f_run b fl d ops          runs until the first operation that does not report success:
                               (number of acknowledged operations, result of the one in
                               flight, final state)
     ref_step / ref_run        the fault-free C09 models (Model/LogDBPlain.v, LogDBBatched.v)
     recovered d               reopen after the process died: durable map, empty cache
   Tan record layer (Model/TanRecord.v): frame / replay, see below. *)
From DB Require Import Base.Bytes Gen.GenC09 Gen.GenC10 Model.LogStoreSpec Model.KV Model.LogDBPlain
  Model.LogDBBatched Model.LogDBFaulty Proofs.LogDBFaulty.
Open Scope N_scope.

(* ERROR PROPAGATION.  If any KV call (read or write) made by an operation of the current
   code returns an error, the operation does not report success.  All operations:
   SaveRaftState, SaveSnapshots, RemoveEntriesTo, RemoveNodeData, ImportSnapshot; both
   entry formats; every state, every call index. *)
Theorem error_never_success : forall b d o r d' n,
  f_fault (d_st d) = Some (n, FtErr) ->
  f_step b cur_flags d o = (r, d') ->
  fired (d_st d) (d_st d') n -> r <> FOk.
Proof. exact error_never_success_proved. Qed.
Print Assumptions error_never_success.

(* Success means persisted: whatever the fault, an operation of the current code that
   reports success has left exactly the durable map and cache of the complete fault-free
   operation. *)
Theorem success_is_persisted : forall b d o d',
  f_step b cur_flags d o = (FOk, d') -> ref_step b (pdb_of d) o = Some (pdb_of d').
Proof. exact success_is_persisted_proved. Qed.
Print Assumptions success_is_persisted.

(* The code BEFORE the repairs (findings F1, F2) refutes error_never_success; the witnesses
   are replayed on the implementation (corpus/C10/f1_f2_witness.txt). *)
Theorem error_never_success_refuted_f1 :
  exists d us n p',
    let res := f_save_raft_state false false true d us in
    f_fault (d_st d) = Some (n, FtErr) /\
    fired (d_st d) (d_st (snd res)) n /\
    fst res = FOk /\ d_kv (snd res) = d_kv d /\
    p_save_raft_state (pdb_of d) us = Some p' /\ p_kv p' <> d_kv d.
Proof. exact error_never_success_refuted_f1_proved. Qed.
Print Assumptions error_never_success_refuted_f1.

Theorem error_never_success_refuted_f1_snapshots :
  exists d n ss p',
    let res := f_save_snapshots false d [mk_snap_update n ss] in
    f_fault (d_st d) = Some (0, FtErr) /\
    fired (d_st d) (d_st (snd res)) 0 /\
    fst res = FOk /\ d_kv (snd res) = d_kv d /\
    p_save_snapshots (pdb_of d) [mk_snap_update n ss] = Some p' /\ p_kv p' <> d_kv d.
Proof. exact error_never_success_refuted_f1_snapshots_proved. Qed.
Print Assumptions error_never_success_refuted_f1_snapshots.

Theorem error_never_success_refuted_f2 :
  exists ops n p,
    let res := f_run true (mkFl true true false) (fdb_init (Some (n, FtErr))) ops in
    snd (fst res) = FOk /\ fst (fst res) = length ops /\ n < f_calls (d_st (snd res)) /\
    ref_run true ops = Some p /\
    b_iterate p w_node 1 6 (2 ^ 62) = RIter [w_ent 1; w_ent 2; w_ent 3; w_ent 4; w_ent 5] 680 /\
    b_iterate (recovered (snd res)) w_node 1 6 (2 ^ 62) = RIter [] 0.
Proof. exact error_never_success_refuted_f2_proved. Qed.
Print Assumptions error_never_success_refuted_f2.

(* CRASH ATOMICITY at the KV level.  For every operation sequence, every fault (an error
   or a crash before / after any KV call, or none): the acknowledged prefix ran exactly as
   the fault-free model, and the durable map found by recovery is
     - the one after the acknowledged prefix, or
     - the one after the acknowledged prefix plus the COMPLETE operation in flight, or
     - for RemoveNodeData in flight only: its write batch applied, its range delete not
       (the removed replica's hard state, max index and snapshot records are gone, entry
       keys are still there; nothing of the replica is readable in that state).
   A run without an effective fault ends with the fault-free state. *)
Theorem crash_atomic_kv : forall b ft ops k r d',
  f_run b cur_flags (fdb_init ft) ops = (k, r, d') ->
  exists p, ref_run b (firstn k ops) = Some p /\
    ((r = FOk /\ k = length ops /\ recovered d' = p_reopen p) \/
     (r <> FOk /\ (k < length ops)%nat /\ crash_state b p (nth_error ops k) (d_kv d'))).
Proof. exact crash_atomic_kv_proved. Qed.
Print Assumptions crash_atomic_kv.

(* non-vacuity: the repaired model fails the witnesses of F1 and F2; a crash after the
   commit of the second save of a run leaves acked + in flight *)
Example c10_example_f1 : fst (f_save_raft_state false true true f1_db [f1_update]) = FErr.
Proof. vm_compute. reflexivity. Qed.
Example c10_example_crash :
  let res := f_run true cur_flags (fdb_init (Some (3, FtCrashAfter))) f2_ops in
  fst (fst res) = 2%nat /\ snd (fst res) = FCrash /\
  b_iterate (recovered (snd res)) w_node 1 6 (2 ^ 62) = RIter [w_ent 1; w_ent 2; w_ent 3; w_ent 4; w_ent 5] 680.
Proof. vm_compute. repeat split; reflexivity. Qed.
