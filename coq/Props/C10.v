(* C10 — the log store is crash-atomic and never reports a failed write as success.
   Statements only: each theorem is closed by [exact <lemma>]; proofs live in Proofs/.

   Vocabulary (Model/LogDBFaulty.v):
     fdb                       the Pebble-backed log db (durable KV map + in-memory cache) plus
                               the KV oracle: the call counter, the fault (n, kind) = the n-th KV
                               call returns an I/O error / the process dies before / after it
                               took effect, and the trace of KV calls
     f_step b fl d o           one API operation (b: batched entry format; fl: which repairs
                               the code contains); result FOk | FErr | FPanic | FCrash
     cur_flags                 the flags regenerated from the source of /repo (Gen/GenC10.v);
                               the theorems about the current code are stated for cur_flags and
                               proved for all_fixed: they stop checking when a repair is undone
     f_run b fl d ops          runs until the first operation that does not report success:
                               (number of acknowledged operations, result of the one in
                               flight, final state)
     ref_step / ref_run        the fault-free C09 models (Model/LogDBPlain.v, LogDBBatched.v)
     recovered d               reopen after the process died: durable map, empty cache
   Tan record layer (Model/TanRecord.v): frame / replay, see below. *)
From DB Require Import Base.Bytes Gen.GenC09 Gen.GenC10 Model.LogStoreSpec Model.KV Model.LogDBPlain
  Model.LogDBBatched Model.LogDBFaulty Model.TanRecord Proofs.LogDBPlain Proofs.LogDBFaulty
  Proofs.LogDBFaultySpec Proofs.LogDBFaultyTrace Proofs.TanRecord Proofs.TanRecordMulti.
Open Scope N_scope.

(* ERROR PROPAGATION.  If any KV call (read or write) made by an operation of the current
   code returns an error, the operation does not report success.  All operations:
   SaveRaftState, SaveSnapshots, RemoveEntriesTo, RemoveNodeData, ImportSnapshot; both
   entry formats; every state, every call index. *)
Theorem error_never_success : forall b d o r d' n,
  f_fault (d_st d) = Some (n, FtErr) ->
  f_step b cur_flags d o = (r, d') ->
  fired (d_st d) (d_st d') n -> r <> FOk.
Proof. exact error_never_success_proved. Qed.
Print Assumptions error_never_success.

(* Success means persisted: whatever the fault, an operation of the current code that
   reports success has left exactly the durable map and cache of the complete fault-free
   operation. *)
Theorem success_is_persisted : forall b d o d',
  f_step b cur_flags d o = (FOk, d') -> ref_step b (pdb_of d) o = Some (pdb_of d').
Proof. exact success_is_persisted_proved. Qed.
Print Assumptions success_is_persisted.

(* The code BEFORE the repairs (findings F1, F2) refutes error_never_success; the witnesses
   are replayed on the implementation (corpus/C10/f1_f2_witness.txt). *)
Theorem error_never_success_refuted_f1 :
  exists d us n p',
    let res := f_save_raft_state false false true d us in
    f_fault (d_st d) = Some (n, FtErr) /\
    fired (d_st d) (d_st (snd res)) n /\
    fst res = FOk /\ d_kv (snd res) = d_kv d /\
    p_save_raft_state (pdb_of d) us = Some p' /\ p_kv p' <> d_kv d.
Proof. exact error_never_success_refuted_f1_proved. Qed.
Print Assumptions error_never_success_refuted_f1.

Theorem error_never_success_refuted_f1_snapshots :
  exists d n ss p',
    let res := f_save_snapshots false d [mk_snap_update n ss] in
    f_fault (d_st d) = Some (0, FtErr) /\
    fired (d_st d) (d_st (snd res)) 0 /\
    fst res = FOk /\ d_kv (snd res) = d_kv d /\
    p_save_snapshots (pdb_of d) [mk_snap_update n ss] = Some p' /\ p_kv p' <> d_kv d.
Proof. exact error_never_success_refuted_f1_snapshots_proved. Qed.
Print Assumptions error_never_success_refuted_f1_snapshots.

Theorem error_never_success_refuted_f2 :
  exists ops n p,
    let res := f_run true (mkFl true true false) (fdb_init (Some (n, FtErr))) ops in
    snd (fst res) = FOk /\ fst (fst res) = length ops /\ n < f_calls (d_st (snd res)) /\
    ref_run true ops = Some p /\
    b_iterate p w_node 1 6 (2 ^ 62) = RIter [w_ent 1; w_ent 2; w_ent 3; w_ent 4; w_ent 5] 680 /\
    b_iterate (recovered (snd res)) w_node 1 6 (2 ^ 62) = RIter [] 0.
Proof. exact error_never_success_refuted_f2_proved. Qed.
Print Assumptions error_never_success_refuted_f2.

(* CRASH ATOMICITY at the KV level.  For every operation sequence, every fault (an error
   or a crash before / after any KV call, or none): the acknowledged prefix ran exactly as
   the fault-free model, and the durable map found by recovery is
     - the one after the acknowledged prefix, or
     - the one after the acknowledged prefix plus the COMPLETE operation in flight, or
     - for RemoveNodeData in flight only: its write batch applied, its range delete not
       (the removed replica's hard state, max index and snapshot records are gone, entry
       keys are still there; nothing of the replica is readable in that state).
   A run without an effective fault ends with the fault-free state. *)
Theorem crash_atomic_kv : forall b ft ops k r d',
  f_run b cur_flags (fdb_init ft) ops = (k, r, d') ->
  exists p, ref_run b (firstn k ops) = Some p /\
    ((r = FOk /\ k = length ops /\ recovered d' = p_reopen p) \/
     (r <> FOk /\ (k < length ops)%nat /\ crash_state b p (nth_error ops k) (d_kv d'))).
Proof. exact crash_atomic_kv_proved. Qed.
Print Assumptions crash_atomic_kv.

(* ONE BATCH PER SAVE.  Regenerated facts: db.saveRaftState contains exactly one
   CommitWriteBatch call, its helpers contain no other KV write call, commits are synced
   (pebble.WriteOptions{Sync: true}).  Model, at the level of the KV call trace (f_trace, newest
   call first), for BOTH entry formats, EVERY variant of the error handling (f1, f2), every
   state, every fault: the calls one SaveRaftState makes are read calls (GetValue /
   IterateValue) followed by at most one write call, which is a CommitWriteBatch of a
   non-empty batch w; the durable map afterwards is the old one, or the old one with exactly
   w applied, and it is the latter whenever the save reports success.  So all puts and deletes
   of one save are in one batch, there is no second write call that could be separated from it
   by a crash.  (That the implementation makes the same calls with the same batch contents is the
   differential tie: the `| calls` column compared on every operation of every case.) *)
Theorem save_is_one_batch :
  (c10_save_raft_state_commit_calls = 1 /\ c10_save_path_other_write_calls = 0 /\ c10_commit_sync = true) /\
  forall b f1 f2 d us r d', f_save_raft_state b f1 f2 d us = (r, d') ->
    exists rds, Forall (fun c => is_write c = false) rds /\
      ((f_trace (d_st d') = rds ++ f_trace (d_st d) /\ d_kv d' = d_kv d) \/
       (exists w, w <> [] /\ f_trace (d_st d') = CCommit w :: rds ++ f_trace (d_st d) /\
                  (d_kv d' = d_kv d \/ d_kv d' = kv_commit (d_kv d) w) /\
                  (r = FOk -> d_kv d' = kv_commit (d_kv d) w))).
Proof. exact (conj (proj1 save_is_one_batch_proved) save_is_one_batch_trace). Qed.
Print Assumptions save_is_one_batch.

(* THE RECOVERED LOG (plain format, contract-abiding runs: wf_ops = what the raft core
   guarantees, Model/LogStoreSpec.v).  After any fault at any KV call the recovered store
   refines the logical log s after the acknowledged operations or after the acknowledged
   operations plus the one in flight (log_ok, Proofs/LogDBFaultySpec.v): every contract-abiding
   IterateEntries / ReadRaftState / GetSnapshot answers as the logical log does; per replica the
   log is gap-free (contig from marker+1), every entry of it is stored, the recorded max index is
   its last index, and the hard state record is the logical one - i.e. one that was written.
   (RemoveNodeData in flight is excluded here: see crash_atomic_kv for its intermediate state.) *)
Theorem recovered_log_gap_free_and_ends_at_max : forall ft ops k r d',
  wf_ops spec_init ops = true ->
  f_run false cur_flags (fdb_init ft) ops = (k, r, d') ->
  (forall n, nth_error ops k <> Some (ORemNode n)) ->
  exists s, (s = spec_run spec_init (firstn k ops) \/
             (r <> FOk /\ s = spec_run spec_init (firstn (S k) ops))) /\
            log_ok (recovered d') s.
Proof. exact recovered_log_proved. Qed.
Print Assumptions recovered_log_gap_free_and_ends_at_max.

(* TAN RECORD LAYER (Model/TanRecord.v; ck = the checksum function, a parameter of which
   only ck b < 2^32 is used; lognum = the reader's log number).
   Records of ARBITRARY sizes: full chunks, first / middle / last chunks over any number of
   32 KB blocks, zero padding when fewer than 7 bytes are left in a block, records ending
   exactly at a block boundary, a trailer smaller than a chunk header. *)
Theorem tan_replay_roundtrip : forall ck lognum, (forall b, ck b < 2 ^ 32) ->
  forall rs, replay ck lognum (frame ck rs) = (rs, VEof).
Proof. exact tan_replay_roundtrip_proved. Qed.
Print Assumptions tan_replay_roundtrip.

(* Anything after the complete records (garbage, zeroes, a torn or foreign chunk): if the
   reader rejects the first record it finds there - for whatever reason, v is its verdict -
   replay returns exactly the complete records.  v can be VCrc (a chunk-shaped tail with a
   wrong checksum), which open() does not treat as a torn tail: see the report. *)
Theorem tan_replay_rejected_tail : forall ck lognum, (forall b, ck b < 2 ^ 32) ->
  forall rs g v, read_record ck lognum (nlen (frame ck rs) mod blk) g = RecStop v ->
  replay ck lognum (frame ck rs ++ g) = (rs, v).
Proof. exact tan_replay_rejected_tail_proved. Qed.
Print Assumptions tan_replay_rejected_tail.

(* EVERY CUT POINT.  The written bytes are cut (truncated) at ANY byte: inside the zero
   padding at a block end, inside a chunk header, inside the payload of a full / first /
   middle / last chunk, or exactly between two chunks of one record.  Replay returns a prefix
   of the written records - exactly the records whose bytes are completely inside the cut
   (k is maximal), unaltered, never a fabricated one - and stops with a verdict that open()
   treats as a torn tail (EOF, invalid chunk, unexpected EOF), never with the checksum error
   that makes open() fail.
   Assumption on the checksum oracle: ck b < 2^32 only (no collision-freeness is needed for
   pure truncation).  Garbage after the cut is covered by tan_replay_rejected_tail when it
   starts where a record would start and the reader rejects its first record; garbage that
   continues a half-written record (a cut inside a record followed by foreign bytes) is NOT
   covered by a theorem: there the outcome depends on the checksum of the foreign bytes
   (compared differentially, tangarb cases). *)
Theorem tan_replay_ignores_torn_tail : forall ck lognum, (forall b, ck b < 2 ^ 32) ->
  forall rs cut,
  exists k v, replay ck lognum (takeN cut (frame ck rs)) = (firstn k rs, v) /\
              recoverable v = true /\
              nlen (frame ck (firstn k rs)) <= cut /\
              ((k < length rs)%nat -> cut < nlen (frame ck (firstn (S k) rs))).
Proof. exact tan_replay_any_cut_proved. Qed.
Print Assumptions tan_replay_ignores_torn_tail.

(* the same, in the form "complete records followed by a torn one" *)
Theorem tan_replay_torn_record : forall ck lognum, (forall b, ck b < 2 ^ 32) ->
  forall rs r c, c < nlen (write_record ck (nlen (frame ck rs)) r) ->
  exists v, replay ck lognum (frame ck rs ++ takeN c (write_record ck (nlen (frame ck rs)) r)) = (rs, v) /\
            recoverable v = true.
Proof. exact tan_replay_torn_record_proved. Qed.
Print Assumptions tan_replay_torn_record.

(* NOT every tail is recoverable: "whatever follows the complete records, replay stops with
   a verdict open() recovers from" is refuted - a chunk-shaped tail whose checksum does not
   match stops replay with VCrc (ErrCRCMismatch), which is not in tan's IsInvalidRecord, so
   open() fails instead of cutting the log there.  The witness is replayed on the real reader
   (corpus/C10/tan_crc_tail.txt: verdict crc on both sides).  Unreachable by pure truncation
   (tan_replay_ignores_torn_tail); reachable only if unsynced pages reach the disk out of
   order (header page written, payload page not). *)
Theorem tan_garbage_tail_recoverable_refuted :
  exists ck lognum rs g, (forall b, ck b < 2 ^ 32) /\
    replay ck lognum (frame ck rs ++ g) = (rs, VCrc) /\ recoverable VCrc = false.
Proof. exact tan_garbage_tail_recoverable_refuted_proved. Qed.
Print Assumptions tan_garbage_tail_recoverable_refuted.

(* TAN SAVE PATH, fsync and error rules (the shape of the code is regenerated into
   Gen/GenC10.v; these obligations stop checking when it changes, the black-box crash
   search and the I/O error injection (tanio) then look for a failing input):
   - multiplexed mode: the shared log file is fsynced at the end of a SaveRaftState call if
     ANY update of the call needs it (entries, snapshot record, term/vote change), whatever
     the position of that update in the batch;
   - regular mode: every update that needs it is fsynced;
   - an error of the log rollover fails the write (and with it the save). *)
Theorem tan_batch_fsync_if_any_update_needs_it : forall needs,
  In true needs -> tan_batch_sync needs = true.
Proof. exact tan_batch_sync_any. Qed.
Print Assumptions tan_batch_fsync_if_any_update_needs_it.

Theorem tan_regular_fsync_every_update_that_needs_it : forall needs, tan_seq_sync needs = needs.
Proof. exact tan_seq_sync_each. Qed.
Print Assumptions tan_regular_fsync_every_update_that_needs_it.

Theorem tan_rollover_error_fails_the_save : forall w, tan_write_result true w = false.
Proof. exact tan_rollover_error_fails. Qed.
Print Assumptions tan_rollover_error_fails_the_save.

(* THE ENGINE STOPS ON A LOG STORE ERROR (shape of engine.go / snapshotter.go, regenerated):
   processSteps hands the error of SaveRaftState on, snapshotter.saveSnapshot hands the error
   of SaveSnapshots on, and in every worker main loop (step, commit, apply, snapshot, close)
   every `if err := ...; err != nil` ends in panicNow.  This is a statement about these code
   shapes only; the behaviour - the process dies by a panic, no message leaves the host after
   the failed save, nothing of the failed update is applied or reported completed, the hosts
   come back with every completed proposal - is what the nhfail cases execute on real
   NodeHosts over a log store whose k-th SaveRaftState / SaveSnapshots fails. *)
Theorem engine_stops_on_store_error :
  c10_process_steps_propagates_save_error = true /\
  c10_snapshotter_propagates_save_snapshots_error = true /\
  c10_engine_workers_panic_on_error = true.
Proof. exact engine_stops_on_store_error_proved. Qed.
Print Assumptions engine_stops_on_store_error.

Example c10_example_tan_batch : tan_batch_sync [true; false; false] = true /\ tan_batch_sync [false; false] = false.
Proof. vm_compute. split; reflexivity. Qed.

Example c10_example_tan :
  let ck := fun b : bytes => 7 + nlen b in
  replay ck 0 (frame ck [[1; 2; 3]; []; [9]]) = ([[1; 2; 3]; []; [9]], VEof) /\
  replay ck 0 (takeN 20 (frame ck [[1; 2; 3]; []; [9]])) = ([[1; 2; 3]; []], VInvalid) /\
  (* a record of 40000 bytes: first + last chunk over two blocks *)
  nlen (frame ck [repeat 5 (N.to_nat 40000)]) = 40014 /\
  fst (replay ck 0 (takeN 33000 (frame ck [[1]; repeat 5 (N.to_nat 40000)]))) = [[1]].
Proof. vm_compute. repeat split; reflexivity. Qed.

(* non-vacuity: the repaired model fails the witnesses of F1 and F2; a crash after the
   commit of the second save of a run leaves acked + in flight *)
Example c10_example_f1 : fst (f_save_raft_state false true true f1_db [f1_update]) = FErr.
Proof. vm_compute. reflexivity. Qed.
Example c10_example_crash :
  let res := f_run true cur_flags (fdb_init (Some (3, FtCrashAfter))) f2_ops in
  fst (fst res) = 2%nat /\ snd (fst res) = FCrash /\
  b_iterate (recovered (snd res)) w_node 1 6 (2 ^ 62) = RIter [w_ent 1; w_ent 2; w_ent 3; w_ent 4; w_ent 5] 680.
Proof. vm_compute. repeat split; reflexivity. Qed.
