(* C07 — membership changes are safe, ordered and identical on all replicas.
   Statements only: each theorem is closed by [exact <lemma>]; proofs live in
   Proofs/Membership.v. Part 1 (this section of the file): the membership RULES
   (internal/rsm/membership.go), for every address normalisation function [norm]
   and every sequence of requests. The raft-side theorems are appended below
   part 1 by their own work package. *)
From DB Require Import Base.Bytes Gen.GenC07 Model.Membership Proofs.Membership.
Open Scope N_scope.

(* ------------------------------------------------------------------ *)
(* Part 1: membership rules                                             *)

(* no replica id is ever of two kinds (voting / non-voting / witness) *)
Theorem kinds_disjoint : forall norm ordered reqs m,
  kinds_disjoint_inv m -> kinds_disjoint_inv (fst (run norm ordered m reqs)).
Proof. exact kinds_disjoint_run. Qed.
Print Assumptions kinds_disjoint.
