(* C07 — membership changes are safe, ordered and identical on all replicas.
   Statements only: each theorem is closed by [exact <lemma>]; proofs live in
   Proofs/Membership.v.

   Part 1 (below): the membership RULES (internal/rsm/membership.go) on the
   model Model/Membership.v. Every theorem holds for every address
   normalisation function [norm] (the code: trim white space + case fold), for
   ordered config change on and off, for EVERY sequence [reqs] of requests
   (decoded config change entry, log index) - valid, invalid, repeated,
   concurrent - and from every membership [m] meeting the stated invariant (the
   empty membership and every membership restored from a snapshot of a replica
   that started empty meet all of them).
     run norm ordered m reqs = (final membership, verdict per request)

   Part 2 (appended below part 1 by the raft-side work package): one
   unapplied config change in the leader's log, no campaign with an unapplied
   change, C02/C03 across membership changes. *)
From DB Require Import Base.Bytes Gen.GenC07 Model.Membership Proofs.Membership.
Open Scope N_scope.

(* ================================================================== *)
(* Part 1: membership rules                                             *)

(* --- kinds ---------------------------------------------------------- *)

(* no replica id is ever of two kinds (voting / non-voting / witness) *)
Theorem kinds_disjoint : forall norm ordered reqs m,
  kinds_disjoint_inv m -> kinds_disjoint_inv (fst (run norm ordered m reqs)).
Proof. exact kinds_disjoint_run. Qed.
Print Assumptions kinds_disjoint.

(* over any sequence of requests a replica that stays (or is again) a member
   has the kind it had, or went from non-voting to voting *)
Theorem only_promotion_changes_kind : forall norm ordered reqs m id k k',
  removed_disjoint_inv m ->
  kind_of m id = Some k -> kind_of (fst (run norm ordered m reqs)) id = Some k' ->
  k = k' \/ (k = NonVoting /\ k' = Voting).
Proof. exact kind_run. Qed.
Print Assumptions only_promotion_changes_kind.

(* ... and the one request that changes a kind is an applied AddNode for that
   non-voting replica carrying (a spelling of) its own address *)
Theorem kind_change_is_promotion : forall norm ordered m c i m' v id k k',
  step norm ordered m (c, i) = (m', v) ->
  kind_of m id = Some k -> kind_of m' id = Some k' -> k <> k' ->
  v = VApplied /\ k = NonVoting /\ k' = Voting /\ id = cc_replica c /\ cc_type c = cc_add_node /\
  exists oa, alookup id (m_nonvotings m) = Some oa /\ address_equal norm oa (cc_addr c) = true.
Proof. exact kind_step. Qed.
Print Assumptions kind_change_is_promotion.

(* --- removed ids ---------------------------------------------------- *)

(* removed ids are not members, stay removed for ever and are never members again *)
Theorem removed_disjoint_and_permanent : forall norm ordered reqs m,
  removed_disjoint_inv m ->
  removed_disjoint_inv (fst (run norm ordered m reqs)) /\
  forall id, rmem id (m_removed m) = true ->
             rmem id (m_removed (fst (run norm ordered m reqs))) = true /\
             kind_of (fst (run norm ordered m reqs)) id = None.
Proof. exact removed_disjoint_and_permanent_proved. Qed.
Print Assumptions removed_disjoint_and_permanent.

(* every request to add (as any kind) a removed id is rejected, membership untouched *)
Theorem removed_id_add_rejected : forall norm ordered m c i,
  rmem (cc_replica c) (m_removed m) = true -> is_add_type (cc_type c) = true ->
  step norm ordered m (c, i) = (m, VRejected).
Proof. exact removed_id_add_rejected_proved. Qed.
Print Assumptions removed_id_add_rejected.

(* --- the last voting member ------------------------------------------ *)

(* once there is a voting member there always is one (voters_inv: the voting
   map has unique keys - true of every Go map - and is not empty) *)
Theorem last_voter_not_removable : forall norm ordered reqs m,
  voters_inv m -> voters_inv (fst (run norm ordered m reqs)).
Proof. exact last_voter_not_removable_proved. Qed.
Print Assumptions last_voter_not_removable.

Theorem remove_last_voter_rejected : forall norm ordered m c i,
  alen (m_addresses m) = 1 -> amem (cc_replica c) (m_addresses m) = true ->
  cc_type c = cc_remove_node ->
  step norm ordered m (c, i) = (m, VRejected).
Proof. exact remove_last_voter_rejected_proved. Qed.
Print Assumptions remove_last_voter_rejected.

(* --- addresses ------------------------------------------------------- *)

(* two different members never have addresses that compare equal *)
Theorem address_unique : forall norm ordered reqs m,
  address_unique_inv norm m -> address_unique_inv norm (fst (run norm ordered m reqs)).
Proof. exact address_unique_run. Qed.
Print Assumptions address_unique.

(* a request to add a replica under an address another member uses is rejected *)
Theorem add_used_address_rejected : forall norm ordered m c i id2 a2,
  is_add_type (cc_type c) = true ->
  In (id2, a2) (all_members m) -> id2 <> cc_replica c ->
  address_equal norm a2 (cc_addr c) = true ->
  address_unique_inv norm m ->
  step norm ordered m (c, i) = (m, VRejected).
Proof. exact add_used_address_rejected_proved. Qed.
Print Assumptions add_used_address_rejected.

(* a replica keeps its address (up to normalisation) for as long as it is a member *)
Theorem member_address_stable : forall norm ordered reqs m id a a',
  removed_disjoint_inv m ->
  addr_of m id = Some a -> addr_of (fst (run norm ordered m reqs)) id = Some a' ->
  address_equal norm a a' = true.
Proof. exact addr_run. Qed.
Print Assumptions member_address_stable.

(* --- ConfigChangeId and ordered config change ------------------------ *)

(* the membership's ConfigChangeId is the log index of the last applied change *)
Theorem ccid_is_index_of_last_applied_change : forall norm ordered reqs m,
  m_ccid (fst (run norm ordered m reqs)) =
  last_applied (m_ccid m) reqs (snd (run norm ordered m reqs)).
Proof. exact ccid_run. Qed.
Print Assumptions ccid_is_index_of_last_applied_change.

(* ordered config change: a request whose ConfigChangeID is not the current one is rejected *)
Theorem ordered_stale_id_rejected : forall norm m c i,
  cc_init c = false -> cc_ccid c <> m_ccid m ->
  step norm true m (c, i) = (m, VRejected).
Proof. exact ordered_stale_id_rejected_proved. Qed.
Print Assumptions ordered_stale_id_rejected.

(* ordered config change, concurrent requests: with log indexes increasing (as
   they do in a log) no two applied requests carry the same ConfigChangeID, i.e.
   of the requests built on one membership view at most one takes effect *)
Theorem ordered_one_winner_per_ccid : forall norm reqs m lo,
  m_ccid m <= lo -> idx_increasing lo reqs ->
  NoDup (applied_ccids reqs (snd (run norm true m reqs))).
Proof. exact ordered_one_winner_per_ccid_proved. Qed.
Print Assumptions ordered_one_winner_per_ccid.

(* --- same outcome everywhere ------------------------------------------ *)

(* The verdicts and the final membership are a function of the log and of the
   CONTENT of the start membership: the model has no other input (no replica or
   shard id, clock, randomness), and two replicas whose maps hold the same
   entries in any internal order ([mequiv]: equal lookups, equal removed set,
   equal ConfigChangeId; Go map layout / iteration order differ between
   replicas and runs) produce the same verdict for every request and end in
   memberships with the same content. *)
Theorem outcome_is_function_of_log : forall norm ordered reqs m1 m2,
  nodup_inv m1 -> nodup_inv m2 -> mequiv m1 m2 ->
  snd (run norm ordered m1 reqs) = snd (run norm ordered m2 reqs) /\
  mequiv (fst (run norm ordered m1 reqs)) (fst (run norm ordered m2 reqs)).
Proof. exact run_equiv. Qed.
Print Assumptions outcome_is_function_of_log.

(* a replica that took / installed a snapshot after [l1] (membership.get / set)
   continues exactly like one that applied the whole log *)
Theorem snapshot_cut_same_outcome : forall norm ordered l1 l2 m,
  run norm ordered m (l1 ++ l2) =
  let '(m1, v1) := run norm ordered m l1 in
  if has_panic v1 then (m1, v1)
  else let '(m2, v2) := run norm ordered (m_set (m_get m1)) l2 in (m2, v1 ++ v2).
Proof. exact run_app. Qed.
Print Assumptions snapshot_cut_same_outcome.

(* --- restart of a replica with an on disk state machine ---------------- *)
(* StateMachine.handleEntry (model: sm_handle_entry / sm_run): config change
   entries are applied whatever index the on disk state machine reported on
   Open; only ordinary updates at or below it are skipped. *)

(* membership and verdicts of a replica = [run] on the config change entries of
   its log, for every on-disk index *)
Theorem replica_membership_is_function_of_log : forall norm ordered on_disk odi es r,
  r_members (fst (sm_run norm ordered on_disk odi r es)) =
    fst (run norm ordered (r_members r) (cc_reqs es)) /\
  snd (sm_run norm ordered on_disk odi r es) =
    snd (run norm ordered (r_members r) (cc_reqs es)).
Proof. exact sm_run_is_run. Qed.
Print Assumptions replica_membership_is_function_of_log.

Theorem on_disk_index_irrelevant : forall norm ordered od1 k1 od2 k2 r1 r2 es,
  r_members r1 = r_members r2 ->
  r_members (fst (sm_run norm ordered od1 k1 r1 es)) =
    r_members (fst (sm_run norm ordered od2 k2 r2 es)) /\
  snd (sm_run norm ordered od1 k1 r1 es) = snd (sm_run norm ordered od2 k2 r2 es).
Proof. exact on_disk_index_irrelevant_proved. Qed.
Print Assumptions on_disk_index_irrelevant.

(* replica A applies l1 ++ l2 and never restarts; replica B restarted after a
   snapshot record taken after l1 (its on disk state machine reporting ANY index
   k2 on Open, in particular one above config changes of l2), recovered from the
   record and replayed l2: same membership, same verdicts on l2 *)
Theorem restart_replay_same_membership : forall norm ordered od1 k1 od2 k2 r l1 l2 ss_index,
  let a := sm_run norm ordered od1 k1 r (l1 ++ l2) in
  let s := sm_run norm ordered od1 k1 r l1 in
  let b := sm_run norm ordered od2 k2 (sm_recover (m_get (r_members (fst s))) ss_index) l2 in
  has_panic (snd s) = false ->
  r_members (fst b) = r_members (fst a) /\ snd a = snd s ++ snd b.
Proof. exact restart_replay_same_membership_proved. Qed.
Print Assumptions restart_replay_same_membership.

(* --- replica kind ------------------------------------------------------ *)
(* The model's replica (sm_run) has no "kind" input: a replica started as a full
   member, with config.IsNonVoting or with config.IsWitness computes the same
   verdicts and membership from the same log (replica_membership_is_function_of_log
   above is that statement). The only per-replica parameter is [ordered]; in the
   code it is the third argument of newMembership in rsm.NewStateMachine, which
   genmodel checks to be exactly cfg.OrderedConfigChange (GenC07.v), a shard-wide
   setting. The harness feeds one log to real StateMachines of the three kinds. *)
Theorem ordered_flag_independent_of_replica_kind : membership_ordered_is_config_ordered = true.
Proof. exact ordered_flag_is_config_flag. Qed.
Print Assumptions ordered_flag_independent_of_replica_kind.

(* a request that is not applied leaves the membership untouched *)
Theorem rejected_request_changes_nothing : forall norm ordered m r m' v,
  step norm ordered m r = (m', v) -> v <> VApplied -> m' = m.
Proof. exact step_not_applied_same. Qed.
Print Assumptions rejected_request_changes_nothing.

(* the unique keys of the three Go maps are kept by the model's lists *)
Theorem map_keys_stay_unique : forall norm ordered reqs m,
  nodup_inv m -> nodup_inv (fst (run norm ordered m reqs)).
Proof. exact nodup_run. Qed.
Print Assumptions map_keys_stay_unique.

(* --- panics ----------------------------------------------------------- *)

(* handleConfigChange panics only in apply's default branch (a Type outside the
   enum that passed the ordered-id check); the three "not suppose to reach here"
   and "rejected for unknown reasons" are unreachable, whatever the membership *)
Theorem panic_only_for_unknown_type : forall norm ordered m c i t,
  handle norm ordered m c i = Panicked t ->
  t = panic_unknown_type /\ is_up_to_date ordered m c = true /\
  (cc_type c =? cc_add_node)%Z = false /\ (cc_type c =? cc_remove_node)%Z = false /\
  (cc_type c =? cc_add_non_voting)%Z = false /\ (cc_type c =? cc_add_witness)%Z = false.
Proof. exact handle_panics_only_unknown_type. Qed.
Print Assumptions panic_only_for_unknown_type.

Theorem no_panic_for_valid_types : forall norm ordered reqs m,
  Forall (fun r : req => valid_type (cc_type (fst r))) reqs ->
  ~ In VPanic (snd (run norm ordered m reqs)) /\
  length (snd (run norm ordered m reqs)) = length reqs.
Proof. exact run_no_panic. Qed.
Print Assumptions no_panic_for_valid_types.

(* --- non-vacuity -------------------------------------------------------- *)

(* a concrete history from the empty membership (ordered on): bootstrap of two
   voters, a non-voting member, a witness, a removal, a promotion under another
   spelling of the address, then one request per reject rule *)
Example sample_verdicts :
  snd (run norm_ascii true empty_membership sample_reqs) =
  [VApplied; VApplied; VApplied; VApplied; VApplied; VApplied;
   VRejected; VRejected; VRejected; VRejected; VRejected].
Proof. vm_compute. reflexivity. Qed.

Example sample_state_is :
  observe sample_state =
  mkM 6 [(1, [104; 49]); (3, [32; 104; 51])] [2] [] [(4, [104; 52])]
  /\ kind_of sample_state 3 = Some Voting /\ kind_of sample_state 2 = None
  /\ applied_ccids sample_reqs (snd (run norm_ascii true empty_membership sample_reqs)) = [2; 3; 4; 5].
Proof. vm_compute. repeat split; reflexivity. Qed.

(* the hypotheses of the theorems above hold of that state (and of the empty membership) *)
Example sample_state_meets_invariants :
  kinds_disjoint_inv sample_state /\ removed_disjoint_inv sample_state /\
  address_unique_inv norm_ascii sample_state /\ nodup_inv sample_state /\ voters_inv sample_state.
Proof. exact sample_state_invariants. Qed.

(* the seeded-change scenario: snapshot record at 6, add 4 at 7, remove 3 at 9,
   on disk index 10 at the restart, replay of 7..10 *)
Example restart_witness :
  let boot := [ (EConfigChange (mkCC 0 cc_add_node 1 [97; 49] true), 1);
                (EConfigChange (mkCC 0 cc_add_node 2 [97; 50] true), 2);
                (EConfigChange (mkCC 0 cc_add_node 3 [97; 51] true), 3);
                (EUpdate, 4); (EUpdate, 5); (EUpdate, 6) ] in
  let tail := [ (EConfigChange (mkCC 0 cc_add_node 4 [97; 52] false), 7); (EUpdate, 8);
                (EConfigChange (mkCC 0 cc_remove_node 3 [] false), 9); (EUpdate, 10) ] in
  let r0 := mkR empty_membership 0 0 in
  let s := fst (sm_run norm_ascii false true 0 r0 boot) in
  let b := fst (sm_run norm_ascii false true 10 (sm_recover (m_get (r_members s)) 6) tail) in
  observe (r_members b) = mkM 9 [(1, [97; 49]); (2, [97; 50]); (4, [97; 52])] [3] [] []
  /\ r_updates b = 0 /\ r_applied b = 10.
Proof. vm_compute. repeat split; reflexivity. Qed.

(* two representations of one membership content, in different internal order *)
Example mequiv_witness :
  let m1 := mkM 7 [(1, [104; 49]); (3, [104; 51])] [2; 9] [(5, [104; 53])] [] in
  let m2 := mkM 7 [(3, [104; 51]); (1, [104; 49])] [9; 2] [(5, [104; 53])] [] in
  m1 <> m2 /\ observe m1 = observe m2 /\
  snd (run norm_ascii false m1 sample_reqs) = snd (run norm_ascii false m2 sample_reqs) /\
  observe (fst (run norm_ascii false m1 sample_reqs)) = observe (fst (run norm_ascii false m2 sample_reqs)).
Proof. vm_compute. repeat split; try reflexivity. discriminate. Qed.

Example address_normalisation_witness :
  address_equal_ascii [32; 72; 79; 83; 84; 49; 58; 57; 9] [104; 111; 115; 116; 49; 58; 57] = true /\
  address_equal_ascii [104; 32; 49] [104; 49] = false.
Proof. vm_compute. split; reflexivity. Qed.

(* ================================================================== *)
(* Part 2: raft side (appended by its own work package)                 *)
