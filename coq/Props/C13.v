(* C13 — every persisted/wire value round-trips; size bounds hold.
   Statements only: each theorem is closed by [exact <lemma>]; proofs live in Proofs/. *)
From DB Require Import Base.Bytes Model.CodecEntry Proofs.CodecEntry.
Open Scope N_scope.

(* raftpb.Entry (colfer codec): decode (encode e) = e, consuming exactly the encoding *)
Theorem entry_roundtrip : forall e, wf_entry e -> decode (encode e) = DecOk e (nlen (encode e)).
Proof. exact entry_roundtrip_proved. Qed.
Print Assumptions entry_roundtrip.

(* Entry.Size() is the exact length of what marshalTo writes *)
Theorem entry_size_exact : forall e, nlen (encode e) = size e.
Proof. exact entry_size_exact_proved. Qed.
Print Assumptions entry_size_exact.

(* the encoding never exceeds Entry.SizeUpperLimit() = EntryNonCmdFieldsSize + len(Cmd) *)
Theorem entry_size_le_upper_limit : forall e, wf_entry e -> nlen (encode e) <= size_upper_limit e.
Proof. exact entry_size_le_upper_limit_proved. Qed.
Print Assumptions entry_size_le_upper_limit.

Theorem entry_encode_wf_bytes : forall e, wf_entry e -> wf_bytes (encode e).
Proof. exact encode_wf_bytes_proved. Qed.
Print Assumptions entry_encode_wf_bytes.

(* non-vacuity: a concrete entry on both sides of the 2^49 boundary meets wf_entry *)
Example entry_wf_witness :
  wf_entryb (mkEntry (2 ^ 49) (2 ^ 49 - 1) (-1)%Z (2 ^ 64 - 1) 0 127 128 [1; 2; 255]) = true.
Proof. vm_compute. reflexivity. Qed.
