(* C13 — every persisted/wire value round-trips; size bounds hold.
   Statements only: each theorem is closed by [exact <lemma>]; proofs live in Proofs/. *)
From DB Require Import Base.Bytes Base.CRC32 Proofs.CRC32 Model.CodecEntry Proofs.CodecEntry Model.Frame Proofs.Frame
  Model.CodecProto Proofs.CodecProto Model.CodecUpdate Proofs.CodecUpdate
  Model.CodecPayload Proofs.CodecPayload.
Open Scope N_scope.

(* raftpb.Entry (colfer codec): decode (encode e) = e, consuming exactly the encoding *)
Theorem entry_roundtrip : forall e, wf_entry e -> decode (encode e) = DecOk e (nlen (encode e)).
Proof. exact entry_roundtrip_proved. Qed.
Print Assumptions entry_roundtrip.

(* the law holds exactly below the limit: an entry whose encoding reaches the
   (regenerated) ColferSizeMax is written by marshalTo but refused by unmarshal,
   and Size() panics above it (size_checked).  wf_entry therefore bounds the size. *)
Theorem entry_at_limit_rejected : forall e,
  wf_entry0 e -> colfer_size_max <= size e -> decode (encode e) = DecMax.
Proof. exact entry_at_limit_rejected_proved. Qed.
Print Assumptions entry_at_limit_rejected.

(* entries too large to build in the extracted model are checked through functions of
   the Cmd LENGTH only (harness op BIG); these are the same computations: *)
Theorem entry_big_size : forall e, size_checked e = size_checked_len e (nlen (e_cmd e)).
Proof. exact size_checked_len_eq. Qed.
Print Assumptions entry_big_size.
Theorem entry_big_upper : forall e, size_upper_limit e = size_upper_limit_len (nlen (e_cmd e)).
Proof. exact size_upper_limit_len_eq. Qed.
Print Assumptions entry_big_upper.
Theorem entry_big_encoding : forall e, e_cmd e <> [] ->
  encode e = encode_head e (nlen (e_cmd e)) ++ e_cmd e ++ [127].
Proof. exact encode_head_split. Qed.
Print Assumptions entry_big_encoding.
Theorem entry_big_decode : forall e, wf_entry0 e ->
  decode (encode e) =
  match decode_outcome_len e (nlen (e_cmd e)) with Some n => DecOk e n | None => DecMax end.
Proof. exact decode_outcome_len_eq. Qed.
Print Assumptions entry_big_decode.

(* Entry.Size() is the exact length of what marshalTo writes *)
Theorem entry_size_exact : forall e, nlen (encode e) = size e.
Proof. exact entry_size_exact_proved. Qed.
Print Assumptions entry_size_exact.

(* the encoding never exceeds Entry.SizeUpperLimit() = EntryNonCmdFieldsSize + len(Cmd) *)
Theorem entry_size_le_upper_limit : forall e, wf_entry e -> nlen (encode e) <= size_upper_limit e.
Proof. exact entry_size_le_upper_limit_proved. Qed.
Print Assumptions entry_size_le_upper_limit.

Theorem entry_encode_wf_bytes : forall e, wf_entry e -> wf_bytes (encode e).
Proof. exact encode_wf_bytes_proved. Qed.
Print Assumptions entry_encode_wf_bytes.

(* non-vacuity: a concrete entry on both sides of the 2^49 boundary meets wf_entry *)
Example entry_wf_witness :
  wf_entryb (mkEntry (2 ^ 49) (2 ^ 49 - 1) (-1)%Z (2 ^ 64 - 1) 0 127 128 [1; 2; 255]) = true.
Proof. vm_compute. reflexivity. Qed.

(* ---------------------------------------------------------------------------
   Transport frame (internal/transport/tcp.go): magic, 18-byte header with self-CRC,
   payload CRC.  [read_frame enc s] is readMagicNumber followed by readMessage on a
   connection that still holds the bytes [s]; [write_message h p enc] are the bytes
   writeMessage puts on the wire. *)

(* requestHeader: decode (encode h) = h for the two legal methods *)
Theorem header_roundtrip : forall h,
  wf_header h -> method_ok (h_method h) = true -> decode_header (encode_header h) = Some h.
Proof. exact decode_encode_header. Qed.
Print Assumptions header_roundtrip.

(* what writeMessage writes is delivered by the reader with exactly the written
   payload, and the stream continues right behind it (any [rest]).  The empty
   payload is excluded because readMessage rejects size 0. *)
Theorem frame_roundtrip : forall h0 p enc rest,
  method_ok (h_method h0) = true -> h_crc h0 < 2 ^ 32 ->
  p <> [] -> wf_bytes p -> nlen p < 2 ^ 64 ->
  read_frame enc (write_message h0 p enc ++ rest) = Delivered (write_header h0 p enc) p rest.
Proof. exact frame_roundtrip_proved. Qed.
Print Assumptions frame_roundtrip.

(* a byte stream is delivered iff it is magic ++ 18 header bytes ++ payload ++ rest with:
   header CRC field = crc32 of the 18 bytes with that field zeroed, method raft or
   snapshot, size field = |payload| <> 0, and (unless encrypted) payload CRC field =
   crc32 payload. *)
Theorem frame_accept_iff_crcs_match : forall enc s h p rest,
  read_frame enc s = Delivered h p rest <->
  exists hb, s = magic ++ hb ++ p ++ rest /\
    (length hb = hdr_len /\
     be_dec (slice off_hcrc 4 hb) = crc32 (zero_hcrc hb) /\
     method_ok (be_dec (slice off_method 2 hb)) = true /\
     h = mkHeader (be_dec (slice off_method 2 hb)) (be_dec (slice off_size 8 hb))
                  (be_dec (slice off_crc 4 hb))) /\
    h_size h = nlen p /\ p <> [] /\ (enc = true \/ crc32 p = h_crc h).
Proof. exact read_frame_iff. Qed.
Print Assumptions frame_accept_iff_crcs_match.

(* truncation anywhere inside a frame => not delivered *)
Theorem frame_truncated_rejected : forall enc s h p rest k,
  read_frame enc s = Delivered h p rest ->
  (k < 2 + hdr_len + length p)%nat ->
  forall h' p' rest', read_frame enc (firstn k s) <> Delivered h' p' rest'.
Proof. exact frame_truncated_rejected_proved. Qed.
Print Assumptions frame_truncated_rejected.

(* any single-bit flip inside the payload of a delivered (unencrypted) frame is
   rejected; crc32_single_bit_detected is proved in Proofs/CRC32.v.  (The same
   statement for a flip inside the 18 header bytes is exercised exhaustively by the
   harness; its proof - a case split over the header-CRC field - is not done yet.) *)
Theorem frame_payload_bit_flip_rejected : forall hb p p' rest h,
  read_frame false (magic ++ hb ++ p ++ rest) = Delivered h p rest ->
  length hb = hdr_len -> wf_bytes p -> Proofs.CRC32.differ_one_bit p p' ->
  read_frame false (magic ++ hb ++ p' ++ rest) = Bad.
Proof. exact frame_payload_bit_flip_rejected_proved. Qed.
Print Assumptions frame_payload_bit_flip_rejected.

(* the configuration dimension: the flag that switches the payload checksum off is
   MutualTLS and nothing else (where it comes from in NewTCPTransport and that every
   frame call passes it on are regenerated facts), so whatever CAFile/CertFile/KeyFile
   say, without mutual TLS a single-bit payload corruption is rejected *)
Theorem transport_encrypted_iff_mutual_tls : forall c, transport_encrypted c = c_mutual_tls c.
Proof. exact transport_encrypted_iff_proved. Qed.
Print Assumptions transport_encrypted_iff_mutual_tls.
Theorem frame_cfg_payload_bit_flip_rejected : forall c hb p p' rest h,
  c_mutual_tls c = false ->
  read_frame_cfg c (magic ++ hb ++ p ++ rest) = Delivered h p rest ->
  length hb = hdr_len -> wf_bytes p -> Proofs.CRC32.differ_one_bit p p' ->
  read_frame_cfg c (magic ++ hb ++ p' ++ rest) = Bad.
Proof. exact frame_cfg_payload_bit_flip_rejected_proved. Qed.
Print Assumptions frame_cfg_payload_bit_flip_rejected.

(* the per-connection loop (serveConn): good frames followed by ANY continuation
   whose next frame the reader does not deliver (corrupted, truncated, bad magic,
   poison, end of stream) hands over exactly the good frames, once each and in
   order - nothing of or behind the bad frame; the loop then returns (the connection
   worker closes the connection: regenerated fact serve_conn_then_close) *)
Theorem serve_delivers_exactly_prefix : forall enc handle frames bad fuel,
  Forall (fun f => frame_in_ok f /\ handle (write_header (fst f) (snd f) enc) (snd f) = Accepted) frames ->
  (forall h p r, read_frame enc bad <> Delivered h p r) ->
  (length frames < fuel)%nat ->
  fst (fst (serve fuel enc handle (stream_of enc frames ++ bad))) =
  map (fun f => (write_header (fst f) (snd f) enc, snd f)) frames.
Proof. exact serve_delivers_exactly_prefix_proved. Qed.
Print Assumptions serve_delivers_exactly_prefix.
(* regenerated: the connection worker in TCP.Start is `t.serveConn(conn); closeFn()` *)
Theorem serve_conn_return_closes_connection : serve_conn_then_close = true.
Proof. exact serve_conn_then_close_proved. Qed.
Print Assumptions serve_conn_return_closes_connection.
Theorem serve_stops_at_bad : forall enc handle s fuel,
  (forall h p r, read_frame enc s <> Delivered h p r) -> fst (fst (serve fuel enc handle s)) = [].
Proof. exact serve_stops_at_bad_proved. Qed.
Print Assumptions serve_stops_at_bad.
Theorem serve_reader_is_read_frame : forall enc s, fst (read_frame_ex enc s) = read_frame enc s.
Proof. exact read_frame_ex_fst. Qed.
Print Assumptions serve_reader_is_read_frame.

(* non-vacuity: a concrete frame is delivered, its 1-byte-shorter prefix is not *)
Example frame_witness :
  let f := write_message (mkHeader raft_type 0 0) [1; 2; 3] false in
  read_frame false (f ++ [9]) = Delivered (mkHeader raft_type 3 (crc32 [1; 2; 3])) [1; 2; 3] [9] /\
  read_frame false (firstn 22 f) = IOErr.
Proof. vm_compute. split; reflexivity. Qed.

(* ---------------------------------------------------------------------------
   gogo-protobuf style codecs (Model/CodecProto.v).  T_encode = MarshalTo,
   T_size = Size (a separate computation in the Go code), T_decode = Unmarshal into a
   zero value.  Maps are association lists with distinct keys; equality of the decoded
   value is equality of these lists (= equality of Go maps, the harness sorts by key). *)

(* the generic wire format: parsing an encoded field list gives the field list back *)
Theorem proto_fields_roundtrip : forall fs, Forall wf_field fs -> parse_all (enc_fields fs) = Some fs.
Proof. exact parse_all_enc. Qed.
Print Assumptions proto_fields_roundtrip.

Theorem state_roundtrip : forall s, wf_state s -> state_decode (state_encode s) = Some s.
Proof. exact state_roundtrip_proved. Qed.
Print Assumptions state_roundtrip.
Theorem state_size_exact : forall s, nlen (state_encode s) = state_size s.
Proof. exact state_size_exact_proved. Qed.
Print Assumptions state_size_exact.
(* State.SizeUpperLimit() = 8 + 16*3 (generated) *)
Theorem state_size_le_upper : forall s, state_size s <= state_size_upper.
Proof. exact state_size_le_upper_proved. Qed.
Print Assumptions state_size_le_upper.

Theorem session_roundtrip : forall s, wf_session s -> session_decode (session_encode s) = Some s.
Proof. exact session_roundtrip_proved. Qed.
Print Assumptions session_roundtrip.
Theorem session_size_exact : forall s, nlen (session_encode s) = session_size s.
Proof. exact session_size_exact_proved. Qed.
Print Assumptions session_size_exact.

(* the optional byte fields (Metadata, Checksum, HeaderChecksum, PayloadChecksum,
   Data) are emitted by MarshalTo and counted by Size() under the same `!= nil`
   guard; the ten guards are regenerated from the source *)
Theorem optional_field_guards_agree :
  (sf_metadata_guard_nil_marshal && sf_metadata_guard_nil_size && sn_checksum_guard_nil_marshal &&
   sn_checksum_guard_nil_size && sh_header_checksum_guard_nil_marshal && sh_header_checksum_guard_nil_size &&
   sh_payload_checksum_guard_nil_marshal && sh_payload_checksum_guard_nil_size &&
   ck_data_guard_nil_marshal && ck_data_guard_nil_size)%bool = true.
Proof. exact guards_all_nil. Qed.
Print Assumptions optional_field_guards_agree.

Theorem snapshotfile_roundtrip : forall s, wf_sf s -> sf_decode (sf_encode s) = Some s.
Proof. exact sf_roundtrip_proved. Qed.
Print Assumptions snapshotfile_roundtrip.
Theorem snapshotfile_size_exact : forall s, nlen (sf_encode s) = sf_size s.
Proof. exact sf_size_exact_proved. Qed.
Print Assumptions snapshotfile_size_exact.

Theorem membership_roundtrip : forall m, wf_mb m -> mb_decode (mb_encode m) = Some m.
Proof. exact mb_roundtrip_proved. Qed.
Print Assumptions membership_roundtrip.
Theorem membership_size_exact : forall m, nlen (mb_encode m) = mb_size m.
Proof. exact mb_size_exact_proved. Qed.
Print Assumptions membership_size_exact.

Theorem snapshot_roundtrip : forall s, wf_sn s -> sn_decode (sn_encode s) = Some s.
Proof. exact sn_roundtrip_proved. Qed.
Print Assumptions snapshot_roundtrip.
Theorem snapshot_size_exact : forall s, nlen (sn_encode s) = sn_size s.
Proof. exact sn_size_exact_proved. Qed.
Print Assumptions snapshot_size_exact.

Theorem entrybatch_roundtrip : forall es, Forall wf_entry es -> eb_decode (eb_encode es) = Some es.
Proof. exact eb_roundtrip_proved. Qed.
Print Assumptions entrybatch_roundtrip.
Theorem entrybatch_size_exact : forall es, nlen (eb_encode es) = eb_size es.
Proof. exact eb_size_exact_proved. Qed.
Print Assumptions entrybatch_size_exact.
(* EntryBatch.Size() <= EntryBatch.SizeUpperLimit() = 16 + sum (e.SizeUpperLimit() + 16) *)
Theorem entrybatch_size_le_upper : forall es, Forall wf_entry es -> eb_size es <= eb_size_upper es.
Proof. exact eb_size_le_upper_proved. Qed.
Print Assumptions entrybatch_size_le_upper.

Theorem message_roundtrip : forall m, wf_msg m -> msg_decode (msg_encode m) = Some m.
Proof. exact msg_roundtrip_proved. Qed.
Print Assumptions message_roundtrip.
Theorem message_size_exact : forall m, nlen (msg_encode m) = msg_size m.
Proof. exact msg_size_exact_proved. Qed.
Print Assumptions message_size_exact.
Theorem message_size_le_upper : forall m, wf_msg m -> msg_size m <= msg_size_upper m.
Proof. exact msg_size_le_upper_proved. Qed.
Print Assumptions message_size_le_upper.

Theorem messagebatch_roundtrip : forall b, wf_bt b -> bt_decode (bt_encode b) = Some b.
Proof. exact bt_roundtrip_proved. Qed.
Print Assumptions messagebatch_roundtrip.
Theorem messagebatch_size_exact : forall b, nlen (bt_encode b) = bt_size b.
Proof. exact bt_size_exact_proved. Qed.
Print Assumptions messagebatch_size_exact.
(* the buffer SendMessageBatch allocates (SizeUpperLimit) is never overrun by MarshalTo *)
Theorem messagebatch_size_le_upper : forall b, wf_bt b -> bt_size b <= bt_size_upper b.
Proof. exact bt_size_le_upper_proved. Qed.
Print Assumptions messagebatch_size_le_upper.

Theorem configchange_roundtrip : forall c, wf_cc c -> cc_decode (cc_encode c) = Some c.
Proof. exact cc_roundtrip_proved. Qed.
Print Assumptions configchange_roundtrip.
Theorem configchange_size_exact : forall c, nlen (cc_encode c) = cc_size c.
Proof. exact cc_size_exact_proved. Qed.
Print Assumptions configchange_size_exact.
Theorem raftdatastatus_roundtrip : forall s, wf_rds s -> rds_decode (rds_encode s) = Some s.
Proof. exact rds_roundtrip_proved. Qed.
Print Assumptions raftdatastatus_roundtrip.
Theorem raftdatastatus_size_exact : forall s, nlen (rds_encode s) = rds_size s.
Proof. exact rds_size_exact_proved. Qed.
Print Assumptions raftdatastatus_size_exact.
Theorem snapshotheader_roundtrip : forall s, wf_sh s -> sh_decode (sh_encode s) = Some s.
Proof. exact sh_roundtrip_proved. Qed.
Print Assumptions snapshotheader_roundtrip.
Theorem snapshotheader_size_exact : forall s, nlen (sh_encode s) = sh_size s.
Proof. exact sh_size_exact_proved. Qed.
Print Assumptions snapshotheader_size_exact.
Theorem bootstrap_roundtrip : forall b, wf_bs b -> bs_decode (bs_encode b) = Some b.
Proof. exact bs_roundtrip_proved. Qed.
Print Assumptions bootstrap_roundtrip.
Theorem bootstrap_size_exact : forall b, nlen (bs_encode b) = bs_size b.
Proof. exact bs_size_exact_proved. Qed.
Print Assumptions bootstrap_size_exact.
Theorem chunk_roundtrip : forall c, wf_ck c -> ck_decode (ck_encode c) = Some c.
Proof. exact ck_roundtrip_proved. Qed.
Print Assumptions chunk_roundtrip.
Theorem chunk_size_exact : forall c, nlen (ck_encode c) = ck_size_of c.
Proof. exact ck_size_exact_proved. Qed.
Print Assumptions chunk_size_exact.

(* ---------------------------------------------------------------------------
   entry payload encoding (internal/rsm/encoded.go); compression is a Section
   variable pair with the contract decompress (compress x) = Some x and the snappy
   block-format fact that a block starts with uvarint(len) *)
Theorem payload_roundtrip :
  forall (compress : bytes -> bytes) (decompress : bytes -> option bytes),
  (forall x, decompress (compress x) = Some x) ->
  (forall x, exists rest, compress x = uvarint (nlen x) ++ rest) ->
  forall ct cmd enc, cmd <> [] -> nlen cmd < 2 ^ 64 ->
  get_encoded compress ct cmd = Some enc -> get_decoded decompress enc = POk cmd.
Proof. exact payload_roundtrip_proved. Qed.
Print Assumptions payload_roundtrip.

(* ---------------------------------------------------------------------------
   the Tan record form of Update (raftpb/update.go) *)
Theorem update_roundtrip : forall u, wf_update u -> update_decode (update_encode u) = UOk u.
Proof. exact update_roundtrip_proved. Qed.
Print Assumptions update_roundtrip.

(* MarshalTo never writes more than SizeUpperLimit(): a buffer of that size is not
   overrun.  The constants 22, 56, 48 and 128 are regenerated from the source. *)
Theorem update_size_le_upper : forall u, wf_update u -> nlen (update_encode u) <= update_size_upper u.
Proof. exact update_size_le_upper_proved. Qed.
Print Assumptions update_size_le_upper.

(* non-vacuity: a membership with two addresses and a removed node, inside a snapshot,
   inside an update with one entry, round-trips by computation *)
Example update_witness :
  let mb := mkMB 7 [(1, [97; 98]); (2 ^ 63, [])] [(5, true)] [] [(9, [255])] in
  let sn := mkSN [47] 100 7 3 mb [mkSF [97] 5 6 None] (Some []) true 77 (-5) false 8 true in
  let u := mkUpdate (2 ^ 64 - 1) 2 (mkState 1 2 3) [mkEntry 1 1 0 0 0 0 0 [170; 187]] sn in
  update_decode (update_encode u) = UOk u /\ nlen (update_encode u) <=? update_size_upper u = true.
Proof. vm_compute. split; reflexivity. Qed.
