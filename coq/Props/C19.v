(* C19 — the raft core's view of its log always equals the logical log.
   Statements only: each theorem is closed by [exact <lemma>]; proofs live in Proofs/LogView.v. *)
From DB Require Import Base.Bytes Gen.GenC19 Model.LogSpec Model.LogView Proofs.LogView.
Open Scope N_scope.

(* merge(): replace / truncate-and-append always leaves savedTo strictly below the
   first new index, so a re-appended entry is handed out for persistence again *)
Theorem merge_truncation_lowers_saved :
  forall im e0 rest im',
    im_merge im (e0 :: rest) = Ok im' ->
    e_index e0 <> 0 ->
    e_index e0 < im_marker im + nlen (im_ents im) ->
    im_saved im' < e_index e0.
Proof. exact merge_truncation_lowers_saved_proved. Qed.
Print Assumptions merge_truncation_lowers_saved.

(* savedLogTo only advances if index and term still match *)
Theorem saved_log_to_only_on_match :
  forall im i t im',
    im_saved_log_to im i t = Ok im' ->
    im' = im \/
    (exists e, nth_error (im_ents im) (N.to_nat (i - im_marker im)) = Some e /\ e_term e = t
               /\ im_marker im <= i /\ im' = im_with_saved im i).
Proof. exact saved_log_to_only_on_match_proved. Qed.
Print Assumptions saved_log_to_only_on_match.

(* non-vacuity: a truncating merge that succeeds *)
Example merge_truncation_witness :
  exists im', im_merge (mkIM None [mkE 5 1 0 0; mkE 6 1 0 0; mkE 7 1 0 0] 7 5 0 0) [mkE 6 2 0 0] = Ok im'
              /\ im_saved im' = 5.
Proof. eexists. vm_compute. split; reflexivity. Qed.
