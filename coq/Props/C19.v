(* C19 — the raft core's view of its log always equals the logical log.
   Statements only: each theorem is closed by [exact <lemma>]; proofs live in Proofs/LogView.v.

   Model/LogView.v is the faithful model (inMemory, entryLog, Peer.GetUpdate/Commit,
   raft.restore / handleReplicateMessage log parts, LogReader, abstract store);
   Model/LogSpec.v the logical log.  R (Proofs/LogView.v) is the invariant tying
   them together; [views_eq] is equality of ALL views: first/last index, term at
   every index, entries of every range with every size limit (including the error
   outcomes), entries to save, entries to apply, committed, processed. *)
From DB Require Import Base.Bytes Gen.GenC19 Model.LogSpec Model.LogView Proofs.LogView.
Open Scope N_scope.

(* Under the invariant R every view of the faithful model equals the logical
   log's (the reader/in-memory stitching of term() and getEntries(), limitSize,
   the LogReader drop rule and the store iteration included).  Unconditional in
   the state: holds for EVERY model state related to a spec state by R. *)
Theorem logview_views_equal_under_invariant : forall w sp, R w sp -> views_eq w sp.
Proof. exact R_views. Qed.
Print Assumptions logview_views_equal_under_invariant.

(* PARTIAL (logview_refines): R is established by every (re)start state and proved
   preserved by leader/raw appends (all three merge() branches: append, replace,
   truncate-and-append) and commitTo, so for all well-formed sequences of those
   operations, from every well-formed restart state, the run does not fail and all
   views equal the logical log's.  MISSING: the per-step preservation lemmas for
   OReplicate, OGetUpdate/OPersist/OCommit, ORestore and OCompact (R is already
   stated for them: phases, pending snapshot, cover); until they are proved those
   operations are covered by the exact differential run (model = code after every
   op) plus the driver's spec cross-check and the Go monitor, not by a theorem. *)
Theorem logview_refines_partial : forall mi mt ents c limit ops,
  wf_init mi mt ents c = true -> forallb core_op ops = true ->
  wf_ops limit (sp_init mi mt ents c) ops = true ->
  exists w', run (w_init mi mt ents c limit) ops = Ok w' /\
             views_eq w' (sp_run limit (sp_init mi mt ents c) ops).
Proof. exact logview_refines_partial_proved. Qed.
Print Assumptions logview_refines_partial.

(* PARTIAL (err_unreachable_under_wf): same operation set as above; no panic and no
   error value is reachable. *)
Theorem err_unreachable_under_wf_partial : forall mi mt ents c limit ops,
  wf_init mi mt ents c = true -> forallb core_op ops = true ->
  wf_ops limit (sp_init mi mt ents c) ops = true ->
  (forall t, run (w_init mi mt ents c limit) ops <> Panic t) /\
  (forall e, run (w_init mi mt ents c limit) ops <> Fail e).
Proof. exact err_unreachable_under_wf_partial_proved. Qed.
Print Assumptions err_unreachable_under_wf_partial.

(* reappended_entry_saved_again, step-local half (complete, every state):
   merge() with a first new index at or below the last in-memory index leaves
   savedTo strictly below it, so the re-appended entries are in entriesToSave again *)
Theorem merge_truncation_lowers_saved :
  forall im e0 rest im',
    im_merge im (e0 :: rest) = Ok im' ->
    e_index e0 <> 0 ->
    e_index e0 < im_marker im + nlen (im_ents im) ->
    im_saved im' < e_index e0.
Proof. exact merge_truncation_lowers_saved_proved. Qed.
Print Assumptions merge_truncation_lowers_saved.

(* ... and savedLogTo only advances if index and term still match (complete, every state) *)
Theorem saved_log_to_only_on_match :
  forall im i t im',
    im_saved_log_to im i t = Ok im' ->
    im' = im \/
    (exists e, nth_error (im_ents im) (N.to_nat (i - im_marker im)) = Some e /\ e_term e = t
               /\ im_marker im <= i /\ im' = im_with_saved im i).
Proof. exact saved_log_to_only_on_match_proved. Qed.
Print Assumptions saved_log_to_only_on_match.

(* PARTIAL (reappended_entry_saved_again, global half): every index that counts as
   saved holds, in the persistent store, exactly the current entry of the logical
   log.  Proved for the operation set of logview_refines_partial; MISSING: as there. *)
Theorem reappended_entry_saved_again_partial : forall mi mt ents c limit ops w',
  wf_init mi mt ents c = true -> forallb core_op ops = true ->
  wf_ops limit (sp_init mi mt ents c) ops = true ->
  run (w_init mi mt ents c limit) ops = Ok w' ->
  let sp' := sp_run limit (sp_init mi mt ents c) ops in
  forall i, sp_mi sp' < i -> i <= im_saved (el_im (w_el w')) ->
    exists e, st_get (w_st w') i = Some e /\ sp_get sp' i = Some e /\ e_index e = i.
Proof. exact saved_entries_persisted_partial_proved. Qed.
Print Assumptions reappended_entry_saved_again_partial.

(* non-vacuity: a restart state with a marker and three persisted entries, then a
   truncating append above commit, an extending append and a commit: well-formed,
   runs, and index 6 (re-appended with term 3) has to be saved again *)
Example c19_witness :
  let ents := [mkE 6 1 1 10; mkE 7 1 2 0; mkE 8 2 3 5] in
  let ops := [OAppend [mkE 7 3 4 0; mkE 8 3 5 1]; OAppend [mkE 9 4 6 0]; OCommitTo 8] in
  wf_init 5 1 ents 6 = true /\ forallb core_op ops = true /\
  wf_ops 1000 (sp_init 5 1 ents 6) ops = true /\
  (match run (w_init 5 1 ents 6 1000) ops with
   | Ok w => el_to_save (w_el w) = [mkE 7 3 4 0; mkE 8 3 5 1; mkE 9 4 6 0]
             /\ im_saved (el_im (w_el w)) = 6 /\ el_committed (w_el w) = 8
   | _ => False end).
Proof. vm_compute. repeat split; reflexivity. Qed.

Example merge_truncation_witness :
  exists im', im_merge (mkIM None [mkE 5 1 0 0; mkE 6 1 0 0; mkE 7 1 0 0] 7 5 0 0) [mkE 6 2 0 0] = Ok im'
              /\ im_saved im' = 5.
Proof. eexists. vm_compute. split; reflexivity. Qed.

(* Observation (necessity of the cycle hypothesis in wf_ops, replayed on the real code
   as corpus/C19/edge.txt case e2): if the log is truncated between GetUpdate and its
   Commit, twice, the stale acknowledgements are dropped (term mismatch) but
   appliedLogTo still moves markerIndex past savedTo+1; entriesToSave's unsigned
   idx-markerIndex then wraps and it returns NOTHING although entries 5 and 6 are
   not persisted.  Not reachable through the engine: GetUpdate..Commit of a node
   run inside one step-worker iteration with no raft.Handle in between. *)
Example lagging_commit_strands_unsaved_entries :
  let e i t k := mkE i t k 0 in
  let ops := [OAppend [e 1 1 1; e 2 1 2; e 3 1 3; e 4 1 4; e 5 1 5]; OCommitTo 3; OGetUpdate true 0;
              OReplicate 4 1 3 [e 5 2 6]; OPersist; OCommit; OGetUpdate true 3;
              OReplicate 4 1 3 [e 5 3 7]; OPersist; OCommit; OAppend [e 6 3 8]] in
  match run (w_init 0 0 [] 0 1000) ops with
  | Ok w => el_to_save (w_el w) = [] /\ im_saved (el_im (w_el w)) = 0 /\ el_last (w_el w) (w_lr w) = 6
            /\ wf_ops 1000 (sp_init 0 0 [] 0) ops = false
  | _ => False end.
Proof. vm_compute. repeat split; reflexivity. Qed.
