(* C19 — the raft core's view of its log always equals the logical log.
   Statements only: each theorem is closed by [exact <lemma>]; proofs live in Proofs/LogView.v.

   Model/LogView.v is the faithful model (inMemory, entryLog, Peer.GetUpdate/Commit,
   raft.restore / handleReplicateMessage log parts, LogReader, abstract store);
   Model/LogSpec.v the logical log.  R (Proofs/LogView.v) is the invariant tying
   them together; [views_eq] is equality of ALL views: first/last index, term at
   every index, entries of every range with every size limit (including the error
   outcomes), entries to save, entries to apply, committed, processed.

   [ops : list op] ranges over EVERY constructor of the operation type: OAppend
   (leader/raw append), OReplicate (follower append with a conflict at any position),
   OCommitTo, OGetUpdate / OPersist / OCommit (Update/Commit cycle: savedLogTo,
   savedSnapshotTo, appliedLogTo, LogReader.ApplySnapshot/Append/SetRange, store
   save), ORestore (snapshot restore) and OCompact (LogReader.Compact + store
   removal, also beyond the in-memory marker).  [wf_init] is any restart state
   (marker, persisted entries, committed); [wf_ops] the negations of the panic
   guards stated on the logical log only (DESIGN Appendix C). *)
From DB Require Import Base.Bytes Gen.GenC19 Model.LogSpec Model.LogView Proofs.LogView.
Open Scope N_scope.

(* For all well-formed operation sequences from every well-formed restart state the
   faithful model runs without error and ALL its views equal the logical log's. *)
Theorem logview_refines : forall skip rlon mi mt ents c limit ops,
  wf_init mi mt ents c = true ->
  wf_ops limit (sp_init mi mt ents c) ops = true ->
  exists w', run (w_init_opt skip rlon mi mt ents c limit) ops = Ok w' /\
             views_eq w' (sp_run limit (sp_init mi mt ents c) ops).
Proof. exact logview_refines_proved. Qed.
Print Assumptions logview_refines.

(* None of the panics / error returns of inmemory.go, logentry.go, the log part of
   peer.go and logreader.go is reachable from well-formed operation sequences. *)
Theorem err_unreachable_under_wf : forall skip rlon mi mt ents c limit ops,
  wf_init mi mt ents c = true ->
  wf_ops limit (sp_init mi mt ents c) ops = true ->
  (forall t, run (w_init_opt skip rlon mi mt ents c limit) ops <> Panic t) /\
  (forall e, run (w_init_opt skip rlon mi mt ents c limit) ops <> Fail e).
Proof. exact err_unreachable_under_wf_proved. Qed.
Print Assumptions err_unreachable_under_wf.

(* Every index that counts as saved holds, in the persistent store, exactly the
   current entry of the logical log: an entry that was truncated and re-appended is
   persisted again before it is considered saved. *)
Theorem reappended_entry_saved_again : forall skip rlon mi mt ents c limit ops w',
  wf_init mi mt ents c = true ->
  wf_ops limit (sp_init mi mt ents c) ops = true ->
  run (w_init_opt skip rlon mi mt ents c limit) ops = Ok w' ->
  let sp' := sp_run limit (sp_init mi mt ents c) ops in
  forall i, sp_mi sp' < i -> i <= im_saved (el_im (w_el w')) ->
    exists e, st_get (w_st w') i = Some e /\ sp_get sp' i = Some e /\ e_index e = i.
Proof. exact saved_entries_persisted_proved. Qed.
Print Assumptions reappended_entry_saved_again.

(* In every reachable state GetUpdate succeeds (validateUpdate never fires), every
   entry it hands out for apply is the committed logical entry and is either already
   saved or handed out for persistence in the same update, and a FastApply update
   applies saved entries only. *)
Theorem apply_only_committed_and_handed_to_persist : forall skip rlon mi mt ents c limit ops w',
  wf_init mi mt ents c = true ->
  wf_ops limit (sp_init mi mt ents c) ops = true ->
  run (w_init_opt skip rlon mi mt ents c limit) ops = Ok w' ->
  let sp' := sp_run limit (sp_init mi mt ents c) ops in
  forall more la, exists ud, get_update w' more la = Ok ud /\
    (forall e, In e (ud_apply ud) ->
       e_index e <= el_committed (w_el w') /\ sp_get sp' (e_index e) = Some e /\
       (e_index e <= im_saved (el_im (w_el w')) \/ In e (ud_save ud))) /\
    (ud_fast ud = true -> forall e, In e (ud_apply ud) -> e_index e <= im_saved (el_im (w_el w'))).
Proof. exact apply_only_committed_and_handed_to_persist_proved. Qed.
Print Assumptions apply_only_committed_and_handed_to_persist.

(* With a real rate limiter under inMemory ([rlon]: MaxInMemLogSize set; the theorems
   above hold for both settings) what it has recorded is, in every reachable state,
   exactly pb.GetEntrySliceInMemSize of the in-memory entries. *)
Theorem rate_limiter_accounting_exact : forall skip rlon mi mt ents c limit ops w',
  wf_init mi mt ents c = true ->
  wf_ops limit (sp_init mi mt ents c) ops = true ->
  run (w_init_opt skip rlon mi mt ents c limit) ops = Ok w' ->
  forall n, im_rl (el_im (w_el w')) = Some n -> n = isize (im_ents (el_im (w_el w'))) mod 2 ^ 64.
Proof. exact rate_limiter_accounting_exact_proved. Qed.
Print Assumptions rate_limiter_accounting_exact.

(* Under the invariant R every view of the faithful model equals the logical
   log's; unconditional in the state. *)
Theorem logview_views_equal_under_invariant : forall w sp, R w sp -> views_eq w sp.
Proof. exact R_views. Qed.
Print Assumptions logview_views_equal_under_invariant.

(* step-local facts, every state: merge() with a first new index at or below the
   last in-memory index leaves savedTo strictly below it ... *)
Theorem merge_truncation_lowers_saved :
  forall im e0 rest im',
    im_merge im (e0 :: rest) = Ok im' ->
    e_index e0 <> 0 ->
    e_index e0 < im_marker im + nlen (im_ents im) ->
    im_saved im' < e_index e0.
Proof. exact merge_truncation_lowers_saved_proved. Qed.
Print Assumptions merge_truncation_lowers_saved.

(* ... and savedLogTo only advances if index and term still match *)
Theorem saved_log_to_only_on_match :
  forall im i t im',
    im_saved_log_to im i t = Ok im' ->
    im' = im \/
    (exists e, nth_error (im_ents im) (N.to_nat (i - im_marker im)) = Some e /\ e_term e = t
               /\ im_marker im <= i /\ im' = im_with_saved im i).
Proof. exact saved_log_to_only_on_match_proved. Qed.
Print Assumptions saved_log_to_only_on_match.

(* The earlier statements restricted to appends and commitTo ([core_op]) are kept
   visible; they are now corollaries of the full theorems above. *)
Theorem logview_refines_partial : forall mi mt ents c limit ops,
  wf_init mi mt ents c = true -> forallb core_op ops = true ->
  wf_ops limit (sp_init mi mt ents c) ops = true ->
  exists w', run (w_init mi mt ents c limit) ops = Ok w' /\
             views_eq w' (sp_run limit (sp_init mi mt ents c) ops).
Proof. exact logview_refines_partial_proved. Qed.
Print Assumptions logview_refines_partial.

Theorem err_unreachable_under_wf_partial : forall mi mt ents c limit ops,
  wf_init mi mt ents c = true -> forallb core_op ops = true ->
  wf_ops limit (sp_init mi mt ents c) ops = true ->
  (forall t, run (w_init mi mt ents c limit) ops <> Panic t) /\
  (forall e, run (w_init mi mt ents c limit) ops <> Fail e).
Proof. exact err_unreachable_under_wf_partial_proved. Qed.
Print Assumptions err_unreachable_under_wf_partial.

Theorem reappended_entry_saved_again_partial : forall mi mt ents c limit ops w',
  wf_init mi mt ents c = true -> forallb core_op ops = true ->
  wf_ops limit (sp_init mi mt ents c) ops = true ->
  run (w_init mi mt ents c limit) ops = Ok w' ->
  let sp' := sp_run limit (sp_init mi mt ents c) ops in
  forall i, sp_mi sp' < i -> i <= im_saved (el_im (w_el w')) ->
    exists e, st_get (w_st w') i = Some e /\ sp_get sp' i = Some e /\ e_index e = i.
Proof. exact saved_entries_persisted_partial_proved. Qed.
Print Assumptions reappended_entry_saved_again_partial.

(* non-vacuity: a restart state with a marker and three persisted entries, then a
   sequence using EVERY constructor: a follower conflict above commit (index 8
   re-appended with term 3), two Update/Commit cycles with apply lag, a compaction
   beyond the in-memory marker (marker 8, compact to 10), a snapshot restore with
   its persistence, appends and commit advances.  It is well-formed and runs. *)
Example c19_witness_all_ops :
  let ents := [mkE 6 1 1 10; mkE 7 1 2 0; mkE 8 2 3 5] in
  let ops := [OReplicate 7 1 8 [mkE 8 3 4 0; mkE 9 3 5 1]; OGetUpdate true 5; OPersist; OCompact 5; OCommit;
              OAppend [mkE 10 3 6 0; mkE 11 3 7 0]; OCommitTo 11; OGetUpdate true 5; OPersist; OCommit; OCompact 10;
              OReplicate 11 3 11 [mkE 12 4 8 0]; OGetUpdate false 11; OPersist; OCommit;
              ORestore 20 4; OAppend [mkE 21 4 9 0]; OGetUpdate true 11; OPersist; OCompact 20; OCommit; OCommitTo 21] in
  wf_init 5 1 ents 6 = true /\ wf_ops 1000 (sp_init 5 1 ents 6) ops = true /\
  (match run (w_init 5 1 ents 6 1000) (firstn 11 ops) with
   | Ok w => im_marker (el_im (w_el w)) = 8 /\ lr_marker (w_lr w) = 10 /\ el_first (w_el w) (w_lr w) = 11
   | _ => False end) /\
  (match run (w_init 5 1 ents 6 1000) (firstn 1 ops) with
   | Ok w => el_to_save (w_el w) = [mkE 8 3 4 0; mkE 9 3 5 1] /\ im_saved (el_im (w_el w)) = 7
   | _ => False end) /\
  (match run (w_init 5 1 ents 6 1000) ops with
   | Ok w => el_last (w_el w) (w_lr w) = 21 /\ el_committed (w_el w) = 21 /\ el_to_save (w_el w) = []
   | _ => False end) /\
  (match run (w_init_rl true 5 1 ents 6 1000) (firstn 7 ops) with
   | Ok w => im_rl (el_im (w_el w)) = Some (4 * 80 + 1)
   | _ => False end).
Proof. vm_compute. repeat split; reflexivity. Qed.

Example merge_truncation_witness :
  exists im', im_merge (mkIM None [mkE 5 1 0 0; mkE 6 1 0 0; mkE 7 1 0 0] 7 5 0 0 None) [mkE 6 2 0 0] = Ok im'
              /\ im_saved im' = 5.
Proof. eexists. vm_compute. split; reflexivity. Qed.

(* Observation (necessity of the cycle hypothesis in wf_ops, replayed on the real code
   as corpus/C19/edge.txt case e2): if the log is truncated between GetUpdate and its
   Commit, twice, the stale acknowledgements are dropped (term mismatch) but
   appliedLogTo still moves markerIndex past savedTo+1; entriesToSave's unsigned
   idx-markerIndex then wraps and it returns NOTHING although entries 5 and 6 are
   not persisted.  Not reachable through the engine: GetUpdate..Commit of a node
   run inside one step-worker iteration with no raft.Handle in between. *)
Example lagging_commit_strands_unsaved_entries :
  let e i t k := mkE i t k 0 in
  let ops := [OAppend [e 1 1 1; e 2 1 2; e 3 1 3; e 4 1 4; e 5 1 5]; OCommitTo 3; OGetUpdate true 0;
              OReplicate 4 1 3 [e 5 2 6]; OPersist; OCommit; OGetUpdate true 3;
              OReplicate 4 1 3 [e 5 3 7]; OPersist; OCommit; OAppend [e 6 3 8]] in
  match run (w_init 0 0 [] 0 1000) ops with
  | Ok w => el_to_save (w_el w) = [] /\ im_saved (el_im (w_el w)) = 0 /\ el_last (w_el w) (w_lr w) = 6
            /\ wf_ops 1000 (sp_init 0 0 [] 0) ops = false
  | _ => False end.
Proof. vm_compute. repeat split; reflexivity. Qed.
