(* C06 — ReadIndex never returns a stale index. LOCAL half on the faithful L1 model: what a
   leader records, what it takes to release a read, what a role/term change discards.
   The global statement (released index >= every commit index at request time) needs
   leader_completeness (Props/L2.v); the cluster monitor checks it on every simulated run. *)
From DB Require Import Model.RaftCore Proofs.RaftReadIndex.
Open Scope N_scope.

Theorem confirm_release_sound :
  forall r ctx from q r' ris, ri_confirm r ctx from q = (r', ris) -> ris <> [] ->
  exists before rs after,
    r_reads r = before ++ rs :: after /\ ctx_eqb (rs_ctx rs) ctx = true /\
    q <= nlen (if mem_n from (rs_confirmed rs) then rs_confirmed rs else from :: rs_confirmed rs) + 1 /\
    map rs_ctx ris = map rs_ctx (before ++ [rs]) /\
    Forall (fun v => rs_index v = rs_index rs) ris /\
    (r_panic r' = r_panic r -> Forall (fun v => rs_index v <= rs_index rs) before) /\
    r_reads r' = after.
Proof. exact confirm_release_sound_proved. Qed.
Print Assumptions confirm_release_sound.

Theorem read_refused_before_own_term_commit :
  forall r m, is_single_node_quorum r = false -> has_committed_entry_at_current_term r = false ->
    r_reads (handle_leader_read_index r m) = r_reads r /\
    r_ready (handle_leader_read_index r m) = r_ready r /\
    (forall x, In x (r_msgs (handle_leader_read_index r m)) -> In x (r_msgs r)).
Proof. exact read_recorded_only_after_own_term_commit_proved. Qed.
Print Assumptions read_refused_before_own_term_commit.

Theorem read_recorded_with_commit_index :
  forall r m, is_leader r = true -> is_single_node_quorum r = false -> amem (m_from m) (r_witnesses r) = false ->
    r_term r <> 0 -> has_committed_entry_at_current_term r = true ->
    existsb (fun rs => ctx_eqb (rs_ctx rs) (m_hint m, m_hinthigh m)) (r_reads r) = false ->
    (match r_reads r with [] => True | _ => rs_index (last (r_reads r) (mkRS (0,0) 0 0 [])) <= l_committed (r_log r) end) ->
    exists r1, r1 = ri_add_request r (l_committed (r_log r)) (m_hint m, m_hinthigh m) (m_from m) /\
               r_reads r1 = r_reads r ++ [mkRS (m_hint m, m_hinthigh m) (l_committed (r_log r)) (m_from m) []] /\
               handle_leader_read_index r m = broadcast_heartbeat_hint r1 (m_hint m, m_hinthigh m).
Proof. exact read_recorded_with_commit_index_proved. Qed.
Print Assumptions read_recorded_with_commit_index.

Theorem reset_discards_pending_reads : forall r t b, r_reads (reset r t b) = [].
Proof. exact reset_discards_pending_reads_proved. Qed.
Print Assumptions reset_discards_pending_reads.

Theorem single_node_read_index :
  forall r m, is_leader r = true -> is_single_node_quorum r = true -> amem (m_from m) (r_witnesses r) = false ->
    exists rest, r_ready (handle_leader_read_index r m) = r_ready r ++ [(l_committed (r_log r), (m_hint m, m_hinthigh m))] /\
                 r_reads (handle_leader_read_index r m) = r_reads r /\ rest = tt.
Proof. exact single_node_read_index_proved. Qed.
Print Assumptions single_node_read_index.

(* non-vacuity: a confirmation from one of two followers releases the queue of a 3-voter leader *)
Example confirm_example :
  let r0 := new_raft 1 Follower 10 1 false false (mkLog 0 0 [] 0 0 0 None empty_snapshot) [1; 2; 3] [] [] None 12 in
  let r := r0 <| r_reads := [mkRS (7, 1) 4 0 []; mkRS (8, 1) 6 2 []] |> in
  map rs_index (snd (ri_confirm r (8, 1) 3 2)) = [6; 6].
Proof. vm_compute. reflexivity. Qed.
