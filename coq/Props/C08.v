(* C08 — snapshot + log suffix = replaying the full log; compaction never goes
   above a recorded snapshot. Statements only: each theorem is closed by
   [exact <lemma>]; proofs live in Proofs/RsmApply.v. *)
From DB Require Import Base.Bytes Gen.GenC05 Gen.GenC08 Model.RsmApply Proofs.RsmApply.
From DB Require Model.Session Model.Membership.
Open Scope N_scope.

(* ---- compaction (node.go doSave / compactLog / getCompactionIndex / recover /
   removeLog) ---------------------------------------------------------------- *)

(* every value handed to LogReader.Compact / ILogDB.RemoveEntriesTo — in every run
   of the node's bookkeeping: any interleaving of saves (periodic, user requested
   with any overhead / compaction index, exported, aborted, commit refused),
   snapshots received from a leader, recoveries, restarts and removeLog calls, for
   every config.CompactionOverhead incl. 0 — is positive and at most the index of a
   snapshot whose record had ALREADY been committed to the log store at that
   moment; the record is still there at the end of the run *)
Theorem compaction_below_recorded_snapshot : forall oh ops,
  Forall (fun p : N * list N =>
            0 < fst p /\
            (exists r, In r (snd p) /\ fst p <= r) /\
            incl (snd p) (n_recorded (nrun oh ninit ops)))
         (n_removed (nrun oh ninit ops)).
Proof. exact compaction_below_recorded_snapshot_proved. Qed.
Print Assumptions compaction_below_recorded_snapshot.

Example compaction_nonvacuous :
  n_removed (nrun 2 ninit [NSave default_req 10 (SaveOk 10) true; NRemoveLog;
                           NSave (mkReq false true 0 12) 15 (SaveOk 15) true; NRemoveLog;
                           NRestart; NRecover true true; NRemoveLog])
  = [(13, [15; 10]); (12, [15; 10]); (8, [10])].
Proof. vm_compute. reflexivity. Qed.

(* all three branches of getCompactionIndex *)
Theorem get_compaction_index_spec : forall oh q index v,
  get_compaction_index oh q index = Some v ->
  0 < v /\ v <= index /\
  ((q_override q = true /\ 0 < q_cindex q /\ v = q_cindex q /\ v < index) \/
   (q_override q = true /\ q_cindex q = 0 /\ v = index - q_overhead q) \/
   (q_override q = false /\ v = index - oh)).
Proof. exact get_compaction_index_spec_proved. Qed.
Print Assumptions get_compaction_index_spec.

Theorem compaction_overhead_zero : forall q index,
  0 < index -> q_override q = false -> get_compaction_index 0 q index = Some index.
Proof. exact compaction_overhead_zero_proved. Qed.
Print Assumptions compaction_overhead_zero.

(* the snapshot records in the log store only grow under the bookkeeping *)
Theorem recorded_grow_only : forall oh st op, incl (n_recorded st) (n_recorded (nstep oh st op)).
Proof. exact recorded_grow_only_proved. Qed.
Print Assumptions recorded_grow_only.

(* FINDING (repaired in /repo, see findings/known.txt): with the comparison as it
   stood (`index >= req.CompactionIndex+1` in uint64 arithmetic) a user requested
   compaction index of 2^64-1 was handed to the compaction although it is above
   the snapshot index; below 2^64-1 the repaired comparison is the same function *)
Theorem compaction_index_wrap_refuted :
  exists q index v, index < 2 ^ 64 /\ q_cindex q < 2 ^ 64 /\
    get_compaction_index_wrapping 0 q index = Some v /\ index < v.
Proof. exact compaction_index_wrap_refuted_proved. Qed.
Print Assumptions compaction_index_wrap_refuted.

Theorem compaction_index_wrapping_agrees : forall oh q index,
  q_cindex q < 2 ^ 64 - 1 ->
  get_compaction_index_wrapping oh q index = get_compaction_index oh q index.
Proof. exact compaction_index_wrapping_agrees_proved. Qed.
Print Assumptions compaction_index_wrapping_agrees.

(* the comparisons, captured fields and call orders the model is written from, as
   re-read from the source on this run *)
Theorem source_tie :
  src_eta_old_le = true /\ src_eta_hole_gt = true /\ src_eta_skip = true /\
  src_set_applied_next = true /\ src_set_applied_term = true /\
  src_in_init_le = true /\ src_set_od_init_le = true /\ src_set_od_le = true /\
  src_recover_required_init = true /\ src_recover_required = true /\ src_partial_check_init = true /\
  src_recover_out_of_date_ge = true /\ src_recover_partial = true /\ src_status_same_index = true /\
  src_ssmeta_fields = true /\ src_apply_restores = true /\ src_dummy_rule = true /\
  src_compaction_user_index = true /\ src_compaction_user_index_set = true /\
  src_compaction_user_overhead = true /\ src_compaction_overhead = true /\
  src_dosave_order = true /\ src_commit_order = true /\ src_recover_order = true /\
  src_remove_log_order = true /\ src_save_raft_state_before_process_snapshot = true /\
  src_snapshot_update_not_fast_applied = true.
Proof. exact source_tie_proved. Qed.
Print Assumptions source_tie.
