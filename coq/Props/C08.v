(* C08 — snapshot + log suffix = replaying the full log; compaction never goes
   above a recorded snapshot. Statements only: each theorem is closed by
   [exact <lemma>]; proofs live in Proofs/RsmApply.v. *)
From DB Require Import Base.Bytes Gen.GenC05 Gen.GenC08 Model.RsmApply Proofs.RsmApply.
From DB Require Model.Session Model.Membership.
From DB Require Model.RaftCore Proofs.SnapshotFallback.
Open Scope N_scope.

(* ---- the apply path (internal/rsm/statemachine.go, raftpb/entry.go) ----------
   Everything is quantified over the user state machine (S, result, sm_update,
   sm_save, sm_recover with sm_recover (sm_save s) = Some s), the address
   normalisation, the configuration, the session capacity, ALL logs [es] (indexes
   1, 2, 3, ..., positive terms) and ALL delivery schedules: [delivery es pos ts
   final] says that the task list [ts] hands the log to a replica that has applied
   [pos] entries in segments that each start at or below the first unapplied entry
   (any overlap, any batch size) and reaches [final].                              *)

(* BATCHING / RE-DELIVERY IS INVISIBLE: a task list does exactly what applying the
   not yet applied entries one by one does — same state, same reports, same panic *)
Theorem tasks_equal_entries :
  forall (S result : Type) (sm_update : S -> bytes -> S * result) norm cfg es,
  contiguous 0 es -> Forall (fun e => 0 < en_term e) es ->
  forall pos ts final, delivery es pos ts final ->
  forall st : @state S result, synced st -> r_index st = N.of_nat pos -> (pos <= length es)%nat ->
  run_tasks sm_update norm cfg st ts =
  run_sync sm_update norm cfg st (firstn (final - pos) (skipn pos es)).
Proof. exact @run_tasks_delivery. Qed.
Print Assumptions tasks_equal_entries.

(* two replicas handed the same log — cut into tasks and re-delivered in any two
   ways — end in identical states and report identical results *)
Theorem apply_is_function_of_log :
  forall (S result : Type) (sm_update : S -> bytes -> S * result) norm cfg es cap (s0 : S) ts1 ts2,
  contiguous 0 es -> Forall (fun e => 0 < en_term e) es ->
  delivery es 0 ts1 (length es) -> delivery es 0 ts2 (length es) ->
  run_tasks sm_update norm cfg (init_state cap s0) ts1 = run_tasks sm_update norm cfg (init_state cap s0) ts2 /\
  run_tasks sm_update norm cfg (init_state cap s0) ts1 = run_sync sm_update norm cfg (init_state cap s0) es.
Proof. exact @apply_is_function_of_log_proved. Qed.
Print Assumptions apply_is_function_of_log.

(* GAP FREEDOM: the hole panic of EntriesToApply and the index / term / batch
   assertions of setApplied / setLastApplied are unreachable from a gap-free log
   under every delivery schedule; the applied index advances by exactly one per
   entry and every entry is reported once *)
Theorem apply_gap_free :
  forall (S result : Type) (sm_update : S -> bytes -> S * result) norm cfg es cap (s0 : S) ts final,
  contiguous 0 es -> terms_ok 0 es -> delivery es 0 ts final ->
  match run_tasks sm_update norm cfg (init_state cap s0) ts with
  | Err x => x = ENotManaged \/ x = ECC \/ x = ESession \/ (x = EOnDisk /\ c_ondisk cfg = true)
  | Ok (st, evs) => r_index st = N.of_nat final /\ r_last_index st = N.of_nat final /\ length evs = final
  end.
Proof. exact @apply_gap_free_proved. Qed.
Print Assumptions apply_gap_free.

(* SNAPSHOT + LOG SUFFIX = FULL LOG (regular and concurrent state machines; file
   snapshots: the replica's own on restart, the leader's when it lags, an exported
   one). For every log, every cut [k] with a non-empty membership, every earlier
   snapshot index [ssi] of the cut replica, a snapshot of kind regular or exported
   taken at [k] succeeds, leaves the replica unchanged (only snapshotIndex moves)
   and ANY replica behind [k] — fresh ([init] = true; any factory state, any
   default capacity) or running and lagging ([init] = false) — that recovers from
   it and is then handed the rest of the log under ANY delivery schedule starting
   at or below [k] ends with the same five components [obs] = (user data, session
   table in LRU order, membership, applied index, term) as the uninterrupted
   replica, and reports the same result for every entry after the cut. *)
Theorem snapshot_cut_equiv :
  forall (S result : Type) (sm_update : S -> bytes -> S * result) norm
         (sm_save : S -> bytes) (sm_recover : bytes -> option S),
  (forall s, sm_recover (sm_save s) = Some s) ->
  forall cfg cap (s0 : S) es k st_f evs_f,
  c_ondisk cfg = false -> 0 < cap ->
  contiguous 0 es -> Forall (fun e => 0 < en_term e) es ->
  run_entries sm_update norm cfg (init_state cap s0) es = Ok (st_f, evs_f) ->
  (0 < k <= length es)%nat ->
  exists st_k evs_k evs_r,
    run_entries sm_update norm cfg (init_state cap s0) (firstn k es) = Ok (st_k, evs_k) /\
    evs_f = evs_k ++ evs_r /\
    forall kind ssi,
      kind <> SSStreaming -> Membership.m_is_empty (r_mem st_k) = false ->
      ssi <= r_index st_k -> (kind = SSExported \/ ssi <> r_index st_k) ->
      let cutter := with_ss_index (sync st_k) ssi in
      exists img,
        snapshot sm_save cfg kind cutter = Ok (Snap img (with_ss_index (sync st_k) (r_index st_k))) /\
        i_index img = N.of_nat k /\
        forall (init : bool) (st0 : @state S result) ts,
          r_last_index st0 < N.of_nat k -> r_od_init st0 = 0 -> r_od st0 = 0 ->
          delivery es k ts (length es) ->
          exists st_r st_f',
            recover sm_recover cfg init st0 img = Ok (Recovered st_r) /\ obs st_r = obs st_k /\
            run_tasks sm_update norm cfg st_r ts = Ok (st_f', evs_r) /\ obs st_f' = obs st_f.
Proof. exact @snapshot_cut_equiv_proved. Qed.
Print Assumptions snapshot_cut_equiv.

Definition demo_cc : Membership.cc := Membership.mkCC 0 0%Z 1 [97; 49] false.
Definition demo_log : list entry :=
  [ mkE 1 1 (BCC demo_cc);
    mkE 2 1 (BApp (Session.mkEntry 5 (2 ^ 64 - 2) 0 []));
    mkE 3 1 (BApp (Session.mkEntry 5 1 0 [1; 2; 3]));
    mkE 4 2 (BApp (Session.mkEntry 9 0 0 [7]));
    mkE 5 2 (BApp (Session.mkEntry 5 2 1 [4])) ].

(* a restart from a snapshot at 3 with an overlap of two entries *)
Example snapshot_cut_nonvacuous :
  let cfg := mkCfg false false in
  match rsm_run_entries cfg (rsm_init 4 0) demo_log, rsm_run_entries cfg (rsm_init 4 0) (firstn 3 demo_log) with
  | Ok (f, _), Ok (sk, _) =>
    match rsm_snapshot cfg SSRegular (sync sk) with
    | Ok (Snap img _) =>
      match rsm_recover cfg true (rsm_init 9 77) img with
      | Ok (Recovered r) =>
        match rsm_apply_task cfg r (skipn 1 demo_log) with
        | Ok (f', evs) => obs f' = obs f /\ r_index f = 5 /\ r_sm f <> 0 /\ Session.t_list (r_tab f) <> [] /\ length evs = 2%nat
        | _ => False
        end
      | _ => False
      end
    | _ => False
    end
  | _, _ => False
  end.
Proof. vm_compute. repeat split; discriminate. Qed.

(* CONCURRENT snapshots: everything that goes into the image is captured by
   prepare() in one critical section; whatever the replica applies between
   prepare() and the end of the save, the image is the one an atomic snapshot at
   the prepare point produces (so snapshot_cut_equiv applies to it) *)
Theorem snapshot_cut_equiv_concurrent :
  forall (S result : Type) (sm_save : S -> bytes) cfg k (st st_later : @state S result) m st1,
  prepare cfg k st = Ok (Prepared m st1) ->
  fst (finish_save sm_save cfg m st_later) = fst (finish_save sm_save cfg m st1) /\
  snapshot sm_save cfg k st = Ok (Snap (fst (finish_save sm_save cfg m st1)) (snd (finish_save sm_save cfg m st1))).
Proof. exact @snapshot_concurrent_image_proved. Qed.
Print Assumptions snapshot_cut_equiv_concurrent.

(* ON-DISK state machines: the snapshot is a dummy (membership, index, term,
   OnDiskIndex; no user data, the session table is not restored — sessions are
   not supported there, [ondisk_entry]); the user data comes back from the state
   machine's own disk, which holds the state after an entry [pD] it applied
   (r_od st_D = pD: Open returns an index it applied, or 0) with
   OnDiskIndex(snapshot) <= pD (Sync precedes the snapshot). Entries at or below
   pD are no-ops for the user state machine while config changes still apply. *)
Theorem snapshot_cut_equiv_ondisk :
  forall (S result : Type) (sm_update : S -> bytes -> S * result) norm
         (sm_save : S -> bytes) (sm_recover : bytes -> option S),
  (forall s, sm_recover (sm_save s) = Some s) ->
  forall cfg cap (s0 : S) es k pD st_f evs_f,
  c_ondisk cfg = true -> 0 < cap ->
  contiguous 0 es -> Forall (fun e => 0 < en_term e) es -> Forall ondisk_entry es ->
  run_entries sm_update norm cfg (init_state cap s0) es = Ok (st_f, evs_f) ->
  (0 < k <= length es)%nat -> (pD <= length es)%nat ->
  exists st_k evs_k st_D evs_D,
    run_entries sm_update norm cfg (init_state cap s0) (firstn k es) = Ok (st_k, evs_k) /\
    run_entries sm_update norm cfg (init_state cap s0) (firstn pD es) = Ok (st_D, evs_D) /\
    forall ssi ts,
      Membership.m_is_empty (r_mem st_k) = false -> ssi <= r_index st_k ->
      r_od st_D = N.of_nat pD -> r_od st_k <= N.of_nat pD ->
      delivery es k ts (length es) ->
      exists img st_r st_f' evs',
        snapshot sm_save cfg SSRegular (with_ss_index (sync st_k) ssi) =
          Ok (Snap img (with_ss_index (sync st_k) (r_index st_k))) /\
        i_dummy img = true /\ i_data img = None /\
        recover sm_recover cfg true (open_ondisk (init_state cap (r_sm st_D)) (N.of_nat pD)) img = Ok (Recovered st_r) /\
        run_tasks sm_update norm cfg st_r ts = Ok (st_f', evs') /\ obs st_f' = obs st_f /\ r_od st_f' = r_od st_f.
Proof. exact @snapshot_cut_equiv_ondisk_proved. Qed.
Print Assumptions snapshot_cut_equiv_ondisk.

Definition demo_disk_log : list entry :=
  [ mkE 1 1 (BCC demo_cc);
    mkE 2 1 (BApp (Session.mkEntry 9 0 0 [1]));
    mkE 3 1 (BApp (Session.mkEntry 0 0 0 []));
    mkE 4 2 (BApp (Session.mkEntry 9 0 0 [2; 3]));
    mkE 5 2 (BCC (Membership.mkCC 0 0%Z 2 [97; 50] false));
    mkE 6 2 (BApp (Session.mkEntry 8 0 0 [4])) ].

(* snapshot at 3, the disk holds the state after entry 4: entry 4 is skipped for
   the user state machine, 5 (config change) and 6 are applied *)
Example snapshot_cut_ondisk_nonvacuous :
  let cfg := mkCfg true false in
  match rsm_run_entries cfg (rsm_init 4 0) demo_disk_log,
        rsm_run_entries cfg (rsm_init 4 0) (firstn 3 demo_disk_log),
        rsm_run_entries cfg (rsm_init 4 0) (firstn 4 demo_disk_log) with
  | Ok (f, _), Ok (sk, _), Ok (sd, _) =>
    match rsm_snapshot cfg SSRegular (sync sk) with
    | Ok (Snap img _) =>
      match rsm_recover cfg true (rsm_open_ondisk (rsm_init 4 (r_sm sd)) 4) img with
      | Ok (Recovered r) =>
        match rsm_apply_task cfg r (skipn 2 demo_disk_log) with
        | Ok (f', evs) => obs f' = obs f /\ r_od sd = 4 /\ r_od sk = 2 /\ i_dummy img = true /\
                          r_od f' = 6 /\ evs = [EvSkip; EvCC true; EvApp (Session.OApplied (r_sm f, [4]))]
        | _ => False
        end
      | _ => False
      end
    | _ => False
    end
  | _, _, _ => False
  end.
Proof. vm_compute. repeat split. Qed.

(* A STREAMED SNAPSHOT NEVER CARRIES DATA NEWER THAN ITS INDEX (on-disk state
   machines; node.canStream -> StateMachine.ReadyToStream). A replica restarted
   with its state machine opened at D, recovered from the snapshot it had recorded
   and handed any part of its log accepts a Stream task only in states whose image
   has OnDiskIndex <= Index; while it still replays below D the task is refused. *)
Theorem stream_image_not_ahead :
  forall (S result : Type) (sm_update : S -> bytes -> S * result) norm
         (sm_save : S -> bytes) (sm_recover : bytes -> option S),
  (forall s, sm_recover (sm_save s) = Some s) ->
  forall cfg cap (s : S) D img (st_r st : @state S result) es evs m st1,
  c_ondisk cfg = true -> i_od img <= i_index img ->
  recover sm_recover cfg true (open_ondisk (init_state cap s) D) img = Ok (Recovered st_r) ->
  run_entries sm_update norm cfg st_r es = Ok (st, evs) ->
  ready_to_stream cfg (sync st) = true ->
  prepare cfg SSStreaming (sync st) = Ok (Prepared m st1) ->
  mt_od m <= mt_index m /\ i_od (image_of sm_save cfg m) <= i_index (image_of sm_save cfg m).
Proof. exact @stream_image_not_ahead_proved. Qed.
Print Assumptions stream_image_not_ahead.

(* the guard is needed: the disk at 4, the dummy snapshot at 3, one entry replayed
   ... the replica is not ready, and the image it would stream has the metadata of
   index 3 with the data of index 4; once the replay has passed 4 it is ready *)
Example stream_guard_nonvacuous :
  let cfg := mkCfg true false in
  match rsm_run_entries cfg (rsm_init 4 0) (firstn 2 demo_disk_log),
        rsm_run_entries cfg (rsm_init 4 0) (firstn 4 demo_disk_log) with
  | Ok (sk, _), Ok (sd, _) =>
    match rsm_snapshot cfg SSRegular (sync sk) with
    | Ok (Snap img _) =>
      match rsm_recover cfg true (rsm_open_ondisk (rsm_init 4 (r_sm sd)) 4) img with
      | Ok (Recovered r) =>
        match rsm_apply_task cfg r (firstn 1 (skipn 2 demo_disk_log)), rsm_apply_task cfg r (skipn 2 demo_disk_log) with
        | Ok (r3, _), Ok (r6, _) =>
          rsm_ready_to_stream cfg r3 = false /\ r_index r3 = 3 /\ r_od r3 = 4 /\
          rsm_ready_to_stream cfg r6 = true /\ r_index r6 = 6 /\ r_od r6 = 6
        | _, _ => False
        end
      | _ => False
      end
    | _ => False
    end
  | _, _ => False
  end.
Proof. vm_compute. repeat split. Qed.

(* ---- the raft side (internal/raft raft.go sendReplicateMessage, L1 model RaftCore) ------ *)
Module RC := RaftCore.

(* every message sendReplicateMessage emits is a Replicate whose entries are the
   leader's log from the follower's next index on, with previous index next-1
   (nothing skipped), or - when those entries are no longer in the log - an
   InstallSnapshot carrying the leader's snapshot record *)
Theorem replicate_or_snapshot : forall r to k rp,
  RC.find_peer r to = Some (k, rp) ->
  exists new, RC.r_msgs (RC.send_replicate r to) = RC.r_msgs r ++ new /\
    (new = [] \/ exists x, new = [x] /\ RC.m_to x = to /\
      ((RC.m_type x = GenRaft.mt_Replicate /\ RC.m_logindex x = RC.rm_next rp - 1 /\
        exists ents0, RC.log_entries_from (RC.r_log r) (RC.rm_next rp) = Some ents0 /\
          RC.m_entries x = match k with RC.KWitness => RC.make_metadata_entries ents0 | _ => ents0 end) \/
       (RC.m_type x = GenRaft.mt_InstallSnapshot /\ RC.log_entries_from (RC.r_log r) (RC.rm_next rp) = None /\
        RC.ss_index (RC.m_snapshot x) = RC.ss_index (RC.log_snapshot (RC.r_log r)) /\
        RC.ss_index (RC.m_snapshot x) <> 0))).
Proof. exact SnapshotFallback.replicate_or_snapshot_proved. Qed.
Print Assumptions replicate_or_snapshot.

(* A LAGGING FOLLOWER WHOSE ENTRIES WERE COMPACTED GETS A SNAPSHOT, NEVER A GAP: with
   the follower's next entry below the leader's first available one, the only
   message is an InstallSnapshot; because the log is never compacted above a
   recorded snapshot (compaction_below_recorded_snapshot: marker <= snapshot index)
   it reaches next-1 and the leader's marker, so after installing it the follower
   needs only entries the leader still has *)
Theorem compacted_follower_gets_snapshot : forall r to k rp,
  RC.find_peer r to = Some (k, rp) ->
  RC.rm_next rp < RC.log_first (RC.r_log r) -> RC.rm_next rp <= RC.log_last (RC.r_log r) ->
  RC.l_marker (RC.r_log r) <= RC.ss_index (RC.log_snapshot (RC.r_log r)) ->
  exists new, RC.r_msgs (RC.send_replicate r to) = RC.r_msgs r ++ new /\
    (new = [] \/ exists x, new = [x] /\ RC.m_to x = to /\ RC.m_type x = GenRaft.mt_InstallSnapshot /\
       RC.rm_next rp - 1 <= RC.ss_index (RC.m_snapshot x) /\
       RC.log_first (RC.r_log r) <= RC.ss_index (RC.m_snapshot x) + 1).
Proof. exact SnapshotFallback.compacted_follower_gets_snapshot_proved. Qed.
Print Assumptions compacted_follower_gets_snapshot.

(* the leader's log starts at 6 (marker 5, snapshot record at 6), follower 2 needs entry 3 *)
Example compacted_follower_nonvacuous :
  let l := RC.mkLog 5 1 [RC.mkEnt 1 6 0 0 0 0 0 []; RC.mkEnt 1 7 0 0 0 0 0 []] 7 7 7 None
                    (RC.mkSnap 6 1 [1; 2] [] [] false false true 0) in
  let r := RC.set_peer (RC.new_raft 1 RC.Follower 10 2 false false l [1; 2] [] [] None 0) RC.KRemote 2
                       (RC.mkRemote 0 3 0 RC.RRetry true 0 false) in
  (exists rp, RC.find_peer r 2 = Some (RC.KRemote, rp) /\ RC.rm_next rp < RC.log_first (RC.r_log r) /\
              RC.rm_next rp <= RC.log_last (RC.r_log r)) /\
  RC.l_marker (RC.r_log r) <= RC.ss_index (RC.log_snapshot (RC.r_log r)) /\
  map (fun x => (RC.m_type x, RC.m_to x, RC.ss_index (RC.m_snapshot x), RC.m_entries x))
      (RC.r_msgs (RC.send_replicate r 2)) = [(GenRaft.mt_InstallSnapshot, 2, 6, [])].
Proof.
  vm_compute. split; [|split; [discriminate|reflexivity]].
  eexists. split; [reflexivity|]. split; [reflexivity|discriminate].
Qed.

(* ---- compaction (node.go doSave / compactLog / getCompactionIndex / recover /
   removeLog) ---------------------------------------------------------------- *)

(* every value handed to LogReader.Compact / ILogDB.RemoveEntriesTo — in every run
   of the node's bookkeeping: any interleaving of saves (periodic, user requested
   with any overhead / compaction index, exported, aborted, commit refused),
   snapshots received from a leader, recoveries, restarts and removeLog calls, for
   every config.CompactionOverhead incl. 0 — is positive and at most the index of a
   snapshot whose record had ALREADY been committed to the log store at that
   moment; the record is still there at the end of the run *)
Theorem compaction_below_recorded_snapshot : forall oh ops,
  Forall (fun p : N * list N =>
            0 < fst p /\
            (exists r, In r (snd p) /\ fst p <= r) /\
            incl (snd p) (n_recorded (nrun oh ninit ops)))
         (n_removed (nrun oh ninit ops)).
Proof. exact compaction_below_recorded_snapshot_proved. Qed.
Print Assumptions compaction_below_recorded_snapshot.

Example compaction_nonvacuous :
  n_removed (nrun 2 ninit [NSave default_req 10 (SaveOk 10) true; NRemoveLog;
                           NSave (mkReq false true 0 12) 15 (SaveOk 15) true; NRemoveLog;
                           NRestart; NRecover true true; NRemoveLog])
  = [(13, [15; 10]); (12, [15; 10]); (8, [10])].
Proof. vm_compute. reflexivity. Qed.

(* all three branches of getCompactionIndex *)
Theorem get_compaction_index_spec : forall oh q index v,
  get_compaction_index oh q index = Some v ->
  0 < v /\ v <= index /\
  ((q_override q = true /\ 0 < q_cindex q /\ v = q_cindex q /\ v < index) \/
   (q_override q = true /\ q_cindex q = 0 /\ v = index - q_overhead q) \/
   (q_override q = false /\ v = index - oh)).
Proof. exact get_compaction_index_spec_proved. Qed.
Print Assumptions get_compaction_index_spec.

Theorem compaction_overhead_zero : forall q index,
  0 < index -> q_override q = false -> get_compaction_index 0 q index = Some index.
Proof. exact compaction_overhead_zero_proved. Qed.
Print Assumptions compaction_overhead_zero.

(* the snapshot records in the log store only grow under the bookkeeping *)
Theorem recorded_grow_only : forall oh st op, incl (n_recorded st) (n_recorded (nstep oh st op)).
Proof. exact recorded_grow_only_proved. Qed.
Print Assumptions recorded_grow_only.

(* FINDING (repaired in /repo, see findings/known.txt): with the comparison as it
   stood (`index >= req.CompactionIndex+1` in uint64 arithmetic) a user requested
   compaction index of 2^64-1 was handed to the compaction although it is above
   the snapshot index; below 2^64-1 the repaired comparison is the same function *)
Theorem compaction_index_wrap_refuted :
  exists q index v, index < 2 ^ 64 /\ q_cindex q < 2 ^ 64 /\
    get_compaction_index_wrapping 0 q index = Some v /\ index < v.
Proof. exact compaction_index_wrap_refuted_proved. Qed.
Print Assumptions compaction_index_wrap_refuted.

Theorem compaction_index_wrapping_agrees : forall oh q index,
  q_cindex q < 2 ^ 64 - 1 ->
  get_compaction_index_wrapping oh q index = get_compaction_index oh q index.
Proof. exact compaction_index_wrapping_agrees_proved. Qed.
Print Assumptions compaction_index_wrapping_agrees.

(* the comparisons, captured fields and call orders the model is written from, as
   re-read from the source on this run *)
Theorem source_tie :
  src_eta_old_le = true /\ src_eta_hole_gt = true /\ src_eta_skip = true /\
  src_set_applied_next = true /\ src_set_applied_term = true /\
  src_in_init_le = true /\ src_set_od_init_le = true /\ src_set_od_le = true /\
  src_recover_required_init = true /\ src_recover_required = true /\ src_partial_check_init = true /\
  src_recover_out_of_date_ge = true /\ src_recover_partial = true /\ src_status_same_index = true /\
  src_ssmeta_fields = true /\ src_apply_restores = true /\ src_dummy_rule = true /\
  src_compaction_user_index = true /\ src_compaction_user_index_set = true /\
  src_compaction_user_overhead = true /\ src_compaction_overhead = true /\
  src_dosave_order = true /\ src_commit_order = true /\ src_recover_order = true /\
  src_remove_log_order = true /\ src_save_raft_state_before_process_snapshot = true /\
  src_snapshot_update_not_fast_applied = true /\
  src_can_stream_guard = true /\ src_ready_to_stream = true /\ src_concurrent_save_syncs = true /\
  src_membership_get_copies = true /\ src_send_snapshot_decision = true /\
  src_stream_task_outcome = true /\ src_chunk_sync_cond = true /\ src_batch_payload_own_buffer = true.
Proof. exact source_tie_proved. Qed.
Print Assumptions source_tie.
