(* R17 - raft-side sub-check of C17: the receive queue of a replica neither loses nor
   duplicates a message it accepted, and a delayed snapshot status report is handed out
   once, only after its delay, and by the first Get after it.
   Statements only; proofs in Proofs/MsgQueue.v. [mq_run q ops] ranges over ALL sequences of
   Tick / Add / MustAdd / AddDelayed / Get / Close on Model/MsgQueue.v, from every queue state. *)
From Coq Require Import NArith List Permutation.
From DB Require Import Model.MsgQueue Proofs.MsgQueue.
Import ListNotations.
Open Scope N_scope.

(* conservation: held before + accepted during = handed out during + held after, as multisets *)
Theorem queue_no_loss_no_duplication : forall ops q,
  Permutation (held q ++ accepted ops (snd (mq_run q ops)))
              (delivered (snd (mq_run q ops)) ++ held (fst (mq_run q ops))).
Proof. exact no_loss_no_duplication_proved. Qed.
Print Assumptions queue_no_loss_no_duplication.

(* a Get at tick [now] hands out a delayed record iff its due tick is past, keeps it otherwise *)
Theorem delayed_due_exactly : forall now d id due, In (id, due) d ->
  (In id (fst (get_delayed now d)) /\ due < now \/ In (id, due) (snd (get_delayed now d)) /\ now <= due).
Proof. exact delayed_due_exactly_proved. Qed.
Print Assumptions delayed_due_exactly.

(* Get empties the ordinary and the no-drop buffers and keeps only the not-yet-due records *)
Theorem get_hands_out_everything_due : forall q,
  let q' := fst (mq_step q MGet) in
  q_items q' = [] /\ q_nodrop q' = [] /\ (forall id due, In (id, due) (q_delayed q') -> q_tick q <= due).
Proof. exact get_hands_out_everything_due_proved. Qed.
Print Assumptions get_hands_out_everything_due.

(* no-drop messages and delayed reports are refused only by a closed queue *)
Theorem must_add_refused_only_when_closed : forall q id delay,
  snd (mq_step q (MMustAdd id)) = OBool (negb (q_stopped q)) /\
  snd (mq_step q (MAddDelayed id delay)) = OBool (negb (q_stopped q)).
Proof. exact must_add_refused_only_when_closed_proved. Qed.
Print Assumptions must_add_refused_only_when_closed.

Example queue_example :
  snd (mq_run (mq_init 2) [MAddDelayed 1 1; MAdd 2; MAdd 3; MAdd 4; MMustAdd 5; MGet; MTick; MGet; MTick; MGet]) =
  [OBool true; OAdd true false; OAdd true false; OAdd false false; OBool true;
   OGet [5; 2; 3]; ONone; OGet []; ONone; OGet [1]].
Proof. vm_compute. reflexivity. Qed.
