(* C11 — the user state machine sees each committed entry once, in order, never
   concurrently. Statements only; proofs in Proofs/SMThreads.v and
   Proofs/ApplyOrder.v.

   Interleaving theorems: [gen_cfg k nsnap] is the thread model configured by the
   lock table and engine facts GENERATED from the source (Gen/GenC11.v), for
   state machine kind k (Plain = IStateMachine, Conc = IConcurrentStateMachine,
   Disk = IOnDiskStateMachine), nsnap snapshot workers and n-2-nsnap client
   goroutines; [run cfg (init n) sched] is the state after the schedule [sched]
   (every list of actions is a schedule; a disabled action is a no-op), so the
   statements quantify over ALL interleavings. [in_call t = Some m]: thread t is
   between the entry and the return of user method m. *)
From Coq Require Import NArith List Bool Sorted.
From DB Require Import Gen.GenC11 Model.SMThreads Model.ApplyOrder Proofs.SMThreads Proofs.ApplyOrder.
Import ListNotations.
Open Scope nat_scope.

(* Update, Sync, PrepareSnapshot, RecoverFromSnapshot and Close never overlap one another *)
Theorem exclusive_core :
  forall k nsnap n sched i j m1 m2, 2 <= n -> i <> j ->
  let st := run (gen_cfg k nsnap) (init n) sched in
  in_call (getT st i) = Some m1 -> in_call (getT st j) = Some m2 ->
  core m1 = true -> core m2 = true -> False.
Proof. exact exclusive_core_proved. Qed.
Print Assumptions exclusive_core.

(* Close is entered at most once, and once it has been entered no other of these
   methods is in progress or starts *)
Theorem none_after_close :
  forall k nsnap n sched i m, 2 <= n ->
  let st := run (gen_cfg k nsnap) (init n) sched in
  (nclose st <= 1) /\
  (closed st = true -> in_call (getT st i) = Some m -> core m = true -> i = 1%nat /\ m = MClose).
Proof. exact none_after_close_proved. Qed.
Print Assumptions none_after_close.

(* plain state machine: Lookup / NALookup / SaveSnapshot never overlap Update,
   RecoverFromSnapshot or Close — derived from the generated table *)
Theorem plain_sm_lookup_save_exclusive :
  forall nsnap n sched i j m1 m2, 2 <= n -> i <> j ->
  let st := run (gen_cfg Plain nsnap) (init n) sched in
  in_call (getT st i) = Some m1 -> in_call (getT st j) = Some m2 ->
  plain_rw m1 = true -> plain_excl m2 = true -> False.
Proof. exact plain_sm_lookup_save_exclusive_proved. Qed.
Print Assumptions plain_sm_lookup_save_exclusive.

(* ... and none of them is in progress once Close has been entered *)
Theorem plain_sm_nothing_after_close :
  forall nsnap n sched i m, 2 <= n ->
  let st := run (gen_cfg Plain nsnap) (init n) sched in
  closed st = true -> in_call (getT st i) = Some m -> plain_rw m = true -> False.
Proof. exact plain_sm_nothing_after_close_proved. Qed.
Print Assumptions plain_sm_nothing_after_close.

(* defect F4 (repaired in /repo by "fix: hold NativeSM.mu exclusively in
   NativeSM.Close ..."): with the lock table of the source BEFORE the repair
   (NativeSM.Close calls the user Close and writes destroyed holding no mutex)
   the two-actor schedule f4_schedule puts a client Lookup beside the user Close *)
Theorem lookup_close_overlap_refuted :
  exists sched,
    let st := run (cfg_before_fix Plain 1) (init 4) sched in
    overlap plain_rw plain_excl st = true
    /\ calls st = [(1%nat, MClose); (3%nat, MLookup)] /\ closed st = true.
Proof. exact lookup_close_overlap_refuted_proved. Qed.
Print Assumptions lookup_close_overlap_refuted.

(* the order of the two shutdown calls of the snapshot pool (generated fact
   pool_stops_workers_before_unload) is needed by the theorems above: with
   unloadNodes() before workerStopper.Stop() NodeHost.Close lets the user Close
   run beside an in-flight SaveSnapshot (plain) / RecoverFromSnapshot (core) *)
Theorem unload_before_stop_refuted :
  (let st := run (cfg_unload_first Plain 1) (init 4) (unload_first_schedule JSave 4) in
   calls st = [(1, MClose); (2, MSave)] /\ overlap plain_rw plain_excl st = true)
  /\ (let st := run (cfg_unload_first Conc 1) (init 4) (unload_first_schedule JRecover 4) in
      calls st = [(1, MClose); (2, MRecover)] /\ overlap core core st = true)
  /\ calls (run (gen_cfg Plain 1) (init 4) (unload_first_schedule JSave 4)) = [(2, MSave)]
  /\ calls (run (gen_cfg Conc 1) (init 4) (unload_first_schedule JRecover 4)) = [(2, MRecover)].
Proof. exact unload_before_stop_refuted_proved. Qed.
Print Assumptions unload_before_stop_refuted.

(* the generated facts sched_checks_node_loaded (workerPool.scheduleWorker drops a waiting
   job whose shard left the pool's node map) and can_stream_checks_streaming (node.canStream
   refuses a stream task while the node is streaming) are needed: without the first a
   waiting save job runs PrepareSnapshot on a closed state machine, without the second two
   stream jobs are inside PrepareSnapshot together *)
Theorem pool_rules_needed :
  (let st := run (cfg_flip Conc 1 false true) (init 4) stale_job_schedule in
   closed st = true /\ destroyed st = true /\ calls st = [(2, MPrepare)])
  /\ calls (run (gen_cfg Conc 1) (init 4) stale_job_schedule) = []
  /\ (let st := run (cfg_flip Disk 2 true false) (init 5) two_streams_schedule in
      calls st = [(2, MPrepare); (3, MPrepare)] /\ overlap core core st = true)
  /\ calls (run (gen_cfg Disk 2) (init 5) two_streams_schedule) = [(2, MPrepare)].
Proof. exact pool_rules_needed_proved. Qed.
Print Assumptions pool_rules_needed.

(* the generated admission table of the snapshot pool (pool_blocks, from
   workerPool.canSchedule / canSave / canStream / inProgress) is needed: if a save job is
   not kept waiting by an ongoing stream of the shard, both are inside PrepareSnapshot *)
Theorem pool_admission_needed :
  (let st := run (cfg_save_beside_stream Disk 2) (init 5) stream_then_save_schedule in
   calls st = [(2, MPrepare); (3, MPrepare)] /\ overlap core core st = true)
  /\ calls (run (gen_cfg Disk 2) (init 5) stream_then_save_schedule) = [(2, MPrepare)].
Proof. exact pool_admission_needed_proved. Qed.
Print Assumptions pool_admission_needed.

(* a snapshot image of the user state machine is never taken (PrepareSnapshot, or the plain
   state machine's SaveSnapshot) while the state machine holds an update that the applied-index
   bookkeeping (s.index / s.onDiskIndex, the snapshot's label) does not yet reflect: needs the
   generated fact apply_bookkeeping_in_update_section (setApplied / setOnDiskIndex in the
   critical section of StateMachine.mu in which Update was called) *)
Theorem snapshot_label_consistent :
  forall k nsnap n sched, 2 <= n -> snap_bad (run (gen_cfg k nsnap) (init n) sched) = false.
Proof. exact snapshot_label_consistent_proved. Qed.
Print Assumptions snapshot_label_consistent.

(* with the bookkeeping done after the mutex was released a save job labels a post-update
   image with the pre-update index (the entries are then delivered twice after a restart) *)
Theorem bookkeeping_section_needed :
  snap_bad (run (cfg_book_late Conc 1) (init 4) late_book_schedule) = true
  /\ calls (run (cfg_book_late Conc 1) (init 4) late_book_schedule) = [(2, MPrepare)]
  /\ snap_bad (run (gen_cfg Conc 1) (init 4) late_book_schedule) = false.
Proof. exact bookkeeping_section_needed_proved. Qed.
Print Assumptions bookkeeping_section_needed.

(* the close worker's test of DestroyedC (generated fact close_worker_checks_destroyed) is
   needed for "Close at most once": a worker that saw the node before StopShard counts itself in
   afterwards (the generated facts say the increment happens outside NodeHost.mu), the counter
   reaches zero twice and the node reaches the close pool twice *)
Theorem close_destroyed_test_needed :
  nclose (run (cfg_close_twice Plain 1) (init 4) late_load_schedule) = 2
  /\ nclose (run (gen_cfg Plain 1) (init 4) late_load_schedule) = 1.
Proof. exact close_destroyed_test_needed_proved. Qed.
Print Assumptions close_destroyed_test_needed.

(* ---- the sequential apply path ---- *)
(* the indexes handed to Update are strictly increasing, for every task queue the apply path
   handles without a panic ([a_err] = 0; on an index gap the real apply path has already
   handed the entry to Update when setApplied panics: that call is in the model too) *)
Theorem update_indexes_strictly_increasing :
  forall applied init disk q,
  a_err (handle_tasks (a_start applied init disk) q) = 0%N ->
  StronglySorted (fun a b => (fst a < fst b)%N) (calls_of (handle_tasks (a_start applied init disk) q)).
Proof. exact update_indexes_strictly_increasing_proved. Qed.
Print Assumptions update_indexes_strictly_increasing.

(* an on-disk state machine is never handed an entry at or below the index returned by Open *)
Theorem ondisk_never_at_or_below_open_index :
  forall applied init q x,
  a_err (handle_tasks (a_start applied init true) q) = 0%N ->
  In x (calls_of (handle_tasks (a_start applied init true) q)) -> (init < fst x /\ applied < fst x)%N.
Proof. exact ondisk_never_at_or_below_open_index_proved. Qed.
Print Assumptions ondisk_never_at_or_below_open_index.

(* a gap-free stream of committed batches: every update entry (the session rules
   of C05 decide which entries are updates) is delivered exactly once, in order,
   except the ones the on-disk state machine already contains *)
Theorem each_committed_entry_once :
  forall applied init disk bs,
  chained applied bs ->
  let st := handle_tasks (a_start applied init disk) (map TEntries bs) in
  a_err st = 0%N /\ calls_of st = expected disk init (concat bs).
Proof. exact each_committed_entry_once_proved. Qed.
Print Assumptions each_committed_entry_once.

(* a streamed image is never labelled below what it contains (the receiver would be handed the
   entries between the label and the image's content a second time): needs the generated fact
   ready_to_stream_checks_applied (ReadyToStream: applied index >= index returned by Open) *)
Theorem stream_label_covers_image :
  forall applied init disk q l od,
  a_err (handle_tasks (a_start applied init disk) q) = 0%N ->
  In (Some (l, od)) (streams_of (handle_tasks (a_start applied init disk) q)) -> (od <= l)%N.
Proof. exact stream_label_covers_image_proved. Qed.
Print Assumptions stream_label_covers_image.

Theorem ready_to_stream_guard_needed :
  streams_of (handle_tasks (a_start_g false 2 6 true) [TEntries [mkEntry 3 KUpdate 7; mkEntry 4 KUpdate 8]; TStream])
    = [Some (4, 6)]%N
  /\ streams_of (handle_tasks (a_start 2 6 true) [TEntries [mkEntry 3 KUpdate 7; mkEntry 4 KUpdate 8]; TStream;
                                                   TEntries [mkEntry 5 KUpdate 9; mkEntry 6 KUpdate 1; mkEntry 7 KUpdate 2]; TStream])
    = [None; Some (7, 7)]%N.
Proof. exact ready_to_stream_guard_needed_proved. Qed.
Print Assumptions ready_to_stream_guard_needed.

(* rebuild_is_snapshot_plus_suffix_partial: not stated here. What is proved: a
   recover task moves the index to the snapshot's index and the entries after it
   are delivered by the theorem above (handle_task TRecover); that the snapshot
   content equals the replayed prefix is C08 (snapshot_cut_equiv). *)

(* non-vacuity: a schedule in which the apply worker is inside Update while a
   client is blocked on the mutex, one in which a snapshot worker saves beside
   client reads, and a batch stream with a dropped prefix on disk *)
Example c11_witness :
  calls (run (gen_cfg Plain 1) (init 4)
           [AApLoad; AApIncr; AApCheck; AApStart 0; AThr 0; AThr 0; AThr 0; AThr 0;
            AReaderStart 3 0; AThr 3; AThr 3]) = [(0%nat, MUpdate)]
  /\ calls (run (gen_cfg Plain 1) (init 4)
           [AApLoad; AApIncr; AApCheck; ADispatch JSave; APoolLoad; APoolIncr; APoolCheck; ASchedule 2 JSave;
            AThr 2; AThr 2; AThr 2; AThr 2;
            AReaderStart 3 0; AThr 3; AThr 3; AThr 3; AThr 3]) = [(2%nat, MSave); (3%nat, MLookup)]
  /\ calls_of (handle_tasks (a_start 2 3 true)
        [TEntries [mkEntry 3 KUpdate 7; mkEntry 4 KUpdate 8]; TSave; TEntries [mkEntry 4 KUpdate 8; mkEntry 5 KSkip 0; mkEntry 6 KUpdate 9]])
     = [(4, 8); (6, 9)]%N.
Proof. vm_compute. repeat split; reflexivity. Qed.
