(* C12 — every accepted request gets exactly one truthful terminal result.
   Statements only: each theorem is closed by [exact <lemma>]; proofs live in Proofs/Requests.v.
   [run ops (init ps nc pq rq)] ranges over ALL sequences of critical sections of all actors
   (clients, step / apply / commit workers, closer) over the model of /repo/request.go. *)
From Coq Require Import NArith List.
From DB Require Import Gen.GenC12 Model.Requests Proofs.Requests.
Import ListNotations.
Open Scope N_scope.

(* every result ever pushed into a request's channels is the one its code path produces:
   apply path -> Completed/Rejected with exactly the applied value, gc -> Timeout only after the
   deadline, close -> Terminated, ... *)
Theorem results_are_what_their_source_says : forall ps nc pq rq ops r e,
  In e (got (run ops (init ps nc pq rq)) r) -> ev_ok e.
Proof. exact reachable_evs_ok. Qed.
Print Assumptions results_are_what_their_source_says.
