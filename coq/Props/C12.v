(* C12 — every accepted request gets exactly one truthful terminal result.
   Statements only: each theorem is closed by [exact <lemma>]; proofs live in
   Proofs/Requests.v and Proofs/RequestsInv.v.

   [run ops (init ps nc pq rq)] ranges over ALL sequences of critical sections of all actors
   (clients incl. Release/reuse and draining, step / apply / commit workers, tick, gc, closer)
   over Model/Requests.v, the model of /repo/request.go at critical-section granularity, for every
   number of proposal shards, queue sizes, timeout value and choice of the pooled object.
   [env_ok ops s0]: along the run the environment kept its three assumptions (a new proposal key
   differs from the keys still pending or in flight in its node, node.close() once per table, an
   entry reported committed at most once) - the model
   records a broken assumption in [h_broken].
   [got s r] is the ghost list of everything pushed into the channels of request r's object
   while r owned it; [nterm] / [ncomm] count terminal results / Committed notifications. *)
From Coq Require Import NArith List.
From DB Require Import Gen.GenC12 Model.Requests Proofs.Requests Proofs.RequestsInv Proofs.RequestsLive.
Import ListNotations.
Open Scope N_scope.

(* never two terminal results for one request - although objects are pooled and reused *)
Theorem at_most_one_terminal : forall ps nc pq rq ops, env_ok ops (init ps nc pq rq) ->
  forall r, (nterm (got (run ops (init ps nc pq rq)) r) <= 1)%nat.
Proof. exact at_most_one_terminal_proved. Qed.
Print Assumptions at_most_one_terminal.

(* at most one Committed notification, and nothing was delivered before it *)
Theorem committed_at_most_once_and_first : forall ps nc pq rq ops, env_ok ops (init ps nc pq rq) ->
  forall r, (ncomm (got (run ops (init ps nc pq rq)) r) <= 1)%nat /\
            (forall pre e post, got (run ops (init ps nc pq rq)) r = pre ++ e :: post ->
                                is_committed e = true -> pre = []).
Proof. exact committed_at_most_once_and_first_proved. Qed.
Print Assumptions committed_at_most_once_and_first.

(* a result only ever reaches the request for which the table entry that produced it was
   created ([e_to] = the request recorded in the slot at insertion time) *)
Theorem no_cross_talk : forall ps nc pq rq ops, env_ok ops (init ps nc pq rq) ->
  forall r e, In e (got (run ops (init ps nc pq rq)) r) -> e_to e = r.
Proof. exact no_cross_talk_proved. Qed.
Print Assumptions no_cross_talk.

(* take-and-delete before notifying: whatever a live table / queue / worker still references
   has no terminal result yet, is referenced once, through the object it still owns, and was
   not released to the pool *)
Theorem live_requests_have_no_result : forall ps nc pq rq ops, env_ok ops (init ps nc pq rq) ->
  let s := run ops (init ps nc pq rq) in
  NoDup (map sr (live s)) /\
  forall sl, In sl (live s) -> nterm (got s (sr sl)) = 0%nat /\ o_owner (h_objs (H s) (so sl)) = sr sl /\
                               r_rel (h_reqs (H s) (sr sl)) = false.
Proof. exact live_requests_have_no_result_proved. Qed.
Print Assumptions live_requests_have_no_result.

(* liveness as safety: an accepted request that has no terminal result yet is still referenced -
   by a live table, one of the two queues or the step worker's hand ([live]) *)
Theorem accepted_without_result_is_referenced : forall ps nc pq rq ops, env_ok ops (init ps nc pq rq) ->
  let s := run ops (init ps nc pq rq) in
  forall r, r < h_nreq (H s) -> r_status (h_reqs (H s) r) = 1 -> nterm (got s r) = 0%nat ->
  In r (map sr (live s)).
Proof. exact accepted_without_result_is_referenced_proved. Qed.
Print Assumptions accepted_without_result_is_referenced.

(* tick driven expiry, table by table ([h_clock] is the logical clock that node.tick advances for
   every table on every path - regenerated fact node_tick_advances_all_tables): in every reachable
   state, a referenced request whose deadline has passed gets its terminal result (Timeout, see
   completed_only_from_apply_with_that_value for the code) at the next gc of its table that is due
   (now - lastGcTime >= gcTick), exactly one, and the gc does not panic.
   Queued reads have no deadline check of their own: the step worker moves them into a batch
   (TakeReads ; AddReads), where the gc inside applied() finds them. *)
Theorem tick_expires_proposal : forall ps nc pq rq ops, env_ok ops (init ps nc pq rq) ->
  let s := run ops (init ps nc pq rq) in
  h_err (H s) = 0 ->
  forall kv, In kv (pend (P s)) -> p_stop (P s) (fst kv mod cps s) = false ->
  (sub64 (h_clock (H s)) (p_lastgc (P s) (fst kv mod cps s)) <? gc_tick) = false ->
  o_dl (h_objs (H s) (so (snd kv))) < h_clock (H s) ->
  let s' := step s (GcP (fst kv)) in
  h_err (H s') = 0 /\ nterm (got s' (sr (snd kv))) = 1%nat.
Proof. exact tick_expires_proposal_proved. Qed.
Print Assumptions tick_expires_proposal.

Theorem tick_expires_read : forall ps nc pq rq ops, env_ok ops (init ps nc pq rq) ->
  let s := run ops (init ps nc pq rq) in
  h_err (H s) = 0 ->
  forall a sl, rd_stop (R s) = false ->
  (sub64 (h_clock (H s)) (rd_lastgc (R s)) <? gc_tick) = false ->
  In sl (batch_slots (batches (R s))) -> o_dl (h_objs (H s) (so sl)) < h_clock (H s) ->
  let s' := step s (ReadsApplied a) in
  h_err (H s') = 0 /\ nterm (got s' (sr sl)) = 1%nat.
Proof. exact tick_expires_read_proved. Qed.
Print Assumptions tick_expires_read.

Theorem tick_expires_config_change : forall ps nc pq rq ops, env_ok ops (init ps nc pq rq) ->
  let s := run ops (init ps nc pq rq) in
  h_err (H s) = 0 ->
  forall sl, x_pend (C s) = Some sl ->
  (sub64 (h_clock (H s)) (x_lastgc (C s)) <? gc_tick) = false ->
  o_dl (h_objs (H s) (so sl)) < h_clock (H s) ->
  let s' := step s GcC in h_err (H s') = 0 /\ nterm (got s' (sr sl)) = 1%nat.
Proof. exact tick_expires_config_change_proved. Qed.
Print Assumptions tick_expires_config_change.

Theorem tick_expires_snapshot : forall ps nc pq rq ops, env_ok ops (init ps nc pq rq) ->
  let s := run ops (init ps nc pq rq) in
  h_err (H s) = 0 ->
  forall sl, x_pend (S s) = Some sl ->
  (sub64 (h_clock (H s)) (x_lastgc (S s)) <? gc_tick) = false ->
  o_dl (h_objs (H s) (so sl)) < h_clock (H s) ->
  let s' := step s GcS in h_err (H s') = 0 /\ nterm (got s' (sr sl)) = 1%nat.
Proof. exact tick_expires_snapshot_proved. Qed.
Print Assumptions tick_expires_snapshot.

(* exactly one, after close: in EVERY reachable state in which node.close() has completed on every
   table ([closed]: reads, every proposal shard, config change, snapshot, log query) and the step
   worker holds no read requests between get() and add(), every accepted request - of any kind,
   accepted at any time - has exactly one terminal result.  (No request can be accepted into a
   closed table and nothing a closed table held was forgotten; covers F3 and the log query defect.) *)
Theorem exactly_one_after_close : forall ps nc pq rq ops, env_ok ops (init ps nc pq rq) ->
  let s := run ops (init ps nc pq rq) in
  closed s -> taken (R s) = [] ->
  forall r, r < h_nreq (H s) -> r_status (h_reqs (H s) r) = 1 -> nterm (got s r) = 1%nat.
Proof. exact exactly_one_when_closed_proved. Qed.
Print Assumptions exactly_one_after_close.

(* node.close() run to completion - reads, every proposal shard in order, config change, snapshot,
   log query, then the add() of a handleReadIndex that was under way ([close_ops]) - from ANY
   reachable state: if no step of it panics, every accepted request has exactly one terminal result *)
Theorem close_terminates_referenced : forall ps nc pq rq ops lo hi,
  let s := run ops (init ps nc pq rq) in
  env_ok (ops ++ close_ops s lo hi) (init ps nc pq rq) ->
  let s2 := run (close_ops s lo hi) s in
  h_err (H s2) = 0 ->
  forall r, r < h_nreq (H s2) -> r_status (h_reqs (H s2) r) = 1 -> nterm (got s2 r) = 1%nat.
Proof. exact close_terminates_referenced_proved. Qed.
Print Assumptions close_terminates_referenced.

(* where an accepted request without a result is: exactly the places the tick_expires_* theorems
   and TakeReads / AddReads speak about *)
Theorem referenced_where : forall ps nc pq rq ops, env_ok ops (init ps nc pq rq) ->
  let s := run ops (init ps nc pq rq) in
  forall r, r < h_nreq (H s) -> r_status (h_reqs (H s) r) = 1 -> nterm (got s r) = 0%nat ->
  exists sl, sr sl = r /\
    ((exists key, In (key, sl) (pend (P s)) /\ p_stop (P s) (key mod cps s) = false) \/
     In sl (Requests.rq (R s)) \/ In sl (taken (R s)) \/
     (rd_stop (R s) = false /\ In sl (batch_slots (batches (R s)))) \/
     x_pend (C s) = Some sl \/ x_pend (S s) = Some sl \/ lq_pend s = Some sl).
Proof. exact referenced_where_proved. Qed.
Print Assumptions referenced_where.

(* truthfulness: every result ever delivered is the one its code path produces - the apply path
   delivers Completed/Rejected carrying exactly the value it was given (no assumption on the
   environment needed); gc delivers Timeout only when deadline < now; close only Terminated ...
   [ev_ok] spells this out per source. With [applied_called_from_apply_path] (regenerated call
   graph fact: only node.ApplyUpdate calls pendingProposals.applied) this is the local-apply half
   of "Completed only after the entry was applied, with the value the state machine returned". *)
Theorem completed_only_from_apply_with_that_value : forall ps nc pq rq ops r e,
  In e (got (run ops (init ps nc pq rq)) r) -> ev_ok e.
Proof. exact reachable_evs_ok. Qed.
Print Assumptions completed_only_from_apply_with_that_value.

(* a ReadIndex request is completed only by applied(a) for a batch whose confirmed index is
   0 < index <= a, and only while its deadline is still ahead *)
Theorem read_completed_only_when_applied : forall ps nc pq rq ops r e ap idx now dl,
  In e (got (run ops (init ps nc pq rq)) r) -> e_src e = SReadApplied ap idx now dl ->
  0 < idx /\ idx <= ap /\ (rc (e_res e) = cCompleted -> now < dl).
Proof. exact read_applied_source_proved. Qed.
Print Assumptions read_completed_only_when_applied.

(* exactly_one_by_deadline, what is proved and what is not.
   PROVED: at_most_one_terminal; accepted_without_result_is_referenced + referenced_where (a request
   without a result sits in one of seven places); tick_expires_proposal / _read / _config_change /
   _snapshot (the next due gc of the place delivers exactly one terminal result to everything in it
   whose deadline has passed, without panic); exactly_one_after_close and close_terminates_referenced
   (close). The statement below is the repaired F3 step.
   NOT PROVED (hence still _partial): the composition over one whole worker round as ONE statement
   ("Tick t ; AddReads ; TakeReads ; AddReads ; GcP 0..ps-1 ; GcC ; GcS ; ReadsApplied a  =>  every
   accepted request other than a log query whose deadline is < t has exactly one terminal result").
   It needs no further invariant, only the bookkeeping that the clock, lastGcTime, the stop flags,
   the object deadlines and the table membership of the request are unchanged by the steps of the
   round that come before the gc of its table. The harness monitor checks exactly this round on the
   implementation on every run. A log query has no deadline; it completes with the step worker. *)
Theorem exactly_one_by_deadline_partial : forall ps nc pq rq ops lo hi, env_ok ops (init ps nc pq rq) ->
  let s := run ops (init ps nc pq rq) in
  h_err (H s) = 0 -> rd_stop (R s) = true ->
  let s' := step s (AddReads lo hi) in
  h_err (H s') = 0 /\ taken (R s') = [] /\ forall sl, In sl (taken (R s)) -> nterm (got s' (sr sl)) = 1%nat.
Proof. exact stopped_add_terminates_taken_proved. Qed.
Print Assumptions exactly_one_by_deadline_partial.

(* ---- non-vacuity: concrete interleavings, evaluated ---- *)
Definition ex_ops : list op :=
  [ ProposeA 1 1 1001 5 0; ProposeB 0; Read 3 0; TakeReads; CommitP 1 1 1001;
    AppliedTake 1 1 1001 77 false; AppliedGc; Drain 0; Release 0;
    ProposeA 2 1 1002 1 0; ProposeB 2;          (* reuses the object of request 0 *)
    CloseR; AddReads 7 30;                      (* F3 interleaving: get ; close ; add *)
    Tick 9; GcP 0; CloseP 0; CloseC; CloseS; CloseL ].
Definition ex_s := run ex_ops (init 1 true 8 8).
Example ex_env_ok : env_ok ex_ops (init 1 true 8 8) /\ h_err (H ex_s) = 0.
Proof. vm_compute. repeat split. Qed.
Example ex_results :
  map (fun e => (rc (e_res e), rv (e_res e))) (got ex_s 0) = [(cCommitted, 0); (cCompleted, 77)] /\
  map (fun e => rc (e_res e)) (got ex_s 1) = [cTerminated] /\
  map (fun e => rc (e_res e)) (got ex_s 2) = [cTimeout] /\
  r_obj (h_reqs (H ex_s) 2) = r_obj (h_reqs (H ex_s) 0).
Proof. vm_compute. repeat split; reflexivity. Qed.
