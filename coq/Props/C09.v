(* C09 — the log store returns exactly the logical log, state and snapshot last saved.
   Statements only: each theorem is closed by [exact <lemma>]; proofs live in Proofs/. *)
From DB Require Import Base.Bytes Gen.GenC09 Model.LogStoreSpec Proofs.LogStoreSpec.
Open Scope N_scope.

(* the size limit only ever shortens an answer: what is returned is a prefix of the
   unlimited answer *)
Theorem size_limit_only_shortens_spec : forall es maxsz size,
  exists rest, es = fst (take_size maxsz size es) ++ rest.
Proof. exact take_size_prefix. Qed.
Print Assumptions size_limit_only_shortens_spec.
