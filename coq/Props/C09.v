(* C09 — the log store returns exactly the logical log, state and snapshot last saved.
   Statements only: each theorem is closed by [exact <lemma>]; proofs live in Proofs/.

   Vocabulary (Model/LogStoreSpec.v, Model/LogDBPlain.v):
     l : list pop            a run: mutations (SaveRaftState with several updates,
                             SaveSnapshots, RemoveEntriesTo, RemoveNodeData, ImportSnapshot,
                             close/reopen) interleaved with queries, over any number of
                             replicas sharing the db
     muts l                  its mutations;  wf_ops spec_init (muts l): the run respects the
                             contract of the raft core (see Model/LogStoreSpec.v)
     plain_prun l            the state of the faithful plain-format db model after the run
                             (None = the Go code would have panicked)
     plain_observe d q       the canonical answer of the model to query q
     spec_answer s q         the answer of the logical log *)
From DB Require Import Base.Bytes Gen.GenC09 Model.LogStoreSpec Model.KV Model.LogDBPlain
  Proofs.LogStoreSpec Proofs.LogDBKV Proofs.LogDBPlain.
Open Scope N_scope.

(* REFINEMENT: after every contract-abiding run, every contract-abiding observation
   (IterateEntries(low, high, maxSize), ReadRaftState, GetSnapshot, on any replica) of the
   plain-format db equals the observation of the logical log. *)
Theorem plain_refines : forall l q,
  wf_ops spec_init (muts l) = true ->
  spec_wf_query (spec_run spec_init (muts l)) q = true ->
  exists d, plain_prun l = Some d /\
            plain_observe d q = spec_answer (spec_run spec_init (muts l)) q.
Proof. exact plain_refines_proved. Qed.
Print Assumptions plain_refines.

(* none of the panics of db.go / plain.go is reachable on such runs *)
Theorem plain_no_panic : forall l, wf_ops spec_init (muts l) = true -> plain_prun l <> None.
Proof. exact plain_no_panic_proved. Qed.
Print Assumptions plain_no_panic.

(* never a stale overwritten entry: what IterateEntries returns is what the logical log
   holds (the latest save at that index that was not truncated or removed since) *)
Theorem never_stale_entry : forall l n low high maxsz d es sz,
  wf_ops spec_init (muts l) = true ->
  spec_wf_query (spec_run spec_init (muts l)) (QIter n low high maxsz) = true ->
  plain_prun l = Some d -> p_iterate d n low high maxsz = RIter es sz ->
  forall e, In e es -> In e (n_ents (spec_run spec_init (muts l) n)).
Proof. exact never_stale_entry_proved. Qed.
Print Assumptions never_stale_entry.

(* never an entry outside the requested range or past the logical end *)
Theorem never_past_logical_end : forall l n low high maxsz d es sz,
  wf_ops spec_init (muts l) = true ->
  spec_wf_query (spec_run spec_init (muts l)) (QIter n low high maxsz) = true ->
  plain_prun l = Some d -> p_iterate d n low high maxsz = RIter es sz ->
  forall e, In e es ->
    low <= e_index e < high /\ e_index e <= n_last (spec_run spec_init (muts l) n).
Proof. exact never_past_logical_end_proved. Qed.
Print Assumptions never_past_logical_end.

(* never a gap: the returned entries are low, low+1, low+2, ... *)
Theorem never_gap : forall l n low high maxsz d es sz,
  wf_ops spec_init (muts l) = true ->
  spec_wf_query (spec_run spec_init (muts l)) (QIter n low high maxsz) = true ->
  plain_prun l = Some d -> p_iterate d n low high maxsz = RIter es sz ->
  contig low es.
Proof. exact never_gap_proved. Qed.
Print Assumptions never_gap.

(* the answer is a prefix of the unlimited answer, and it is shorter only when the size
   limit was exceeded *)
Theorem size_limit_only_shortens : forall l n low high maxsz d es sz,
  wf_ops spec_init (muts l) = true ->
  spec_wf_query (spec_run spec_init (muts l)) (QIter n low high maxsz) = true ->
  plain_prun l = Some d -> p_iterate d n low high maxsz = RIter es sz ->
  (exists rest, filter (in_range low high) (n_ents (spec_run spec_init (muts l) n)) = es ++ rest) /\
  (es = filter (in_range low high) (n_ents (spec_run spec_init (muts l) n)) \/ maxsz < sz).
Proof. exact size_limit_only_shortens_proved. Qed.
Print Assumptions size_limit_only_shortens.

(* close/reopen (the cache is dropped) changes no observation *)
Theorem reopen_preserves_obs : forall l q d,
  wf_ops spec_init (muts l) = true ->
  spec_wf_query (spec_run spec_init (muts l)) q = true ->
  plain_prun l = Some d ->
  plain_observe (p_reopen d) q = plain_observe d q.
Proof. exact reopen_preserves_obs_proved. Qed.
Print Assumptions reopen_preserves_obs.

(* the size limit on the spec side *)
Theorem size_limit_only_shortens_spec : forall es maxsz size,
  exists rest, es = fst (take_size maxsz size es) ++ rest.
Proof. exact take_size_prefix. Qed.
Print Assumptions size_limit_only_shortens_spec.

(* non-vacuity: a run over two replicas sharing the db — append 1..4 (term 1), overwrite
   from 3 with ONE entry of term 2 (3..4 become 3), snapshot record, compaction, reopen,
   a second replica in the same SaveRaftState call — meets the contract, and a query that
   is clamped by the logical end is answered with the new entry 3 only. *)
Definition ex_n1 : nid := (1, 1).
Definition ex_n2 : nid := (17, 1).
Definition ex_e (i t g : N) : entry := mkEnt i t g 16.
Definition ex_run : list pop :=
  [ PMut (OSave [mkUp ex_n1 (mkSt 1 1 0) (mkSs 0 0 0) [ex_e 1 1 101; ex_e 2 1 102; ex_e 3 1 103; ex_e 4 1 104]]);
    PQry (QSnap ex_n1);
    PMut (OSave [mkUp ex_n1 (mkSt 2 1 2) (mkSs 0 0 0) [ex_e 3 2 203];
                 mkUp ex_n2 (mkSt 2 2 0) (mkSs 0 0 0) [ex_e 1 2 901]]);
    PMut (OSnap ex_n1 (mkSs 2 1 77));
    PMut (ORemTo ex_n1 2);
    PMut OReopen ].
Example ex_run_wf :
  wf_ops spec_init (muts ex_run) = true /\
  spec_wf_query (spec_run spec_init (muts ex_run)) (QIter ex_n1 3 9 1000) = true /\
  match plain_prun ex_run with
  | Some d => p_iterate d ex_n1 3 9 1000 = RIter [ex_e 3 2 203] 144 /\
              plain_observe d (QState ex_n1 2) = AState (Some (mkSt 2 1 2)) 3 1
  | None => False
  end.
Proof. vm_compute. repeat split; reflexivity. Qed.

(* ---------------- tan: the entry index (internal/tan/index.go) ---------------- *)
From DB Require Import Model.TanIndex Proofs.TanIndex.

(* INVARIANT of index.update: the index stays sorted, its ranges non-empty and pairwise
   disjoint (sorted_idx reads the slice from its last entry backwards) *)
Theorem tan_index_sorted_disjoint : forall es e, sorted_idx es -> wf_ie e ->
  sorted_idx (index_update es e).
Proof. exact tan_index_sorted_disjoint_proved. Qed.
Print Assumptions tan_index_sorted_disjoint.

(* LATEST WRITER WINS: after update e, [start,end] is indexed and addresses the new record,
   every previously indexed position above it is gone, and below e.start the same positions
   address the same records as before *)
Theorem tan_index_latest_writer_wins : forall es e, sorted_idx es -> wf_ie e ->
  (exists ie, In ie (index_update es e) /\ ie_start ie <= ie_start e /\ ie_end ie = ie_end e /\ same_record ie e) /\
  (forall ie, In ie (index_update es e) -> ie_end ie <= ie_end e) /\
  (forall x, x < ie_start e ->
     (forall ie', In ie' (index_update es e) -> ie_start ie' <= x <= ie_end ie' ->
        exists ie, In ie es /\ ie_start ie <= x <= ie_end ie /\ loc_eq ie' ie) /\
     (forall ie, In ie es -> ie_start ie <= x <= ie_end ie ->
        exists ie', In ie' (index_update es e) /\ ie_start ie' <= x <= ie_end ie' /\ loc_eq ie' ie)).
Proof. exact tan_index_latest_writer_wins_proved. Qed.
Print Assumptions tan_index_latest_writer_wins.

(* index.query returns a gap-free chain of index entries taken from the index, the first
   one containing low, all starting below high *)
Theorem query_contiguous : forall es low high res ok, index_query es low high = IQRes res ok ->
  low <= high /\ chain None res /\
  (forall e, In e res -> In e es /\ ie_start e < high) /\
  (match res with e :: _ => ie_start e <= low <= ie_end e | [] => True end) /\
  (ok = false -> res = []).
Proof. exact query_contiguous_proved. Qed.
Print Assumptions query_contiguous.

(* non-vacuity: merge, partial overwrite of the tail, and an overwrite that cuts two entries *)
Example tan_index_example :
  let i1 := index_update [] (mkIE 1 3 7 0 10) in
  let i2 := index_update i1 (mkIE 4 6 7 10 10) in        (* merged: 1-6 *)
  let i3 := index_update i2 (mkIE 5 5 7 20 10) in        (* partial overwrite: 1-4, 5-5 *)
  let i4 := index_update i3 (mkIE 9 9 8 0 10) in         (* gap: 1-4, 5-5, 9-9 *)
  let i5 := index_update i4 (mkIE 3 4 8 10 10) in        (* cuts 9-9 and 5-5, trims 1-4 *)
  i2 = [mkIE 1 6 7 0 20] /\ i3 = [mkIE 1 4 7 0 20; mkIE 5 5 7 20 10] /\
  i5 = [mkIE 1 2 7 0 20; mkIE 3 4 8 10 10] /\
  index_query i4 2 20 = IQRes [mkIE 1 4 7 0 20; mkIE 5 5 7 20 10] true.
Proof. vm_compute. repeat split; reflexivity. Qed.

(* ---------------- batched entry format (internal/logdb/batch.go) ---------------- *)
From DB Require Import Model.LogDBBatched Proofs.LogDBBatched.

(* restoreBatchFields undoes compactBatchFields on every batch whose indexes are strictly
   ascending and whose terms are non-decreasing and >= 1 (what the raft core saves) *)
Theorem batch_compact_restore_id : forall l pi, good_from pi 1 l ->
  restore_if_many (compact_if_many l) = l.
Proof. exact batch_compact_restore_id_proved. Qed.
Print Assumptions batch_compact_restore_id.

Example batch_compact_example :
  let l := [mkEnt 48 3 1 8; mkEnt 49 3 2 9; mkEnt 50 3 3 8] in
  good_from 47 1 l /\ compact_if_many l = [mkEnt 48 3 1 8; mkEnt 0 0 2 9; mkEnt 0 0 3 8] /\
  restore_if_many (compact_if_many l) = l.
Proof. vm_compute. repeat split; auto; discriminate. Qed.

(* REFINEMENT for the batched entry format: after every contract-abiding run every
   contract-abiding observation of the faithful batched-format db model (entry batches of
   the regenerated batch size, merge of the first partial batch with the cached / stored
   last batch, compacted batch fields, cache included) equals the logical log's. *)
Theorem batched_refines : forall l q,
  wf_ops spec_init (muts l) = true ->
  spec_wf_query (spec_run spec_init (muts l)) q = true ->
  exists d, batched_prun l = Some d /\
            batched_observe d q = spec_answer (spec_run spec_init (muts l)) q.
Proof. exact batched_refines_proved. Qed.
Print Assumptions batched_refines.

Theorem batched_no_panic : forall l, wf_ops spec_init (muts l) = true -> batched_prun l <> None.
Proof. exact batched_no_panic_proved. Qed.
Print Assumptions batched_no_panic.

(* non-vacuity: entries straddling the batch size (46..50), an overwrite from 48 with a
   shorter suffix of a newer term, reopen, then a query across the batch boundary *)
Definition ex_b (i t g : N) : entry := mkEnt i t g 16.
Definition ex_brun : list pop :=
  [ PMut (OSave [mkUp ex_n1 (mkSt 1 1 0) (mkSs 45 1 7) [ex_b 46 1 1; ex_b 47 1 2; ex_b 48 1 3; ex_b 49 1 4; ex_b 50 1 5]]);
    PMut (OSave [mkUp ex_n1 (mkSt 2 1 46) (mkSs 0 0 0) [ex_b 48 2 6]]);
    PMut OReopen;
    PMut (OSave [mkUp ex_n1 (mkSt 0 0 0) (mkSs 0 0 0) [ex_b 49 2 7]]) ].
Example ex_brun_wf :
  wf_ops spec_init (muts ex_brun) = true /\
  match batched_prun ex_brun with
  | Some d => b_iterate d ex_n1 46 60 100000 = RIter [ex_b 46 1 1; ex_b 47 1 2; ex_b 48 2 6; ex_b 49 2 7] 576
  | None => False
  end.
Proof. vm_compute. split; reflexivity. Qed.
