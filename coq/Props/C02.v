(* C02 — replica agreement. LOCAL half on the faithful L1 model (the commit rule, the follower
   append rule, the apply hand-out); the GLOBAL half (log_matching, state_machine_safety,
   committed_never_replaced over all interleavings) is Props/L2.v. Statements only. *)
From DB Require Import Model.RaftCore Proofs.RaftLogLemmas.
Open Scope N_scope.

(* tryCommit: a leader advances its commit index only to an index that (a) is beyond the old
   one, (b) holds an entry of the leader's CURRENT term, (c) has been reached by the match
   index of at least quorum() voting members (voters and witnesses; non-voting never) *)
Theorem try_commit_quorum :
  forall r, 0 < num_voting r -> snd (try_commit r) = true ->
    let c := l_committed (r_log (fst (try_commit r))) in
    l_committed (r_log r) < c /\ log_term (r_log r) c = r_term r /\
    (N.to_nat (quorum r) <= count_ge c (voting_matches r))%nat.
Proof. exact try_commit_quorum_proved. Qed.
Print Assumptions try_commit_quorum.

(* tryAppend on a follower never removes or replaces an entry at or below its commit index,
   whatever the Replicate message contains (the implementation panics instead) *)
Theorem follower_append_keeps_committed :
  forall l idx ents l' i, l_marker l <= l_committed l ->
    log_try_append l idx ents = Some l' -> i <= l_committed l ->
    ent_at l' i = ent_at l i /\ l_committed l' = l_committed l.
Proof. exact follower_append_keeps_committed_proved. Qed.
Print Assumptions follower_append_keeps_committed.

(* handling a Replicate never lowers the commit index *)
Theorem replicate_commit_monotone :
  forall r m, r_panic (handle_replicate_message r m) = false -> r_panic r = false ->
    l_committed (r_log r) <= l_committed (r_log (handle_replicate_message r m)).
Proof. exact replicate_commit_rule_proved. Qed.
Print Assumptions replicate_commit_monotone.

(* what GetUpdate hands out for apply: consecutive indexes starting right after what was
   already handed out, none beyond the commit index *)
Theorem apply_handout_gap_free_and_committed :
  forall l, wf_log l -> forall k e, nth_error (entries_to_apply l) k = Some e ->
    e_index e = N.max (l_processed l + 1) (log_first l) + N.of_nat k /\
    l_processed l < e_index e <= l_committed l.
Proof. exact entries_to_apply_range_proved. Qed.
Print Assumptions apply_handout_gap_free_and_committed.

(* a raft log query is answered from the committed part of the log only *)
Theorem log_query_committed_only : forall r m fi la err ents,
  r_log_query r = None ->
  r_log_query (handle_log_query r m) = Some (fi, la, err, ents) ->
  fi = log_first (r_log r) /\ la = l_committed (r_log r) + 1 /\
  (err = true -> ents = []) /\
  (err = false -> ents = [] \/
     (log_first (r_log r) <= m_from m <= l_committed (r_log r) /\
      ents = log_entries_range (r_log r) (m_from m) (N.min (m_to m) (l_committed (r_log r) + 1)))).
Proof. exact log_query_committed_only_proved. Qed.
Print Assumptions log_query_committed_only.

(* the unrolled sort used by tryCommit really sorts and keeps the multiset *)
Theorem match_array_sorted : forall l, sorted (sort_n l).
Proof. exact sort_sorted. Qed.
Print Assumptions match_array_sorted.
Theorem match_array_same_counts : forall q l, count_ge q (sort_n l) = count_ge q l.
Proof. exact count_ge_sort. Qed.
Print Assumptions match_array_same_counts.

(* non-vacuity: a 3-voter leader of term 2 whose own match is 5 and one follower acked 4
   commits exactly index 4 *)
Example commit_example :
  let ents := [mkEnt 1 1 0 0 0 0 0 []; mkEnt 1 2 0 0 0 0 0 []; mkEnt 2 3 0 0 0 0 0 [];
               mkEnt 2 4 0 0 0 0 0 []; mkEnt 2 5 0 0 0 0 0 []] in
  let r0 := new_raft 1 Follower 10 1 false false (mkLog 0 0 ents 2 2 5 None empty_snapshot) [1; 2; 3] [] [] (Some (2, 1, 2)) 12 in
  let r := r0 <| r_role := Leader |>
             <| r_remotes := [(1, new_remote 5 6); (2, new_remote 4 5); (3, new_remote 0 1)] |> in
  (snd (try_commit r), l_committed (r_log (fst (try_commit r)))) = (true, 4).
Proof. vm_compute. reflexivity. Qed.
