(* R17L - progress sub-check of C17: the two small state machines outside the raft core that
   can hold a shard back. Statements only; proofs in Proofs/RateQuiesce.v.
   InMemRateLimiter (internal/server/rate.go): node.handleProposals pauses proposals while
   RateLimited() is true. quiesceState (quiesce.go): a quiesced replica gets QuiescedTick
   (no heartbeats, no election) instead of Tick. *)
From Coq Require Import NArith List Bool.
From DB Require Import Model.RateQuiesce Proofs.RateQuiesce.
Import ListNotations.
Open Scope N_scope.

(* whatever happened before (any reachable state satisfies rl_inv), once the in-memory log is
   empty and the follower reports are reset the poll after eleven ticks says "not limited":
   the limiter cannot hold proposals back for ever *)
Theorem drained_limiter_unlimits : forall r,
  rl_inv r -> 2 <= rl_max r -> rl_max r * 7 < w64 ->
  snd (rl_step (fst (rl_run (fst (rl_step (fst (rl_step r RReset)) (RSet 0))) (repeat RTick 11))) RLimited) = Some false.
Proof. exact drained_limiter_unlimits_proved. Qed.
Print Assumptions drained_limiter_unlimits.

Theorem limiter_invariant : forall max, rl_inv (rl_new max) /\ forall r o, rl_inv r -> rl_inv (fst (rl_step r o)).
Proof. intros max. split; [apply rl_new_inv|exact rl_step_inv]. Qed.
Print Assumptions limiter_invariant.

Theorem unlimit_when_drained : forall r,
  rl_enabled r = true -> rl_limited r = true ->
  max_inmem r < (rl_max r * 7) mod w64 / 10 ->
  (rl_tick_limited r = 0 \/ change_tick_threshold < rl_tick r - rl_tick_limited r) ->
  snd (rl_step r RLimited) = Some false.
Proof. exact unlimit_when_drained_proved. Qed.
Print Assumptions unlimit_when_drained.

Theorem limit_when_over : forall r,
  rl_enabled r = true -> rl_limited r = false -> rl_max r < max_inmem r ->
  (rl_tick_limited r = 0 \/ change_tick_threshold < rl_tick r - rl_tick_limited r) ->
  snd (rl_step r RLimited) = Some true.
Proof. exact limit_when_over_proved. Qed.
Print Assumptions limit_when_over.

(* MaxInMemLogSize = 0 (or MaxUint64): never limited, over all operation sequences *)
Theorem disabled_never_limited : forall ops r,
  rl_enabled r = false -> rl_limited r = false ->
  forall b, In (Some b) (snd (rl_run r ops)) -> b = false.
Proof. exact disabled_never_limited_proved. Qed.
Print Assumptions disabled_never_limited.

Theorem limited_changes_are_spaced : forall r,
  rl_limited (fst (rl_step r RLimited)) <> rl_limited r ->
  (rl_tick_limited r = 0 \/ change_tick_threshold < rl_tick r - rl_tick_limited r) /\
  rl_tick_limited (fst (rl_step r RLimited)) = rl_tick r.
Proof. exact limited_changes_are_spaced_proved. Qed.
Print Assumptions limited_changes_are_spaced.

Theorem stale_follower_ignored : forall r,
  max_inmem (mkRL (rl_size r) (rl_max r) (rl_gc r) (rl_tick r) (rl_tick_limited r) (rl_limited r)) = max_inmem r.
Proof. exact stale_follower_ignored_proved. Qed.
Print Assumptions stale_follower_ignored.

(* the uint64 product maxSize*7 wraps for a huge limit; the 70% mark is then 0 and a limiter
   that once said "limited" never recovers. Not reachable with a sane MaxInMemLogSize
   (2.6 exabytes); recorded, not repaired. *)
Theorem huge_limit_never_recovers_refuted :
  exists max, 0 < max /\ max <> w64 - 1 /\
    forall n, snd (rl_step (fst (rl_run (mkRL 0 max [] 1 1 true) (repeat RTick n))) RLimited) = Some true.
Proof. exact huge_limit_never_recovers_refuted. Qed.
Print Assumptions huge_limit_never_recovers_refuted.

(* ---- quiesce ---- *)
Theorem disabled_tick_never_quiesced : forall q,
  q_enabled q = false -> snd (q_step q QTick) = Some false /\ q_quiesced (fst (q_step q QTick)) = false.
Proof. exact disabled_tick_never_quiesced_proved. Qed.
Print Assumptions disabled_tick_never_quiesced.

Theorem activity_wakes : forall q, q_quiesced (fst (q_step q (QRecord false))) = false.
Proof. exact activity_wakes_proved. Qed.
Print Assumptions activity_wakes.

Theorem heartbeat_wakes_after_grace : forall q,
  q_quiesced q = true -> q_new_to_quiesce q = false ->
  q_quiesced (fst (q_step q (QRecord true))) = false.
Proof. exact heartbeat_wakes_after_grace_proved. Qed.
Print Assumptions heartbeat_wakes_after_grace.

Theorem heartbeat_ignored_when_awake_or_new : forall q,
  q_enabled q = true -> (q_quiesced q = false \/ q_new_to_quiesce q = true) ->
  fst (q_step q (QRecord true)) = q.
Proof. exact heartbeat_ignored_when_awake_or_new_proved. Qed.
Print Assumptions heartbeat_ignored_when_awake_or_new.

Theorem idle_enters : forall q,
  q_enabled q = true -> q_quiesced q = false ->
  let q' := fst (q_step q QTick) in
  (q_threshold q < q_now q + 1 - q_idle q -> q_quiesced q' = true /\ q_flag q' = true /\ snd (q_step q QTick) = Some true) /\
  (q_now q + 1 - q_idle q <= q_threshold q -> q_quiesced q' = false /\ snd (q_step q QTick) = Some false).
Proof. exact idle_enters_proved. Qed.
Print Assumptions idle_enters.

Example limiter_example :
  snd (rl_run (rl_new 100) [RIncrease 150; RLimited; RSet 60; RLimited; RTick; RLimited]) =
  [None; Some true; None; Some true; None; Some true].
Proof. vm_compute. reflexivity. Qed.
