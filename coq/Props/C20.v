(* C20 - quorum-loss repair by ImportSnapshot yields the exported state and the
   given members.  Statements only: each theorem is closed by [exact <lemma>];
   the proofs are in Proofs/ImportTool.v, the model in Model/ImportTool.v.

     import_run inp = (executed steps, Imported record | Refused reason)
   is the model of tools.ImportSnapshot: the steps are ordered by the positions
   tools/genmodel extracts from the body of ImportSnapshot on every run, the I/O
   failures of the steps are an oracle ([in_env_fail]), every theorem holds for
   all of them.  [logdb_import] / [tan_import] model logdb.ImportSnapshot.

   Not proved here (named in checks/C20.json): that the restarted replicas'
   state machines equal the exported state (recover-from-image is C08/C14; the
   end-to-end harness run checks it on the real code), and that the restarted
   shard elects a leader (C17; end-to-end run). *)
From DB Require Import Base.Bytes Base.CRC32 Gen.GenC20 Model.ImportTool Proofs.ImportTool.
Open Scope N_scope.

(* ------------------------------------------------------------------ *)
(* the rewritten record                                                 *)

(* Addresses = exactly the given list, no non-voting / witness members,
   Removed = old Removed + every old member (of any kind) that is not listed,
   ConfigChangeId = snapshot index, Imported set, everything that identifies
   the image unchanged. *)
Theorem import_membership_exact : forall dst old members,
  let ss := get_processed dst old members in
  let m := s_membership ss in
  (forall id, alookup id (m_addresses m) = alookup id members) /\
  m_nonvotings m = [] /\ m_witnesses m = [] /\
  (forall id, In id (m_removed m) <->
     In id (m_removed (s_membership old)) \/
     (old_member (s_membership old) id /\ amem id members = false)) /\
  m_ccid m = s_index old /\
  s_imported ss = true /\
  s_index ss = s_index old /\ s_term ss = s_term old /\ s_checksum ss = s_checksum old /\
  s_type ss = s_type old /\ s_shard ss = s_shard old /\ s_filesize ss = s_filesize old /\
  s_dummy ss = s_dummy old.
Proof. exact import_membership_exact_proved. Qed.
Print Assumptions import_membership_exact.

(* a member list that passed checkMembers: nobody listed ends up removed *)
Theorem import_no_member_removed : forall dst old members,
  check_members (s_membership old) members = None ->
  forall id, amem id members = true ->
  ~ In id (m_removed (s_membership (get_processed dst old members))).
Proof. exact import_no_member_removed_proved. Qed.
Print Assumptions import_no_member_removed.

(* ... and every listed replica that was known before was a voting member at
   the same address *)
Theorem accepted_members_keep_address_and_kind : forall old members id a,
  check_members old members = None -> In (id, a) members ->
  (forall v, alookup id (m_addresses old) = Some v -> v = a) /\
  amem id (m_nonvotings old) = false /\ amem id (m_witnesses old) = false /\
  ~ In id (m_removed old).
Proof. exact accepted_member_facts. Qed.
Print Assumptions accepted_members_keep_address_and_kind.

(* ------------------------------------------------------------------ *)
(* the member checks                                                    *)

(* exactly the lists the property names are refused: a member is refused iff it
   changes an address, is a non-voting member or witness (kind change), or was
   removed *)
Theorem check_members_iff : forall old members,
  check_members old members = None <->
  forall id a, In (id, a) members -> ~ bad_member old id a.
Proof. exact check_members_iff_proved. Qed.
Print Assumptions check_members_iff.

(* Go iterates the member map in random order: the verdict does not depend on it *)
Theorem check_members_order_independent : forall old m1 m2,
  (forall kv, In kv m1 <-> In kv m2) ->
  (check_members old m1 = None <-> check_members old m2 = None).
Proof. exact check_members_perm. Qed.
Print Assumptions check_members_order_independent.

Theorem check_import_settings_iff : forall raddr members replica,
  check_import_settings raddr members replica = SettingsOk <-> alookup replica members = Some raddr.
Proof. exact check_import_settings_ok. Qed.
Print Assumptions check_import_settings_iff.

(* ------------------------------------------------------------------ *)
(* the completeness check                                               *)

Theorem complete_image_iff : forall file recorded,
  is_complete_image file recorded = ImageComplete <-> payload_checksum file = CkOk recorded.
Proof. exact is_complete_image_spec. Qed.
Print Assumptions complete_image_iff.

(* what the recorded checksum covers (observation O6): two files of the same
   length that agree on the 4 bytes at every block-CRC offset have the same
   checksum - a change inside a block payload, the header or the tail is not
   seen by the import-time check (it is seen by the block reader on restart,
   C14) *)
Theorem checksum_covers_block_crcs_only : forall f1 f2 offs,
  length f1 = length f2 -> crc_offsets (nlen f1) = Some offs ->
  (forall o, In o offs -> read_at4 f1 o = read_at4 f2 o) ->
  payload_checksum f1 = payload_checksum f2.
Proof. exact checksum_covers_block_crcs_only_proved. Qed.
Print Assumptions checksum_covers_block_crcs_only.

(* a change confined to one byte of a block CRC is refused *)
Theorem crc_field_byte_change_detected : forall f1 f2 offs pre post b1 b2 recorded,
  crc_offsets (nlen f1) = Some offs -> crc_offsets (nlen f2) = Some offs ->
  read_crcs f1 offs = Some (pre ++ b1 :: post) ->
  read_crcs f2 offs = Some (pre ++ b2 :: post) ->
  wf_bytes pre -> wf_bytes post -> b1 < 256 -> b2 < 256 -> b1 <> b2 ->
  is_complete_image f1 recorded = ImageComplete ->
  is_complete_image f2 recorded = ImageIncomplete.
Proof. exact crc_field_byte_change_detected_proved. Qed.
Print Assumptions crc_field_byte_change_detected.

(* ------------------------------------------------------------------ *)
(* refusals                                                             *)

(* every refusal condition of the property: refused, by one of the checks,
   and no mutating step was executed *)
Theorem import_refused_when : forall inp,
  refusal_condition inp ->
  exists tr r, import_run inp = (tr, Refused r) /\ check_refusal r /\ safe_trace tr.
Proof. exact import_refused_when_proved. Qed.
Print Assumptions import_refused_when.

(* structure of the program: each of the checks occurs before the first
   mutating step and its failure ends ImportSnapshot *)
Theorem checks_before_mutations : forall o, is_check o = true ->
  In o (before_first_mutation import_prog) /\ op_guard o = true.
Proof. exact checks_before_mutations_proved. Qed.
Print Assumptions checks_before_mutations.

(* whatever the inputs and the I/O failures: if any mutating step was executed
   then all the checks had passed *)
Theorem refusal_precedes_any_mutation : forall inp tr out,
  import_run inp = (tr, out) ->
  forall o, In o tr -> mutating o = true -> exists old, all_checks_pass inp old.
Proof. exact refusal_precedes_any_mutation_proved. Qed.
Print Assumptions refusal_precedes_any_mutation.

(* conversely a request meeting none of the refusal conditions runs to the end
   (absent I/O errors) and records the processed record *)
Theorem import_succeeds_when : forall inp old,
  all_checks_pass inp old -> in_env_fail inp = [] ->
  import_run inp =
    ([OCheckSettings; OLocate; OReadMeta; OCheckComplete; OCheckExtFiles; OCheckMembers; ONewEnv;
      OCreateNodeHostDir; OOpenLogDB; OCheckNodeHostDir;
      if in_ssdir_exists inp then OCleanup else OCreateSSDir;
      OCreateTemp; OProcess; OCopy; OFinalize; OLogDBImport],
     Imported (get_processed (in_final_dir inp) old (in_members inp))).
Proof. exact import_run_success. Qed.
Print Assumptions import_succeeds_when.

Theorem checks_pass_iff_no_refusal_condition : forall inp old,
  alookup (in_replica inp) (in_members inp) = Some (in_raft_address inp) ->
  in_src_exists inp = true -> (exists f, snapshot_files (in_entries inp) = [f]) ->
  in_meta inp = MetaOk old ->
  payload_checksum (in_file inp) = CkOk (s_checksum old) ->
  (forall f, In f (s_files old) -> ext_file_present (in_entries inp) f = true) ->
  (forall id a, In (id, a) (in_members inp) -> ~ bad_member (s_membership old) id a) ->
  all_checks_pass inp old.
Proof. exact checks_pass_when. Qed.
Print Assumptions checks_pass_iff_no_refusal_condition.

(* a successful import (any I/O oracle) passed the checks, copied and finalised
   the image and handed exactly the processed record to the log store *)
Theorem imported_implies_checked : forall inp tr ss,
  import_run inp = (tr, Imported ss) ->
  exists old, all_checks_pass inp old /\
              ss = get_processed (in_final_dir inp) old (in_members inp) /\
              In OCopy tr /\ In OFinalize tr /\ In OLogDBImport tr.
Proof. exact import_run_imported. Qed.
Print Assumptions imported_implies_checked.

(* ------------------------------------------------------------------ *)
(* the log store                                                        *)

(* from EVERY prior content of the replica's records: state = (term, no vote,
   commit = index), the only snapshot record is the imported one, max index =
   index, bootstrap = Join with the image's state machine type and no initial
   members, nothing above the index is visible.  (The entries themselves stay
   in the Pebble store; they are unreachable behind the max index.) *)
Theorem logstore_after_import : forall ls ss,
  s_index ss <> 0 -> s_type ss <> sm_unknown ->
  exists ls', logdb_import ls ss = LOk ls' /\
    ls_state ls' = Some (mkHS (s_term ss) 0 (s_index ss)) /\
    ls_snapshots ls' = [ss] /\ ls_get_snapshot ls' = Some ss /\
    ls_maxindex ls' = Some (s_index ss) /\
    ls_bootstrap ls' = Some (mkBS true (s_type ss) []) /\
    (forall lo, s_index ss <= lo -> ls_visible_entries ls' lo = []) /\
    ls_entries ls' = ls_entries ls.
Proof. exact logstore_after_import_proved. Qed.
Print Assumptions logstore_after_import.

(* the Tan log store ends with the same records *)
Theorem logstore_after_import_tan_same : forall ls ss ls',
  s_index ss <> 0 -> logdb_import ls ss = LOk ls' ->
  let t := tan_import ls ss in
  ls_state t = ls_state ls' /\ ls_bootstrap t = ls_bootstrap ls' /\
  ls_snapshots t = ls_snapshots ls' /\ ls_maxindex t = ls_maxindex ls' /\
  (forall lo, s_index ss <= lo -> ls_visible_entries t lo = ls_visible_entries ls' lo).
Proof. exact tan_matches_pebble_proved. Qed.
Print Assumptions logstore_after_import_tan_same.

(* life after the repair: whatever the replica's store held before the import
   (entries, its own newer snapshots, a log compacted beyond the export index),
   k entries appended right above the imported index are exactly what the store
   returns above it - Pebble and Tan (whose per-replica compaction point is
   forgotten by the import) *)
Theorem entries_after_import_readable : forall ls ss ls' k term,
  s_index ss <> 0 -> logdb_import ls ss = LOk ls' ->
  ls_visible_entries (apply_lsop ls' (LSaveEntries (s_index ss + 1) k term)) (s_index ss) =
  mk_entries (N.to_nat k) (s_index ss + 1) term.
Proof. exact entries_after_import_readable_proved. Qed.
Print Assumptions entries_after_import_readable.

Theorem tan_entries_after_import_readable : forall t ss k term,
  s_index ss <> 0 ->
  ts_visible_entries (apply_tsop (tan_import_t t ss) (LSaveEntries (s_index ss + 1) k term)) (s_index ss) =
  mk_entries (N.to_nat k) (s_index ss + 1) term.
Proof. exact tan_entries_after_import_readable_proved. Qed.
Print Assumptions tan_entries_after_import_readable.

(* the tool writes the records into the store NewNodeHost is going to open:
   same data directory, same low latency (WAL) directory, for every
   NodeHostDir / WALDir *)
Theorem tool_opens_store_where_nodehost_does : forall nhdir waldir,
  tool_store_dirs nhdir waldir = nodehost_store_dirs nhdir waldir.
Proof. exact tool_opens_store_where_nodehost_does_proved. Qed.
Print Assumptions tool_opens_store_where_nodehost_does.

(* tool + store: after a successful run the newest snapshot record of the
   replica is the processed record (membership = import_membership_exact) *)
Theorem imported_record_in_store : forall inp tr ss ls,
  import_run inp = (tr, Imported ss) -> s_index ss <> 0 -> s_type ss <> sm_unknown ->
  exists old ls', in_meta inp = MetaOk old /\ logdb_import ls ss = LOk ls' /\
    ls_get_snapshot ls' = Some (get_processed (in_final_dir inp) old (in_members inp)).
Proof. exact imported_record_in_store_proved. Qed.
Print Assumptions imported_record_in_store.

(* ------------------------------------------------------------------ *)
(* crash points inside ImportSnapshot                                   *)

(* the steps executed by a run with passing checks and no I/O failure *)
Theorem import_run_trace : forall inp old,
  all_checks_pass inp old -> in_env_fail inp = [] ->
  fst (import_run inp) = success_trace (in_ssdir_exists inp).
Proof. exact import_run_success_trace. Qed.
Print Assumptions import_run_trace.

(* a power failure after any number of steps (an I/O failure stops the run at
   a step, which is the same prefix), on a host that does not yet record the
   imported image: the log store never names the imported image without the
   finalised image being in place - no half imported replica can start *)
Theorem crash_never_half_imported : forall b k st,
  host_consistent_with b st -> h_record_imported st = false ->
  half_imported (host_after (firstn k (success_trace b)) st) = false.
Proof. exact crash_never_half_imported_proved. Qed.
Print Assumptions crash_never_half_imported.

(* ... and running the tool again, from whatever the failure left, ends in the
   completely repaired host *)
Theorem import_rerunnable : forall b b' k st,
  host_consistent_with b' (host_after (firstn k (success_trace b)) st) ->
  host_after (success_trace b') (host_after (firstn k (success_trace b)) st) = mkH false false false true true.
Proof. exact crash_then_rerun_repairs_proved. Qed.
Print Assumptions import_rerunnable.

(* observation O7 (DESIGN section 7): when the tool is run on a host that
   already records the imported image, the steps between cleanupSnapshotDir
   and FinalizeSnapshot leave the record without its image; a power failure
   there needs another run of the tool (import_rerunnable) *)
Theorem restartable_without_rerun_refuted :
  exists k, half_imported (host_after (firstn k (success_trace true)) (mkH false false false true true)) = true.
Proof. exact reimport_crash_window. Qed.
Print Assumptions restartable_without_rerun_refuted.

(* ------------------------------------------------------------------ *)
(* restart                                                              *)

(* PARTIAL (restart_state_is_image): on the initial recovery after the import
   the record found in the log store is loaded into the state machine -
   regular, concurrent or on-disk, whatever index the on-disk state machine
   reports as already applied (the Imported flag forces it; observation O5: the
   OnDiskIndex that getProcessedSnapshotRecord does not copy is never
   consulted).  Missing for the full statement "every replica's state equals
   the exported state": snapshotter.Load (image -> state machine = C08/C14
   round trip) and the non-shrunk test are taken as given; the end-to-end runs
   check the resulting state on the real code. *)
Theorem restart_loads_imported_image_partial : forall dst old members on_disk_sm last_applied ondisk_init ondisk,
  s_dummy old = false -> last_applied < s_index old ->
  do_recover on_disk_sm false last_applied ondisk_init ondisk (get_processed dst old members) true = RcLoaded.
Proof. exact restart_loads_imported_image. Qed.
Print Assumptions restart_loads_imported_image_partial.

(* PARTIAL as above. The first start after the import (intact image) loads it;
   on every later start while the imported record is still the newest one an
   on-disk state machine - which shrank the image after that first recovery -
   does NOT load the shrunk image although the record is still Imported: it
   keeps the durable state it opened with. *)
Theorem first_restart_loads_image_partial : forall dst old members on_disk_sm ondisk_init,
  s_dummy old = false -> 0 < s_index old ->
  restart_recover on_disk_sm false ondisk_init (get_processed dst old members) = RcLoaded.
Proof. exact first_restart_loads. Qed.
Print Assumptions first_restart_loads_image_partial.

Theorem later_restart_skips_shrunk_image_partial : forall dst old members ondisk_init,
  s_dummy old = false -> 0 < s_index old ->
  restart_recover true true ondisk_init (get_processed dst old members) = RcSkipped.
Proof. exact later_restart_skips_shrunk_image. Qed.
Print Assumptions later_restart_skips_shrunk_image_partial.

(* without the flag the same record is skipped by an on-disk state machine that
   has applied anything at all *)
Theorem restart_without_imported_flag_refuted :
  exists ss ondisk, s_imported ss = false /\ s_index ss = 100 /\
    do_recover true false 0 ondisk ondisk ss true = RcSkipped.
Proof. exact restart_without_flag_skips. Qed.
Print Assumptions restart_without_imported_flag_refuted.

(* ------------------------------------------------------------------ *)
(* non-vacuity: a concrete export (members 1,2 voting, 3 non-voting, 7 removed;
   a one-block snapshot file) imported on replica 1 with the list {1, 4}       *)

Definition ex_file : bytes := repeat 0 1024 ++ [10; 20; 30] ++ [1; 2; 3; 4] ++ repeat 0 16.
Definition ex_sum : bytes := match payload_checksum ex_file with CkOk s => s | _ => [] end.
Definition ex_old : snapshot :=
  mkSS [47; 120; 47; 115; 46; 103; 98; 115; 110; 97; 112] 1047 100 5
       (mkM 90 [(1, [97]); (2, [98])] [(3, [99])] [] [7]) [mkSF [47; 120; 47; 101; 120; 116] 9 1 []]
       ex_sum false 1 sm_regular false 0 false.
Definition ex_inp (members : amap) : input :=
  mkIn [97] members 1 true [mkDE [115; 46; 103; 98; 115; 110; 97; 112] false 1047; mkDE [109] false 50;
                             mkDE [101; 120; 116] false 9]
       (MetaOk ex_old) ex_file true [47; 100] [].

Example import_witness :
  ex_sum = be 4 (crc32 [1; 2; 3; 4]) /\
  (exists tr ss, import_run (ex_inp [(1, [97]); (4, [100])]) = (tr, Imported ss) /\
     In OCleanup tr /\ s_imported ss = true /\
     s_membership ss = mkM 100 [(1, [97]); (4, [100])] [] [] [2; 3; 7]) /\
  (* re-admitting the removed replica 7 / the non-voting replica 3 / moving 2 / leaving out 1 *)
  import_run (ex_inp [(1, [97]); (7, [100])]) =
    ([OCheckSettings; OLocate; OReadMeta; OCheckComplete; OCheckExtFiles; OCheckMembers],
     Refused (RMembers EAddingRemoved)) /\
  snd (import_run (ex_inp [(1, [97]); (3, [99])])) = Refused (RMembers ENonVotingAsRegular) /\
  snd (import_run (ex_inp [(1, [97]); (2, [100])])) = Refused (RMembers EAddrChanged) /\
  import_run (ex_inp [(4, [100])]) = ([OCheckSettings], Refused (RInvalidMembers SettingsNotListed)) /\
  refusal_condition (ex_inp [(4, [100])]).
Proof.
  repeat split; try (vm_compute; reflexivity).
  - eexists. eexists. vm_compute. repeat split. auto 20.
  - left. vm_compute. discriminate.
Qed.

Example logstore_witness :
  let ls := mkLS (Some (mkHS 9 2 300)) (Some (mkBS false sm_regular [(1, [97])])) (Some 300)
                 [ex_old; mkSS [] 0 200 6 (mkM 0 [] [] [] []) [] [] false 1 sm_regular false 0 false]
                 [(299, 9); (300, 9)] in
  let ss := get_processed [47; 100] ex_old [(1, [97])] in
  logdb_import ls ss =
    LOk (mkLS (Some (mkHS 5 0 100)) (Some (mkBS true sm_regular [])) (Some 100) [ss] [(299, 9); (300, 9)]).
Proof. vm_compute. reflexivity. Qed.
