(* C05 — client sessions give at-most-once application of retried proposals.
   Statements only: each theorem is closed by [exact <lemma>]; proofs live in
   Proofs/Session.v. The user state machine is arbitrary: every statement is
   quantified over its state type S, its result type and its Update function. *)
From DB Require Import Base.Bytes Gen.GenC05 Model.Session Proofs.Session.
Open Scope N_scope.

(* in every reachable state every cached series id is above the acknowledged
   watermark; therefore Session.clearTo's `to == RespondedUpTo+1` shortcut
   (delete one key) equals the general rule (drop every key <= to) *)
Theorem history_above_watermark :
  forall (S result : Type) (sm_update : S -> bytes -> S * result) cap (s0 : S) es s,
  In s (t_list (st_tab (run_state sm_update (init_state cap s0) es))) ->
  (forall k r, In (k, r) (s_history s) -> s_responded s < k) /\
  (forall to, clear_to s to = clear_to_spec s to).
Proof. exact @history_above_watermark_proved. Qed.
Print Assumptions history_above_watermark.

(* a proposal of a client without a session (never registered, unregistered or
   evicted) is Rejected and neither the user state machine nor the table changes *)
Theorem unknown_session_rejected_untouched :
  forall (S result : Type) (sm_update : S -> bytes -> S * result) (st : @state S result) e,
  classify e = KUpdate -> lookup (e_client e) st = None ->
  step sm_update st e = (st, ORejected).
Proof. exact @unknown_session_rejected_untouched_proved. Qed.
Print Assumptions unknown_session_rejected_untouched.

(* non-vacuity: a concrete stream reaches a state with cached responses above a
   non-zero watermark, and an unknown client is rejected there *)
Example c05_witness :
  let reg c := mkEntry c series_id_for_register 0 [] in
  let st := run_state acc_update (acc_init 2)
              [reg 5; mkEntry 5 1 0 [1]; mkEntry 5 2 1 [2]; mkEntry 5 3 1 [3]; reg 6] in
  map (fun s => (s_client s, s_responded s, map fst (s_history s))) (t_list (st_tab st))
    = [(6, 0, []); (5, 1, [3; 2])]
  /\ snd (acc_step st (mkEntry 9 1 0 [7])) = ORejected.
Proof. vm_compute. split; reflexivity. Qed.
