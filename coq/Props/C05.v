(* C05 — client sessions give at-most-once application of retried proposals.
   Statements only: each theorem is closed by [exact <lemma>]; proofs live in
   Proofs/Session.v. The user state machine is arbitrary: every statement is
   quantified over its state type S, its result type and its Update function. *)
From DB Require Import Base.Bytes Gen.GenC05 Model.Session Proofs.Session Model.ClientSession Proofs.ClientSession Proofs.SessionSource.
From Coq Require Import Sorted.
Open Scope N_scope.

(* in every reachable state every cached series id is above the acknowledged
   watermark; therefore Session.clearTo's `to == RespondedUpTo+1` shortcut
   (delete one key) equals the general rule (drop every key <= to) *)
Theorem history_above_watermark :
  forall (S result : Type) (sm_update : S -> bytes -> S * result) cap (s0 : S) es s,
  In s (t_list (st_tab (run_state sm_update (init_state cap s0) es))) ->
  (forall k r, In (k, r) (s_history s) -> s_responded s < k) /\
  (forall to, clear_to s to = clear_to_spec s to).
Proof. exact @history_above_watermark_proved. Qed.
Print Assumptions history_above_watermark.

(* a proposal of a client without a session (never registered, unregistered or
   evicted) is Rejected and neither the user state machine nor the table changes *)
Theorem unknown_session_rejected_untouched :
  forall (S result : Type) (sm_update : S -> bytes -> S * result) (st : @state S result) e,
  classify e = KUpdate -> lookup (e_client e) st = None ->
  step sm_update st e = (st, ORejected).
Proof. exact @unknown_session_rejected_untouched_proved. Qed.
Print Assumptions unknown_session_rejected_untouched.

(* the user state machine is invoked exactly at OApplied outcomes (with the
   entry's command; the reported result is what it returned); every other
   outcome leaves its state untouched; session-managed entries never reach an
   internal assertion (panic) *)
Theorem sm_touched_only_when_applied :
  forall (S result : Type) (sm_update : S -> bytes -> S * result) (st : @state S result) e (st' : @state S result) o,
  step sm_update st e = (st', o) ->
  (st_sm st' = st_sm st /\ (forall r, o <> OApplied r) /\ (o = OPanic -> classify e = KBadUnmanaged)) \/
  (exists r, o = OApplied r /\ sm_update (st_sm st) (e_cmd e) = (st_sm st', r) /\
             (classify e = KUpdate \/ classify e = KNoopSession)).
Proof. exact @sm_touched_only_when_applied_proved. Qed.
Print Assumptions sm_touched_only_when_applied.

(* AT MOST ONCE, over ALL entry streams (any number of clients, more clients than
   the LRU capacity, every duplicate placement, special and boundary ids, any
   capacity, any user state machine): the invocations of the user state machine
   caused by session-managed proposals, tagged (client id, registration epoch of
   that client id, series id), contain no duplicate. [sm_calls_tagged] lists one
   tag per OApplied outcome of a KUpdate entry ([tagged_calls_complete]). *)
Theorem at_most_once :
  forall (S result : Type) (sm_update : S -> bytes -> S * result) cap (s0 : S) es,
  NoDup (sm_calls_tagged sm_update cap s0 es).
Proof. exact @at_most_once_proved. Qed.
Print Assumptions at_most_once.

Theorem tagged_calls_complete :
  forall (S result : Type) (sm_update : S -> bytes -> S * result) es (st : @state S result) ep,
  length (tagged_calls sm_update ep st es) =
  length (filter (fun p => match snd p, classify (fst p) with OApplied _, KUpdate => true | _, _ => false end)
                 (combine es (snd (run sm_update st es)))).
Proof. exact @tagged_calls_complete_proved. Qed.
Print Assumptions tagged_calls_complete.

(* a retry (same client, same series id, not yet acknowledged) of a proposal that
   was applied with result r is answered with r from the session cache, without
   invoking the user state machine — whatever other entries (es) were applied in
   between, as long as the session stayed registered *)
Theorem retry_returns_cached :
  forall (S result : Type) (sm_update : S -> bytes -> S * result) (st : @state S result) e r st1 es e',
  inv st -> classify e = KUpdate -> step sm_update st e = (st1, OApplied r) ->
  present_along sm_update (e_client e) st1 es ->
  Forall (fun x => classify x = KUpdate -> e_client x = e_client e -> e_responded x < e_series e) es ->
  classify e' = KUpdate -> e_client e' = e_client e -> e_series e' = e_series e ->
  e_responded e' < e_series e ->
  exists st', step sm_update (run_state sm_update st1 es) e' = (st', OCached r) /\
              st_sm st' = st_sm (run_state sm_update st1 es).
Proof. exact @retry_returns_cached_proved. Qed.
Print Assumptions retry_returns_cached.

(* [inv] (the hypothesis above and below) holds in every reachable state *)
Theorem inv_reachable :
  forall (S result : Type) (sm_update : S -> bytes -> S * result) cap (s0 : S) es,
  inv (run_state sm_update (init_state cap s0) es).
Proof. exact @inv_reachable_proved. Qed.
Print Assumptions inv_reachable.

(* every proposal of a registered client records its RespondedTo *)
Theorem acknowledgement_recorded :
  forall (S result : Type) (sm_update : S -> bytes -> S * result) (st : @state S result) e,
  inv st -> classify e = KUpdate -> lookup (e_client e) st <> None ->
  acked (e_client e) (e_responded e) (fst (step sm_update st e)).
Proof. exact @acknowledgement_recorded_proved. Qed.
Print Assumptions acknowledgement_recorded.

(* once an acknowledgement >= k is recorded, a late duplicate with series id <= k
   is ignored (no result, user state machine untouched), whatever was applied in
   between, as long as the session stayed registered *)
Theorem acknowledged_duplicate_ignored :
  forall (S result : Type) (sm_update : S -> bytes -> S * result) (st : @state S result) c k es e,
  inv st -> acked c k st -> present_along sm_update c st es ->
  classify e = KUpdate -> e_client e = c -> e_series e <= k ->
  exists st', step sm_update (run_state sm_update st es) e = (st', OIgnored) /\
              st_sm st' = st_sm (run_state sm_update st es).
Proof. exact @acknowledged_duplicate_ignored_proved. Qed.
Print Assumptions acknowledged_duplicate_ignored.

(* eviction: registering a new client in a full table drops exactly the least
   recently used session; its later proposals are rejected and change nothing *)
Theorem evicted_session_rejected :
  forall (S result : Type) (sm_update : S -> bytes -> S * result) (st : @state S result) e l v,
  inv st -> t_list (st_tab st) = l ++ [v] ->
  N.of_nat (length (l ++ [v])) = t_cap (st_tab st) ->
  classify e = KRegister -> lookup (e_client e) st = None ->
  exists st1, step sm_update st e = (st1, ORegistered (e_client e)) /\
    t_list (st_tab st1) = new_session (e_client e) :: l /\
    lookup (s_client v) st1 = None /\
    forall e', classify e' = KUpdate -> e_client e' = s_client v -> step sm_update st1 e' = (st1, ORejected).
Proof. exact @evicted_session_rejected_proved. Qed.
Print Assumptions evicted_session_rejected.

(* the table invariants in every reachable state: one session per client id,
   never more sessions than the capacity *)
Theorem table_wf_reachable :
  forall (S result : Type) (sm_update : S -> bytes -> S * result) cap (s0 : S) es,
  let t := st_tab (run_state sm_update (init_state cap s0) es) in
  NoDup (ids (t_list t)) /\ N.of_nat (length (t_list t)) <= t_cap t /\ t_cap t = cap.
Proof. exact @table_wf_reachable_proved. Qed.
Print Assumptions table_wf_reachable.

(* lrusession.save walks the table with Get (which reorders) and still leaves the
   LRU order exactly as it was; it writes the sessions least recently used first *)
Theorem save_preserves_order :
  forall (result : Type) (t : @table result),
  NoDup (ids (t_list t)) -> save t = Some ((t_cap t, rev (t_list t)), t).
Proof. exact @save_preserves_order_proved. Qed.
Print Assumptions save_preserves_order.

(* load (save t) = t: same sessions, same LRU order, same capacity *)
Theorem load_save_id :
  forall (result : Type) (t : @table result) sv t',
  NoDup (ids (t_list t)) -> N.of_nat (length (t_list t)) <= t_cap t -> 0 < t_cap t ->
  save t = Some (sv, t') -> t' = t /\ load sv = Some t.
Proof. exact @load_save_id_proved. Qed.
Print Assumptions load_save_id.

(* snapshot at any cut point, restart from it, apply the rest of the log: same
   results per entry, same final table (LRU order, hence eviction victims) and
   same user state as the uninterrupted run. Assumes only the user contract
   sm_recover (sm_save s) = Some s. *)
Theorem snapshot_cut_equiv_sessions :
  forall (S result : Type) (sm_update : S -> bytes -> S * result)
         (sm_save : S -> bytes) (sm_recover : bytes -> option S),
  (forall s, sm_recover (sm_save s) = Some s) ->
  forall cap (s0 : S) es1 es2, 0 < cap ->
  let st1 := run_state sm_update (init_state cap s0) es1 in
  exists sn, snapshot sm_save st1 = Some (sn, st1) /\
  exists st1', restore sm_recover sn = Some st1' /\
               run sm_update st1' es2 = run sm_update st1 es2 /\
               run sm_update (init_state cap s0) (es1 ++ es2) =
                 (fst (run sm_update st1' es2),
                  snd (run sm_update (init_state cap s0) es1) ++ snd (run sm_update st1' es2)).
Proof. exact @snapshot_cut_equiv_sessions_proved. Qed.
Print Assumptions snapshot_cut_equiv_sessions.

(* a snapshot installed on a LIVE replica (lagging follower, non-empty table):
   lrusession.load's result does not depend on the table it is called on *)
Theorem load_replaces_table :
  forall (result : Type) (t1 t2 : @table result) sv,
  load_into t1 sv = load_into t2 sv /\ load_into t1 sv = load sv.
Proof. exact @load_replaces_table_proved. Qed.
Print Assumptions load_replaces_table.

(* whatever state the live replica was in, after installing the image of st1 it
   is exactly st1 (no session of the old table survives; order and capacity are
   the image's) *)
Theorem install_replaces_state :
  forall (S result : Type) (sm_save : S -> bytes) (sm_recover : bytes -> option S),
  (forall s, sm_recover (sm_save s) = Some s) ->
  forall (st_old st1 : @state S result),
  inv st1 -> 0 < t_cap (st_tab st1) ->
  exists sn, snapshot sm_save st1 = Some (sn, st1) /\ install sm_recover st_old sn = Some st1.
Proof. exact @install_replaces_state_proved. Qed.
Print Assumptions install_replaces_state.

Theorem lagging_replica_catches_up :
  forall (S result : Type) (sm_update : S -> bytes -> S * result)
         (sm_save : S -> bytes) (sm_recover : bytes -> option S),
  (forall s, sm_recover (sm_save s) = Some s) ->
  forall cap (s0 : S) es0 es1 es2, 0 < cap ->
  let lag := run_state sm_update (init_state cap s0) es0 in
  let lead := run_state sm_update (init_state cap s0) (es0 ++ es1) in
  exists sn, snapshot sm_save lead = Some (sn, lead) /\
  exists st', install sm_recover lag sn = Some st' /\ st' = lead /\
              fst (run sm_update st' es2) = run_state sm_update (init_state cap s0) ((es0 ++ es1) ++ es2) /\
              snd (run sm_update st' es2) = snd (run sm_update lead es2).
Proof. exact @lagging_replica_catches_up_proved. Qed.
Print Assumptions lagging_replica_catches_up.

(* non-vacuity: the lagging replica still holds client 5 (unregistered on the
   leader) and lacks client 7; after the install it has exactly the leader's table *)
Example c05_install_witness :
  let reg c := mkEntry c series_id_for_register 0 [] in
  let lag := run_state acc_update (acc_init 3) [reg 5; reg 6; mkEntry 5 1 0 [1]] in
  let lead := run_state acc_update lag [mkEntry 5 series_id_for_unregister 0 []; reg 7; mkEntry 6 1 0 [2]] in
  map s_client (t_list (st_tab lag)) = [5; 6] /\
  match acc_snapshot lead with
  | Some (sn, _) => match acc_install lag sn with
                    | Some st' => st' = lead /\ map s_client (t_list (st_tab st')) = [6; 7] /\
                                  snd (acc_step st' (mkEntry 5 1 0 [1])) = ORejected
                    | None => False end
  | None => False
  end.
Proof. vm_compute. repeat split; reflexivity. Qed.

(* replicas that snapshot + restart at different points of the same log are
   indistinguishable from one that never restarted (and so from each other):
   same result for every entry, same session table, same user state *)
Theorem replicas_agree :
  forall (S result : Type) (sm_update : S -> bytes -> S * result)
         (sm_save : S -> bytes) (sm_recover : bytes -> option S),
  (forall s, sm_recover (sm_save s) = Some s) ->
  forall cap (s0 : S) es1 es2 es1' es2',
  0 < cap -> es1 ++ es2 = es1' ++ es2' ->
  restart_run sm_update sm_save sm_recover cap s0 es1 es2
    = Some (run sm_update (init_state cap s0) (es1 ++ es2)) /\
  restart_run sm_update sm_save sm_recover cap s0 es1 es2
    = restart_run sm_update sm_save sm_recover cap s0 es1' es2'.
Proof. exact @replicas_agree_proved. Qed.
Print Assumptions replicas_agree.

(* tie G: the facts regenerated from the source that model and proofs rely on *)
Theorem source_tie :
  src_has_responded_le = true /\ src_clear_to_guard_le = true /\ src_clear_to_shortcut_eq = true /\
  src_clear_to_loop_le = true /\ src_evict_when_gt = true /\
  src_concurrent_save_steps = true /\ src_sessions_saved_in_meta = true /\
  not_session_managed_client_id = 0 /\ noop_series_id = 0 /\ series_id_first_proposal = 1 /\
  series_id_for_register = 2 ^ 64 - 2 /\ series_id_for_unregister = 2 ^ 64 - 1 /\
  0 < lru_max_session_count.
Proof. exact source_tie_proved. Qed.
Print Assumptions source_tie.

(* tie G: the session table is a function of the applied entries because the
   order-refreshing lookups of the LRU are called from the apply path (and the
   order-preserving save walk) only; the caller lists are regenerated from
   internal/rsm on every run (see Proofs/SessionSource.v for the expected lists) *)
Theorem lru_refresh_only_on_apply_path :
  (src_lru_get_callers, src_get_session_callers, src_session_lookup_callers, src_session_save_callers)
  = expected_refresh_callers.
Proof. exact lru_refresh_only_on_apply_path_proved. Qed.
Print Assumptions lru_refresh_only_on_apply_path.

(* client side (client.Session): after PrepareForPropose, any interleaving of
   proposing/retrying and ProposalCompleted never panics and emits entries with
   the client's id, RespondedTo = SeriesID - 1, never a reserved series id,
   non-decreasing series ids, and identical ids for equal series ids (a retry
   re-uses exactly the same triple; a completed series id is never used again).
   The bound excludes only the 2^64 wrap-around of the counter. *)
Theorem client_discipline :
  forall cid ops s0 out s',
  cid <> 0 -> N.of_nat (length ops) < series_id_for_register - 1 ->
  c_prepare_for_propose (c_new cid) = Some s0 ->
  c_run s0 ops <> None /\
  (c_run s0 ops = Some (out, s') ->
   Forall (fun t => fst (fst t) = cid /\ 1 <= snd (fst t) /\ snd t + 1 = snd (fst t) /\
                    snd (fst t) <> series_id_for_register /\ snd (fst t) <> series_id_for_unregister) out /\
   Sorted (fun a b => snd (fst a) <= snd (fst b)) out /\
   (forall a b, In a out -> In b out -> snd (fst a) = snd (fst b) -> a = b)).
Proof. exact client_discipline_proved. Qed.
Print Assumptions client_discipline.

Example c05_client_witness :
  option_map fst (match c_prepare_for_propose (c_new 9) with Some s => c_run s [CPropose; CPropose; CCompleted; CPropose; CCompleted; CPropose] | None => None end)
  = Some [(9, 1, 0); (9, 1, 0); (9, 2, 1); (9, 3, 2)].
Proof. vm_compute. reflexivity. Qed.

(* non-vacuity: a concrete stream reaches a state with cached responses above a
   non-zero watermark, and an unknown client is rejected there *)
Example c05_witness :
  let reg c := mkEntry c series_id_for_register 0 [] in
  let st := run_state acc_update (acc_init 2)
              [reg 5; mkEntry 5 1 0 [1]; mkEntry 5 2 1 [2]; mkEntry 5 3 1 [3]; reg 6] in
  map (fun s => (s_client s, s_responded s, map fst (s_history s))) (t_list (st_tab st))
    = [(6, 0, []); (5, 1, [3; 2])]
  /\ snd (acc_step st (mkEntry 9 1 0 [7])) = ORejected.
Proof. vm_compute. split; reflexivity. Qed.

(* non-vacuity of retry_returns_cached / acknowledged_duplicate_ignored /
   evicted_session_rejected: concrete data meeting their hypotheses, with other
   clients' traffic in between *)
Example c05_retry_witness :
  let reg c := mkEntry c series_id_for_register 0 [] in
  let st := run_state acc_update (acc_init 2) [reg 5] in
  let e := mkEntry 5 1 0 [1] in
  let es := [reg 6; mkEntry 6 1 0 [9]; mkEntry 5 2 0 [3]; mkEntry 5 1 0 [1]] in
  let st1 := fst (acc_step st e) in
  classify e = KUpdate /\ (exists r, snd (acc_step st e) = OApplied r) /\
  present_along acc_update 5 st1 es /\
  Forall (fun x => classify x = KUpdate -> e_client x = 5 -> e_responded x < 1) es /\
  snd (acc_step (run_state acc_update st1 es) e) = OCached (1801, [1]) /\
  snd (acc_step st e) = OApplied (1801, [1]).
Proof.
  cbv zeta. split; [reflexivity|]. split; [eexists; vm_compute; reflexivity|].
  split; [cbn [present_along]; repeat split; vm_compute; discriminate|].
  split; [repeat constructor; vm_compute; intros; reflexivity|].
  split; vm_compute; reflexivity.
Qed.

Example c05_ack_evict_witness :
  let reg c := mkEntry c series_id_for_register 0 [] in
  let st := run_state acc_update (acc_init 2) [reg 5; mkEntry 5 1 0 [1]; mkEntry 5 2 1 [2]] in
  acked 5 1 st /\ present_along acc_update 5 st [reg 6; mkEntry 6 1 0 [4]] /\
  snd (acc_step (run_state acc_update st [reg 6; mkEntry 6 1 0 [4]]) (mkEntry 5 1 0 [1])) = OIgnored /\
  (* full table [6; 5]: registering 7 evicts 5, whose retry is then rejected *)
  let st2 := run_state acc_update st [reg 6; mkEntry 6 1 0 [4]; reg 7] in
  map s_client (t_list (st_tab st2)) = [7; 6] /\
  snd (acc_step st2 (mkEntry 5 2 1 [2])) = ORejected.
Proof.
  cbv zeta. split; [eexists; split; [vm_compute; reflexivity|vm_compute; discriminate]|].
  split; [cbn [present_along]; repeat split; vm_compute; discriminate|].
  repeat split; vm_compute; reflexivity.
Qed.

(* non-vacuity of at_most_once: the tagged trace of a stream with retries,
   re-registration after eviction and a NoOP-session proposal *)
Example c05_tags_witness :
  let reg c := mkEntry c series_id_for_register 0 [] in
  sm_calls_tagged acc_update 1 0
    [reg 5; mkEntry 5 1 0 [1]; mkEntry 5 1 0 [1]; reg 6; mkEntry 5 1 0 [1]; reg 5; mkEntry 5 1 0 [1];
     mkEntry 5 0 0 [8]; mkEntry 5 1 0 [1]]
  = [(5, 1%nat, 1); (5, 2%nat, 1)].
Proof. vm_compute. reflexivity. Qed.

(* non-vacuity of save/load: a 3-session table in a non-sorted LRU order *)
Example c05_save_load_witness :
  let reg c := mkEntry c series_id_for_register 0 [] in
  let t := st_tab (run_state acc_update (acc_init 3) [reg 7; reg 3; reg 9; mkEntry 3 1 0 [1]; mkEntry 7 4 2 [2]]) in
  map s_client (t_list t) = [7; 3; 9] /\
  match save t with
  | Some (sv, t') => map s_client (snd sv) = [9; 3; 7] /\ t' = t /\ load sv = Some t
  | None => False
  end.
Proof. vm_compute. repeat split; reflexivity. Qed.

(* the theorems above quantify over every sm_update and every result type, so
   they make no assumption that a result is non-empty. Concretely, with the
   harness state machine returning the ZERO result (command byte 0xE0): the
   application is recorded in the history, the retry is answered from the cache
   (user state machine untouched), the tagged trace has one tag, and this
   survives snapshot + restart *)
Example c05_empty_result_witness :
  let reg c := mkEntry c series_id_for_register 0 [] in
  let e := mkEntry 5 1 0 [224; 9] in
  let st := run_state acc_update (acc_init 2) [reg 5] in
  snd (acc_step st e) = OApplied (0, []) /\
  let st1 := fst (acc_step st e) in
  map (fun s => (s_client s, s_history s)) (t_list (st_tab st1)) = [(5, [(1, (0, []))])] /\
  acc_step st1 e = (st1, OCached (0, [])) /\
  sm_calls_tagged acc_update 2 0 [reg 5; e; e; mkEntry 0 0 0 []; e] = [(5, 1%nat, 1)] /\
  match acc_snapshot st1 with
  | Some (sn, _) => match acc_restore sn with
                    | Some st2 => acc_step st2 e = (st2, OCached (0, []))
                    | None => False end
  | None => False
  end.
Proof. vm_compute. repeat split; reflexivity. Qed.
