(* C18 — roles are respected: only full voters campaign or lead; quorums count voters and
   witnesses; witnesses get metadata only. LOCAL theorems on the faithful L1 model plus facts
   computed from the GENERATED handler table. Statements only. *)
From DB Require Import Model.RaftCore Proofs.RaftTable Proofs.RaftStep Proofs.RaftRoles.
Open Scope N_scope.

(* from initializeHandlerMap: no election, vote-response, replication-response, heartbeat-
   response, check-quorum, leader-heartbeat, timeout-now or leader-transfer handler for
   non-voting members and witnesses; witnesses additionally take no proposals, reads or
   log queries *)
Theorem handler_table_roles_nonvoting :
  no_handler st_nonVoting [mt_Election; mt_RequestVoteResp; mt_RequestPreVoteResp;
                           mt_ReplicateResp; mt_HeartbeatResp; mt_LeaderHeartbeat; mt_CheckQuorum;
                           mt_TimeoutNow; mt_LeaderTransfer; mt_SnapshotStatus; mt_Unreachable] = true.
Proof. exact roles_table_nonvoting. Qed.
Print Assumptions handler_table_roles_nonvoting.

Theorem handler_table_roles_witness :
  no_handler st_witness [mt_Election; mt_RequestVoteResp; mt_RequestPreVoteResp;
                         mt_ReplicateResp; mt_HeartbeatResp; mt_LeaderHeartbeat; mt_CheckQuorum;
                         mt_TimeoutNow; mt_LeaderTransfer; mt_SnapshotStatus; mt_Unreachable;
                         mt_Propose; mt_ReadIndex; mt_ReadIndexResp; mt_LogQuery] = true.
Proof. exact roles_table_witness. Qed.
Print Assumptions handler_table_roles_witness.

(* for EVERY state of a non-voting member or witness, every message and every recursion
   depth of raft.Handle: the replica does not become candidate, pre-vote candidate or leader;
   a witness stays a witness; a non-voting member changes role only by promotion to follower *)
Theorem only_voters_campaign_or_lead :
  forall f r m, r_role r = NonVoting \/ r_role r = Witness ->
    r_role (handle f r m) <> Candidate /\ r_role (handle f r m) <> PreVoteCandidate /\
    r_role (handle f r m) <> Leader /\ (r_role r = Witness -> r_role (handle f r m) = Witness).
Proof. exact nonvoting_witness_never_candidate_or_leader_proved. Qed.
Print Assumptions only_voters_campaign_or_lead.

Theorem nonvoting_changes_role_only_by_promotion :
  forall f r m, r_role r = NonVoting \/ r_role r = Witness ->
    r_role (handle f r m) = r_role r \/ (r_role r = NonVoting /\ r_role (handle f r m) = Follower).
Proof. exact nonvoting_witness_never_campaign_proved. Qed.
Print Assumptions nonvoting_changes_role_only_by_promotion.

(* whatever sendReplicateMessage emits for a witness carries only metadata entries (index and
   term, no payload, no client identifiers) or membership changes, and a witness snapshot
   without file *)
Theorem witness_gets_metadata_only :
  forall r to rp x, find_peer r to = Some (KWitness, rp) ->
    In x (r_msgs (send_replicate r to)) ->
    In x (r_msgs r) \/
    (m_to x = to /\ Forall witness_safe (m_entries x) /\
     (m_type x = mt_InstallSnapshot -> ss_witness (m_snapshot x) = true /\ ss_has_file (m_snapshot x) = false)).
Proof. exact witness_gets_metadata_only_proved. Qed.
Print Assumptions witness_gets_metadata_only.

(* votes and pre-votes from non-voting members are not counted *)
Theorem vote_from_nonvoting_ignored :
  forall r m, amem (m_from m) (r_nonvotings r) = true -> handle_candidate_request_vote_resp r m = r.
Proof. exact vote_from_nonvoting_ignored_proved. Qed.
Print Assumptions vote_from_nonvoting_ignored.

Theorem prevote_from_nonvoting_ignored :
  forall r m, amem (m_from m) (r_nonvotings r) = true -> handle_prevote_candidate_resp r m = r.
Proof. exact prevote_from_nonvoting_ignored_proved. Qed.
Print Assumptions prevote_from_nonvoting_ignored.

(* ReadIndex confirmation requests (heartbeats with a hint) go to voting members only *)
Theorem readindex_hint_only_to_voters :
  forall r ctx x, negb ((fst ctx =? 0) && (snd ctx =? 0)) = true ->
    In x (r_msgs (broadcast_heartbeat_hint r ctx)) -> In x (r_msgs r) \/ In (m_to x) (voting_ids r).
Proof. exact readindex_hint_only_to_voters_proved. Qed.
Print Assumptions readindex_hint_only_to_voters.

(* the code's own list of forbidden cells (checkHandlerMap) is empty in the generated table *)
Theorem check_handler_map_holds :
  forallb (fun c => match handler_of (fst c) (snd c) with H_none => true | _ => false end)
    [(st_leader, mt_Heartbeat); (st_leader, mt_Replicate); (st_leader, mt_InstallSnapshot);
     (st_leader, mt_ReadIndexResp); (st_leader, mt_RequestPreVoteResp);
     (st_follower, mt_ReplicateResp); (st_follower, mt_HeartbeatResp); (st_follower, mt_SnapshotStatus);
     (st_follower, mt_Unreachable); (st_follower, mt_RequestPreVoteResp);
     (st_candidate, mt_ReplicateResp); (st_candidate, mt_HeartbeatResp); (st_candidate, mt_SnapshotStatus);
     (st_candidate, mt_Unreachable); (st_candidate, mt_RequestPreVoteResp);
     (st_preVoteCandidate, mt_ReplicateResp); (st_preVoteCandidate, mt_HeartbeatResp);
     (st_preVoteCandidate, mt_SnapshotStatus); (st_preVoteCandidate, mt_Unreachable);
     (st_nonVoting, mt_Election); (st_nonVoting, mt_RequestVoteResp); (st_nonVoting, mt_ReplicateResp);
     (st_nonVoting, mt_HeartbeatResp); (st_nonVoting, mt_RequestPreVoteResp);
     (st_witness, mt_Election); (st_witness, mt_Propose); (st_witness, mt_ReadIndex);
     (st_witness, mt_ReadIndexResp); (st_witness, mt_RequestVoteResp); (st_witness, mt_ReplicateResp);
     (st_witness, mt_HeartbeatResp); (st_witness, mt_RequestPreVoteResp); (st_witness, mt_LogQuery)] = true.
Proof. exact check_handler_map_cells. Qed.
Print Assumptions check_handler_map_holds.

(* non-vacuity: a witness that receives a RequestVote of a higher term stays a witness *)
Example witness_stays_witness :
  let r := new_raft 3 Witness 10 1 true false (mkLog 0 0 [] 0 0 0 None empty_snapshot) [1; 2] [] [3] None 12 in
  r_role (raft_handle r ((msg0 mt_RequestVote) <| m_from := 1 |> <| m_term := 5 |>)) = Witness.
Proof. vm_compute. reflexivity. Qed.
