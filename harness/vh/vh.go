// Package vh holds what every property harness shares: a seeded PRNG, the
// case/observation file writers and the stats record read by bin/check.
package vh

import (
	"bufio"
	"encoding/hex"
	"encoding/json"
	"flag"
	"fmt"
	"os"
	"path/filepath"
	"sort"
	"strings"
)

// Rand is a splitmix64 generator: every random choice of a harness derives
// from one seed so that a disagreement replays exactly.
type Rand struct{ s uint64 }

func NewRand(seed uint64) *Rand {
	// the seed is passed through the output function first: with s = seed*gamma+c the
	// streams of neighbouring seeds would be shifted copies of each other
	z := seed + 0x1234567
	z = (z ^ (z >> 30)) * 0xBF58476D1CE4E5B9
	z = (z ^ (z >> 27)) * 0x94D049BB133111EB
	return &Rand{s: z ^ (z >> 31)}
}
func (r *Rand) U64() uint64 {
	r.s += 0x9E3779B97F4A7C15
	z := r.s
	z = (z ^ (z >> 30)) * 0xBF58476D1CE4E5B9
	z = (z ^ (z >> 27)) * 0x94D049BB133111EB
	return z ^ (z >> 31)
}
func (r *Rand) Intn(n int) int {
	if n <= 0 {
		return 0
	}
	return int(r.U64() % uint64(n))
}
func (r *Rand) Bool() bool          { return r.U64()&1 == 1 }
func (r *Rand) Chance(p, q int) bool { return r.Intn(q) < p }
func (r *Rand) Bytes(n int) []byte {
	b := make([]byte, n)
	for i := range b {
		b[i] = byte(r.U64())
	}
	return b
}

// Boundary-biased uint64.
var U64Boundaries = []uint64{0, 1, 2, 127, 128, 129, 255, 256, 16383, 16384,
	1<<21 - 1, 1 << 21, 1<<28 - 1, 1 << 28, 1<<31 - 1, 1 << 31, 1<<32 - 1, 1 << 32,
	1<<35 - 1, 1 << 35, 1<<42 - 1, 1 << 42, 1<<49 - 1, 1 << 49, 1<<49 + 1,
	1<<56 - 1, 1 << 56, 1<<63 - 1, 1 << 63, 1<<64 - 1, 1<<64 - 2}

func (r *Rand) BiasedU64() uint64 {
	switch r.Intn(4) {
	case 0:
		return U64Boundaries[r.Intn(len(U64Boundaries))]
	case 1:
		return r.U64() >> uint(r.Intn(64))
	case 2:
		return uint64(r.Intn(300))
	default:
		return r.U64()
	}
}

func Hex(b []byte) string {
	if len(b) == 0 {
		return "-"
	}
	return hex.EncodeToString(b)
}

func UnHex(s string) []byte {
	if s == "-" {
		return nil
	}
	b, err := hex.DecodeString(s)
	if err != nil {
		panic(err)
	}
	return b
}

// Args are the common command line arguments.
type Args struct {
	Mode  string // gen | run
	Seed  uint64
	Tier  string
	Out   string
	Cases string
	N     int
}

func ParseArgs() Args {
	if len(os.Args) < 2 {
		fmt.Fprintln(os.Stderr, "usage: <harness> gen|run [-seed N] [-tier quick|thorough] [-out DIR] [-cases FILE] [-n N]")
		os.Exit(2)
	}
	a := Args{Mode: os.Args[1]}
	fs := flag.NewFlagSet(a.Mode, flag.ExitOnError)
	fs.Uint64Var(&a.Seed, "seed", 1, "seed")
	fs.StringVar(&a.Tier, "tier", "quick", "tier")
	fs.StringVar(&a.Out, "out", ".", "output directory")
	fs.StringVar(&a.Cases, "cases", "", "cases file (run mode)")
	fs.IntVar(&a.N, "n", 0, "override number of cases")
	_ = fs.Parse(os.Args[2:])
	if a.Cases == "" {
		a.Cases = filepath.Join(a.Out, "cases.txt")
	}
	return a
}

type LineWriter struct {
	f *os.File
	w *bufio.Writer
}

func Create(path string) *LineWriter {
	f, err := os.Create(path)
	if err != nil {
		panic(err)
	}
	return &LineWriter{f: f, w: bufio.NewWriterSize(f, 1<<20)}
}
func (l *LineWriter) Printf(format string, a ...interface{}) { fmt.Fprintf(l.w, format, a...) }
func (l *LineWriter) Close()                                 { l.w.Flush(); l.f.Close() }

// ReadLines returns the non-empty lines of a file.
func ReadLines(path string) []string {
	f, err := os.Open(path)
	if err != nil {
		panic(err)
	}
	defer f.Close()
	sc := bufio.NewScanner(f)
	sc.Buffer(make([]byte, 1<<20), 1<<28)
	var out []string
	for sc.Scan() {
		t := strings.TrimSpace(sc.Text())
		if t != "" {
			out = append(out, t)
		}
	}
	return out
}

// Stats is what a run reports about its own coverage.
type Stats struct {
	Evaluations        int               `json:"evaluations"`
	DistinctNontrivial int               `json:"distinct_nontrivial"`
	Rule               string            `json:"rule"`
	Samples            []string          `json:"samples"`
	Distribution       map[string]int    `json:"distribution"`
	MonitorViolations  []string          `json:"monitor_violations"`
	Notes              map[string]string `json:"notes,omitempty"`
	distinct           map[string]bool
}

func NewStats(rule string) *Stats {
	return &Stats{Rule: rule, Distribution: map[string]int{}, distinct: map[string]bool{}, Notes: map[string]string{}}
}
func (s *Stats) Count(key string) { s.Distribution[key]++ }

// Case records one evaluated case; key identifies it for distinctness and
// nontrivial says whether it reached the branch of interest.
func (s *Stats) Case(key string, nontrivial bool, sample string) {
	s.Evaluations++
	if nontrivial && !s.distinct[key] {
		s.distinct[key] = true
		s.DistinctNontrivial++
	}
	if len(s.Samples) < 5 && sample != "" {
		if len(sample) > 400 {
			sample = sample[:400] + "..."
		}
		s.Samples = append(s.Samples, sample)
	}
}
func (s *Stats) Violation(id string, msg string) {
	s.MonitorViolations = append(s.MonitorViolations, id+" "+msg)
}
func (s *Stats) Write(dir string) {
	sort.Strings(s.MonitorViolations)
	b, _ := json.MarshalIndent(s, "", " ")
	if err := os.WriteFile(filepath.Join(dir, "stats.json"), b, 0644); err != nil {
		panic(err)
	}
}

// Catch runs f and reports a panic as a string.
func Catch(f func()) (p string) {
	defer func() {
		if r := recover(); r != nil {
			p = fmt.Sprint(r)
		}
	}()
	f()
	return ""
}
