package main

import (
	"bytes"
	"context"
	"errors"
	"fmt"
	"sort"
	"strings"
	"sync"
	"time"

	"github.com/lni/dragonboat/v4/config"
	"github.com/lni/dragonboat/v4/raftio"
	pb "github.com/lni/dragonboat/v4/raftpb"
	hk "github.com/lni/dragonboat/v4/verifhooks/c15"

	"verif/harness/vh"
)

// ---- G cases: Transport.SendSnapshot end to end -----------------------------
//
//	<id> G cs=.. did=.. fail=none|conn|chunkK|resolve|breaker|jobs [wb=<pieces>] F0=<path>@<pieces> .. | M <msg>
//
// A REAL transport.Transport is built on an in-memory file system with a
// loop-back transport module (config.Expert.TransportFactory): a snapshot
// connection hands every chunk to the chunk handler the Transport registered,
// i.e. to its own receiver. Transport.SendSnapshot(m) then runs
// splitSnapshotMessage (getChunks or getWitnessChunk), createJob, the job
// worker (connect, sendChunks, loadChunkData), the status report to the
// message handler and the release of the snapshot (Unref -> Compact).
// fail=conn makes GetSnapshotConnection fail, fail=chunkK makes SendChunk fail
// after K chunks were delivered; resolve / breaker / jobs make SendSnapshot itself fail
// at once (target not in the registry, circuit breaker open, job limit reached). wb= is the body (after the 1 KB header) of the
// witness snapshot file, for cases whose message is a witness snapshot.

type gcase struct {
	id       string
	cs, did  uint64
	fail     string
	wb       []byte
	wbDesc   string
	files    []fileDef
	msg      pb.Message
}

func (c *gcase) String() string {
	var b strings.Builder
	fmt.Fprintf(&b, "%s G cs=%d did=%d fail=%s", c.id, c.cs, c.did, c.fail)
	if c.msg.Snapshot.Witness {
		fmt.Fprintf(&b, " wb=%s", c.wbDesc)
	}
	for i, f := range c.files {
		fmt.Fprintf(&b, " F%d=%s@%s", i, hexs(f.path), f.desc)
	}
	b.WriteString(" | " + msgString(c.msg))
	return b.String()
}

func parseGCase(line string) *gcase {
	i := strings.Index(line, " | ")
	hf := strings.Fields(line[:i])
	c := &gcase{id: hf[0]}
	for _, kv := range hf[2:] {
		j := strings.IndexByte(kv, '=')
		k, v := kv[:j], kv[j+1:]
		switch {
		case k == "cs":
			c.cs = u64(v)
		case k == "did":
			c.did = u64(v)
		case k == "fail":
			c.fail = v
		case k == "wb":
			c.wbDesc, c.wb = v, expandPieces(v)
		case k[0] == 'F':
			fd := fileDef{}
			j := strings.IndexByte(v, '@')
			fd.path, fd.desc = unhexs(v[:j]), v[j+1:]
			fd.data = expandPieces(fd.desc)
			c.files = append(c.files, fd)
		default:
			panic("bad G header field " + kv)
		}
	}
	c.msg = parseMsg(line[i+3:])
	return c
}

var errInjected = errors.New("injected failure")

type loopModule struct {
	chunkHandler raftio.ChunkHandler
	failConn     bool
	failAfter    int // -1: never
	mu           sync.Mutex
	delivered    int
	conns        int
}

func (l *loopModule) Name() string  { return "c15-loop" }
func (l *loopModule) Start() error  { return nil }
func (l *loopModule) Close() error  { return nil }
func (l *loopModule) GetConnection(ctx context.Context, target string) (raftio.IConnection, error) {
	return nil, errInjected
}
func (l *loopModule) GetSnapshotConnection(ctx context.Context, target string) (raftio.ISnapshotConnection, error) {
	l.mu.Lock()
	defer l.mu.Unlock()
	l.conns++
	if l.failConn {
		return nil, errInjected
	}
	return &loopConn{l: l}, nil
}

type loopConn struct{ l *loopModule }

func (c *loopConn) Close() {}
func (c *loopConn) SendChunk(ch pb.Chunk) error {
	c.l.mu.Lock()
	if c.l.failAfter >= 0 && c.l.delivered >= c.l.failAfter {
		c.l.mu.Unlock()
		return errInjected
	}
	c.l.delivered++
	c.l.mu.Unlock()
	ch.Data = append([]byte{}, ch.Data...) // what a wire would do
	c.l.chunkHandler(ch)
	return nil
}

type loopFactory struct{ m *loopModule }

func (f *loopFactory) Create(cfg config.NodeHostConfig, mh raftio.MessageHandler, ch raftio.ChunkHandler) raftio.ITransport {
	f.m.chunkHandler = ch
	return f.m
}
func (f *loopFactory) Validate(string) bool { return true }

type glueHandler struct {
	mu        sync.Mutex
	status    []string
	snapshots []pb.Message
	confirms  int
	unreach   int
	statusC   chan struct{}
}

func (h *glueHandler) HandleMessageBatch(b pb.MessageBatch) (uint64, uint64) {
	h.mu.Lock()
	defer h.mu.Unlock()
	n := uint64(0)
	for _, m := range b.Requests {
		if m.Type == pb.InstallSnapshot {
			h.snapshots = append(h.snapshots, m)
			n++
		}
	}
	return n, 0
}
func (h *glueHandler) HandleUnreachable(shardID uint64, replicaID uint64) {
	h.mu.Lock()
	h.unreach++
	h.mu.Unlock()
}
func (h *glueHandler) HandleSnapshotStatus(shardID uint64, replicaID uint64, rejected bool) {
	h.mu.Lock()
	h.status = append(h.status, fmt.Sprintf("%d.%d.%s", shardID, replicaID, b2s(rejected)))
	h.mu.Unlock()
	select {
	case h.statusC <- struct{}{}:
	default:
	}
}
func (h *glueHandler) HandleSnapshot(shardID uint64, replicaID uint64, from uint64) {
	h.mu.Lock()
	h.confirms++
	h.mu.Unlock()
}

type glueEvents struct{}

func (glueEvents) ConnectionEstablished(string, bool) {}
func (glueEvents) ConnectionFailed(string, bool)      {}

type compactor struct {
	mu sync.Mutex
	n  int
	c  chan struct{}
}

func (c *compactor) Compact(uint64) error {
	c.mu.Lock()
	c.n++
	c.mu.Unlock()
	select {
	case c.c <- struct{}{}:
	default:
	}
	return nil
}

func runGlue(c *gcase, out *vh.LineWriter, st *vh.Stats) {
	hs := int(hk.SnapshotHeaderSize)
	witness := c.msg.Snapshot.Witness
	if witness {
		digestSkip = hs
		defer func() { digestSkip = 0 }()
	}
	old := hk.SetSnapshotChunkSize(c.cs)
	defer hk.SetSnapshotChunkSize(old)
	fs := &osLikeFS{IFS: hk.NewMemFS()}
	for _, f := range c.files {
		writeSrc(fs, f.path, f.data)
	}
	if err := hk.MkdirAll(rootDir(c.msg.ShardID, c.msg.To), fs); err != nil {
		panic(err)
	}
	mod := &loopModule{failAfter: -1}
	switch {
	case c.fail == "conn":
		mod.failConn = true
	case strings.HasPrefix(c.fail, "chunk"):
		mod.failAfter = int(u64(c.fail[5:]))
	}
	cfg := config.NodeHostConfig{RaftAddress: "c15-a1", DeploymentID: c.did,
		Expert: config.ExpertConfig{TransportFactory: &loopFactory{m: mod}}}
	env, err := hk.NewEnv(cfg, fs)
	if err != nil {
		panic(err)
	}
	h := &glueHandler{statusC: make(chan struct{}, 8)}
	reg := hk.NewNodeRegistry()
	if c.fail != "resolve" { // fail=resolve: the target is not in the registry
		reg.Add(c.msg.ShardID, c.msg.To, "c15-a2")
	}
	if c.fail == "jobs" { // fail=jobs: the limit of concurrent snapshot jobs is reached
		oldMax := hk.SetMaxSnapshotConnections(0)
		defer hk.SetMaxSnapshotConnections(oldMax)
	}
	tr, err := hk.NewTransport(cfg, h, env, reg, rootDir, glueEvents{}, fs)
	if err != nil {
		panic(err)
	}
	if c.fail == "breaker" { // fail=breaker: the circuit breaker to the target is open
		b := tr.GetCircuitBreaker("c15-a2")
		for i := 0; i < 1000 && b.Ready(); i++ {
			b.Fail()
		}
		if b.Ready() {
			panic("could not trip the circuit breaker")
		}
	}
	cp := &compactor{c: make(chan struct{}, 8)}
	m := c.msg
	m.Snapshot.Load(cp)
	sent := tr.SendSnapshot(m)
	wait := func(ch chan struct{}) bool {
		select {
		case <-ch:
			return true
		case <-time.After(10 * time.Second):
			return false
		}
	}
	gotStatus := wait(h.statusC)
	gotCompact := wait(cp.c)
	time.Sleep(2 * time.Millisecond) // a second (wrong) report would come right behind
	recv := hk.TransportChunks(tr)
	o := observeFS(fs)
	trs, _ := trackedString(recv)
	h.mu.Lock()
	status := strings.Join(h.status, ",")
	nsnap, confirms := len(h.snapshots), h.confirms
	var snap pb.Message
	if nsnap > 0 {
		snap = h.snapshots[0]
	}
	h.mu.Unlock()
	cp.mu.Lock()
	ncompact := cp.n
	cp.mu.Unlock()
	mod.mu.Lock()
	delivered := mod.delivered
	mod.mu.Unlock()
	out.Printf("%s g sent=%s status=[%s] compact=%d delivered=%d msgs=%d hs=%d T[%s] D[%s] F[%s]\n", c.id, b2s(sent), status,
		ncompact, delivered, nsnap, confirms, trs, dirsString(o.temps), dirsString(o.finals))
	if err := tr.Close(); err != nil {
		st.Violation(c.id, "GLUE transport close: "+err.Error())
	}
	_ = env.Close()
	st.Count("glue-" + c.fail)
	if witness {
		st.Count("glue-witness")
	}
	// ---- monitor ----
	wantRej := c.fail != "none"
	want := fmt.Sprintf("%d.%d.%s", c.msg.ShardID, c.msg.To, b2s(wantRej))
	if !gotStatus || status != want {
		st.Violation(c.id, fmt.Sprintf("GLUE-STATUS SendSnapshot (failure injected: %s) must be followed by exactly one snapshot status report %s, got [%s]", c.fail, want, status))
	}
	if !gotCompact || ncompact != 1 {
		st.Violation(c.id, fmt.Sprintf("GLUE-UNREF the snapshot must be released exactly once after the job, Compact called %d time(s)", ncompact))
	}
	if !wantRej {
		if len(o.finals) != 1 || nsnap != 1 || confirms != 1 {
			st.Violation(c.id, fmt.Sprintf("GLUE-NOT-FINALISED a snapshot sent without failure: %d final dir(s), %d InstallSnapshot message(s), %d HandleSnapshot call(s)", len(o.finals), nsnap, confirms))
		} else {
			wantFiles := map[string][]byte{}
			if witness {
				for n, g := range o.finals[0].files {
					if len(g) < hs || !bytes.Equal(g[hs:], c.wb) {
						st.Violation(c.id, "GLUE-WITNESS file "+n+" is not the witness snapshot image")
					}
				}
				if len(o.finals[0].files) != 1 || !snap.Snapshot.Witness {
					st.Violation(c.id, "GLUE-WITNESS the finalised witness snapshot must be one file and be announced as witness")
				}
			} else {
				for _, f := range c.files {
					wantFiles[pathBase(f.path)] = f.data
				}
				for n, w := range wantFiles {
					if !bytes.Equal(o.finals[0].files[n], w) {
						st.Violation(c.id, "GLUE-DIFFERS finalised file "+n+" differs from the source")
					}
				}
				if len(o.finals[0].files) != len(wantFiles) {
					st.Violation(c.id, "GLUE-DIFFERS finalised directory has a different set of files than the source")
				}
			}
		}
	} else if len(o.finals) != 0 || nsnap != 0 {
		st.Violation(c.id, "GLUE-FINALISED a snapshot whose transfer failed was finalised or announced")
	}
	st.Case("G"+c.fail+b2s(witness), wantRej || witness, firstN(c.String(), 200))
}

func pathBase(p string) string {
	if i := strings.LastIndexByte(p, '/'); i >= 0 {
		return p[i+1:]
	}
	return p
}

// ---- parallel receiver cases (par=1) ----------------------------------------
//
// The Add operations of an R case are grouped by snapshot key; every group is fed, in
// order, by its own goroutine, all started together, into ONE receiver: Chunk.Add only
// holds a per-key lock around addLocked, the tracked table and the slot count are shared.
// Only the final state is observed (it does not depend on the interleaving).
func runParallel(c *rcase, out *vh.LineWriter, st *vh.Stats) {
	fs := &osLikeFS{IFS: hk.NewMemFS()}
	if err := hk.MkdirAll(snapRoot, fs); err != nil {
		panic(err)
	}
	var mu sync.Mutex
	var notifs []string
	recv := hk.NewChunk(func(mb pb.MessageBatch) {
		m := mb.Requests[0]
		fd := rootDir(m.ShardID, m.To) + "/" + hk.GetSnapshotDirName(m.Snapshot.Index)
		s := fmt.Sprintf("type=IS sh=%d to=%d from=%d did=%d binver=%d %s", m.ShardID, m.To, m.From,
			mb.DeploymentId, mb.BinVer, snapshotFields(&m.Snapshot, fd))
		mu.Lock()
		notifs = append(notifs, s)
		mu.Unlock()
	}, func(uint64, uint64, uint64) {}, rootDir, c.did, fs)
	groups := map[string][]op{}
	var keys []string
	for _, o := range c.ops {
		if o.kind != opAdd {
			continue
		}
		k := fmt.Sprintf("%d.%d.%d", o.chunk.ShardID, o.chunk.ReplicaID, o.chunk.Index)
		if _, ok := groups[k]; !ok {
			keys = append(keys, k)
			if err := hk.MkdirAll(rootDir(o.chunk.ShardID, o.chunk.ReplicaID), fs); err != nil {
				panic(err)
			}
		}
		groups[k] = append(groups[k], o)
	}
	start := make(chan struct{})
	var wg sync.WaitGroup
	panics := make([]string, len(keys))
	for gi, k := range keys {
		wg.Add(1)
		go func(gi int, ops []op) {
			defer wg.Done()
			<-start
			for _, o := range ops {
				ch := o.chunk
				ch.Data = o.data.bytes(c.files)
				if p := vh.Catch(func() { recv.Add(ch) }); p != "" {
					panics[gi] = p
					return
				}
			}
		}(gi, groups[k])
	}
	close(start)
	wg.Wait()
	o := observeFS(fs)
	trs, _ := trackedString(recv)
	sort.Strings(notifs)
	np := 0
	for _, p := range panics {
		if p != "" {
			np++
		}
	}
	out.Printf("%s end panics=%d T[%s] D[%s] F[%s] N=%d\n", c.id, np, trs, dirsString(o.temps), dirsString(o.finals), len(notifs))
	for _, n := range notifs {
		out.Printf("%s notif %s\n", c.id, n)
	}
	st.Count("parallel")
	// ---- monitor: every stream of the case is complete: each must be finalised, intact ----
	if np > 0 {
		st.Violation(c.id, "PARALLEL-PANIC the receiver panicked under concurrent streams of different snapshots")
	}
	if len(o.finals) != len(c.streams) || len(notifs) != len(c.streams) {
		st.Violation(c.id, fmt.Sprintf("PARALLEL-NOT-FINALISED %d concurrent complete streams, %d final dir(s), %d message(s)", len(c.streams), len(o.finals), len(notifs)))
	}
	for _, d := range o.finals {
		for i := range c.streams {
			s := &c.streams[i]
			if d.key != fmt.Sprintf("%d.%d.%d", s.shard, s.replica, s.index) {
				continue
			}
			want := map[string][]byte{s.mainName: c.files[s.main].data}
			for _, e := range s.exts {
				want[e.name] = c.files[e.file].data
			}
			for n, w := range want {
				if !bytes.Equal(d.files[n], w) {
					st.Violation(c.id, "PARALLEL-DIFFERS snapshot "+d.key+" file "+n+" differs from the source")
				}
			}
			if len(d.files) != len(want) {
				st.Violation(c.id, "PARALLEL-DIFFERS snapshot "+d.key+" has a different set of files than the source")
			}
		}
	}
	st.Case(fmt.Sprintf("P%d/%d", len(keys), len(c.ops)), len(keys) > 1, firstN(c.String(), 200))
}
