package main

import (
	"fmt"
	"strings"
	"sync"
	"time"

	pb "github.com/lni/dragonboat/v4/raftpb"
	hk "github.com/lni/dragonboat/v4/verifhooks/c15"

	"verif/harness/vh"
)

// ---- concurrent placement of the gc tick (cgc=K cases) ----------------------
//
// An R case with exactly one op "K": the tick that fires the timeout collector. It runs
// on a goroutine of its own, concurrently with the Add that follows it in the op list;
// everything before and after is sequential. The file system pauses the K-th file
// system operation made after the tick was started (i.e. somewhere inside gc's work on
// one of the timed out streams); while gc is held there the Add is issued; then gc is
// released. Whatever the interleaving, the receiver must end in the state of ONE of the
// two sequential orders: "tick ; add" (the collector removed the stream, the chunk and
// its successors are refused as untracked) or "add ; tick" (the chunk refreshed the
// stream, the collector leaves it, the stream goes on and finalises). Both sequential
// orders are executed on the real receiver too (and compared with the model).

type pauseFS struct {
	*osLikeFS
	mu      sync.Mutex
	armed   bool
	count   int
	target  int
	paused  chan struct{}
	release chan struct{}
}

func (p *pauseFS) arm(k int) {
	p.mu.Lock()
	p.armed, p.count, p.target = true, 0, k
	p.paused, p.release = make(chan struct{}), make(chan struct{})
	p.mu.Unlock()
}

func (p *pauseFS) point() {
	p.mu.Lock()
	if !p.armed {
		p.mu.Unlock()
		return
	}
	hit := p.count == p.target
	p.count++
	if hit {
		p.armed = false
	}
	paused, release := p.paused, p.release
	p.mu.Unlock()
	if hit {
		close(paused)
		<-release
	}
}

func (p *pauseFS) RemoveAll(name string) error { p.point(); return p.osLikeFS.RemoveAll(name) }
func (p *pauseFS) Remove(name string) error    { p.point(); return p.osLikeFS.Remove(name) }
func (p *pauseFS) OpenDir(name string) (hk.File, error) {
	p.point()
	return p.osLikeFS.OpenDir(name)
}
func (p *pauseFS) Rename(a, b string) error { p.point(); return p.osLikeFS.Rename(a, b) }
func (p *pauseFS) List(dir string) ([]string, error) {
	p.point()
	return p.osLikeFS.List(dir)
}

type seqRecv struct {
	c        *rcase
	fs       hk.IFS
	recv     *hk.Chunk
	mu       sync.Mutex
	notifs   int
	confirms int
}

func newSeqRecv(c *rcase, fs hk.IFS) *seqRecv {
	s := &seqRecv{c: c, fs: fs}
	if err := hk.MkdirAll(snapRoot, fs); err != nil {
		panic(err)
	}
	s.recv = hk.NewChunk(func(pb.MessageBatch) { s.mu.Lock(); s.notifs++; s.mu.Unlock() },
		func(uint64, uint64, uint64) { s.mu.Lock(); s.confirms++; s.mu.Unlock() }, rootDir, c.did, fs)
	hk.SetChunkTimers(s.recv, c.gc, c.to)
	return s
}

func (s *seqRecv) do(o op) bool {
	switch o.kind {
	case opAdd:
		ch := o.chunk
		ch.Data = o.data.bytes(s.c.files)
		if err := hk.MkdirAll(rootDir(ch.ShardID, ch.ReplicaID), s.fs); err != nil {
			panic(err)
		}
		return s.recv.Add(ch)
	case opTick, opConcTick:
		n := o.n
		if o.kind == opConcTick {
			n = 1
		}
		for k := uint64(0); k < n; k++ {
			s.recv.Tick()
		}
	case opDrain:
		for k := uint64(0); k < s.c.to+s.c.gc+1; k++ {
			s.recv.Tick()
		}
	case opClose:
		s.recv.Close()
	}
	return true
}

func (s *seqRecv) state() string {
	o := observeFS(s.fs)
	trs, _ := trackedString(s.recv)
	s.mu.Lock()
	defer s.mu.Unlock()
	return fmt.Sprintf("tick=%d T[%s] D[%s] F[%s] X[%s] N=%d C=%d stray=%d", hk.ChunkTick(s.recv), trs,
		dirsString(o.temps), dirsString(o.finals), strings.Join(o.removed, " "), s.notifs, s.confirms, len(o.stray))
}

func runConcurrentGC(c *rcase, out *vh.LineWriter, st *vh.Stats) {
	ki := -1
	for i, o := range c.ops {
		if o.kind == opConcTick {
			ki = i
		}
	}
	if ki < 0 || ki+1 >= len(c.ops) || c.ops[ki+1].kind != opAdd {
		// (a shrunk case) no concurrent pair left: an ordinary sequential case
		runReceiver(c, out, st)
		return
	}
	seq := func(swap bool) string {
		s := newSeqRecv(c, &osLikeFS{IFS: hk.NewMemFS()})
		ops := append([]op{}, c.ops...)
		if swap {
			ops[ki], ops[ki+1] = ops[ki+1], ops[ki]
		}
		var p string
		verdicts := ""
		for i, o := range ops {
			var ok bool
			if p = vh.Catch(func() { ok = s.do(o) }); p != "" {
				return "panic"
			}
			if i >= ki && o.kind == opAdd {
				verdicts += verdictChar(ok)
			}
		}
		return "v=" + verdicts + " " + s.state()
	}
	s1, s2 := seq(false), seq(true)
	out.Printf("%s seq1 %s\n", c.id, s1)
	out.Printf("%s seq2 %s\n", c.id, s2)
	// the concurrent run
	pfs := &pauseFS{osLikeFS: &osLikeFS{IFS: hk.NewMemFS()}}
	s := newSeqRecv(c, pfs)
	for _, o := range c.ops[:ki] {
		s.do(o)
	}
	pfs.arm(int(c.cgc))
	paused, release := pfs.paused, pfs.release
	gcDone, addDone := make(chan struct{}), make(chan struct{})
	go func() { s.recv.Tick(); close(gcDone) }()
	heldInGC := false
	select {
	case <-paused:
		heldInGC = true
	case <-gcDone:
	case <-time.After(10 * time.Second):
	}
	if !heldInGC {
		// the collector finished before reaching that operation: nothing is held any more
		pfs.mu.Lock()
		pfs.armed = false
		pfs.mu.Unlock()
	}
	var accepted bool
	go func() { accepted = s.do(c.ops[ki+1]); close(addDone) }()
	select {
	case <-addDone:
	case <-time.After(40 * time.Millisecond): // the chunk waits for a lock gc holds
	}
	pfs.mu.Lock()
	pfs.armed = false
	pfs.mu.Unlock()
	if heldInGC {
		close(release)
	}
	stuck := false
	for _, ch := range []chan struct{}{gcDone, addDone} {
		select {
		case <-ch:
		case <-time.After(20 * time.Second):
			stuck = true
		}
	}
	if stuck {
		out.Printf("%s cgc STUCK\n", c.id)
		st.Violation(c.id, "GC-RACE the collector and a concurrent Add did not both return")
		st.Case(c.id, true, "")
		return
	}
	mid := s.state()
	verdicts := verdictChar(accepted)
	for _, o := range c.ops[ki+2:] {
		ok := s.do(o)
		if o.kind == opAdd {
			verdicts += verdictChar(ok)
		}
	}
	// the outcome: the verdicts of the racing chunk and of every later chunk, and the final state
	fin := "v=" + verdicts + " " + s.state()
	st.Count("cgc")
	if heldInGC {
		st.Count("cgc-held-in-gc")
	}
	if fin == s1 || fin == s2 {
		out.Printf("%s cgc allowed\n", c.id)
		if fin == s2 && s1 != s2 {
			st.Count("cgc-chunk-won")
		} else if s1 != s2 {
			st.Count("cgc-collector-won")
		}
	} else {
		out.Printf("%s cgc NEITHER %s\n", c.id, fin)
		st.Violation(c.id, fmt.Sprintf("GC-RACE the gc tick ran concurrently with a chunk (gc held at its file system operation %d: %v, chunk accepted: %v): the final state is that of neither order. after both returned: %s | final: %s | tick-first: %s | chunk-first: %s",
			c.cgc, heldInGC, accepted, firstN(mid, 300), firstN(fin, 300), firstN(s1, 200), firstN(s2, 200)))
	}
	st.Case(fmt.Sprintf("cgc%d/%d", c.cgc, len(c.ops)), heldInGC && s1 != s2, firstN(c.String(), 200))
}

func verdictChar(ok bool) string {
	if ok {
		return "a"
	}
	return "r"
}
