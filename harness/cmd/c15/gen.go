package main

import (
	"bytes"
	"fmt"
	"path"
	"strings"

	"github.com/lni/dragonboat/v4/raftio"
	pb "github.com/lni/dragonboat/v4/raftpb"
	hk "github.com/lni/dragonboat/v4/verifhooks/c15"

	"verif/harness/vh"
)

const blockSize = int(hk.SnapshotChunkSize) // rsm's block size (a constant of the file format)

// makeSnapshotFile writes a snapshot file with the REAL rsm.SnapshotWriter
// (payload: LCG bytes, one seed per 2 MB block) and describes the resulting
// bytes as pieces.
func makeSnapshotFile(r *vh.Rand, payload int) (data []byte, desc string) {
	fs := hk.NewMemFS()
	fp := "/w/snapshot.gbsnap"
	if err := hk.MkdirAll("/w", fs); err != nil {
		panic(err)
	}
	w, err := hk.NewSnapshotWriter(fp, pb.NoCompression, fs)
	if err != nil {
		panic(err)
	}
	type blk struct {
		seed uint64
		n    int
	}
	var blocks []blk
	for rem := payload; rem > 0; {
		n := rem
		if n > blockSize {
			n = blockSize
		}
		b := blk{seed: r.U64() & 0x7fffffff, n: n}
		blocks = append(blocks, b)
		if _, err := w.Write(lcgBytes(b.seed, b.n)); err != nil {
			panic(err)
		}
		rem -= n
	}
	if err := w.Close(); err != nil {
		panic(err)
	}
	data = readFile(fs, fp)
	hs := int(hk.SnapshotHeaderSize)
	var ps []string
	ps = append(ps, "h"+vh.Hex(data[:hs]))
	pos := hs
	ok := true
	for _, b := range blocks {
		if pos+b.n+4 > len(data) || !bytes.Equal(data[pos:pos+b.n], lcgBytes(b.seed, b.n)) {
			ok = false
			break
		}
		if b.n <= 48 {
			ps = append(ps, "h"+vh.Hex(data[pos:pos+b.n+4]))
		} else {
			ps = append(ps, fmt.Sprintf("r%d.%d", b.seed, b.n), "h"+vh.Hex(data[pos+b.n:pos+b.n+4]))
		}
		pos += b.n + 4
	}
	if ok && pos < len(data) {
		ps = append(ps, "h"+vh.Hex(data[pos:]))
	}
	desc = strings.Join(ps, "+")
	if !ok || !bytes.Equal(expandPieces(desc), data) {
		desc = "h" + vh.Hex(data)
	}
	return data, desc
}

// sender cases for generated messages the real sender failed on
var failedSends []*rcase

type genStream struct {
	def    streamDef
	chunks []op // the real sender's output
}

type scenario struct {
	c       *rcase
	streams []genStream
	scases  []*rcase
}

// addStream creates the source snapshot, runs the real sender on it and
// registers files and stream in the case.
func (sc *scenario) addStream(r *vh.Rand, shard, replica, from, index, term uint64, payload int, exts []int) bool {
	c := sc.c
	j := len(sc.streams)
	dirp := fmt.Sprintf("/src/s%d/%s", j, hk.GetSnapshotDirName(index))
	mainPath := path.Join(dirp, hk.GetSnapshotFilename(index))
	mdata, mdesc := makeSnapshotFile(r, payload)
	base := len(c.files)
	c.files = append(c.files, fileDef{path: mainPath, data: mdata, desc: mdesc})
	def := streamDef{shard: shard, replica: replica, from: from, index: index, term: term, main: base, mainName: path.Base(mainPath)}
	m := pb.Message{Type: pb.InstallSnapshot, ShardID: shard, To: replica, From: from}
	m.Snapshot = pb.Snapshot{Index: index, Term: term, Filepath: mainPath, FileSize: uint64(len(mdata))}
	if r.Chance(1, 3) {
		m.Snapshot.OnDiskIndex = index - uint64(r.Intn(3))
	}
	for k, n := range exts {
		id := uint64(k + 1)
		if r.Chance(1, 4) {
			id = r.BiasedU64()%1000 + 10 + uint64(k)
		}
		seed := r.U64() & 0x7fffffff
		p := path.Join(dirp, fmt.Sprintf("external-file-%d", id))
		var meta []byte
		if r.Bool() {
			meta = r.Bytes(r.Intn(6))
		}
		c.files = append(c.files, fileDef{path: p, data: lcgBytes(seed, n), desc: fmt.Sprintf("r%d.%d", seed, n)})
		def.exts = append(def.exts, extDef{file: len(c.files) - 1, name: path.Base(p), id: id, meta: meta})
		m.Snapshot.Files = append(m.Snapshot.Files, &pb.SnapshotFile{Filepath: p, FileSize: uint64(n), FileId: id, Metadata: meta})
	}
	chunks, failure := realSend(c.cs, c.did, c.files, m)
	// the same split as a sender case
	s := &rcase{id: fmt.Sprintf("%s-s%d", c.id, j), kind: "S", cs: c.cs, did: c.did, msg: m}
	s.files = append(s.files, c.files[base:]...)
	sc.scases = append(sc.scases, s)
	if failure != "" {
		// the real sender refused a generated message: keep it as a sender case of its own
		// (the run judges whether the message was consistent: SPLIT-PANIC)
		f := *s
		f.id = fmt.Sprintf("sf%d", len(failedSends))
		failedSends = append(failedSends, &f)
		return false
	}
	gs := genStream{def: def}
	byPath := map[string]int{}
	for k := base; k < len(c.files); k++ {
		byPath[c.files[k].path] = k
	}
	for _, ch := range chunks {
		k := byPath[ch.Filepath]
		d := dataRef{file: k, off: int(ch.FileChunkId * c.cs), n: len(ch.Data)}
		if !bytes.Equal(d.bytes(c.files), ch.Data) {
			panic("sender chunk data is not the expected slice of the source file")
		}
		ch.Data = nil
		gs.chunks = append(gs.chunks, op{kind: opAdd, chunk: ch, data: d})
	}
	sc.streams = append(sc.streams, gs)
	c.streams = append(c.streams, def)
	return true
}

func corruptOp(r *vh.Rand, o op, isFirstOfMain bool) op {
	if o.data.n == 0 {
		return o
	}
	pos := r.Intn(o.data.n)
	if isFirstOfMain {
		hs := int(hk.SnapshotHeaderSize)
		if o.data.n > hs && r.Chance(3, 4) {
			pos = hs + r.Intn(o.data.n-hs)
		} else {
			pos = 8 + r.Intn(32)
		}
		if pos >= o.data.n {
			pos = o.data.n - 1
		}
	}
	o.data.corrupt, o.data.cpos, o.data.cxor = true, pos, byte(1)<<uint(r.Intn(8))
	return o
}

// perturb applies one stream-local perturbation and returns its name.
func perturb(r *vh.Rand, ops []op, did uint64) ([]op, string) {
	n := len(ops)
	cp := func() []op { return append([]op{}, ops...) }
	switch r.Intn(11) {
	case 0: // drop
		i := r.Intn(n)
		return append(cp()[:i], ops[i+1:]...), "drop"
	case 1: // swap adjacent
		if n < 2 {
			return ops, "none"
		}
		i := r.Intn(n - 1)
		o := cp()
		o[i], o[i+1] = o[i+1], o[i]
		return o, "swap"
	case 2: // duplicate
		i := r.Intn(n)
		o := append(cp()[:i+1], ops[i:]...)
		return o, "dup"
	case 3: // corrupt bytes
		i := r.Intn(n)
		o := cp()
		o[i] = corruptOp(r, o[i], o[i].chunk.ChunkId == 0)
		return o, "corrupt"
	case 4: // restart from chunk 0 after a prefix
		i := r.Intn(n) + 1
		o := append(cp()[:i], ops...)
		return o, "restart"
	case 5: // a chunk from another sender in the middle
		i := r.Intn(n)
		o := cp()
		x := o[i]
		x.chunk.From += 100
		o = append(o[:i], append([]op{x}, ops[i:]...)...)
		return o, "foreign-from"
	case 6: // wrong deployment id on one chunk
		i := r.Intn(n)
		o := cp()
		o[i].chunk.DeploymentId = did + 1
		return o, "foreign-did"
	case 7: // wrong binary version on one chunk
		i := r.Intn(n)
		o := cp()
		o[i].chunk.BinVer = raftio.TransportBinVersion + 1
		return o, "foreign-binver"
	case 8: // a far out-of-order chunk
		i := r.Intn(n)
		o := cp()
		x := ops[r.Intn(n)]
		o = append(o[:i], append([]op{x}, ops[i:]...)...)
		return o, "replay-any"
	case 9: // the whole stream twice (second must be refused: out of date / restart)
		return append(cp(), ops...), "twice"
	default: // truncated stream
		i := r.Intn(n)
		return cp()[:i], "truncate"
	}
}

func merge(r *vh.Rand, lists [][]op) []op {
	var out []op
	idx := make([]int, len(lists))
	for {
		var live []int
		for i := range lists {
			if idx[i] < len(lists[i]) {
				live = append(live, i)
			}
		}
		if len(live) == 0 {
			return out
		}
		i := live[r.Intn(len(live))]
		// runs of the same stream are more likely than a perfect shuffle
		k := 1 + r.Intn(3)
		for ; k > 0 && idx[i] < len(lists[i]); k-- {
			out = append(out, lists[i][idx[i]])
			idx[i]++
		}
	}
}

func sizeChoice(r *vh.Rand, cs int) int {
	switch r.Intn(6) {
	case 0:
		return 0
	case 1:
		return 1 + r.Intn(40)
	case 2: // around a chunk boundary of the file (header + payload + crc + tail)
		k := 1 + r.Intn(3)
		v := k*cs - 1024 - 20 + r.Intn(7) - 3
		if v < 0 {
			v = 5
		}
		return v
	default:
		return r.Intn(4 * cs)
	}
}

func genReceiverCase(r *vh.Rand, id string, big bool, st map[string]int) *scenario {
	c := &rcase{id: id, kind: "R", did: 1 + uint64(r.Intn(3))}
	c.gc = 1 + uint64(r.Intn(5))
	c.to = 2 + uint64(r.Intn(10))
	c.slots = 128
	if r.Chance(1, 8) {
		c.slots = 1 + uint64(r.Intn(2))
	}
	c.cs = 1024 + uint64(r.Intn(2048))
	if r.Chance(1, 30) {
		c.cs = 200 + uint64(r.Intn(800)) // first chunk smaller than the file header: the validator panics
	}
	sc := &scenario{c: c}
	if big {
		c.cs = []uint64{512 * 1024, 1024 * 1024, 2 * 1024 * 1024}[r.Intn(3)]
		payload := 2*blockSize + 100*1024 + r.Intn(600*1024)
		var exts []int
		if r.Bool() {
			exts = []int{1 + r.Intn(5000)}
		}
		sc.addStream(r, 1, 1, 5, 1000+uint64(r.Intn(5)), 3, payload, exts)
	} else {
		ns := 1 + r.Intn(3)
		indexes := []uint64{100, 101, 1 << 40}
		for j := 0; j < ns; j++ {
			shard, replica := uint64(1+r.Intn(2)), uint64(1+r.Intn(2))
			from, index := uint64(5+r.Intn(3)), indexes[r.Intn(len(indexes))]
			if j > 0 && r.Chance(1, 2) {
				// same snapshot key as the previous stream: another sender or a re-send
				p := sc.streams[len(sc.streams)-1].def
				shard, replica, index = p.shard, p.replica, p.index
			}
			dupl := false
			for _, s := range sc.streams {
				if s.def.shard == shard && s.def.replica == replica && s.def.index == index && s.def.from == from {
					dupl = true
				}
			}
			if dupl {
				continue
			}
			var exts []int
			for k := r.Intn(3); k > 0; k-- {
				exts = append(exts, 1+r.Intn(3*int(c.cs)))
			}
			if !sc.addStream(r, shard, replica, from, index, 1+uint64(r.Intn(4)), sizeChoice(r, int(c.cs)), exts) {
				break
			}
		}
	}
	var lists [][]op
	for _, s := range sc.streams {
		ops := s.chunks
		np := 0
		switch r.Intn(10) {
		case 0, 1, 2:
		case 3, 4, 5, 6, 7:
			np = 1
		default:
			np = 2
		}
		if big {
			// big cases: clean, corrupt early (the F5 shape), drop
			switch r.Intn(4) {
			case 0:
				st["big-clean"]++
			case 1:
				i := r.Intn(len(ops))
				ops = append(append([]op{}, ops[:i]...), ops[i+1:]...)
				st["big-drop"]++
			default:
				o := append([]op{}, ops...)
				i := r.Intn(2)
				if i >= len(o) {
					i = 0
				}
				o[i] = corruptOp(r, o[i], i == 0)
				ops = o
				st["big-corrupt-early"]++
			}
			np = 0
		}
		for ; np > 0 && len(ops) > 0; np-- {
			var name string
			ops, name = perturb(r, ops, c.did)
			st["perturb-"+name]++
		}
		lists = append(lists, ops)
	}
	ops := merge(r, lists)
	// global events
	var out []op
	for _, o := range ops {
		if r.Chance(1, 6) {
			n := 1 + uint64(r.Intn(4))
			if r.Chance(1, 4) {
				n = c.to + c.gc
			}
			out = append(out, op{kind: opTick, n: n})
			st["tick-op"]++
		}
		if !big && r.Chance(1, 40) {
			out = append(out, op{kind: opRemoved, a: o.chunk.ShardID, b: o.chunk.ReplicaID})
			st["removed-op"]++
		}
		if !big && r.Chance(1, 60) {
			out = append(out, op{kind: opClose})
			st["close-op"]++
		}
		out = append(out, o)
	}
	out = append(out, op{kind: opDrain})
	c.ops = out
	return sc
}

// a slow but steady stream: k ticks after every chunk with k < timeout, the whole transfer
// lasting longer than timeout + gc interval; nothing else happens. It must finalise.
func genSteadyCase(r *vh.Rand, id string) *rcase {
	for {
		if c := tryGenSteadyCase(r, id); c != nil {
			return c
		}
	}
}

func tryGenSteadyCase(r *vh.Rand, id string) *rcase {
	c := &rcase{id: id, kind: "R", did: 1 + uint64(r.Intn(3)), slots: 128, steady: true}
	c.to = 2 + uint64(r.Intn(6))
	c.gc = 1 + uint64(r.Intn(3))
	k := 1 + uint64(r.Intn(int(c.to-1))) // 1 .. to-1
	need := int((c.to+c.gc)/k) + 3         // chunks so that the transfer outlasts timeout + gc
	c.cs = 1024 + uint64(r.Intn(512))
	sc := &scenario{c: c}
	var exts []int
	if r.Bool() {
		exts = []int{1 + r.Intn(2*int(c.cs))}
	}
	payload := need*int(c.cs) + r.Intn(int(c.cs))
	if !sc.addStream(r, uint64(1+r.Intn(2)), uint64(1+r.Intn(2)), uint64(5+r.Intn(3)), 100+uint64(r.Intn(3)), 1+uint64(r.Intn(4)), payload, exts) {
		return nil // two external files got the same id: the sender refuses; draw again
	}
	// a few ticks first so that the stream does not start at tick 0
	c.ops = append(c.ops, op{kind: opTick, n: uint64(r.Intn(2 * int(c.to+c.gc)))})
	for _, o := range sc.streams[0].chunks {
		c.ops = append(c.ops, o, op{kind: opTick, n: k})
	}
	c.ops = append(c.ops, op{kind: opDrain})
	return c
}

// Transport.SendSnapshot end to end: ordinary and witness snapshots, without failure, with a
// failing GetSnapshotConnection, with SendChunk failing after K delivered chunks
func genGlueCase(r *vh.Rand, id string) *gcase {
	for {
		if c := tryGenGlueCase(r, id); c != nil {
			return c
		}
	}
}

func tryGenGlueCase(r *vh.Rand, id string) *gcase {
	c := &gcase{id: id, did: 1 + uint64(r.Intn(3)), cs: 1024 + uint64(r.Intn(2048))}
	index := 100 + uint64(r.Intn(1000))
	m := pb.Message{Type: pb.InstallSnapshot, ShardID: uint64(1 + r.Intn(3)), To: uint64(1 + r.Intn(3)), From: uint64(5 + r.Intn(3))}
	nchunks := 1
	if r.Chance(1, 3) {
		fs := hk.NewMemFS()
		ws, err := hk.GetWitnessSnapshot(fs)
		if err != nil {
			panic(err)
		}
		c.wb = append([]byte{}, ws[hk.SnapshotHeaderSize:]...)
		c.wbDesc = "h" + vh.Hex(c.wb)
		m.Snapshot = pb.Snapshot{Index: index, Term: 1 + uint64(r.Intn(4)), Witness: true}
	} else {
		dirp := fmt.Sprintf("/src/g/%s", hk.GetSnapshotDirName(index))
		mp := path.Join(dirp, hk.GetSnapshotFilename(index))
		data, desc := makeSnapshotFile(r, sizeChoice(r, int(c.cs)))
		c.files = append(c.files, fileDef{path: mp, data: data, desc: desc})
		m.Snapshot = pb.Snapshot{Index: index, Term: 1 + uint64(r.Intn(4)), Filepath: mp, FileSize: uint64(len(data))}
		for k := r.Intn(3); k > 0; k-- {
			id := uint64(len(c.files))
			n := 1 + r.Intn(3*int(c.cs))
			seed := r.U64() & 0x7fffffff
			p := path.Join(dirp, fmt.Sprintf("external-file-%d", id))
			c.files = append(c.files, fileDef{path: p, data: lcgBytes(seed, n), desc: fmt.Sprintf("r%d.%d", seed, n)})
			m.Snapshot.Files = append(m.Snapshot.Files, &pb.SnapshotFile{Filepath: p, FileSize: uint64(n), FileId: id})
		}
		chunks, failure := realSend(c.cs, c.did, c.files, m)
		if failure != "" {
			f := &rcase{id: fmt.Sprintf("sf%d", len(failedSends)), kind: "S", cs: c.cs, did: c.did, msg: m, files: c.files}
			failedSends = append(failedSends, f)
			return nil
		}
		nchunks = len(chunks)
	}
	c.msg = m
	switch r.Intn(8) {
	case 0:
		c.fail = "conn"
	case 1:
		c.fail = fmt.Sprintf("chunk%d", r.Intn(nchunks))
	case 2:
		c.fail = "resolve"
	case 3:
		c.fail = "breaker"
	case 4:
		c.fail = "jobs"
	default:
		c.fail = "none"
	}
	return c
}

// complete streams of different snapshots (plus duplicates and out-of-order repeats, which
// are ignored) to be fed by one goroutine per snapshot
func genParallelCase(r *vh.Rand, id string) *rcase {
	for {
		if c := tryGenParallelCase(r, id); c != nil {
			return c
		}
	}
}

func tryGenParallelCase(r *vh.Rand, id string) *rcase {
	c := &rcase{id: id, kind: "R", did: 1 + uint64(r.Intn(3)), gc: 3, to: 9, slots: 128, par: true}
	c.cs = 1024 + uint64(r.Intn(1024))
	sc := &scenario{c: c}
	ns := 2 + r.Intn(4)
	for j := 0; j < ns; j++ {
		var exts []int
		for k := r.Intn(3); k > 0; k-- {
			exts = append(exts, 1+r.Intn(3*int(c.cs)))
		}
		// distinct keys: shard/replica/index vary with j
		if !sc.addStream(r, uint64(1+j%2), uint64(1+(j/2)%2), uint64(5+r.Intn(3)), 100+uint64(j), 1+uint64(r.Intn(4)), r.Intn(5*int(c.cs)), exts) {
			return nil
		}
	}
	var lists [][]op
	for _, s := range sc.streams {
		ops := append([]op{}, s.chunks...)
		for k := r.Intn(3); k > 0 && len(ops) > 1; k-- {
			// repeat an earlier chunk (not chunk 0) somewhere later: it is ignored
			i := 1 + r.Intn(len(ops)-1)
			j := i + r.Intn(len(ops)-i)
			x := ops[i]
			if x.chunk.ChunkId == 0 {
				continue
			}
			ops = append(ops[:j+1], append([]op{x}, ops[j+1:]...)...)
		}
		lists = append(lists, ops)
	}
	c.ops = merge(r, lists)
	return c
}

// the gc tick placed CONCURRENTLY with a chunk: several streams of different snapshots have
// been idle for the timeout when the collector fires; while it is held at one of its file
// system operations the next chunk of one of them (still alive) arrives
func genConcurrentGCCase(r *vh.Rand, id string) *rcase {
	for {
		if c := tryGenConcurrentGCCase(r, id); c != nil {
			return c
		}
	}
}

func tryGenConcurrentGCCase(r *vh.Rand, id string) *rcase {
	c := &rcase{id: id, kind: "R", did: 1 + uint64(r.Intn(3)), slots: 128, cgcSet: true, cgc: int64(r.Intn(18))}
	c.to = 2 + uint64(r.Intn(5))
	c.gc = 1 + uint64(r.Intn(3))
	c.cs = 1024 + uint64(r.Intn(512))
	sc := &scenario{c: c}
	ns := 3 + r.Intn(3) // the alive stream and 2-4 stalled ones
	for j := 0; j < ns; j++ {
		var exts []int
		if r.Bool() {
			exts = []int{1 + r.Intn(2*int(c.cs))}
		}
		payload := 2*int(c.cs) + r.Intn(3*int(c.cs)) // at least three chunks
		if !sc.addStream(r, uint64(1+j%2), uint64(1+(j/2)%2), uint64(5+r.Intn(3)), 100+uint64(j), 1+uint64(r.Intn(4)), payload, exts) {
			return nil
		}
	}
	alive := r.Intn(ns)
	// everybody delivers a prefix at tick 0
	split := 1 + r.Intn(len(sc.streams[alive].chunks)-1)
	for j, s := range sc.streams {
		n := 1 + r.Intn(len(s.chunks)-1)
		if j == alive {
			n = split
		}
		c.ops = append(c.ops, s.chunks[:n]...)
	}
	// the first gc tick at which they are all timed out
	t0 := ((c.to + c.gc - 1) / c.gc) * c.gc
	if t0 > 1 {
		c.ops = append(c.ops, op{kind: opTick, n: t0 - 1})
	}
	c.ops = append(c.ops, op{kind: opConcTick})
	c.ops = append(c.ops, sc.streams[alive].chunks[split:]...)
	c.ops = append(c.ops, op{kind: opDrain})
	return c
}

// bad file names: Filepath values whose base is not a plain child name
func genNameCase(r *vh.Rand, id string) *rcase {
	c := &rcase{id: id, kind: "R", did: 1, gc: 2, to: 4, slots: 128, cs: 2048}
	names := []string{"", ".", "..", "/", "//", "a/..", "a/.", "../../etc/passwd", "x/", "/abs/olute", "..a", "a..", "...",
		"dragonboat.snapshot.message", "sub/dir/file", "\x00", "a b", "./", "../", "../escaped", "x/../../escaped2"}
	sc := &scenario{c: c}
	sc.addStream(r, 1, 1, 5, 100, 1, 10+r.Intn(3000), []int{1 + r.Intn(2000)})
	ops := append([]op{}, sc.streams[0].chunks...)
	i := r.Intn(len(ops))
	name := names[r.Intn(len(names))]
	// rename one file of the stream consistently (all chunks of that file)
	old := ops[i].chunk.Filepath
	for k := range ops {
		if ops[k].chunk.Filepath == old {
			ops[k].chunk.Filepath = name
		}
	}
	c.streams = nil // the source registration no longer describes the stream
	c.ops = append(ops, op{kind: opDrain})
	return c
}

func gen(a vh.Args) {
	r := vh.NewRand(a.Seed)
	n := a.N
	if n == 0 {
		n = 260
		if a.Tier == "thorough" {
			n = 6000
		}
	}
	nbig := 4
	if a.Tier == "thorough" {
		nbig = 40
	}
	if a.N != 0 {
		nbig = 2
	}
	w := vh.Create(a.Cases)
	defer w.Close()
	dist := map[string]int{}
	w.Printf("k0 CONST\n")
	for i := 0; i < n; i++ {
		sc := genReceiverCase(r, fmt.Sprintf("r%d", i), false, dist)
		w.Printf("%s\n", sc.c.String())
		for _, s := range sc.scases {
			if r.Chance(1, 3) {
				w.Printf("%s\n", s.String())
			}
		}
	}
	for i := 0; i < n/8+1; i++ {
		w.Printf("%s\n", genNameCase(r, fmt.Sprintf("n%d", i)).String())
	}
	for i := 0; i < n/10+4; i++ {
		w.Printf("%s\n", genSteadyCase(r, fmt.Sprintf("y%d", i)).String())
	}
	for i := 0; i < n/8+8; i++ {
		w.Printf("%s\n", genGlueCase(r, fmt.Sprintf("g%d", i)).String())
	}
	for i := 0; i < n/10+6; i++ {
		w.Printf("%s\n", genParallelCase(r, fmt.Sprintf("p%d", i)).String())
	}
	for i := 0; i < n/5+20; i++ {
		w.Printf("%s\n", genConcurrentGCCase(r, fmt.Sprintf("c%d", i)).String())
	}
	// sender cases whose message disagrees with the files (short read / empty file)
	for i := 0; i < n/10+1; i++ {
		c := &rcase{id: fmt.Sprintf("s%d", i), kind: "S", cs: 64 + uint64(r.Intn(300)), did: uint64(r.Intn(5))}
		sz := r.Intn(1000)
		seed := r.U64() & 0x7fffffff
		c.files = []fileDef{{path: "/src/m", data: lcgBytes(seed, sz), desc: fmt.Sprintf("r%d.%d", seed, sz)}}
		if sz == 0 {
			c.files[0].desc = "-"
		}
		claim := uint64(sz)
		switch r.Intn(4) {
		case 0:
			claim = uint64(sz + 1 + r.Intn(100))
		case 1:
			claim = uint64(r.Intn(sz + 1))
		}
		c.msg = pb.Message{Type: pb.InstallSnapshot, ShardID: 1, To: 2, From: 3}
		c.msg.Snapshot = pb.Snapshot{Index: r.BiasedU64(), Term: r.BiasedU64(), Filepath: "/src/m", FileSize: claim}
		if r.Chance(1, 5) {
			c.msg.Snapshot.Files = []*pb.SnapshotFile{{Filepath: "/src/missing", FileSize: 10, FileId: 1}}
		}
		w.Printf("%s\n", c.String())
	}
	// file sizes at the chunk size boundaries: k*cs-1, k*cs, k*cs+1 for the main file and the
	// external files (the sender does not look at the content)
	for i := 0; i < n/6+12; i++ {
		c := &rcase{id: fmt.Sprintf("sb%d", i), kind: "S", cs: 16 + uint64(r.Intn(300)), did: uint64(r.Intn(5))}
		size := func() int {
			v := (1+r.Intn(4))*int(c.cs) + r.Intn(3) - 1
			if r.Chance(1, 8) {
				v = 1 + r.Intn(int(c.cs))
			}
			return v
		}
		c.msg = pb.Message{Type: pb.InstallSnapshot, ShardID: 1, To: 2, From: 3}
		c.msg.Snapshot = pb.Snapshot{Index: r.BiasedU64(), Term: r.BiasedU64()}
		nf := 1 + r.Intn(3)
		for k := 0; k < nf; k++ {
			sz := size()
			seed := r.U64() & 0x7fffffff
			p := fmt.Sprintf("/src/b/f%d", k)
			c.files = append(c.files, fileDef{path: p, data: lcgBytes(seed, sz), desc: fmt.Sprintf("r%d.%d", seed, sz)})
			if k == 0 {
				c.msg.Snapshot.Filepath, c.msg.Snapshot.FileSize = p, uint64(sz)
			} else {
				c.msg.Snapshot.Files = append(c.msg.Snapshot.Files, &pb.SnapshotFile{Filepath: p, FileSize: uint64(sz), FileId: uint64(k)})
			}
		}
		w.Printf("%s\n", c.String())
	}
	genStreamCases(r, w, a.Tier)
	for i, f := range failedSends {
		if i < 50 {
			w.Printf("%s\n", f.String())
		}
	}
	for i := 0; i < nbig; i++ {
		sc := genReceiverCase(r, fmt.Sprintf("b%d", i), true, dist)
		w.Printf("%s\n", sc.c.String())
	}
}
