package main

import (
	"fmt"
	"strconv"
	"strings"

	pb "github.com/lni/dragonboat/v4/raftpb"

	"verif/harness/vh"
)

// ---- data description -------------------------------------------------------
//
// A file is a '+'-joined list of pieces:
//   h<hex>          literal bytes
//   r<seed>.<len>   <len> bytes of the LCG below started at <seed>
// A chunk's data is
//   -                       empty
//   h<hex>                  literal
//   <k>.<off>.<len>         bytes [off, off+len) of file F<k>
//   <k>.<off>.<len>^<p>.<x> the same with byte p (relative) xor-ed with x

func lcgBytes(seed uint64, n int) []byte {
	x := seed & 0x7fffffff
	b := make([]byte, n)
	for i := range b {
		x = (x*1103515245 + 12345) & 0x7fffffff
		b[i] = byte(x >> 16)
	}
	return b
}

func expandPieces(s string) []byte {
	var out []byte
	if s == "-" || s == "" {
		return out
	}
	for _, p := range strings.Split(s, "+") {
		switch p[0] {
		case 'h':
			out = append(out, vh.UnHex(p[1:])...)
		case 'r':
			f := strings.Split(p[1:], ".")
			out = append(out, lcgBytes(u64(f[0]), int(u64(f[1])))...)
		default:
			panic("bad piece " + p)
		}
	}
	return out
}

func u64(s string) uint64 {
	v, err := strconv.ParseUint(s, 10, 64)
	if err != nil {
		panic("bad number " + s)
	}
	return v
}

func b2s(b bool) string {
	if b {
		return "1"
	}
	return "0"
}

type dataRef struct {
	lit     []byte
	file    int // -1: literal
	off, n  int
	corrupt bool
	cpos    int
	cxor    byte
}

func (d dataRef) String() string {
	if d.file < 0 {
		if len(d.lit) == 0 {
			return "-"
		}
		return "h" + vh.Hex(d.lit)
	}
	s := fmt.Sprintf("%d.%d.%d", d.file, d.off, d.n)
	if d.corrupt {
		s += fmt.Sprintf("^%d.%d", d.cpos, d.cxor)
	}
	return s
}

func parseDataRef(s string) dataRef {
	if s == "-" {
		return dataRef{file: -1}
	}
	if s[0] == 'h' {
		return dataRef{file: -1, lit: vh.UnHex(s[1:])}
	}
	d := dataRef{}
	if i := strings.IndexByte(s, '^'); i >= 0 {
		f := strings.Split(s[i+1:], ".")
		d.corrupt, d.cpos, d.cxor = true, int(u64(f[0])), byte(u64(f[1]))
		s = s[:i]
	}
	f := strings.Split(s, ".")
	d.file, d.off, d.n = int(u64(f[0])), int(u64(f[1])), int(u64(f[2]))
	return d
}

func (d dataRef) bytes(files []fileDef) []byte {
	if d.file < 0 {
		return append([]byte{}, d.lit...)
	}
	src := files[d.file].data
	b := append([]byte{}, src[d.off:d.off+d.n]...)
	if d.corrupt {
		b[d.cpos] ^= d.cxor
	}
	return b
}

// ---- case ------------------------------------------------------------------

type fileDef struct {
	path string // S cases: where the sender finds it
	data []byte
	desc string
}

type extDef struct {
	file int
	name string
	id   uint64
	meta []byte
}

type streamDef struct {
	shard, replica, from, index, term uint64
	main                              int
	mainName                          string
	exts                              []extDef
}

type opKind int

const (
	opAdd opKind = iota
	opTick
	opRemoved
	opClose
	opDrain
	opConcTick // K: the (gc firing) tick that runs concurrently with the next op in cgc cases
)

type op struct {
	kind  opKind
	chunk pb.Chunk // without Data
	data  dataRef
	n     uint64 // ticks
	a, b  uint64 // removed: shard, replica
}

type rcase struct {
	id                       string
	kind                     string // R | S
	cs, gc, to, slots, did   uint64
	cgcSet                   bool  // concurrent gc case
	cgc                      int64 // the file system operation (counted from the start of the tick) at which gc is held
	par                      bool // the streams (one per snapshot key) are fed by concurrent goroutines
	steady                   bool // a single in-order stream with gaps below the timeout: it must finalise
	files                    []fileDef
	streams                  []streamDef
	ops                      []op
	msg                      pb.Message // S
	msgText                  string
}

func hexs(s string) string { return vh.Hex([]byte(s)) }
func unhexs(s string) string { return string(vh.UnHex(s)) }

func (o op) String() string {
	switch o.kind {
	case opTick:
		return fmt.Sprintf("T %d", o.n)
	case opRemoved:
		return fmt.Sprintf("X %d %d", o.a, o.b)
	case opClose:
		return "C"
	case opDrain:
		return "Z"
	case opConcTick:
		return "K"
	}
	c := o.chunk
	return fmt.Sprintf("A %d %d %d %d %d %d %d %d %s %d %d %d %d %s %d %d %s %s %d %d %s %s",
		c.ShardID, c.ReplicaID, c.From, c.ChunkId, c.ChunkSize, c.ChunkCount, c.Index, c.Term,
		hexs(c.Filepath), c.FileSize, c.DeploymentId, c.FileChunkId, c.FileChunkCount,
		b2s(c.HasFileInfo), c.FileInfo.FileId, c.FileInfo.FileSize, hexs(c.FileInfo.Filepath),
		vh.Hex(c.FileInfo.Metadata), c.BinVer, c.OnDiskIndex, b2s(c.Witness), o.data.String())
}

func parseOp(s string) op {
	f := strings.Fields(s)
	switch f[0] {
	case "T":
		return op{kind: opTick, n: u64(f[1])}
	case "X":
		return op{kind: opRemoved, a: u64(f[1]), b: u64(f[2])}
	case "C":
		return op{kind: opClose}
	case "Z":
		return op{kind: opDrain}
	case "K":
		return op{kind: opConcTick}
	case "A":
		if len(f) != 23 {
			panic(fmt.Sprintf("bad add op (%d fields): %s", len(f), s))
		}
		c := pb.Chunk{
			ShardID: u64(f[1]), ReplicaID: u64(f[2]), From: u64(f[3]), ChunkId: u64(f[4]),
			ChunkSize: u64(f[5]), ChunkCount: u64(f[6]), Index: u64(f[7]), Term: u64(f[8]),
			Filepath: unhexs(f[9]), FileSize: u64(f[10]), DeploymentId: u64(f[11]),
			FileChunkId: u64(f[12]), FileChunkCount: u64(f[13]), HasFileInfo: f[14] == "1",
			BinVer: uint32(u64(f[19])), OnDiskIndex: u64(f[20]), Witness: f[21] == "1",
		}
		c.FileInfo = pb.SnapshotFile{FileId: u64(f[15]), FileSize: u64(f[16]), Filepath: unhexs(f[17]), Metadata: vh.UnHex(f[18])}
		return op{kind: opAdd, chunk: c, data: parseDataRef(f[22])}
	}
	panic("bad op " + s)
}

func msgString(m pb.Message) string {
	s := m.Snapshot
	var b strings.Builder
	fmt.Fprintf(&b, "M %d %d %d %d %d %d %s %d %s %d", m.ShardID, m.To, m.From, s.Index, s.Term,
		s.OnDiskIndex, hexs(s.Filepath), s.FileSize, b2s(s.Witness), len(s.Files))
	for _, f := range s.Files {
		fmt.Fprintf(&b, " %s %d %d %s", hexs(f.Filepath), f.FileSize, f.FileId, vh.Hex(f.Metadata))
	}
	return b.String()
}

func parseMsg(s string) pb.Message {
	f := strings.Fields(s)
	if f[0] != "M" {
		panic("bad msg " + s)
	}
	m := pb.Message{Type: pb.InstallSnapshot, ShardID: u64(f[1]), To: u64(f[2]), From: u64(f[3])}
	m.Snapshot = pb.Snapshot{Index: u64(f[4]), Term: u64(f[5]), OnDiskIndex: u64(f[6]),
		Filepath: unhexs(f[7]), FileSize: u64(f[8]), Witness: f[9] == "1"}
	n := int(u64(f[10]))
	for i := 0; i < n; i++ {
		g := f[11+4*i:]
		m.Snapshot.Files = append(m.Snapshot.Files, &pb.SnapshotFile{Filepath: unhexs(g[0]),
			FileSize: u64(g[1]), FileId: u64(g[2]), Metadata: vh.UnHex(g[3])})
	}
	return m
}

func (s streamDef) String() string {
	var b strings.Builder
	fmt.Fprintf(&b, "%d.%d.%d.%d.%d.%d.%s", s.shard, s.replica, s.from, s.index, s.term, s.main, hexs(s.mainName))
	for _, e := range s.exts {
		fmt.Fprintf(&b, "/%d.%s.%d.%s", e.file, hexs(e.name), e.id, vh.Hex(e.meta))
	}
	return b.String()
}

func parseStream(v string) streamDef {
	parts := strings.Split(v, "/")
	f := strings.Split(parts[0], ".")
	s := streamDef{shard: u64(f[0]), replica: u64(f[1]), from: u64(f[2]), index: u64(f[3]),
		term: u64(f[4]), main: int(u64(f[5])), mainName: unhexs(f[6])}
	for _, p := range parts[1:] {
		g := strings.Split(p, ".")
		s.exts = append(s.exts, extDef{file: int(u64(g[0])), name: unhexs(g[1]), id: u64(g[2]), meta: vh.UnHex(g[3])})
	}
	return s
}

func (c *rcase) String() string {
	var b strings.Builder
	fmt.Fprintf(&b, "%s %s cs=%d gc=%d to=%d slots=%d did=%d", c.id, c.kind, c.cs, c.gc, c.to, c.slots, c.did)
	if c.steady {
		b.WriteString(" steady=1")
	}
	if c.par {
		b.WriteString(" par=1")
	}
	if c.cgcSet {
		fmt.Fprintf(&b, " cgc=%d", c.cgc)
	}
	for i, f := range c.files {
		if c.kind == "S" {
			fmt.Fprintf(&b, " F%d=%s@%s", i, hexs(f.path), f.desc)
		} else {
			fmt.Fprintf(&b, " F%d=%s", i, f.desc)
		}
	}
	for i, s := range c.streams {
		fmt.Fprintf(&b, " S%d=%s", i, s.String())
	}
	b.WriteString(" | ")
	if c.kind == "S" {
		b.WriteString(msgString(c.msg))
	} else {
		for i, o := range c.ops {
			if i > 0 {
				b.WriteString(" ; ")
			}
			b.WriteString(o.String())
		}
	}
	return b.String()
}

func parseCase(line string) *rcase {
	head, body := line, ""
	if i := strings.Index(line, " | "); i >= 0 {
		head, body = line[:i], line[i+3:]
	} else if strings.HasSuffix(line, " |") {
		head = line[:len(line)-2]
	}
	hf := strings.Fields(head)
	c := &rcase{id: hf[0], kind: hf[1]}
	for _, kv := range hf[2:] {
		i := strings.IndexByte(kv, '=')
		k, v := kv[:i], kv[i+1:]
		switch {
		case k == "cs":
			c.cs = u64(v)
		case k == "gc":
			c.gc = u64(v)
		case k == "to":
			c.to = u64(v)
		case k == "slots":
			c.slots = u64(v)
		case k == "did":
			c.did = u64(v)
		case k == "steady":
			c.steady = v == "1"
		case k == "par":
			c.par = v == "1"
		case k == "cgc":
			c.cgc, c.cgcSet = int64(u64(v)), true
		case k[0] == 'F':
			fd := fileDef{}
			if j := strings.IndexByte(v, '@'); j >= 0 {
				fd.path, v = unhexs(v[:j]), v[j+1:]
			}
			fd.desc = v
			fd.data = expandPieces(v)
			c.files = append(c.files, fd)
		case k[0] == 'S':
			c.streams = append(c.streams, parseStream(v))
		default:
			panic("bad header field " + kv)
		}
	}
	if c.kind == "S" {
		c.msgText = body
		c.msg = parseMsg(body)
		return c
	}
	for _, s := range strings.Split(body, " ; ") {
		s = strings.TrimSpace(s)
		if s != "" {
			c.ops = append(c.ops, parseOp(s))
		}
	}
	return c
}
