package main

import (
	"bytes"
	"encoding/binary"
	"fmt"
	"hash/crc32"
	"path"
	"strings"

	pb "github.com/lni/dragonboat/v4/raftpb"
	hk "github.com/lni/dragonboat/v4/verifhooks/c15"

	"verif/harness/vh"
)

// Stream mode cases: the REAL rsm.ChunkWriter writes a payload (in writes of ws
// bytes, blocks of bs bytes) into a sink that RETAINS the chunks it is handed,
// exactly as the transport job's channel does; only after the writer is closed
// the retained chunks go through the real streaming job to the real receiver.
//
//	<id> T bs=.. ws=.. did=.. sh=.. rp=.. from=.. idx=.. term=.. odi=.. | P <pieces>
//
// bs equal to the format's block size: the receiver validates; other bs: the
// receiver runs with its validator switched off (the format's validator only
// understands the real block size).
type tcase struct {
	id                                            string
	bs, ws, did, sh, rp, from, idx, term, odi uint64
	payload                                       []byte
	desc                                          string
}

func (c *tcase) String() string {
	return fmt.Sprintf("%s T bs=%d ws=%d did=%d sh=%d rp=%d from=%d idx=%d term=%d odi=%d | P %s",
		c.id, c.bs, c.ws, c.did, c.sh, c.rp, c.from, c.idx, c.term, c.odi, c.desc)
}

func parseTCase(line string) *tcase {
	i := strings.Index(line, " | ")
	hf := strings.Fields(line[:i])
	c := &tcase{id: hf[0]}
	for _, kv := range hf[2:] {
		j := strings.IndexByte(kv, '=')
		v := u64(kv[j+1:])
		switch kv[:j] {
		case "bs":
			c.bs = v
		case "ws":
			c.ws = v
		case "did":
			c.did = v
		case "sh":
			c.sh = v
		case "rp":
			c.rp = v
		case "from":
			c.from = v
		case "idx":
			c.idx = v
		case "term":
			c.term = v
		case "odi":
			c.odi = v
		default:
			panic("bad stream header field " + kv)
		}
	}
	b := strings.Fields(line[i+3:])
	if len(b) != 2 || b[0] != "P" {
		panic("bad stream case body")
	}
	c.desc = b[1]
	c.payload = expandPieces(b[1])
	return c
}

// retainSink keeps the chunks exactly as handed over (no copy of Data) and an
// immutable snapshot of their bytes taken at that moment.
type retainSink struct {
	shard, replica uint64
	chunks         []pb.Chunk
	snaps          [][]byte
}

func (s *retainSink) Receive(c pb.Chunk) (bool, bool) {
	s.chunks = append(s.chunks, c)
	s.snaps = append(s.snaps, append([]byte{}, c.Data...))
	return true, false
}
func (s *retainSink) Close() error        { return nil }
func (s *retainSink) ShardID() uint64     { return s.shard }
func (s *retainSink) ToReplicaID() uint64 { return s.replica }

var digestSkip int

// referenceFile is what the stream must reassemble to: the header the writer
// emitted, then every block of the payload followed by its CRC-32, then the tail.
func referenceFile(header []byte, payload []byte, bs int) []byte {
	out := append([]byte{}, header...)
	total := uint64(0)
	for off := 0; off < len(payload); off += bs {
		end := off + bs
		if end > len(payload) {
			end = len(payload)
		}
		blk := payload[off:end]
		out = append(out, blk...)
		var crc [4]byte
		binary.BigEndian.PutUint32(crc[:], crc32.ChecksumIEEE(blk))
		out = append(out, crc[:]...)
		total += uint64(len(blk)) + 4
	}
	var t [8]byte
	binary.LittleEndian.PutUint64(t[:], total)
	out = append(out, t[:]...)
	return append(out, 0x3F, 0x5B, 0xCB, 0xF1, 0xFA, 0xBA, 0x81, 0x9F)
}

func runStream(c *tcase, out *vh.LineWriter, st *vh.Stats) {
	hs := int(hk.SnapshotHeaderSize)
	digestSkip = hs
	defer func() { digestSkip = 0 }()
	source := append([]byte{}, c.payload...) // immutable reference copy
	sink := &retainSink{shard: c.sh, replica: c.rp}
	meta := hk.SSMeta{From: c.from, Index: c.idx, Term: c.term, OnDiskIndex: c.odi}
	if p := vh.Catch(func() {
		w := hk.NewChunkWriterBS(sink, meta, c.bs)
		ws := int(c.ws)
		if ws <= 0 {
			ws = len(c.payload) + 1
		}
		buf := make([]byte, ws) // the state machine reuses its own write buffer
		for off := 0; off < len(c.payload); off += ws {
			n := copy(buf, c.payload[off:])
			if _, err := w.Write(buf[:n]); err != nil {
				panic(err)
			}
		}
		if err := w.Close(); err != nil {
			panic(err)
		}
	}); p != "" {
		out.Printf("%s writer-panic\n", c.id)
		st.Violation(c.id, "STREAM-WRITER panicked: "+firstN(p, 100))
		return
	}
	// the receiver
	fs := &osLikeFS{IFS: hk.NewMemFS()}
	if err := hk.MkdirAll(rootDir(c.sh, c.rp), fs); err != nil {
		panic(err)
	}
	var notifs []string
	recv := hk.NewChunk(func(mb pb.MessageBatch) {
		m := mb.Requests[0]
		fd := path.Join(rootDir(m.ShardID, m.To), hk.GetSnapshotDirName(m.Snapshot.Index))
		notifs = append(notifs, fmt.Sprintf("type=IS sh=%d to=%d from=%d did=%d binver=%d %s", m.ShardID, m.To, m.From,
			mb.DeploymentId, mb.BinVer, snapshotFields(&m.Snapshot, fd)))
	}, func(uint64, uint64, uint64) {}, rootDir, c.did, fs)
	hk.SetChunkValidate(recv, c.bs == hk.SnapshotChunkSize)
	// the retained chunks now go through the real streaming job (it stamps the
	// deployment id and stops after the LastChunkCount chunk)
	i := 0
	mutated, refused := -1, -1
	var header []byte
	jobSink, wait := hk.StreamJob(c.sh, c.rp, c.did, fs, func(ch pb.Chunk) error {
		if i < len(sink.snaps) && !bytes.Equal(ch.Data, sink.snaps[i]) && mutated < 0 {
			mutated = i
		}
		if i == 0 && len(ch.Data) >= hs {
			header = append([]byte{}, ch.Data[:hs]...)
		}
		d := ch.Data
		if i == 0 && len(d) >= hs {
			d = d[hs:]
		}
		meta := ch
		meta.Data = nil
		out.Printf("%s %d c %s %d:%08x\n", c.id, i, chunkMetaString(meta), len(ch.Data), crc32.ChecksumIEEE(d))
		res := "rej"
		var ok bool
		if p := vh.Catch(func() { ok = recv.Add(ch) }); p != "" {
			res = "panic"
		} else if ok {
			res = "ok"
		}
		if res != "ok" && refused < 0 {
			refused = i
		}
		o := observeFS(fs)
		trs, _ := trackedString(recv)
		out.Printf("%s r%d %s T[%s] D[%s] F[%s] N=%d\n", c.id, i, res, trs, dirsString(o.temps), dirsString(o.finals), len(notifs))
		i++
		return nil
	})
	for _, ch := range sink.chunks {
		jobSink.Receive(ch)
	}
	if err := wait(); err != nil {
		st.Violation(c.id, "STREAM job failed: "+err.Error())
	}
	for _, n := range notifs {
		out.Printf("%s notif %s\n", c.id, n)
	}
	st.Count("stream")
	// ---- monitor ----
	if mutated >= 0 {
		st.Violation(c.id, fmt.Sprintf("STREAM-CHUNK-MODIFIED chunk %d of %d differs when it is sent from what the sink was handed (%d blocks of %d bytes)",
			mutated, len(sink.chunks), (len(source)+int(c.bs)-1)/int(c.bs), c.bs))
	}
	o := observeFS(fs)
	if refused >= 0 || len(o.finals) != 1 || len(notifs) != 1 {
		st.Violation(c.id, fmt.Sprintf("STREAM-NOT-FINALISED in-order streamed snapshot: first refused chunk %d, %d final dir(s), %d message(s)", refused, len(o.finals), len(notifs)))
	} else {
		want := referenceFile(header, source, int(c.bs))
		got := o.finals[0].files[hk.GetSnapshotFilename(c.idx)]
		if !bytes.Equal(got, want) {
			at := 0
			for at < len(got) && at < len(want) && got[at] == want[at] {
				at++
			}
			st.Violation(c.id, fmt.Sprintf("STREAM-FINALISED-DIFFERS-FROM-SOURCE file has %d bytes, source image %d bytes, first difference at offset %d", len(got), len(want), at))
		}
	}
	nblocks := (len(source) + int(c.bs) - 1) / int(c.bs)
	st.Case(fmt.Sprintf("T%d/%d/%d", c.bs, len(source), c.ws), nblocks >= 3, firstN(c.String(), 200))
}

func genStreamCases(r *vh.Rand, w *vh.LineWriter, tier string) {
	n := 0
	emit := func(bs, ws uint64, plen int) {
		seed := r.U64() & 0x7fffffff
		c := &tcase{id: fmt.Sprintf("t%d", n), bs: bs, ws: ws, did: 1 + uint64(r.Intn(3)), sh: 1, rp: 1 + uint64(r.Intn(2)),
			from: 5 + uint64(r.Intn(3)), idx: 100 + uint64(r.Intn(1000)), term: 1 + uint64(r.Intn(5)), desc: fmt.Sprintf("r%d.%d", seed, plen)}
		if plen == 0 {
			c.desc = "-"
		}
		if r.Bool() {
			c.odi = c.idx - 1
		}
		n++
		w.Printf("%s\n", c.String())
	}
	for _, bs := range []uint64{16, 64, 100, 1000} {
		for _, k := range []int{0, 1, 2, 3, 4, 7} {
			emit(bs, uint64(1+r.Intn(3*int(bs))), k*int(bs))
			if k > 0 || bs == 16 {
				emit(bs, uint64(1+r.Intn(3*int(bs))), k*int(bs)+1+r.Intn(int(bs)-1))
			}
		}
		emit(bs, 0, 1)
		emit(bs, 1, 3*int(bs))
	}
	// real block size: more than two blocks, a whole number of blocks and not
	real := int(hk.SnapshotChunkSize)
	emit(uint64(real), 1<<20, 3*real)
	emit(uint64(real), 300000+uint64(r.Intn(100000)), 2*real+1+r.Intn(real/2))
	if tier == "thorough" {
		for i := 0; i < 200; i++ {
			bs := uint64(8 + r.Intn(500))
			emit(bs, uint64(1+r.Intn(4*int(bs))), r.Intn(9*int(bs)))
		}
		emit(uint64(real), 4096, 4*real)
	}
}
