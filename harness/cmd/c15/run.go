package main

import (
	"bytes"
	"encoding/json"
	"os"
	"os/exec"
	"path/filepath"
	"errors"
	"fmt"
	"hash/crc32"
	"io"
	"path"
	"regexp"
	"sort"
	"strings"

	"github.com/lni/dragonboat/v4/raftio"
	pb "github.com/lni/dragonboat/v4/raftpb"
	hk "github.com/lni/dragonboat/v4/verifhooks/c15"

	"verif/harness/vh"
)

// osLikeFS makes the in-memory file system refuse, like an operating system
// does (EISDIR), to create or open-for-append a path that is a directory.
// (lni/vfs MemFS would silently replace the directory node by a file.)
type osLikeFS struct {
	hk.IFS
}

var errIsDir = errors.New("is a directory")

func (o *osLikeFS) isDir(name string) bool {
	fi, err := o.IFS.Stat(name)
	return err == nil && fi.IsDir()
}

func (o *osLikeFS) Create(name string) (hk.File, error) {
	if o.isDir(name) {
		return nil, errIsDir
	}
	return o.IFS.Create(name)
}

func (o *osLikeFS) OpenForAppend(name string) (hk.File, error) {
	if o.isDir(name) {
		return nil, errIsDir
	}
	return o.IFS.OpenForAppend(name)
}

const snapRoot = "/snap"

func rootDir(shard, replica uint64) string {
	return fmt.Sprintf("%s/%d-%d", snapRoot, shard, replica)
}

func digest(b []byte) string {
	d := b
	if digestSkip > 0 && len(d) >= digestSkip {
		d = d[digestSkip:] // stream cases: the header carries a time stamp
	}
	return fmt.Sprintf("%d:%08x", len(b), crc32.ChecksumIEEE(d))
}

func readFile(fs hk.IFS, p string) []byte {
	f, err := fs.Open(p)
	if err != nil {
		panic(err)
	}
	defer f.Close()
	b, err := io.ReadAll(f)
	if err != nil {
		panic(err)
	}
	return b
}

// ---- receiver state as seen through the file system and the hooks ----------

var (
	tempRe  = regexp.MustCompile(`^snapshot-([0-9A-F]{16})-([0-9]+)\.receiving$`)
	finalRe = regexp.MustCompile(`^snapshot-([0-9A-F]{16})$`)
	rootRe  = regexp.MustCompile(`^([0-9]+)-([0-9]+)$`)
)

type dirObs struct {
	key   string            // sh.rp.idx[.from]
	files map[string][]byte // name -> content
	flag  string            // final dirs: printed flag file content
}

type fsObs struct {
	temps, finals []dirObs
	stray         []string
	removed       []string
}

func hexU(s string) uint64 {
	var v uint64
	fmt.Sscanf(s, "%X", &v)
	return v
}

func snapshotFields(s *pb.Snapshot, finalDir string) string {
	name := "BADPATH:" + hexs(s.Filepath)
	if path.Dir(s.Filepath) == finalDir {
		name = hexs(path.Base(s.Filepath))
	}
	var fl []string
	for _, f := range s.Files {
		okp := "p"
		if f.Filepath != path.Join(finalDir, fmt.Sprintf("external-file-%d", f.FileId)) {
			okp = "BADPATH:" + hexs(f.Filepath)
		}
		fl = append(fl, fmt.Sprintf("%d:%d:%s:%s", f.FileId, f.FileSize, vh.Hex(f.Metadata), okp))
	}
	return fmt.Sprintf("idx=%d term=%d odi=%d name=%s fsize=%d wit=%s files=[%s]",
		s.Index, s.Term, s.OnDiskIndex, name, s.FileSize, b2s(s.Witness), strings.Join(fl, ","))
}

func observeFS(fs hk.IFS) fsObs {
	var o fsObs
	roots, err := fs.List(snapRoot)
	if err != nil {
		return o
	}
	sort.Strings(roots)
	for _, r := range roots {
		rp := path.Join(snapRoot, r)
		m := rootRe.FindStringSubmatch(r)
		fi, err := fs.Stat(rp)
		if m == nil || err != nil || !fi.IsDir() {
			o.stray = append(o.stray, rp)
			continue
		}
		nodeKey := m[1] + "." + m[2]
		ents, _ := fs.List(rp)
		sort.Strings(ents)
		for _, e := range ents {
			ep := path.Join(rp, e)
			efi, err := fs.Stat(ep)
			if err != nil {
				o.stray = append(o.stray, ep)
				continue
			}
			if e == "DELETED.dragonboat" && !efi.IsDir() {
				o.removed = append(o.removed, nodeKey)
				continue
			}
			tm, fm := tempRe.FindStringSubmatch(e), finalRe.FindStringSubmatch(e)
			if !efi.IsDir() || (tm == nil && fm == nil) {
				o.stray = append(o.stray, ep)
				continue
			}
			d := dirObs{files: map[string][]byte{}}
			if tm != nil {
				d.key = fmt.Sprintf("%s.%d.%s", nodeKey, hexU(tm[1]), tm[2])
			} else {
				d.key = fmt.Sprintf("%s.%d", nodeKey, hexU(fm[1]))
			}
			fl, _ := fs.List(ep)
			for _, fn := range fl {
				fp := path.Join(ep, fn)
				ffi, err := fs.Stat(fp)
				if err != nil || ffi.IsDir() {
					o.stray = append(o.stray, fp)
					continue
				}
				if fm != nil && fn == hk.SnapshotFlagFilename {
					var ss pb.Snapshot
					if p := vh.Catch(func() {
						if err := hk.GetFlagFileContent(ep, fn, &ss, fs); err != nil {
							panic(err)
						}
					}); p != "" {
						d.flag = "UNREADABLE"
					} else {
						d.flag = snapshotFields(&ss, ep)
					}
					continue
				}
				d.files[fn] = readFile(fs, fp)
			}
			if tm != nil {
				o.temps = append(o.temps, d)
			} else {
				o.finals = append(o.finals, d)
			}
		}
	}
	return o
}

func (d dirObs) String() string {
	var names []string
	for n := range d.files {
		names = append(names, n)
	}
	sort.Strings(names)
	var parts []string
	for _, n := range names {
		parts = append(parts, hexs(n)+"="+digest(d.files[n]))
	}
	s := d.key + "{" + strings.Join(parts, ",") + "}"
	if d.flag != "" {
		s += "flag{" + d.flag + "}"
	}
	return s
}

func dirsString(ds []dirObs) string {
	var l []string
	for _, d := range ds {
		l = append(l, d.String())
	}
	sort.Strings(l)
	return strings.Join(l, " ")
}

func trackedString(c *hk.Chunk) (string, map[string]hk.TrackedInfo) {
	m := map[string]hk.TrackedInfo{}
	var l []string
	for _, t := range hk.Tracked(c) {
		k := strings.ReplaceAll(t.Key, ":", ".")
		m[k] = t
		l = append(l, fmt.Sprintf("%s:%d:%d:%d:%d", k, t.Next, t.From, t.Tick, t.Files))
	}
	sort.Strings(l)
	return strings.Join(l, " "), m
}

// ---- one receiver case ------------------------------------------------------

type notifRec struct {
	text                     string
	shard, replica, index, from uint64
	snap                     pb.Snapshot
}

func runReceiver(c *rcase, out *vh.LineWriter, st *vh.Stats) {
	gc0, to0, slots0 := hk.SoftSettings()
	if c.gc == 0 {
		c.gc = gc0
	}
	if c.to == 0 {
		c.to = to0
	}
	if c.slots == 0 {
		c.slots = slots0
	}
	oldSlots := hk.SetMaxConcurrentSlot(c.slots)
	defer hk.SetMaxConcurrentSlot(oldSlots)
	fs := &osLikeFS{IFS: hk.NewMemFS()}
	if err := hk.MkdirAll(snapRoot, fs); err != nil {
		panic(err)
	}
	var notifs []notifRec
	confirms := 0
	onReceive := func(mb pb.MessageBatch) {
		n := notifRec{}
		if len(mb.Requests) != 1 {
			n.text = fmt.Sprintf("BAD-BATCH %d", len(mb.Requests))
		} else {
			m := mb.Requests[0]
			fd := path.Join(rootDir(m.ShardID, m.To), hk.GetSnapshotDirName(m.Snapshot.Index))
			ty := "IS"
			if m.Type != pb.InstallSnapshot {
				ty = fmt.Sprintf("%d", m.Type)
			}
			n.text = fmt.Sprintf("type=%s sh=%d to=%d from=%d did=%d binver=%d %s", ty, m.ShardID, m.To, m.From,
				mb.DeploymentId, mb.BinVer, snapshotFields(&m.Snapshot, fd))
			n.shard, n.replica, n.index, n.from, n.snap = m.ShardID, m.To, m.Snapshot.Index, m.From, m.Snapshot
		}
		notifs = append(notifs, n)
	}
	confirm := func(shard, replica, from uint64) { confirms++ }
	recv := hk.NewChunk(onReceive, confirm, rootDir, c.did, fs)
	hk.SetChunkTimers(recv, c.gc, c.to)

	mon := newMonitor(c, st)
	nontrivial := false
	for i, o := range c.ops {
		before := observeFS(fs)
		_, trBefore := trackedString(recv)
		nBefore := len(notifs)
		res := "-"
		var chunk pb.Chunk
		switch o.kind {
		case opAdd:
			chunk = o.chunk
			chunk.Data = o.data.bytes(c.files)
			if err := hk.MkdirAll(rootDir(chunk.ShardID, chunk.ReplicaID), fs); err != nil {
				panic(err)
			}
			before = observeFS(fs)
			var ok bool
			if p := vh.Catch(func() { ok = recv.Add(chunk) }); p != "" {
				res = "panic"
			} else if ok {
				res = "ok"
			} else {
				res = "rej"
			}
			st.Count("add-" + res)
		case opTick:
			for k := uint64(0); k < o.n; k++ {
				recv.Tick()
			}
			st.Count("tick")
		case opConcTick:
			recv.Tick()
			st.Count("tick")
		case opDrain:
			for k := uint64(0); k < c.to+c.gc+1; k++ {
				recv.Tick()
			}
			st.Count("drain")
		case opRemoved:
			rd := rootDir(o.a, o.b)
			if err := hk.MkdirAll(rd, fs); err != nil {
				panic(err)
			}
			if err := hk.MarkDirAsDeleted(rd, &pb.Snapshot{}, fs); err != nil {
				panic(err)
			}
			st.Count("removed")
		case opClose:
			recv.Close()
			st.Count("close")
		}
		if res == "panic" {
			// the receiver process would be gone: the case ends here
			out.Printf("%s %d panic\n", c.id, i)
			mon.afterPanic(i, o, trBefore)
			break
		}
		after := observeFS(fs)
		trs, trAfter := trackedString(recv)
		out.Printf("%s %d %s tick=%d T[%s] D[%s] F[%s] X[%s] N=%d C=%d stray=%d\n", c.id, i, res,
			hk.ChunkTick(recv), trs, dirsString(after.temps), dirsString(after.finals),
			strings.Join(after.removed, " "), len(notifs), confirms, len(after.stray))
		for _, n := range notifs[nBefore:] {
			out.Printf("%s %d notif %s\n", c.id, i, n.text)
		}
		mon.now = hk.ChunkTick(recv)
		if mon.step(i, o, chunk, res, before, after, trBefore, trAfter, notifs[nBefore:]) {
			nontrivial = true
		}
	}
	key := fmt.Sprintf("%d/%d/%d", len(c.ops), len(c.files), len(c.streams))
	st.Case(c.id+key, nontrivial, firstN(c.String(), 300))
}

func firstN(s string, n int) string {
	if len(s) > n {
		return s[:n]
	}
	return s
}

// ---- sender case ------------------------------------------------------------

func chunkMetaString(c pb.Chunk) string {
	return fmt.Sprintf("%d %d %d %d %d %d %d %d %s %d %d %d %d %s %d %d %s %s %d %d %s",
		c.ShardID, c.ReplicaID, c.From, c.ChunkId, c.ChunkSize, c.ChunkCount, c.Index, c.Term,
		hexs(c.Filepath), c.FileSize, c.DeploymentId, c.FileChunkId, c.FileChunkCount,
		b2s(c.HasFileInfo), c.FileInfo.FileId, c.FileInfo.FileSize, hexs(c.FileInfo.Filepath),
		vh.Hex(c.FileInfo.Metadata), c.BinVer, c.OnDiskIndex, b2s(c.Witness))
}

func writeSrc(fs hk.IFS, p string, data []byte) {
	if err := hk.MkdirAll(path.Dir(p), fs); err != nil {
		panic(err)
	}
	f, err := fs.Create(p)
	if err != nil {
		panic(err)
	}
	if _, err := f.Write(data); err != nil {
		panic(err)
	}
	if err := f.Close(); err != nil {
		panic(err)
	}
}

// realSend runs the real file mode sender and returns the chunks it emitted.
func realSend(cs uint64, did uint64, files []fileDef, m pb.Message) (chunks []pb.Chunk, failure string) {
	old := hk.SetSnapshotChunkSize(cs)
	defer hk.SetSnapshotChunkSize(old)
	fs := hk.NewMemFS()
	for _, f := range files {
		if f.path != "" {
			writeSrc(fs, f.path, f.data)
		}
	}
	p := vh.Catch(func() {
		err := hk.SendSnapshot(m, did, fs, func(c pb.Chunk) error {
			c.Data = append([]byte{}, c.Data...)
			chunks = append(chunks, c)
			return nil
		})
		if err != nil {
			panic(err)
		}
	})
	if p != "" {
		return nil, "panic"
	}
	return chunks, ""
}

func extSizes(m pb.Message) string {
	var l []string
	for _, f := range m.Snapshot.Files {
		l = append(l, fmt.Sprint(f.FileSize))
	}
	return "[" + strings.Join(l, ",") + "]"
}

func runSender(c *rcase, out *vh.LineWriter, st *vh.Stats) {
	chunks, failure := realSend(c.cs, c.did, c.files, c.msg)
	// is the message consistent with the files: every announced file exists (the last one
	// written under a path wins) with exactly the announced, non-zero size
	onDisk := map[string]int{}
	for _, f := range c.files {
		onDisk[f.path] = len(f.data)
	}
	consistent := c.msg.Snapshot.FileSize > 0 && onDisk[c.msg.Snapshot.Filepath] == int(c.msg.Snapshot.FileSize)
	if _, ok := onDisk[c.msg.Snapshot.Filepath]; !ok {
		consistent = false
	}
	seen := map[string]bool{c.msg.Snapshot.Filepath: true}
	for _, f := range c.msg.Snapshot.Files {
		if n, ok := onDisk[f.Filepath]; !ok || f.FileSize == 0 || n != int(f.FileSize) || seen[f.Filepath] {
			consistent = false
		}
		seen[f.Filepath] = true
	}
	if failure != "" {
		out.Printf("%s %s\n", c.id, failure)
		st.Count("send-" + failure)
		if consistent {
			st.Violation(c.id, fmt.Sprintf("SPLIT-PANIC the sender failed on a message whose files all exist with the announced sizes (chunk size %d, main %d bytes, external %s)",
				c.cs, c.msg.Snapshot.FileSize, extSizes(c.msg)))
		}
		st.Case(c.id, false, "")
		return
	}
	st.Count("send-ok")
	for i, ch := range chunks {
		out.Printf("%s %d c %s %s\n", c.id, i, chunkMetaString(ch), digest(ch.Data))
	}
	// monitor: the chunks cover every file exactly, ids are consecutive
	perFile := map[string][]byte{}
	for i, ch := range chunks {
		if ch.ChunkId != uint64(i) || ch.ChunkCount != uint64(len(chunks)) || uint64(len(ch.Data)) != ch.ChunkSize ||
			ch.BinVer != raftio.TransportBinVersion || ch.DeploymentId != c.did {
			st.Violation(c.id, fmt.Sprintf("SPLIT chunk %d has inconsistent id/count/size/binver/did", i))
		}
		if len(ch.Data) == 0 || ch.ChunkSize > c.cs {
			st.Violation(c.id, fmt.Sprintf("SPLIT chunk %d carries %d bytes (chunk size %d)", i, len(ch.Data), c.cs))
		}
		if ch.FileChunkId == 0 {
			perFile[ch.Filepath] = nil
		}
		perFile[ch.Filepath] = append(perFile[ch.Filepath], ch.Data...)
	}
	want := map[string]uint64{c.msg.Snapshot.Filepath: c.msg.Snapshot.FileSize}
	for _, f := range c.msg.Snapshot.Files {
		want[f.Filepath] = f.FileSize
	}
	for _, f := range c.files {
		if sz, ok := want[f.path]; ok && sz == uint64(len(f.data)) {
			if !bytes.Equal(perFile[f.path], f.data) {
				st.Violation(c.id, "SPLIT chunks of "+f.path+" do not concatenate to the file")
			}
		}
	}
	st.Case(fmt.Sprintf("S%d/%d", len(chunks), len(c.files)), len(chunks) > 1, firstN(c.String(), 300))
}

// isolatedCase: cases in which goroutines of the code under test run (Transport jobs,
// concurrent Adds). A panic in such a goroutine ends the whole process, so these cases are
// executed by a child process; a crash is reported against the case that was running.
func isolatedCase(line string) bool {
	f := strings.Fields(firstN(line, 400))
	return len(f) >= 2 && (f[1] == "G" || strings.Contains(firstN(line, 400), " par=1") || strings.Contains(firstN(line, 400), " cgc="))
}

func runLine(line string, out *vh.LineWriter, st *vh.Stats) {
	gc0, to0, slots0 := hk.SoftSettings()
	f := strings.Fields(firstN(line, 400))
	switch {
	case len(f) >= 2 && f[1] == "CONST":
		out.Printf("%s CONST cs=%d gc=%d to=%d slots=%d binver=%d last=%d flag=%s hdr=%d\n", f[0],
			hk.SnapshotChunkSize, gc0, to0, slots0, raftio.TransportBinVersion, pb.LastChunkCount,
			hexs(hk.SnapshotFlagFilename), hk.SnapshotHeaderSize)
		st.Case("const", false, "")
	case len(f) >= 2 && f[1] == "T":
		runStream(parseTCase(line), out, st)
	case len(f) >= 2 && f[1] == "G":
		runGlue(parseGCase(line), out, st)
	default:
		c := parseCase(line)
		if c.cgcSet {
			runConcurrentGC(c, out, st)
		} else if c.par {
			runParallel(c, out, st)
		} else if c.kind == "S" {
			runSender(c, out, st)
		} else {
			runReceiver(c, out, st)
		}
	}
}

func run(a vh.Args) {
	st := vh.NewStats("distinct receiver cases in which a chunk was refused, a stream was dropped/collected or restarted AND the run continued to a verdict (finalised or collected); sender cases with more than one chunk; glue cases with an injected failure or a witness snapshot; parallel cases with more than one snapshot")
	out := vh.Create(path.Join(a.Out, "impl.obs"))
	defer out.Close()
	child := os.Getenv("C15_CHILD") != ""
	nchild := 0
	var isolated []string
	for _, line := range vh.ReadLines(a.Cases) {
		if strings.HasPrefix(line, "#") {
			continue
		}
		if !child && isolatedCase(line) {
			isolated = append(isolated, line)
			continue
		}
		if child {
			// progress marker: which case is running if the process dies; every case's
			// observations go to a file of their own and the statistics are rewritten after
			// each case, so that a crash loses nothing but the case in progress
			nchild++
			_ = os.WriteFile(path.Join(a.Out, "progress"), []byte(strings.Fields(firstN(line, 200))[0]), 0644)
			o := vh.Create(path.Join(a.Out, fmt.Sprintf("obs-%06d.txt", nchild)))
			runLine(line, o, st)
			o.Close()
			st.Write(a.Out)
			continue
		}
		runLine(line, out, st)
	}
	if len(isolated) > 0 {
		exe, err := os.Executable()
		if err != nil {
			panic(err)
		}
		runChildren(exe, a, "iso", isolated, out, st, false)
		// both tiers: the race-enabled build is cached by go build after its first use
		raceRun(a, isolated, st)
	}
	st.Write(a.Out)
}

// runChildren executes the isolated cases in child processes of binary [exe]; after a
// crash the case that was running is reported and the remaining cases go to a new child.
func runChildren(exe string, a vh.Args, tag string, lines []string, out *vh.LineWriter, st *vh.Stats, raceOnly bool) {
	dir, err := filepath.Abs(filepath.Join(a.Out, tag))
	if err != nil {
		panic(err)
	}
	rest := lines
	for round := 0; len(rest) > 0 && round < 6; round++ {
		_ = os.RemoveAll(dir)
		if err := os.MkdirAll(dir, 0755); err != nil {
			panic(err)
		}
		cf := filepath.Join(dir, "cases.txt")
		if err := os.WriteFile(cf, []byte(strings.Join(rest, "\n")+"\n"), 0644); err != nil {
			panic(err)
		}
		cmd := exec.Command(exe, "run", "-tier", a.Tier, "-seed", fmt.Sprint(a.Seed), "-cases", cf, "-out", dir)
		cmd.Env = append(os.Environ(), "C15_CHILD=1", "GORACE=halt_on_error=0")
		outb, err := cmd.CombinedOutput()
		text := string(outb)
		if i := strings.Index(text, "WARNING: DATA RACE"); i >= 0 {
			st.Violation("race", "DATA-RACE reported by the race detector on the concurrent cases: "+firstN(strings.ReplaceAll(text[i:], "\n", " | "), 700))
		}
		if !raceOnly {
			// what the child observed and judged
			files, _ := filepath.Glob(filepath.Join(dir, "obs-*.txt"))
			sort.Strings(files)
			for _, fn := range files {
				if b, e := os.ReadFile(fn); e == nil {
					for _, l := range strings.Split(string(b), "\n") {
						if l != "" {
							out.Printf("%s\n", l)
						}
					}
				}
			}
			if b, e := os.ReadFile(filepath.Join(dir, "stats.json")); e == nil {
				var cs vh.Stats
				if json.Unmarshal(b, &cs) == nil {
					st.Evaluations += cs.Evaluations
					st.DistinctNontrivial += cs.DistinctNontrivial
					for k, v := range cs.Distribution {
						st.Distribution[k] += v
					}
					st.MonitorViolations = append(st.MonitorViolations, cs.MonitorViolations...)
					for _, s := range cs.Samples {
						if len(st.Samples) < 5 {
							st.Samples = append(st.Samples, s)
						}
					}
				}
			}
		}
		if err == nil {
			break
		}
		// the child died: blame the case in progress and go on behind it
		pb, _ := os.ReadFile(filepath.Join(dir, "progress"))
		cur := strings.TrimSpace(string(pb))
		idx := -1
		for i, l := range rest {
			if strings.Fields(firstN(l, 200))[0] == cur {
				idx = i
			}
		}
		tail := text
		if i := strings.Index(text, "panic:"); i >= 0 {
			tail = text[i:]
		} else if i := strings.Index(text, "fatal error:"); i >= 0 {
			tail = text[i:]
		} else if len(tail) > 600 {
			tail = tail[len(tail)-600:]
		}
		msg := "PROCESS-CRASH the process died while this case ran goroutines of the code under test (" + tag + "): " +
			firstN(strings.ReplaceAll(tail, "\n", " | "), 500)
		if idx < 0 {
			st.Violation("crash", msg)
			break
		}
		if !raceOnly {
			out.Printf("%s crashed\n", cur)
		}
		st.Violation(cur, msg)
		rest = rest[idx+1:]
	}
	_ = os.RemoveAll(dir)
}

// raceRun: the isolated cases are run once more by a copy of this harness
// built with the race detector; a reported data race in the code under test is a violation.
func raceRun(a vh.Args, lines []string, st *vh.Stats) {
	exe, err := os.Executable()
	if err != nil {
		return
	}
	src := filepath.Join(filepath.Dir(exe), "..", "..", "harness")
	dir, err := filepath.Abs(filepath.Join(a.Out, "racebin"))
	if err != nil {
		return
	}
	if err := os.MkdirAll(dir, 0755); err != nil {
		return
	}
	defer os.RemoveAll(dir)
	bin := filepath.Join(dir, "c15race")
	build := exec.Command("go", "build", "-race", "-tags", "verif", "-o", bin, "./cmd/c15")
	build.Dir = src
	build.Env = append(os.Environ(), "CGO_ENABLED=1", "GOFLAGS=-mod=mod", "GOPROXY=off", "GOSUMDB=off", "GOTOOLCHAIN=local")
	if outb, err := build.CombinedOutput(); err != nil {
		st.Notes["race"] = "race build not available: " + firstN(string(outb), 200)
		return
	}
	runChildren(bin, a, "race", lines, nil, st, true)
	st.Notes["race"] = fmt.Sprintf("%d concurrent cases re-run under -race", len(lines))
}
