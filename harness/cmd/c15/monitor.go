package main

import (
	"bytes"
	"fmt"
	"sort"
	"strings"

	"github.com/lni/dragonboat/v4/raftio"
	pb "github.com/lni/dragonboat/v4/raftpb"
	hk "github.com/lni/dragonboat/v4/verifhooks/c15"

	"verif/harness/vh"
)

// The property monitor: C15's own predicate evaluated on what the real
// receiver did, without the model.
//
//  ACCEPT      a chunk is accepted only if did/binver match, the replica is not
//              removed and it is chunk 0 or the next expected chunk of a tracked
//              stream from the sender that started it
//  NO-EFFECT   a chunk that is not the next expected one (or a refused chunk 0)
//              changes nothing: tracked table, temp dirs, final dirs, messages
//  REJECT      any refused chunk creates/changes no file, finalises nothing and
//              notifies nobody; at most its own stream's temp dir disappears
//  FINAL       a final dir appears only on an accepted last chunk, together
//              with exactly one InstallSnapshot message describing it; its files
//              are byte-identical to the source snapshot of that sender; final
//              dirs never change afterwards
//  CONFINE     nothing is ever created outside <root>/<temp|final dir>/<file>
//  STALLED     after timeout+gc ticks without chunks no stream is tracked and
//              no temp dir is left
//  LIVE        only a stalled stream is collected: a tick never removes a stream
//              that recorded a chunk less than timeout ticks ago; a single in-order
//              stream whose gaps all stay below the timeout (steady=1 cases) has
//              every chunk accepted and is finalised
type monitor struct {
	c          *rcase
	st         *vh.Stats
	disturbed  bool
	verdict    bool
	reported   map[string]bool
	corruptExt map[string]bool // stream key -> an external-file chunk with corrupt data was offered
	lastTouch  map[string]uint64 // snapshot key -> receiver tick when a chunk of its stream was last recorded
	now        uint64            // the receiver's clock after the current operation
}

func newMonitor(c *rcase, st *vh.Stats) *monitor {
	m := &monitor{c: c, st: st, reported: map[string]bool{}, corruptExt: map[string]bool{}, lastTouch: map[string]uint64{}}
	return m
}

func (m *monitor) violation(kind string, i int, msg string) {
	if m.reported[kind] {
		return
	}
	m.reported[kind] = true
	m.st.Violation(m.c.id, fmt.Sprintf("%s op=%d %s", kind, i, msg))
}

// a chunk that has to be ignored (foreign, or not the next expected chunk of its
// sender) must not crash the receiver either
func (m *monitor) afterPanic(i int, o op, trBefore map[string]hk.TrackedInfo) {
	m.st.Count("case-ended-by-panic")
	if o.kind != opAdd {
		m.violation("PANIC", i, "the receiver panicked without a chunk")
		return
	}
	chunk := o.chunk
	key := fmt.Sprintf("%d.%d.%d", chunk.ShardID, chunk.ReplicaID, chunk.Index)
	good := chunk.DeploymentId == m.c.did && chunk.BinVer == raftio.TransportBinVersion
	tb, tracked := trBefore[key]
	expected := good && chunk.ChunkId != 0 && tracked && tb.Next == chunk.ChunkId && tb.From == chunk.From
	if !good || (chunk.ChunkId != 0 && !expected) {
		m.violation("NO-EFFECT", i, fmt.Sprintf("chunk id=%d from=%d that is not the next expected chunk of its sender (tracked=%v next=%d from=%d) crashed the receiver",
			chunk.ChunkId, chunk.From, tracked, tb.Next, tb.From))
	}
}

func dirMap(ds []dirObs) map[string]string {
	r := map[string]string{}
	for _, d := range ds {
		r[d.key] = d.String()
	}
	return r
}

func trackedText(t map[string]hk.TrackedInfo) string {
	var l []string
	for k, v := range t {
		l = append(l, fmt.Sprintf("%s:%d:%d:%d:%d", k, v.Next, v.From, v.Tick, v.Files))
	}
	sort.Strings(l)
	return strings.Join(l, " ")
}

func (m *monitor) findStream(shard, replica, index, from uint64) *streamDef {
	for i := range m.c.streams {
		s := &m.c.streams[i]
		if s.shard == shard && s.replica == replica && s.index == index && s.from == from {
			return s
		}
	}
	return nil
}

func (m *monitor) step(i int, o op, chunk pb.Chunk, res string, before, after fsObs,
	trBefore, trAfter map[string]hk.TrackedInfo, newNotifs []notifRec) bool {
	if len(after.stray) > 0 {
		m.violation("CONFINE", i, "unexpected path "+hexs(after.stray[0]))
	}
	removedNow := map[string]bool{}
	for _, r := range after.removed {
		removedNow[r] = true
	}
	for k, t := range trAfter {
		f := strings.Split(k, ".")
		if len(f) == 3 && !removedNow[f[0]+"."+f[1]] {
			found := false
			for _, d := range after.temps {
				if d.key == fmt.Sprintf("%s.%d", k, t.From) {
					found = true
				}
			}
			if !found {
				m.violation("TRACKED-WITHOUT-TEMP", i, "stream "+k+" is tracked but has no temp dir (the replica is not removed): its next chunk cannot be saved")
			}
		}
	}
	bt, at := dirMap(before.temps), dirMap(after.temps)
	bf, af := dirMap(before.finals), dirMap(after.finals)
	// final directories are immutable
	for k, v := range bf {
		if af[k] != v {
			m.violation("FINAL-CHANGED", i, "final dir "+k+" changed or disappeared")
		}
	}
	var newFinals []dirObs
	for _, d := range after.finals {
		if _, ok := bf[d.key]; !ok {
			newFinals = append(newFinals, d)
		}
	}
	key := fmt.Sprintf("%d.%d.%d", chunk.ShardID, chunk.ReplicaID, chunk.Index)
	tkey := fmt.Sprintf("%s.%d", key, chunk.From)
	if o.kind != opAdd {
		if len(newFinals) > 0 || len(newNotifs) > 0 {
			m.violation("FINAL", i, "a snapshot was finalised or announced without a chunk")
		}
		for k, v := range at {
			if bt[k] != v {
				m.violation("REJECT", i, "temp dir "+k+" changed without a chunk")
			}
		}
		if len(at) < len(bt) || len(trAfter) < len(trBefore) {
			m.disturbed = true
		}
		if o.kind == opTick || o.kind == opDrain || o.kind == opConcTick {
			for k := range trBefore {
				if _, ok := trAfter[k]; !ok {
					if last, seen := m.lastTouch[k]; seen && m.now-last < m.c.to {
						m.violation("LIVE", i, fmt.Sprintf("STREAM-COLLECTED-WHILE-LIVE stream %s was collected at tick %d although its last chunk was recorded at tick %d (timeout %d)",
							k, m.now, last, m.c.to))
					}
				}
			}
		}
		if o.kind == opDrain {
			if len(trAfter) != 0 || len(at) != 0 {
				m.violation("STALLED", i, fmt.Sprintf("after timeout+gc ticks %d stream(s) tracked, %d temp dir(s) left", len(trAfter), len(at)))
			} else if len(bt) > 0 || len(trBefore) > 0 {
				m.verdict = true
			}
		}
		return m.disturbed && m.verdict
	}
	if o.data.corrupt && chunk.HasFileInfo {
		m.corruptExt[tkey] = true
	}
	removed := false
	for _, r := range before.removed {
		if r == fmt.Sprintf("%d.%d", chunk.ShardID, chunk.ReplicaID) {
			removed = true
		}
	}
	good := chunk.DeploymentId == m.c.did && chunk.BinVer == raftio.TransportBinVersion
	tb, tracked := trBefore[key]
	expected := good && chunk.ChunkId != 0 && tracked && tb.Next == chunk.ChunkId && tb.From == chunk.From
	if good && (chunk.ChunkId == 0 || expected) {
		m.lastTouch[key] = m.now // record() refreshes the stream's idle clock on every recorded chunk
	}
	if m.c.steady && res != "ok" {
		m.violation("STREAM-NOT-FINALISED", i, fmt.Sprintf("chunk id=%d of a single in-order stream whose gaps stay below the timeout was refused (tracked=%v next=%d)",
			chunk.ChunkId, tracked, tb.Next))
	}
	if m.c.steady && res == "ok" && chunk.IsLastChunk() && len(newFinals) != 1 {
		m.violation("STREAM-NOT-FINALISED", i, "the last chunk of a steady in-order stream did not finalise the snapshot")
	}
	switch res {
	case "ok":
		if !good || removed || !(chunk.ChunkId == 0 || expected) {
			m.violation("ACCEPT", i, fmt.Sprintf("accepted chunk id=%d from=%d did=%d binver=%d (tracked=%v next=%d from=%d removed=%v)",
				chunk.ChunkId, chunk.From, chunk.DeploymentId, chunk.BinVer, tracked, tb.Next, tb.From, removed))
		}
		if chunk.ChunkId == 0 && tracked {
			m.disturbed = true // restart of a stream
		}
		for k, v := range at {
			if k != tkey && bt[k] != v {
				m.violation("INTERFERE", i, "temp dir "+k+" of another stream changed")
			}
		}
		if chunk.IsLastChunk() {
			if len(newFinals) != 1 || len(newNotifs) != 1 {
				m.violation("FINAL", i, fmt.Sprintf("accepted last chunk produced %d final dir(s) and %d message(s)", len(newFinals), len(newNotifs)))
			}
		} else if len(newFinals) != 0 || len(newNotifs) != 0 {
			m.violation("FINAL", i, "finalised or announced before the last chunk")
		}
	case "rej":
		m.st.Count("rejected")
		if len(newFinals) > 0 || len(newNotifs) > 0 {
			m.violation("REJECT", i, "a refused chunk finalised or announced a snapshot")
		}
		for k, v := range at {
			if bt[k] != v {
				m.violation("REJECT", i, "a refused chunk created or changed temp dir "+k)
			}
		}
		for k := range bt {
			if _, ok := at[k]; !ok && !strings.HasPrefix(k, key+".") {
				m.violation("REJECT", i, "a refused chunk removed temp dir "+k+" of another stream")
			}
		}
		// a chunk 0 that is also the last chunk of its (one chunk) snapshot is first taken
		// as the start of a stream - which, as for every chunk 0, discards a running stream
		// of the same snapshot - and can then still fail at finalisation (Validate, or the
		// snapshot is out of date: its final dir exists). It is refused, but it was a
		// restart: only its own snapshot's stream and temp dirs may be gone.
		restartLast := good && chunk.ChunkId == 0 && chunk.IsLastChunk()
		if restartLast && !removed { // (on a removed replica the chunk is recorded and dropped: the entry lingers until gc)
			for k, v := range trBefore {
				if w, ok := trAfter[k]; k != key && (!ok || w != v) {
					m.violation("INTERFERE", i, "a refused one-chunk snapshot changed the tracked stream "+k)
				}
			}
			for k := range trAfter {
				if _, ok := trBefore[k]; !ok {
					m.violation("REJECT", i, "a refused chunk left a new tracked stream "+k)
				}
			}
			if tracked {
				m.disturbed = true
			}
		}
		if !expected && !removed && !restartLast {
			if len(at) != len(bt) || trackedText(trBefore) != trackedText(trAfter) {
				m.violation("NO-EFFECT", i, fmt.Sprintf("refused chunk id=%d (not the next expected chunk of its sender) changed the receiver: tracked [%s] -> [%s], %d -> %d temp dirs",
					chunk.ChunkId, trackedText(trBefore), trackedText(trAfter), len(bt), len(at)))
			}
		} else if expected {
			m.disturbed = true // validator refusal, removed replica, out of date
		}
		// the next expected chunk of a live stream is only ever refused by dropping the stream
		// (validator refusal, failed final validation, snapshot out of date): the record
		// must be gone with the temp dir, never kept
		if expected && !removed {
			if _, still := trAfter[key]; still {
				m.violation("DROPPED-STREAM-STILL-TRACKED", i, fmt.Sprintf("chunk id=%d, the next expected chunk of its stream, was refused but the stream %s is still tracked (next=%d)",
					chunk.ChunkId, key, trAfter[key].Next))
			}
		}
		if tracked {
			m.disturbed = true
		}
	}
	// a snapshot was finalised: compare with the source
	for _, d := range newFinals {
		m.verdict = true
		if res != "ok" || !chunk.IsLastChunk() || d.key != key {
			m.violation("FINAL", i, "final dir "+d.key+" appeared without an accepted last chunk of that snapshot")
			continue
		}
		if d.flag == "" || d.flag == "UNREADABLE" {
			m.violation("FINAL", i, "final dir "+d.key+" has no readable flag file")
		}
		if len(newNotifs) != 1 {
			continue
		}
		n := newNotifs[0]
		if n.shard != chunk.ShardID || n.replica != chunk.ReplicaID || n.index != chunk.Index || n.from != chunk.From {
			m.violation("FINAL", i, "the message does not describe the finalised snapshot: "+n.text)
		}
		s := m.findStream(chunk.ShardID, chunk.ReplicaID, chunk.Index, n.from)
		if s == nil {
			continue // no registered source (hand written case)
		}
		want := map[string][]byte{s.mainName: m.c.files[s.main].data}
		for _, e := range s.exts {
			want[e.name] = m.c.files[e.file].data
		}
		mainOK := bytes.Equal(d.files[s.mainName], want[s.mainName])
		var diffs []string
		for name, w := range want {
			g, ok := d.files[name]
			if !ok {
				diffs = append(diffs, fmt.Sprintf("%s missing", name))
			} else if !bytes.Equal(g, w) {
				diffs = append(diffs, fmt.Sprintf("%s has %d bytes crc %08x, source %s", name, len(g), crc(g), digest(w)))
			}
		}
		for name := range d.files {
			if _, ok := want[name]; !ok {
				diffs = append(diffs, fmt.Sprintf("unexpected file %s", name))
			}
		}
		sort.Strings(diffs)
		if len(diffs) > 0 {
			if mainOK && m.corruptExt[tkey] {
				m.violation("EXT-FILE-CORRUPTION-UNDETECTED", i, "snapshot "+d.key+" finalised with a corrupt external file: "+strings.Join(diffs, "; "))
			} else {
				m.violation("FINALIZED-DIFFERS-FROM-SOURCE", i, "snapshot "+d.key+": "+strings.Join(diffs, "; "))
			}
		}
		// the message describes the source snapshot
		ok := n.snap.FileSize == uint64(len(m.c.files[s.main].data)) && n.snap.Term == s.term && len(n.snap.Files) == len(s.exts)
		if ok {
			for j, e := range s.exts {
				f := n.snap.Files[j]
				if f.FileId != e.id || f.FileSize != uint64(len(m.c.files[e.file].data)) || !bytes.Equal(f.Metadata, e.meta) {
					ok = false
				}
			}
		}
		if !ok {
			m.violation("FINAL", i, "the InstallSnapshot message does not describe the source snapshot: "+n.text)
		}
	}
	if len(newNotifs) > len(newFinals) {
		m.violation("FINAL", i, "a message was delivered without a finalised snapshot")
	}
	return m.disturbed && m.verdict
}

func crc(b []byte) uint32 {
	var d string
	d = digest(b)
	var l int
	var c uint32
	fmt.Sscanf(d, "%d:%08x", &l, &c)
	return c
}
