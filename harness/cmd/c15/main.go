// Harness for C15 (snapshot chunk transfer reassembles exactly or rejects).
//
//	gen: builds cases by running the REAL sender (splitSnapshotMessage / job /
//	     loadChunkData) on generated snapshots and perturbing the chunk streams
//	run: drives the REAL receiver (transport.Chunk on an in-memory file system)
//	     and the real sender, prints canonical observations for the comparison
//	     with the extracted Coq model, and evaluates the property monitor on the
//	     implementation's behaviour alone.
//
// Case formats (one per line):
//
//	<id> R cs=.. gc=.. to=.. slots=.. did=.. F0=<pieces> .. S0=<stream> .. | op ; op ; ..
//	<id> S cs=.. did=.. F0=<path>@<pieces> .. | M <msg>
//
// see format.go for the details.
package main

import (
	"fmt"
	"os"

	"verif/harness/vh"
)

func main() {
	a := vh.ParseArgs()
	switch a.Mode {
	case "gen":
		gen(a)
	case "run":
		run(a)
	default:
		fmt.Fprintln(os.Stderr, "unknown mode", a.Mode)
		os.Exit(2)
	}
}
