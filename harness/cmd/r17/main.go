// R17 harness: the receive queue of a replica (internal/server MessageQueue), the place where
// snapshot status reports wait for their delay and where Unreachable / InstallSnapshot /
// SnapshotStatus must never be dropped (C17: a follower that lost a snapshot is retried only
// if the status report reaches the leader's raft).
//
//	case: <id> size=<n> lazy=<k> | op ; op ...
//	  T            Tick
//	  A <id> <t>   Add(message id; t = message type that CanDrop)
//	  M <id> <t>   MustAdd(message id; t = one of the three no-drop types)
//	  D <id> <d>   AddDelayed(SnapshotStatus id, d)
//	  G            Get
//	  C            Close
//	obs:  <id> <i>:<op letter>=<result>; Get prints the ids handed out in order.
//	monitor (implementation alone): every accepted message is handed out exactly once or is
//	still held, a delayed report never before tick > due and by the first Get after that, the
//	payload (entries) of a message is intact when it is handed out.
package main

import (
	"fmt"
	"os"
	"strconv"
	"strings"

	"github.com/lni/dragonboat/v4/raftpb"
	r17 "github.com/lni/dragonboat/v4/verifhooks/r17"
	"verif/harness/vh"
)

var dropTypes = []raftpb.MessageType{raftpb.Replicate, raftpb.Heartbeat, raftpb.ReplicateResp, raftpb.RequestVote, raftpb.Propose, raftpb.ReadIndex}
var nodropTypes = []raftpb.MessageType{raftpb.InstallSnapshot, raftpb.Unreachable, raftpb.SnapshotStatus}

func gen(a vh.Args) {
	n := 400
	if a.Tier == "thorough" {
		n = 20000
	}
	if a.N > 0 {
		n = a.N
	}
	w := vh.Create(a.Cases)
	defer w.Close()
	for i := 0; i < n; i++ {
		r := vh.NewRand(a.Seed*1000003 + uint64(i))
		size := 1 + r.Intn(6)
		lazy := r.Intn(4)
		nops := 5 + r.Intn(60)
		next := 1
		var ops []string
		// profile: how much of the traffic is delayed reports
		prof := r.Intn(3)
		for k := 0; k < nops; k++ {
			x := r.Intn(100)
			switch {
			case x < 22:
				ops = append(ops, "T")
			case x < 40:
				ops = append(ops, "G")
			case x < 42 && k > nops/2:
				ops = append(ops, "C")
			case x < 60+prof*10:
				ops = append(ops, fmt.Sprintf("D %d %d", next, r.Intn(5)))
				next++
			case x < 80+prof*5:
				ops = append(ops, fmt.Sprintf("A %d %d", next, r.Intn(len(dropTypes))))
				next++
			default:
				ops = append(ops, fmt.Sprintf("M %d %d", next, r.Intn(len(nodropTypes))))
				next++
			}
		}
		// drain at the end so that everything due is observed
		ops = append(ops, "T", "T", "T", "T", "T", "T", "G", "G")
		w.Printf("g%d_%d size=%d lazy=%d | %s\n", a.Seed, i, size, lazy, strings.Join(ops, " ; "))
	}
}

func atoi(s string) uint64 {
	v, err := strconv.ParseUint(s, 10, 64)
	if err != nil {
		panic(err)
	}
	return v
}

type rec struct {
	due     uint64
	delayed bool
	got     int
}

func runCase(line string, out *vh.LineWriter, st *vh.Stats) {
	parts := strings.SplitN(line, " | ", 2)
	if len(parts) != 2 {
		return
	}
	hf := strings.Fields(parts[0])
	id := hf[0]
	size, lazy := uint64(4), uint64(0)
	for _, f := range hf[1:] {
		if strings.HasPrefix(f, "size=") {
			size = atoi(f[5:])
		}
		if strings.HasPrefix(f, "lazy=") {
			lazy = atoi(f[5:])
		}
	}
	q := r17.New(size, lazy)
	tick := uint64(0)
	acc := map[uint64]*rec{}
	var delayedSeen, dueSeen, gets int
	viol := func(msg string) { st.Violation(id, msg) }
	for i, o := range strings.Split(parts[1], " ; ") {
		f := strings.Fields(o)
		res := ""
		p := vh.Catch(func() {
			switch f[0] {
			case "T":
				q.Tick()
				tick++
				res = "T"
			case "C":
				q.Close()
				res = "C"
			case "A":
				mid := atoi(f[1])
				t := dropTypes[0]
				if len(f) > 2 {
					t = dropTypes[int(atoi(f[2]))%len(dropTypes)]
				}
				m := raftpb.Message{Type: t, Hint: mid, Entries: []raftpb.Entry{{Index: mid}}}
				added, stopped := q.Add(m)
				if added {
					acc[mid] = &rec{}
				}
				res = fmt.Sprintf("A=%s,%s", b01(added), b01(stopped))
			case "M":
				mid := atoi(f[1])
				t := nodropTypes[0]
				if len(f) > 2 {
					t = nodropTypes[int(atoi(f[2]))%len(nodropTypes)]
				}
				m := raftpb.Message{Type: t, Hint: mid, Entries: []raftpb.Entry{{Index: mid}}}
				ok := q.MustAdd(m)
				if ok {
					acc[mid] = &rec{}
				}
				res = "M=" + b01(ok)
			case "D":
				mid, d := atoi(f[1]), atoi(f[2])
				m := raftpb.Message{Type: raftpb.SnapshotStatus, Hint: mid, Entries: []raftpb.Entry{{Index: mid}}}
				ok := q.AddDelayed(m, d)
				if ok {
					acc[mid] = &rec{due: d + tick, delayed: true}
					delayedSeen++
				}
				res = "D=" + b01(ok)
			case "G":
				gets++
				msgs := q.Get()
				var ids []string
				for _, m := range msgs {
					ids = append(ids, strconv.FormatUint(m.Hint, 10))
					r := acc[m.Hint]
					if r == nil {
						viol(fmt.Sprintf("op %d: Get handed out message %d that was never accepted", i, m.Hint))
						continue
					}
					r.got++
					if r.got > 1 {
						viol(fmt.Sprintf("op %d: message %d handed out %d times", i, m.Hint, r.got))
					}
					if r.delayed && !(r.due < tick) {
						viol(fmt.Sprintf("op %d: delayed report %d (due %d) handed out at tick %d", i, m.Hint, r.due, tick))
					}
					if r.delayed {
						dueSeen++
					}
					if len(m.Entries) != 1 || m.Entries[0].Index != m.Hint {
						viol(fmt.Sprintf("op %d: message %d handed out without its payload", i, m.Hint))
					}
				}
				// everything accepted and not delayed-in-the-future has been handed out by now
				for mid, r := range acc {
					if r.got == 0 && (!r.delayed || r.due < tick) {
						viol(fmt.Sprintf("op %d: message %d (delayed=%v due=%d) still not handed out by Get at tick %d", i, mid, r.delayed, r.due, tick))
						r.got = -1 << 30 // report once
					}
				}
				if len(ids) == 0 {
					res = "G=-"
				} else {
					res = "G=" + strings.Join(ids, ",")
				}
			default:
				panic("bad op " + o)
			}
		})
		if p != "" {
			res = "panic"
			viol(fmt.Sprintf("op %d (%s): panic %s", i, o, p))
		}
		out.Printf("%s %d:%s\n", id, i, res)
	}
	st.Count(fmt.Sprintf("size=%d", size))
	st.Count(fmt.Sprintf("lazy=%d", lazy))
	st.Distribution["delayed_accepted"] += delayedSeen
	st.Distribution["delayed_handed_out"] += dueSeen
	st.Distribution["gets"] += gets
	st.Case(parts[1], dueSeen > 0, line)
}

func b01(b bool) string {
	if b {
		return "1"
	}
	return "0"
}

func main() {
	a := vh.ParseArgs()
	switch a.Mode {
	case "gen":
		gen(a)
	case "run":
		st := vh.NewStats("a case is non-trivial when at least one delayed snapshot status report was handed out by Get")
		out := vh.Create(a.Out + "/impl.obs")
		for _, l := range vh.ReadLines(a.Cases) {
			runCase(l, out, st)
		}
		out.Close()
		st.Write(a.Out)
	default:
		fmt.Fprintln(os.Stderr, "unknown mode")
		os.Exit(2)
	}
}
