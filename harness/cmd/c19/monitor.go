package main

import (
	"fmt"
	"math"
	"strconv"
	"strings"

	pb "github.com/lni/dragonboat/v4/raftpb"
	"verif/harness/vh"
)

// ---------- the plain-slice reference: the logical log ----------

type rent struct {
	idx, term, key uint64
	ln             int
}

func rentOf(e pb.Entry) rent { return rent{e.Index, e.Term, e.Key, len(e.Cmd)} }
func (e rent) String() string {
	return fmt.Sprintf("%d:%d:%d:%d", e.idx, e.term, e.key, e.ln)
}
func showRents(l []rent) string {
	if len(l) == 0 {
		return "-"
	}
	s := make([]string, len(l))
	for i, e := range l {
		s[i] = e.String()
	}
	return strings.Join(s, ",")
}

const nonCmdSize = 16 * 8 // settings.EntryNonCmdFieldsSize; cross-checked against pb.Entry.SizeUpperLimit in main

type refPend struct {
	hasSave   bool
	si, st    uint64
	processed uint64
	snap      bool
}

type ref struct {
	mi, mt                      uint64
	ents                        []rent // ents[k].idx == mi+1+k
	committed, processed, saved uint64
	snap                        bool
	pend                        *refPend
	persisted                   bool
	limit                       uint64
}

func (r *ref) last() uint64  { return r.mi + uint64(len(r.ents)) }
func (r *ref) first() uint64 { return r.mi + 1 }
func (r *ref) get(i uint64) (rent, bool) {
	if i <= r.mi || i > r.last() {
		return rent{}, false
	}
	return r.ents[i-r.mi-1], true
}
func (r *ref) term(i uint64) uint64 {
	if i == r.mi {
		return r.mt
	}
	if e, ok := r.get(i); ok {
		return e.term
	}
	return 0
}
func limitRents(l []rent, limit uint64) []rent {
	if len(l) == 0 {
		return l
	}
	total := uint64(nonCmdSize + l[0].ln)
	n := 1
	for ; n < len(l); n++ {
		total += uint64(nonCmdSize + l[n].ln)
		if total > limit {
			break
		}
	}
	return l[:n]
}
func (r *ref) entries(lo, hi, max uint64) string {
	switch {
	case lo > hi:
		return "panic:boundlowhigh"
	case r.snap && len(r.ents) == 0:
		return "err:compacted"
	case lo < r.first():
		return "err:compacted"
	case hi > r.last()+1:
		return "panic:boundhigh"
	case lo == hi:
		return "-"
	}
	return showRents(limitRents(r.ents[lo-r.mi-1:hi-r.mi-1], max))
}
func (r *ref) toSave() []rent { return r.ents[r.saved-r.mi:] }
func (r *ref) firstNotApplied() uint64 {
	if r.processed+1 > r.first() {
		return r.processed + 1
	}
	return r.first()
}
func (r *ref) hasToApply() bool { return r.committed+1 > r.firstNotApplied() }
func (r *ref) toApply() string {
	if r.hasToApply() {
		return r.entries(r.firstNotApplied(), r.committed+1, r.limit)
	}
	return "-"
}

func contiguous(from uint64, es []pb.Entry) bool {
	for i, e := range es {
		if e.Index != from+uint64(i) {
			return false
		}
	}
	return true
}
func termsFrom(t uint64, es []pb.Entry) bool {
	for _, e := range es {
		if e.Term < t {
			return false
		}
		t = e.Term
	}
	return true
}
func max1(t uint64) uint64 {
	if t < 1 {
		return 1
	}
	return t
}
func (r *ref) conflict(es []pb.Entry) uint64 {
	for _, e := range es {
		if r.term(e.Index) != e.Term {
			return e.Index
		}
	}
	return 0
}

const maxIndex = uint64(1) << 62

// wfOp: the negations of the panic guards, stated on the logical log only
func (r *ref) wfOp(f []string) bool {
	idle := r.pend == nil
	switch f[0] {
	case "A":
		es := parseEnts(f[1])
		if len(es) == 0 {
			return false
		}
		f0 := es[0].Index
		return idle && contiguous(f0, es) && r.committed < f0 && f0 <= r.last()+1 &&
			termsFrom(max1(r.term(f0-1)), es) && f0+uint64(len(es)) < maxIndex
	case "R":
		li, lt := u(f[1]), u(f[2])
		es := parseEnts(f[4])
		if !(idle && contiguous(li+1, es) && termsFrom(max1(lt), es) && (lt >= 1 || li == 0) && li+uint64(len(es)) < maxIndex) {
			return false
		}
		c := r.conflict(es)
		return li < r.committed || r.term(li) != lt || c == 0 || r.committed < c
	case "C":
		return idle && u(f[1]) <= r.last()
	case "G":
		return idle && u(f[2]) <= r.processed
	case "P":
		return !idle && !r.persisted
	case "K":
		return !idle && r.persisted
	case "S":
		return idle && u(f[2]) >= 1 && u(f[1]) < maxIndex
	case "X":
		return u(f[1]) <= r.processed && (!r.snap || r.persisted)
	}
	return false
}

func (r *ref) appendEnts(es []pb.Entry) {
	if len(es) == 0 {
		return
	}
	f0 := es[0].Index
	r.ents = append([]rent{}, r.ents[:f0-r.mi-1]...)
	for _, e := range es {
		r.ents = append(r.ents, rentOf(e))
	}
	if f0-1 < r.saved {
		r.saved = f0 - 1
	}
}
func (r *ref) commitTo(k uint64) {
	if k > r.committed {
		r.committed = k
	}
}

func (r *ref) step(f []string) {
	switch f[0] {
	case "A":
		r.appendEnts(parseEnts(f[1]))
	case "R":
		li, lt, commit := u(f[1]), u(f[2]), u(f[3])
		es := parseEnts(f[4])
		if li < r.committed || r.term(li) != lt {
			return
		}
		if c := r.conflict(es); c != 0 {
			r.appendEnts(es[c-li-1:])
		}
		k := li + uint64(len(es))
		if commit < k {
			k = commit
		}
		r.commitTo(k)
	case "C":
		r.commitTo(u(f[1]))
	case "G":
		p := &refPend{snap: r.snap}
		if s := r.toSave(); len(s) > 0 {
			p.hasSave, p.si, p.st = true, s[len(s)-1].idx, s[len(s)-1].term
		}
		if f[1] == "1" && r.hasToApply() {
			lo, hi := r.firstNotApplied(), r.committed+1
			a := limitRents(r.ents[lo-r.mi-1:hi-r.mi-1], r.limit)
			p.processed = a[len(a)-1].idx
		}
		if r.snap && r.mi > p.processed {
			p.processed = r.mi
		}
		r.pend, r.persisted = p, false
	case "P":
		if r.pend != nil {
			r.persisted = true
		}
	case "K":
		if r.pend != nil && r.persisted {
			p := r.pend
			if p.hasSave && p.si > r.mi && p.si <= r.last() && r.term(p.si) == p.st {
				r.saved = p.si
			}
			if p.processed > 0 {
				r.processed = p.processed
			}
			if p.snap {
				r.snap = false
			}
			r.pend, r.persisted = nil, false
		}
	case "S":
		i, t := u(f[1]), u(f[2])
		if i <= r.committed {
			return
		}
		if r.term(i) == t {
			r.commitTo(i)
			return
		}
		r.mi, r.mt, r.ents = i, t, nil
		r.committed, r.processed, r.saved, r.snap = i, i, i, true
	case "X":
		k := u(f[1])
		if r.mi < k && k <= r.last() {
			t := r.term(k)
			r.ents = append([]rent{}, r.ents[k-r.mi:]...)
			r.mi, r.mt = k, t
		}
	}
}

// ---------- the monitor: the property's own predicates on the implementation ----------

type monitor struct {
	on bool
	r  *ref
	id string
	st *vh.Stats
	nv int
}

func newMonitor(h header, id string, st *vh.Stats) *monitor {
	r := &ref{mi: h.mi, mt: h.mt, committed: h.committed, processed: h.mi, limit: h.limit}
	for _, e := range h.ents {
		r.ents = append(r.ents, rentOf(e))
	}
	if r.committed < r.mi {
		r.committed = r.mi
	}
	r.saved = r.last()
	on := h.wf && contiguous(h.mi+1, h.ents) && termsFrom(1, h.ents) && r.committed <= r.last()
	return &monitor{on: on, r: r, id: id, st: st}
}

func (m *monitor) viol(k int, msg string) {
	if m.nv < 3 {
		m.st.Violation(m.id, fmt.Sprintf("op %d: %s", k, msg))
	}
	m.nv++
}

// always: predicates that do not depend on the operation sequence being well-formed
// (they are judged on the wild cases too): handed-out slices never change, and a
// real rate limiter has recorded exactly the in-memory size of the entries
func (m *monitor) always(im *impl, k int) {
	if m.st == nil {
		return
	}
	im.checkHeld(func(msg string) { m.violAlways(k, msg) })
	if sz, on := im.log.RLSize(); on {
		if want := pb.GetEntrySliceInMemSize(im.log.InMem().Entries); sz != want {
			m.violAlways(k, fmt.Sprintf("rate-limiter-drift: recorded in-memory log size %d, the in-memory entries take %d", sz, want))
		}
	}
	m.boundaries(im, k)
}

// boundaries: what term(i) and getEntries must answer where the in-memory window,
// the reader's claimed range and what the store really holds do not line up (store
// compacted by another path, reader range shorter or longer than the store). The
// answer is decided by the logical situation alone, including WHICH error:
//   - inside [first, last] a term is never a silent 0: the entry is there (term >= 1) or an error says why not;
//   - an index above the reader's range and below the in-memory window is ErrUnavailable,
//     whatever the store happens to hold there;
//   - a range whose front is missing from the store while later entries are present has
//     been compacted: an error, and ErrCompacted when the store hands out the later part.
func (m *monitor) boundaries(im *impl, k int) {
	f, l := im.log.FirstIndex(), im.log.LastIndex()
	inm := im.log.InMem()
	if inm.HasSnapshot || l < f || l-f > 400 {
		return
	}
	rf, rl := im.lr.GetRange()
	mk := inm.MarkerIndex
	for i := f; i <= l; i++ {
		t := im.term(i)
		if t == "0" {
			m.violAlways(k, fmt.Sprintf("silent-zero-term: term(%d)=0 without error inside [first=%d,last=%d] (in-memory from %d, reader range [%d,%d])", i, f, l, mk, rf, rl))
			return
		}
		if i > rl && i < mk && i != inm.AppliedToIndex && t != "err:unavailable" {
			m.violAlways(k, fmt.Sprintf("beyond-reader-range: term(%d)=%s, but the index is above the persisted range [%d,%d] and below the in-memory window (from %d): must be ErrUnavailable", i, t, rf, rl, mk))
			return
		}
	}
	if f >= mk || f != rf {
		return
	}
	up := l + 1
	if mk < up {
		up = mk
	}
	all := im.entries(f, l+1, math.MaxUint64)
	if up > rl+1 {
		if all != "err:unavailable" {
			m.violAlways(k, fmt.Sprintf("beyond-reader-range: entries[%d,%d)=%s needs [%d,%d) from a reader whose range ends at %d: must be ErrUnavailable", f, l+1, all, f, up, rl))
		}
		return
	}
	_, okFront := im.st.get(f)
	later := false
	for i := f + 1; i < up; i++ {
		if _, ok := im.st.get(i); ok {
			later = true
			break
		}
	}
	if !okFront && later {
		if !strings.HasPrefix(all, "err:") {
			m.violAlways(k, fmt.Sprintf("front-hole-served: entries[%d,%d)=%s although the store no longer holds index %d", f, l+1, all, f))
		} else if ms, isMem := im.st.(*memStore); isMem && ms.front && all != "err:compacted" {
			m.violAlways(k, fmt.Sprintf("front-hole-not-compacted: entries[%d,%d)=%s; the store answered with a range starting above %d: must be ErrCompacted", f, l+1, all, f))
		}
	}
}

func (m *monitor) violAlways(k int, msg string) {
	if m.nv < 3 {
		m.st.Violation(m.id, fmt.Sprintf("op %d: %s", k, msg))
	}
	m.nv++
}

func (m *monitor) before(im *impl, k int, f []string) {
	if m.on && !m.r.wfOp(f) {
		m.on = false
		m.st.Count("monitor.off:op-not-wellformed")
	}
}

func (m *monitor) failed(k int, op string, out string) {
	if m.on {
		m.viol(k, "well-formed operation "+op+" ended in "+out)
	}
}

func (m *monitor) eq(k int, what, got, want string) {
	if got != want {
		m.viol(k, fmt.Sprintf("view %s: implementation=%s logical-log=%s", what, got, want))
	}
}

func (m *monitor) queryTerm(im *impl, k int, i uint64) {
	if m.on {
		m.eq(k, fmt.Sprintf("term(%d)", i), im.term(i), strconv.FormatUint(m.r.term(i), 10))
	}
}
func (m *monitor) queryEnts(im *impl, k int, lo, hi, mx uint64) {
	if m.on {
		m.eq(k, fmt.Sprintf("entries[%d,%d) max %d", lo, hi, mx), im.entries(lo, hi, mx), m.r.entries(lo, hi, mx))
	}
}

func (m *monitor) after(im *impl, k int, f []string) {
	if !m.on {
		return
	}
	m.r.step(f)
	m.check(im, k, f[0])
	if f[0] == "G" && im.last != nil {
		m.checkUpdate(im, k, *im.last)
	}
}

func (m *monitor) check(im *impl, k int, what string) {
	if !m.on {
		return
	}
	r := m.r
	fi, la := im.log.FirstIndex(), im.log.LastIndex()
	m.eq(k, "firstIndex", fmt.Sprint(fi), fmt.Sprint(r.first()))
	m.eq(k, "lastIndex", fmt.Sprint(la), fmt.Sprint(r.last()))
	m.eq(k, "committed", fmt.Sprint(im.log.Committed()), fmt.Sprint(r.committed))
	m.eq(k, "processed", fmt.Sprint(im.log.Processed()), fmt.Sprint(r.processed))
	lo := r.first()
	if lo >= 2 {
		lo -= 2
	} else {
		lo = 0
	}
	for i := lo; i <= r.last()+2; i++ {
		m.eq(k, fmt.Sprintf("term(%d)", i), im.term(i), fmt.Sprint(r.term(i)))
	}
	m.eq(k, "entries[first,last+1)", im.entries(r.first(), r.last()+1, math.MaxUint64), r.entries(r.first(), r.last()+1, math.MaxUint64))
	m.eq(k, "entries[first,last+1) max 300", im.entries(r.first(), r.last()+1, 300), r.entries(r.first(), r.last()+1, 300))
	m.eq(k, "entriesToSave", showEnts(im.log.EntriesToSave()), showRents(r.toSave()))
	m.eq(k, "entriesToApply", im.toApply(), r.toApply())
	m.eq(k, "hasEntriesToApply", fmt.Sprint(im.log.HasEntriesToApply()), fmt.Sprint(r.hasToApply()))
	// an entry is considered saved only if the store holds its current version
	saved := im.log.InMem().SavedTo
	for i := r.first(); i <= saved && i <= r.last(); i++ {
		want, _ := r.get(i)
		got, ok := im.st.get(i)
		if !ok || rentOf(got) != want {
			m.viol(k, fmt.Sprintf("saved-not-persisted: index %d counts as saved (savedTo=%d) but the store holds %v (present=%v), the log holds %v",
				i, saved, rentOf(got), ok, want))
			break
		}
	}
}

// an entry is never handed out for apply before it is committed and handed out for persistence
func (m *monitor) checkUpdate(im *impl, k int, ud pb.Update) {
	saved := im.log.InMem().SavedTo
	committed := im.log.Committed()
	var sf, sl uint64
	if n := len(ud.EntriesToSave); n > 0 {
		sf, sl = ud.EntriesToSave[0].Index, ud.EntriesToSave[n-1].Index
	}
	for _, e := range ud.CommittedEntries {
		want, ok := m.r.get(e.Index)
		if !ok || rentOf(e) != want {
			m.viol(k, fmt.Sprintf("apply-wrong-entry: handed out %v, the log holds %v", rentOf(e), want))
		}
		if e.Index > committed {
			m.viol(k, fmt.Sprintf("apply-not-committed: index %d handed out for apply, committed=%d", e.Index, committed))
		}
		inSave := sf != 0 && sf <= e.Index && e.Index <= sl
		if e.Index > saved && !inSave {
			m.viol(k, fmt.Sprintf("apply-not-handed-to-persist: index %d handed out for apply, savedTo=%d, update saves [%d,%d]", e.Index, saved, sf, sl))
		}
		if ud.FastApply && e.Index > saved {
			m.viol(k, fmt.Sprintf("fast-apply-unsaved: FastApply update applies index %d, savedTo=%d", e.Index, saved))
		}
	}
	for _, e := range ud.EntriesToSave {
		want, ok := m.r.get(e.Index)
		if !ok || rentOf(e) != want {
			m.viol(k, fmt.Sprintf("save-wrong-entry: handed out %v for persistence, the log holds %v", rentOf(e), want))
		}
	}
	// everything above savedTo must be handed out
	if m.r.last() > saved && sl != m.r.last() {
		m.viol(k, fmt.Sprintf("unsaved-entries-not-handed-out: lastIndex=%d savedTo=%d, update saves [%d,%d]", m.r.last(), saved, sf, sl))
	}
}

func (m *monitor) wouldTruncate(f []string) bool {
	es := parseEnts(f[len(f)-1])
	if !m.on || len(es) == 0 {
		return false
	}
	switch f[0] {
	case "A":
		return es[0].Index <= m.r.last()
	case "R":
		li, lt := u(f[1]), u(f[2])
		if li < m.r.committed || m.r.term(li) != lt {
			return false
		}
		c := m.r.conflict(es)
		return c != 0 && c <= m.r.last()
	}
	return false
}
