package main

import (
	"fmt"
	"strings"

	pb "github.com/lni/dragonboat/v4/raftpb"
	"verif/harness/vh"
)

// generator: drives the plain-slice reference to produce well-formed sequences;
// "wild" cases break the GetUpdate/Persist/Commit cycle discipline and inject
// malformed arguments (differential only).

type gen struct {
	r     *vh.Rand
	ref   *ref
	term  uint64 // current term of the imagined cluster
	key   uint64
	ops   []string
	wild  bool
	out   int // outstanding updates in wild mode
	store string
}

func (g *gen) lens() int {
	switch g.r.Intn(5) {
	case 0:
		return 0
	case 1:
		return g.r.Intn(8)
	case 2:
		return 100 + g.r.Intn(100)
	default:
		return g.r.Intn(60)
	}
}

func (g *gen) mk(idx, term uint64) pb.Entry {
	g.key++
	return pb.Entry{Index: idx, Term: term, Key: g.key, Cmd: make([]byte, g.lens())}
}

func (g *gen) emit(op string) {
	g.ops = append(g.ops, op)
	f := strings.Fields(op)
	if f[0] == "QT" || f[0] == "QE" {
		return
	}
	if g.ref.wfOp(f) && !g.wild {
		defer func() {
			if x := recover(); x != nil {
				panic(fmt.Sprintf("%v\nref=%+v\nops=%s", x, *g.ref, strings.Join(g.ops, " ; ")))
			}
		}()
		g.ref.step(f)
	} else if !g.wild {
		panic("generator produced a non-well-formed op: " + op)
	} else {
		// keep a rough idea of the state in wild mode
		func() {
			defer func() { _ = recover() }()
			g.ref.step(f)
		}()
	}
}

// boundary: an index at or just outside one of the boundaries of the log view:
// marker, first, what has been handed out / saved (where the in-memory window and
// the reader's range end), last
func (g *gen) boundary() uint64 {
	r := g.ref
	b := []uint64{r.mi, r.mi + 1, r.processed, r.processed + 1, r.saved, r.saved + 1, r.saved + 2,
		r.committed, r.last(), r.last() + 1, r.last() + 2}
	x := b[g.r.Intn(len(b))]
	if g.r.Chance(1, 6) && x > 0 {
		x--
	}
	return x
}

func (g *gen) query() {
	if g.r.Chance(1, 2) { // at and just outside every boundary
		if g.r.Bool() {
			g.emit(fmt.Sprintf("QT %d", g.boundary()))
			return
		}
		lo, hi := g.boundary(), g.boundary()
		if lo > hi && g.r.Chance(9, 10) {
			lo, hi = hi, lo
		}
		mx := []uint64{0, 128, 300, 1000, ^uint64(0)}[g.r.Intn(5)]
		g.emit(fmt.Sprintf("QE %d %d %d", lo, hi, mx))
		return
	}
	r := g.ref
	span := uint64(len(r.ents) + 4)
	base := r.mi
	if base >= 2 {
		base -= 2
	}
	if g.r.Bool() {
		g.emit(fmt.Sprintf("QT %d", base+uint64(g.r.Intn(int(span)+1))))
		return
	}
	lo := r.first() + uint64(g.r.Intn(len(r.ents)+1))
	hi := lo + uint64(g.r.Intn(int(r.last()+1-lo)+1))
	if g.r.Chance(1, 12) && lo > 0 {
		lo-- // may fall below first: ErrCompacted
	}
	mx := []uint64{0, 1, 128, 129, 200, 300, 500, 1000, 1 << 40, ^uint64(0)}[g.r.Intn(10)]
	g.emit(fmt.Sprintf("QE %d %d %d", lo, hi, mx))
}

func (g *gen) leaderAppend() {
	r := g.ref
	if g.r.Chance(1, 4) {
		g.term += uint64(1 + g.r.Intn(2))
	}
	if t := r.term(r.last()); g.term < t {
		g.term = t
	}
	if g.term == 0 {
		g.term = 1
	}
	n := 1 + g.r.Intn(4)
	var es []pb.Entry
	for i := 0; i < n; i++ {
		es = append(es, g.mk(r.last()+1+uint64(i), g.term))
	}
	g.emit("A " + showEnts(es))
}

func (g *gen) copyOf(i uint64) pb.Entry {
	e, _ := g.ref.get(i)
	return pb.Entry{Index: e.idx, Term: e.term, Key: e.key, Cmd: make([]byte, e.ln)}
}

// follower Replicate: prefix that matches, then (maybe) a conflict at any position above commit
func (g *gen) replicate() {
	r := g.ref
	lo := r.committed
	if g.r.Chance(1, 10) && r.mi < r.committed {
		lo = r.mi + uint64(g.r.Intn(int(r.committed-r.mi))) // stale message: below committed
	}
	li := lo + uint64(g.r.Intn(int(r.last()-lo)+1))
	if li < r.mi {
		li = r.mi
	}
	lt := r.term(li)
	mismatch := false
	if g.r.Chance(1, 10) { // does not match: rejected
		mismatch = true
		if lt >= 2 && g.r.Bool() {
			lt--
		} else {
			lt += 1 + uint64(g.r.Intn(2))
		}
	}
	if lt == 0 && li != 0 {
		lt = 1
	}
	// where the new entries start to differ
	j := li + 1 + uint64(g.r.Intn(int(r.last()-li)+1)) // in (li, last+1]
	if j <= r.committed {
		j = r.committed + 1
	}
	if mismatch && lt > r.term(li) {
		j = li + 1 // no copied prefix: its terms would be below lt
	}
	var es []pb.Entry
	for i := li + 1; i < j && i <= r.last(); i++ {
		es = append(es, g.copyOf(i))
	}
	nnew := g.r.Intn(4)
	if nnew > 0 {
		prev := lt
		if j-1 != li {
			prev = r.term(j - 1)
		}
		if lt > prev {
			prev = lt
		}
		t := prev
		if old := r.term(j); j <= r.last() && old != 0 {
			// must differ from what is there to be a conflict; pick above or (if room) below
			if old > prev && g.r.Bool() {
				t = prev + uint64(g.r.Intn(int(old-prev)))
			} else {
				t = old + 1 + uint64(g.r.Intn(2))
			}
		} else if g.r.Bool() {
			t = prev + uint64(g.r.Intn(3))
		}
		if t < 1 {
			t = 1
		}
		if t < lt {
			t = lt
		}
		if t > g.term {
			g.term = t
		}
		for i := 0; i < nnew; i++ {
			if i > 0 && g.r.Chance(1, 4) {
				t++
				if t > g.term {
					g.term = t
				}
			}
			es = append(es, g.mk(j+uint64(i), t))
		}
	}
	// the copied prefix must not start below lt (terms_from): it is existing log, so it is fine when lt matches
	commit := uint64(g.r.Intn(int(r.last()-r.mi)+4)) + r.mi
	g.emit(fmt.Sprintf("R %d %d %d %s", li, lt, commit, showEnts(es)))
}

func (g *gen) commitTo() {
	r := g.ref
	if r.last() == r.committed {
		g.emit(fmt.Sprintf("C %d", r.committed-uint64(g.r.Intn(2))*min64(1, r.committed)))
		return
	}
	g.emit(fmt.Sprintf("C %d", r.committed+1+uint64(g.r.Intn(int(r.last()-r.committed)))))
}

func min64(a, b uint64) uint64 {
	if a < b {
		return a
	}
	return b
}

func (g *gen) lastApplied() uint64 {
	r := g.ref
	switch g.r.Intn(6) {
	case 0, 1, 2:
		return r.processed
	case 3:
		return 0
	default:
		return uint64(g.r.Intn(int(r.processed) + 1))
	}
}

func (g *gen) compact() {
	r := g.ref
	if r.processed == 0 || (!g.wild && r.snap && !r.persisted) {
		return
	}
	k := uint64(g.r.Intn(int(r.processed) + 1))
	if r.processed > r.mi && g.r.Chance(3, 4) {
		k = r.mi + 1 + uint64(g.r.Intn(int(r.processed-r.mi)))
	}
	g.emit(fmt.Sprintf("X %d", k))
}

func (g *gen) cycle() {
	more := 1
	if g.r.Chance(1, 5) {
		more = 0
	}
	g.emit(fmt.Sprintf("G %d %d", more, g.lastApplied()))
	if g.r.Chance(1, 4) {
		g.query()
	}
	if g.r.Chance(1, 8) {
		g.compact()
	}
	g.emit("P")
	for g.r.Chance(1, 4) {
		if g.r.Bool() {
			g.compact()
		} else {
			g.query()
		}
	}
	g.emit("K")
}

func (g *gen) restore() {
	r := g.ref
	i := r.committed + 1 + uint64(g.r.Intn(int(r.last()-r.committed)+4))
	t := r.term(i)
	if t == 0 || g.r.Chance(2, 3) {
		t = g.term + uint64(g.r.Intn(2))
		if t == 0 {
			t = 1
		}
	}
	if g.r.Chance(1, 10) && r.committed > 0 {
		i = uint64(g.r.Intn(int(r.committed) + 1)) // at or below committed: ignored
	}
	if t > g.term {
		g.term = t
	}
	g.emit(fmt.Sprintf("S %d %d", i, t))
}

// wild steps: the same ingredients without the cycle discipline, plus malformed arguments
func (g *gen) wildStep() {
	r := g.ref
	switch g.r.Intn(18) {
	case 14: // the store alone is compacted (another path): it holds less than the reader claims
		if g.store == "plain" || g.store == "batched" {
			// the real plain store panics (MustUnmarshal: EOF) when a single removed index at or
			// below its max index is read; the engine never gets there (the reader is compacted
			// first), the abstract store has no such outcome
			g.query()
			return
		}
		g.emit(fmt.Sprintf("XS %d", r.mi+uint64(g.r.Intn(len(r.ents)+2))))
		g.query()
	case 15: // the reader's range is set directly: shorter or longer than what the store holds
		first := r.mi + 1 + uint64(g.r.Intn(len(r.ents)+1))
		g.emit(fmt.Sprintf("LR %d %d", first, g.r.Intn(4)))
		g.query()
	case 16:
		if first := r.mi + 1; g.r.Bool() && r.saved >= first { // cut the claimed range short of what was saved
			cut := first + uint64(g.r.Intn(int(r.saved-first)+1))
			g.emit(fmt.Sprintf("LR %d 1", cut))
			g.query()
		} else {
			g.emit(fmt.Sprintf("CC %d", 20+g.r.Intn(60)))
		}
	case 17:
		g.query()
	case 0:
		g.emit(fmt.Sprintf("G %d %d", g.r.Intn(2), g.lastApplied()))
		g.out++
	case 1, 2:
		g.emit("P")
	case 3, 4:
		g.emit("K")
	case 5:
		// malformed append: gap, below committed, decreasing term, empty
		idx := r.last() + 1
		t := g.term
		switch g.r.Intn(5) {
		case 0:
			idx += 1 + uint64(g.r.Intn(2))
		case 1:
			idx = uint64(g.r.Intn(int(r.committed) + 1))
		case 2:
			if t > 1 {
				t--
			}
		case 3:
			g.emit("A -")
			return
		}
		es := []pb.Entry{g.mk(idx, t), g.mk(idx+1+uint64(g.r.Intn(2)), t)}
		g.emit("A " + showEnts(es))
	case 6:
		g.emit(fmt.Sprintf("C %d", r.last()+uint64(g.r.Intn(3))))
	case 7:
		g.emit(fmt.Sprintf("G 1 %d", r.committed+uint64(g.r.Intn(3))))
		g.out++
	case 8:
		g.emit(fmt.Sprintf("X %d", r.mi+uint64(g.r.Intn(len(r.ents)+3))))
	case 9:
		g.emit(fmt.Sprintf("S %d %d", uint64(g.r.Intn(int(r.last())+4)), uint64(g.r.Intn(3))))
	case 10:
		// conflict at or below committed / beyond the end with term 0
		li := r.mi + uint64(g.r.Intn(len(r.ents)+3))
		es := []pb.Entry{g.mk(li+1, g.term+1), g.mk(li+2, g.term+1)}
		g.emit(fmt.Sprintf("R %d %d %d %s", li, r.term(li), r.last()+2, showEnts(es)))
	default:
		g.wfStep()
	}
}

func (g *gen) wfStep() {
	if g.ref.pend != nil && !g.wild {
		panic("wfStep while an update is outstanding")
	}
	switch x := g.r.Intn(20); {
	case x < 4:
		g.leaderAppend()
	case x < 9:
		g.replicate()
	case x < 11:
		g.commitTo()
	case x < 15:
		if g.wild {
			g.emit(fmt.Sprintf("G %d %d", g.r.Intn(2), g.lastApplied()))
			g.out++
		} else {
			g.cycle()
		}
	case x < 16:
		g.restore()
	case x < 17:
		g.compact()
	default:
		g.query()
	}
}

func genCase(r *vh.Rand, i int, tier string) string {
	g := &gen{r: r}
	g.wild = i%3 == 2
	// initial state: marker, persisted entries, committed
	var mi, mt uint64
	switch r.Intn(4) {
	case 0:
	case 1:
		mi, mt = uint64(1+r.Intn(5)), uint64(1+r.Intn(3))
	case 2:
		mi, mt = uint64(r.Intn(1000)), uint64(1+r.Intn(3))
	default:
		mi, mt = 1<<40+uint64(r.Intn(100)), uint64(1+r.Intn(9))
	}
	if mi == 0 {
		mt = 0
	}
	g.term = mt
	if g.term == 0 {
		g.term = 1
	}
	var ents []pb.Entry
	for k, n := 0, r.Intn(7); k < n; k++ {
		if r.Chance(1, 3) {
			g.term++
		}
		ents = append(ents, g.mk(mi+1+uint64(k), g.term))
	}
	committed := mi + uint64(r.Intn(len(ents)+1))
	limit := []uint64{64 * 1024 * 1024, 200, 300, 450, 1000, 128}[r.Intn(6)]
	wf := 1
	if g.wild {
		wf = 0
	}
	h := header{mi: mi, mt: mt, committed: committed, limit: limit, ents: ents}
	g.ref = newMonitor(h, "", nil).r
	switch r.Intn(6) {
	case 0:
		g.store = "plain"
	case 1:
		g.store = "batched"
	case 2, 3:
		g.store = "front"
	}
	n := 6 + r.Intn(30)
	if tier == "thorough" {
		n = 6 + r.Intn(80)
	}
	for k := 0; k < n; k++ {
		if g.wild && r.Chance(1, 2) {
			g.wildStep()
		} else if g.wild || g.ref.pend == nil {
			g.wfStep()
		}
	}
	// dimensions without a counterpart in the operation sequence
	opts := ""
	switch r.Intn(6) {
	case 0, 1: // a real rate limiter under inMemory
		opts += fmt.Sprintf(" rl=%d", []uint64{1, 500, 100000, 1 << 40}[r.Intn(4)])
	case 2: // present but not enabled
		opts += fmt.Sprintf(" rl=%d", []uint64{0, ^uint64(0)}[r.Intn(2)])
	}
	if r.Chance(3, 4) { // small capacity thresholds so that resize()/shrunk are crossed all the time
		ss := [][2]uint64{{2, 1}, {4, 1}, {4, 3}, {8, 3}, {16, 15}, {6, 2}}[r.Intn(6)]
		opts += fmt.Sprintf(" ss=%d:%d", ss[0], ss[1])
	}
	if g.store != "" {
		opts += " st=" + g.store
	}
	return fmt.Sprintf("I %d %d %d %d %d %s%s | %s", mi, mt, committed, limit, wf, showEnts(ents), opts, strings.Join(g.ops, " ; "))
}
