// C19 harness: the raft core's view of its log (entryLog + inMemory + Peer
// GetUpdate/Commit + the real LogReader over an in-memory entry store) versus
// the Coq model, plus the property monitor against a plain-slice reference.
package main

import (
	"context"
	"errors"
	"fmt"
	"math"
	"os"
	"os/exec"
	"path/filepath"
	"strconv"
	"strings"
	"sync"
	"time"

	"github.com/lni/dragonboat/v4/logger"
	pb "github.com/lni/dragonboat/v4/raftpb"
	c19 "github.com/lni/dragonboat/v4/verifhooks/c19"
	"verif/harness/vh"
)

// ---------- quiet logger: Panicf panics with the formatted message ----------

type qlog struct{}

func (qlog) SetLevel(logger.LogLevel)          {}
func (qlog) Debugf(string, ...interface{})     {}
func (qlog) Infof(string, ...interface{})      {}
func (qlog) Warningf(string, ...interface{})   {}
func (qlog) Errorf(string, ...interface{})     {}
func (qlog) Panicf(f string, a ...interface{}) { panic(fmt.Sprintf(f, a...)) }

// ---------- entries ----------

func parseEntry(s string) pb.Entry {
	f := strings.Split(s, ":")
	if len(f) != 4 {
		panic("bad entry " + s)
	}
	return pb.Entry{Index: u(f[0]), Term: u(f[1]), Key: u(f[2]), Cmd: make([]byte, int(u(f[3])))}
}
func parseEnts(s string) []pb.Entry {
	if s == "-" {
		return nil
	}
	var out []pb.Entry
	for _, x := range strings.Split(s, ",") {
		out = append(out, parseEntry(x))
	}
	return out
}
func u(s string) uint64 {
	v, err := strconv.ParseUint(s, 10, 64)
	if err != nil {
		panic(err)
	}
	return v
}
func showEntry(e pb.Entry) string {
	return fmt.Sprintf("%d:%d:%d:%d", e.Index, e.Term, e.Key, len(e.Cmd))
}
func showEnts(l []pb.Entry) string {
	if len(l) == 0 {
		return "-"
	}
	s := make([]string, len(l))
	for i, e := range l {
		s[i] = showEntry(e)
	}
	return strings.Join(s, ",")
}

// ---------- outcome names (same enums as the model) ----------

func errName(err error) string {
	switch {
	case errors.Is(err, c19.ErrCompacted):
		return "compacted"
	case errors.Is(err, c19.ErrUnavailable):
		return "unavailable"
	case errors.Is(err, c19.ErrSnapshotOutOfDate):
		return "snapoutofdate"
	case strings.Contains(err.Error(), "gap found"):
		return "gap"
	case strings.Contains(err.Error(), "high ("):
		return "badrange"
	}
	return "other"
}

var panicTags = []struct{ sub, tag string }{
	{"invalid low value", "inmemlow"}, {"invalid high value", "inmemhigh"},
	{"found a hole", "hole"}, {"term value not expected", "termorder"},
	{"marker index", "marker"}, {"runtime error", "oor"},
	{"im.appliedToTerm == 0", "appliedterm0"}, {"lastEntry.Index != index", "applyidx"},
	{"input low", "boundlowhigh"}, {"is out of bound", "boundhigh"},
	{"uint64(len(ents)) > upperBound-low", "logdblen"},
	{"conflicts with committed entry", "conflictcommitted"},
	{"committed entries being changed", "appendcommitted"},
	{"invalid commitTo index", "committo"}, {"invalid ApplyReturnedTo", "processed"},
	{"invalid last applied %d, committed", "lastappliedcommitted"},
	{"invalid last applied %d, processed", "lastappliedprocessed"},
	{"committed value moving backwards ss index", "restoreback"},
	{"trying to apply not committed entry", "applynotcommitted"},
	{"trying to apply not saved entry", "applynotsaved"},
	{"gap in log entries", "readergap"}, {"gap in entries", "appendgap"},
	{"failed to get term", "describe"},
}

func panicName(p string) string {
	if strings.Contains(p, "invalid last applied") {
		if strings.Contains(p, "committed") {
			return "lastappliedcommitted"
		}
		return "lastappliedprocessed"
	}
	for _, t := range panicTags {
		if strings.Contains(p, t.sub) {
			return t.tag
		}
	}
	return "unknown(" + p + ")"
}

// catch runs f; returns "" or "panic:<tag>"
func catch(f func()) string {
	if p := vh.Catch(f); p != "" {
		return "panic:" + panicName(p)
	}
	return ""
}

// ---------- the implementation under test ----------

type pendUD struct {
	ud        pb.Update
	persisted bool
}

type impl struct {
	st    entryStore
	lr    *c19.LogReader
	log   *c19.Log
	queue []*pendUD
	last  *pb.Update
	held  []heldSlice // every slice the log has handed out so far, with what it held then
}

// heldSlice: a slice returned by the log (entries to save / to apply / a range)
// that a caller may still hold (the engine holds EntriesToSave until the store has
// it, CommittedEntries sit in the apply queue while raft goes on), and its
// content at the time it was handed out.
type heldSlice struct {
	what string
	at   int
	s    []pb.Entry
	was  string
}

func (m *impl) hold(what string, at int, s []pb.Entry) {
	if len(s) > 0 {
		m.held = append(m.held, heldSlice{what, at, s, showEnts(s)})
	}
}

// aliasing: no later operation may change what an earlier handed-out slice shows
func (m *impl) checkHeld(viol func(string)) {
	for _, h := range m.held {
		if now := showEnts(h.s); now != h.was {
			viol(fmt.Sprintf("aliasing: the slice handed out as %s at op %d showed %s and now shows %s", h.what, h.at, h.was, now))
			return
		}
	}
}

func newImpl(h header) *impl {
	st := newStore(h.store)
	st.save(h.ents)
	shard, replica := st.ids()
	lr := c19.NewLogReader(shard, replica, st.db())
	lr.SetCompactor(nopCompactor{})
	if h.mi > 0 {
		if err := lr.ApplySnapshot(pb.Snapshot{Index: h.mi, Term: h.mt}); err != nil {
			panic(err)
		}
	}
	lr.SetRange(h.mi+1, uint64(len(h.ents)))
	return &impl{st: st, lr: lr, log: c19.NewLogRL(lr, h.committed, h.rlmax)}
}

func resU(v uint64, err error, p string) string {
	if p != "" {
		return p
	}
	if err != nil {
		return "err:" + errName(err)
	}
	return strconv.FormatUint(v, 10)
}
func resE(l []pb.Entry, err error, p string) string {
	if p != "" {
		return p
	}
	if err != nil {
		return "err:" + errName(err)
	}
	return showEnts(l)
}

func (m *impl) term(i uint64) string {
	var v uint64
	var err error
	p := catch(func() { v, err = m.log.Term(i) })
	return resU(v, err, p)
}
func (m *impl) entries(lo, hi, mx uint64) string {
	var l []pb.Entry
	var err error
	p := catch(func() { l, err = m.log.GetEntries(lo, hi, mx) })
	return resE(l, err, p)
}
func (m *impl) entriesHeld(at int, lo, hi, mx uint64) string {
	var l []pb.Entry
	var err error
	p := catch(func() { l, err = m.log.GetEntries(lo, hi, mx) })
	m.hold(fmt.Sprintf("getEntries(%d,%d,%d)", lo, hi, mx), at, l)
	return resE(l, err, p)
}
func (m *impl) toApply() string {
	var l []pb.Entry
	var err error
	p := catch(func() { l, err = m.log.EntriesToApply() })
	return resE(l, err, p)
}

func (m *impl) digest(at int) string {
	f, l := m.log.FirstIndex(), m.log.LastIndex()
	im := m.log.InMem()
	ss := "-"
	if im.HasSnapshot {
		ss = fmt.Sprintf("%d:%d", im.SnapshotIndex, im.SnapshotTerm)
	}
	rf, rl := m.lr.GetRange()
	rm := rf - 1
	rt, _ := m.lr.Term(rm)
	var ts []string
	for i, g := f-1, 0; i <= l+1 && g <= 400; i, g = i+1, g+1 {
		ts = append(ts, m.term(i))
	}
	T := "-"
	if len(ts) > 0 {
		T = strings.Join(ts, ",")
	}
	has := 0
	if m.log.HasEntriesToApply() {
		has = 1
	}
	rls := "-"
	if sz, on := m.log.RLSize(); on {
		rls = fmt.Sprint(sz)
	}
	save := m.log.EntriesToSave()
	m.hold("entriesToSave", at, save)
	var app, all []pb.Entry
	var aerr, lerr error
	ap := catch(func() { app, aerr = m.log.EntriesToApply() })
	lp := catch(func() { all, lerr = m.log.GetEntries(f, l+1, math.MaxUint64) })
	m.hold("entriesToApply", at, app)
	m.hold("getEntries(first,last+1)", at, all)
	return fmt.Sprintf("f=%d l=%d c=%d p=%d s=%d m=%d a=%d:%d ss=%s im=%s lr=%d:%d:%d T=%s save=%s apply=%s has=%d all=%s q=%d rl=%s",
		f, l, m.log.Committed(), m.log.Processed(), im.SavedTo, im.MarkerIndex, im.AppliedToIndex, im.AppliedToTerm,
		ss, showEnts(im.Entries), rm, rt, rl-rm+1, T, showEnts(save), resE(app, aerr, ap), has,
		resE(all, lerr, lp), len(m.queue), rls)
}

func showUD(ud pb.Update) string {
	snap := "-"
	if !pb.IsEmptySnapshot(ud.Snapshot) {
		snap = fmt.Sprintf("%d:%d", ud.Snapshot.Index, ud.Snapshot.Term)
	}
	b := func(x bool) int {
		if x {
			return 1
		}
		return 0
	}
	c := ud.UpdateCommit
	return fmt.Sprintf("ud:save=%s;apply=%s;more=%d;snap=%s;commit=%d;la=%d;fast=%d;uc=%d:%d:%d:%d:%d",
		showEnts(ud.EntriesToSave), showEnts(ud.CommittedEntries), b(ud.MoreCommittedEntries), snap,
		ud.Commit, ud.LastApplied, b(ud.FastApply), c.Processed, c.LastApplied, c.StableLogTo, c.StableLogTerm, c.StableSnapshotTo)
}

// exec runs one state-changing op on the real code; outcome "ok", "err:x" or "panic:x"
func (m *impl) exec(f []string) string {
	var err error
	p := catch(func() {
		switch f[0] {
		case "A":
			m.log.Append(parseEnts(f[1]))
		case "R":
			err = m.log.Replicate(u(f[1]), u(f[2]), u(f[3]), parseEnts(f[4]))
		case "C":
			m.log.CommitTo(u(f[1]))
		case "G":
			var ud pb.Update
			ud, err = m.log.GetUpdate(f[1] == "1", u(f[2]))
			if err == nil {
				m.queue = append(m.queue, &pendUD{ud: ud})
				m.last = &ud
				m.hold("Update.EntriesToSave", len(m.held), ud.EntriesToSave)
				m.hold("Update.CommittedEntries", len(m.held), ud.CommittedEntries)
			}
		case "P":
			for _, q := range m.queue {
				if q.persisted {
					continue
				}
				// engine: SaveRaftState, processSnapshot (soft errors ignored), LogReader.Append
				m.st.save(q.ud.EntriesToSave)
				if !pb.IsEmptySnapshot(q.ud.Snapshot) {
					if e := m.lr.ApplySnapshot(q.ud.Snapshot); e != nil && !errors.Is(e, c19.ErrSnapshotOutOfDate) {
						err = e
						return
					}
				}
				err = m.lr.Append(q.ud.EntriesToSave)
				q.persisted = true
				break
			}
		case "K":
			if len(m.queue) > 0 && m.queue[0].persisted {
				m.log.Commit(m.queue[0].ud)
				m.queue = m.queue[1:]
			}
		case "XS": // the store alone drops entries (compaction by another path): it now holds less than the reader claims
			m.st.removeTo(u(f[1]))
		case "LR": // LogReader.SetRange called directly: the reader claims less / more than the store holds
			m.lr.SetRange(u(f[1]), u(f[2]))
		case "CC": // concurrent callers on the LogReader (step worker vs snapshot/compaction goroutines); no state change
			m.conc(int(u(f[1])))
		case "S":
			_, err = m.log.Restore(u(f[1]), u(f[2]))
		case "X":
			k := u(f[1])
			// node.removeLog
			if e := m.lr.Compact(k); e != nil && !errors.Is(e, c19.ErrCompacted) {
				err = e
				return
			}
			m.st.removeTo(k)
		default:
			panic("unknown op " + f[0])
		}
	})
	if p != "" {
		return p
	}
	if err != nil {
		return "err:" + errName(err)
	}
	return "ok"
}

// conc: what runs concurrently in a NodeHost - the step worker reading through the
// LogReader (Term / Entries / GetRange / NodeState / Snapshot) while other goroutines
// call its mutators. The mutators used here are no-ops on the value level
// (Compact to the current marker, SetState with the current state), so the case
// stays deterministic; a -race build (thorough tier, child process) sees any
// unsynchronised access.
func (m *impl) conc(n int) {
	first, last := m.lr.GetRange()
	marker := first - 1
	st, _ := m.lr.NodeState()
	var wg sync.WaitGroup
	wg.Add(3)
	go func() {
		defer wg.Done()
		for i := 0; i < n; i++ {
			_ = m.lr.Compact(marker)
			m.lr.SetState(st)
			m.lr.SetRange(first, 0)
		}
	}()
	for r := 0; r < 2; r++ {
		go func(r int) {
			defer wg.Done()
			for i := 0; i < n; i++ {
				_, _ = m.lr.Term(marker + uint64((i+r)%3))
				_, _ = m.lr.GetRange()
				_, _ = m.lr.Entries(first, last+1, uint64(i%500))
				_, _ = m.lr.NodeState()
				_ = m.lr.Snapshot()
			}
		}(r)
	}
	wg.Wait()
}

// concRun: a populated log over the abstract and over a real store, then many
// rounds of concurrent LogReader callers. Meant to run under the race detector.
func concRun(n int) {
	if n <= 0 {
		n = 2000
	}
	for _, kind := range []string{"mem", "plain"} {
		h := parseHeader(strings.Fields("I 3 2 4 1000 1 4:2:1:5,5:2:2:0,6:3:3:9 st=" + kind))
		m := newImpl(h)
		for _, o := range []string{"A 7:3:4:0,8:3:5:1", "C 7", "G 1 3", "P", "K", "X 4", "G 1 5", "P", "K"} {
			if out := m.exec(strings.Fields(o)); out != "ok" {
				panic(o + ": " + out)
			}
		}
		m.conc(n)
		m.st.release()
	}
	fmt.Println("conc done")
}

// raceChild builds this harness with -race and runs its conc mode: the only way an
// unsynchronised access in LogReader (step worker vs snapshot/compaction goroutines)
// can be exhibited. Skipped with a note when no C toolchain is available.
func raceChild(st *vh.Stats) {
	exe, err := os.Executable()
	if err != nil {
		st.Notes["race_child"] = "skipped: " + err.Error()
		return
	}
	base := filepath.Dir(filepath.Dir(filepath.Dir(exe))) // <B>/.work/bin/<exe>
	src := filepath.Join(base, "harness")
	bin := filepath.Join(base, ".work", "bin", "c19-race")
	env := append(os.Environ(), "CGO_ENABLED=1", "GOFLAGS=-mod=mod", "GOPROXY=off", "GOSUMDB=off", "GOTOOLCHAIN=local")
	ctx, cancel := context.WithTimeout(context.Background(), 15*time.Minute)
	defer cancel()
	b := exec.CommandContext(ctx, "go", "build", "-race", "-tags", "verif", "-o", bin, "./cmd/c19")
	b.Dir, b.Env = src, env
	if out, err := b.CombinedOutput(); err != nil {
		msg := string(out)
		if len(msg) > 300 {
			msg = msg[len(msg)-300:]
		}
		st.Notes["race_child"] = "skipped: -race build failed: " + msg
		return
	}
	c := exec.CommandContext(ctx, bin, "conc", "-n", "3000")
	c.Env = append(os.Environ(), "GORACE=halt_on_error=1 exitcode=66")
	out, err := c.CombinedOutput()
	txt := string(out)
	if i := strings.Index(txt, "WARNING: DATA RACE"); i >= 0 || err != nil {
		if i < 0 {
			i = 0
		}
		msg := txt[i:]
		if len(msg) > 1200 {
			msg = msg[:1200]
		}
		st.Violation("CONC", "data race between concurrent LogReader callers (-race child): "+strings.ReplaceAll(msg, "\n", " | "))
		return
	}
	st.Notes["race_child"] = "ran under -race: 2 stores x 3000 rounds of Term/GetRange/Entries/NodeState/Snapshot against Compact/SetState/SetRange, no data race"
	st.Count("race-child.ran")
}

type nopCompactor struct{}

func (nopCompactor) Compact(uint64) error { return nil }

type header struct {
	mi, mt, committed, limit uint64
	wf                       bool
	ents                     []pb.Entry
	// optional dimensions (key=value tokens after the entries)
	rlmax          uint64 // rl=N: MaxInMemLogSize of a real rate limiter under inMemory (0 / MaxUint64 = not limited)
	sliceSz, minSz uint64 // ss=A:B: entrySliceSize / minEntrySliceSize (resize thresholds)
	store          string // st=mem|plain|batched: the persistent store under the real LogReader
}

func parseHeader(f []string) header {
	if len(f) < 7 || f[0] != "I" {
		panic("bad header " + strings.Join(f, " "))
	}
	h := header{mi: u(f[1]), mt: u(f[2]), committed: u(f[3]), limit: u(f[4]), wf: f[5] == "1", ents: parseEnts(f[6]), store: "mem"}
	for _, o := range f[7:] {
		switch {
		case strings.HasPrefix(o, "rl="):
			h.rlmax = u(o[3:])
		case strings.HasPrefix(o, "ss="):
			ab := strings.Split(o[3:], ":")
			h.sliceSz, h.minSz = u(ab[0]), u(ab[1])
		case strings.HasPrefix(o, "st="):
			h.store = o[3:]
		default:
			panic("bad header option " + o)
		}
	}
	return h
}

func splitCase(line string) (id string, hdr []string, ops []string) {
	line = strings.TrimSpace(line)
	line = strings.TrimSuffix(line, " |")
	head, body := line, ""
	if i := strings.Index(line, " | "); i >= 0 {
		head, body = line[:i], line[i+3:]
	}
	hf := strings.Fields(head)
	id, hdr = hf[0], hf[1:]
	for _, o := range strings.Split(body, " ; ") {
		if o = strings.TrimSpace(o); o != "" {
			ops = append(ops, o)
		}
	}
	return
}

func runCase(line string, obs *vh.LineWriter, st *vh.Stats) {
	id, hf, ops := splitCase(line)
	h := parseHeader(hf)
	old := c19.SetApplyLimit(h.limit)
	defer c19.SetApplyLimit(old)
	if h.sliceSz > 0 {
		a, b := c19.SetSliceSizes(h.sliceSz, h.minSz)
		defer c19.SetSliceSizes(a, b)
	}
	m := newImpl(h)
	defer m.st.release()
	mon := newMonitor(h, id, st)
	obs.Printf("%s init %s\n", id, m.digest(-1))
	mon.check(m, -1, "init")
	mon.always(m, -1)
	conflict, resaved, resized := false, false, false
	for k, o := range ops {
		f := strings.Fields(o)
		st.Count("op." + f[0])
		switch f[0] {
		case "QT":
			obs.Printf("%s %d term=%s\n", id, k, m.term(u(f[1])))
			mon.queryTerm(m, k, u(f[1]))
			continue
		case "QE":
			obs.Printf("%s %d ents=%s\n", id, k, m.entriesHeld(k, u(f[1]), u(f[2]), u(f[3])))
			mon.queryEnts(m, k, u(f[1]), u(f[2]), u(f[3]))
			continue
		}
		if f[0] == "R" || f[0] == "A" {
			if es := parseEnts(f[len(f)-1]); len(es) > 0 && es[0].Index <= m.log.LastIndex() {
				// may truncate; decided after the op by comparing
				conflict = conflict || mon.wouldTruncate(f)
			}
		}
		mon.before(m, k, f)
		_, cap0, shr0 := m.log.EntriesCap()
		mk0 := m.log.InMem().MarkerIndex
		out := m.exec(f)
		if _, cap1, _ := m.log.EntriesCap(); out == "ok" {
			mk1 := m.log.InMem().MarkerIndex
			switch {
			case f[0] == "K" && mk1 > mk0 && cap1 != cap0-int(mk1-mk0):
				resized = true // appliedLogTo trimmed and resizeEntrySlice gave the shrunk slice up
				st.Count("resize.in-appliedLogTo")
			case (f[0] == "A" || f[0] == "R") && shr0 && cap1 != cap0:
				resized = true // merge on a shrunk slice: resize() / newEntrySlice ran
				st.Count("resize.in-merge-on-shrunk")
			case (f[0] == "A" || f[0] == "R") && shr0:
				st.Count("merge-on-shrunk.in-place")
			}
		}
		if out != "ok" {
			obs.Printf("%s %d %s\n", id, k, out)
			st.Count("outcome." + out)
			mon.failed(k, o, out)
			break
		}
		if f[0] == "G" && m.last != nil {
			obs.Printf("%s %d ok %s %s\n", id, k, showUD(*m.last), m.digest(k))
		} else {
			obs.Printf("%s %d ok %s\n", id, k, m.digest(k))
		}
		mon.always(m, k)
		if f[0] == "K" && conflict {
			resaved = true
		}
		mon.after(m, k, f)
	}
	st.Count(fmt.Sprintf("case.wf=%v", h.wf))
	st.Count("store." + h.store)
	st.Count(fmt.Sprintf("ratelimiter.on=%v", h.rlmax > 0 && h.rlmax != math.MaxUint64))
	st.Count(fmt.Sprintf("slicesize=%d:%d", h.sliceSz, h.minSz))
	if resized {
		st.Count("case.resize-of-shrunk-slice-ran")
	}
	st.Case(line[len(id):], conflict && resaved, line)
}

func main() {
	logger.SetLoggerFactory(func(string) logger.ILogger { return qlog{} })
	a := vh.ParseArgs()
	switch a.Mode {
	case "gen":
		n := 1500
		if a.Tier == "thorough" {
			n = 15000
		}
		if a.N > 0 {
			n = a.N
		}
		r := vh.NewRand(a.Seed)
		w := vh.Create(a.Cases)
		for i := 0; i < n; i++ {
			w.Printf("%d %s\n", i, genCase(r, i, a.Tier))
		}
		w.Close()
	case "run":
		st := vh.NewStats("op sequences over entryLog+inMemory+Peer.GetUpdate/Commit+LogReader(real) over an in-memory entry store: " +
			"leader appends, follower Replicate with a conflict at any position above commit (also rejected / stale ones), commitTo, " +
			"GetUpdate/Persist/Compact*/Commit cycles with arbitrary apply lag and size-limited apply, snapshot restore (matching and replacing), " +
			"LogReader compaction, term/range queries with size limits; 2/3 well-formed (monitor on), 1/3 wild interleavings and malformed arguments " +
			"(differential only, panics compared). non-trivial = the case contains a truncating append (first new index <= last index) " +
			"followed by a completed GetUpdate/Commit cycle; distinct by full case text")
		obs := vh.Create(a.Out + "/impl.obs")
		lines := vh.ReadLines(a.Cases)
		for _, line := range lines {
			runCase(line, obs, st)
		}
		obs.Close()
		if a.Tier == "thorough" && len(lines) > 100 {
			raceChild(st)
		}
		st.Write(a.Out)
	case "conc":
		// child of the thorough tier, built with -race: concurrent LogReader callers
		concRun(a.N)
	}
}
