package main

import (
	"math"
	"sync/atomic"

	"github.com/lni/dragonboat/v4/raftio"
	pb "github.com/lni/dragonboat/v4/raftpb"
	c09 "github.com/lni/dragonboat/v4/verifhooks/c09"
)

// entryStore is the persistent entry store under the real LogReader: either the
// harness' abstract in-memory one (what the Coq model's store mirrors) or one of
// the REAL Pebble log stores (plain / batched entry format) over an in-memory
// file system, so that LogReader.entriesLocked runs against the real
// IterateEntries and the engine's SaveRaftState / RemoveEntriesTo.
type entryStore interface {
	save(ents []pb.Entry)
	removeTo(k uint64)
	get(i uint64) (pb.Entry, bool)
	db() raftio.ILogDB
	ids() (uint64, uint64)
	release()
}

func (s *memStore) db() raftio.ILogDB     { return s }
func (s *memStore) ids() (uint64, uint64) { return 1, 1 }
func (s *memStore) release()              {}

// one real store of each kind per process, a fresh replica id per case
var realDBs = map[string]raftio.ILogDB{}
var nextReplica uint64 = 100

type realStore struct {
	d              raftio.ILogDB
	shard, replica uint64
}

func newStore(kind string) entryStore {
	if kind == "" || kind == "mem" {
		return newMemStore()
	}
	if kind == "front" {
		s := newMemStore()
		s.front = true
		return s
	}
	d, ok := realDBs[kind]
	if !ok {
		var err error
		d, err = c09.OpenPebble(c09.NewMemFS(), "/c19-"+kind, 1, kind == "batched")
		if err != nil {
			panic(err)
		}
		realDBs[kind] = d
	}
	return &realStore{d: d, shard: 1, replica: atomic.AddUint64(&nextReplica, 1)}
}

func (s *realStore) save(ents []pb.Entry) {
	if len(ents) == 0 {
		return
	}
	cp := append([]pb.Entry(nil), ents...)
	ud := pb.Update{ShardID: s.shard, ReplicaID: s.replica, EntriesToSave: cp}
	if err := s.d.SaveRaftState([]pb.Update{ud}, 1); err != nil {
		panic(err)
	}
}
func (s *realStore) removeTo(k uint64) {
	if err := s.d.RemoveEntriesTo(s.shard, s.replica, k); err != nil {
		panic(err)
	}
}
func (s *realStore) get(i uint64) (e pb.Entry, ok bool) {
	defer func() {
		if recover() != nil { // the plain store panics on a removed single index
			e, ok = pb.Entry{}, false
		}
	}()
	es, _, err := s.d.IterateEntries(nil, 0, s.shard, s.replica, i, i+1, math.MaxUint64)
	if err != nil || len(es) != 1 || es[0].Index != i {
		return pb.Entry{}, false
	}
	return es[0], true
}
func (s *realStore) db() raftio.ILogDB     { return s.d }
func (s *realStore) ids() (uint64, uint64) { return s.shard, s.replica }
func (s *realStore) release() {
	_ = s.d.RemoveNodeData(s.shard, s.replica)
}

// memStore is the abstract persistent entry store: a raftio.ILogDB of which the
// LogReader only uses IterateEntries. Semantics follow internal/logdb/plain.go:
// entries are written under their index, the max index is the last index of the
// last save (so an overwrite truncates what can be read), iteration returns the
// contiguous run from low and stops after the entry that exceeds maxSize.
type memStore struct {
	ents map[uint64]pb.Entry
	max  uint64
	// front: a permissive store - IterateEntries starts at the first index it holds
	// at or above low (the interface only says "the continuous entries in [low, high)");
	// LogReader.entriesLocked has to turn such an answer into ErrCompacted
	front bool
}

func newMemStore() *memStore { return &memStore{ents: map[uint64]pb.Entry{}} }

func (s *memStore) save(ents []pb.Entry) {
	if len(ents) == 0 {
		return
	}
	for _, e := range ents {
		s.ents[e.Index] = e
	}
	s.max = ents[len(ents)-1].Index
}

func (s *memStore) removeTo(k uint64) {
	for i := range s.ents {
		if i <= k {
			delete(s.ents, i)
		}
	}
}

func (s *memStore) get(i uint64) (pb.Entry, bool) { e, ok := s.ents[i]; return e, ok }

func (s *memStore) IterateEntries(ents []pb.Entry, size uint64, shardID uint64, replicaID uint64,
	low uint64, high uint64, maxSize uint64) ([]pb.Entry, uint64, error) {
	if high > s.max+1 {
		high = s.max + 1
	}
	if s.front {
		for i := low; i < high; i++ {
			if _, ok := s.ents[i]; ok {
				low = i
				break
			}
		}
	}
	for i := low; i < high; i++ {
		e, ok := s.ents[i]
		if !ok {
			break
		}
		size += uint64(e.SizeUpperLimit())
		ents = append(ents, e)
		if size > maxSize {
			break
		}
	}
	return ents, size, nil
}

func (s *memStore) SaveRaftState(updates []pb.Update, shardID uint64) error {
	for _, ud := range updates {
		s.save(ud.EntriesToSave)
	}
	return nil
}
func (s *memStore) RemoveEntriesTo(shardID uint64, replicaID uint64, index uint64) error {
	s.removeTo(index)
	return nil
}

// unused parts of the interface
func (s *memStore) Name() string                                         { return "c19-mem" }
func (s *memStore) Close() error                                         { return nil }
func (s *memStore) BinaryFormat() uint32                                 { return 0 }
func (s *memStore) ListNodeInfo() ([]raftio.NodeInfo, error)             { return nil, nil }
func (s *memStore) SaveBootstrapInfo(uint64, uint64, pb.Bootstrap) error { return nil }
func (s *memStore) GetBootstrapInfo(uint64, uint64) (pb.Bootstrap, error) {
	return pb.Bootstrap{}, raftio.ErrNoBootstrapInfo
}
func (s *memStore) ReadRaftState(uint64, uint64, uint64) (raftio.RaftState, error) {
	return raftio.RaftState{}, raftio.ErrNoSavedLog
}
func (s *memStore) CompactEntriesTo(uint64, uint64, uint64) (<-chan struct{}, error) {
	ch := make(chan struct{})
	close(ch)
	return ch, nil
}
func (s *memStore) SaveSnapshots([]pb.Update) error                 { return nil }
func (s *memStore) GetSnapshot(uint64, uint64) (pb.Snapshot, error) { return pb.Snapshot{}, nil }
func (s *memStore) RemoveNodeData(uint64, uint64) error             { return nil }
func (s *memStore) ImportSnapshot(pb.Snapshot, uint64) error        { return nil }

var _ raftio.ILogDB = (*memStore)(nil)
