package main

import (
	"github.com/lni/dragonboat/v4/raftio"
	pb "github.com/lni/dragonboat/v4/raftpb"
)

// memStore is the abstract persistent entry store: a raftio.ILogDB of which the
// LogReader only uses IterateEntries. Semantics follow internal/logdb/plain.go:
// entries are written under their index, the max index is the last index of the
// last save (so an overwrite truncates what can be read), iteration returns the
// contiguous run from low and stops after the entry that exceeds maxSize.
type memStore struct {
	ents map[uint64]pb.Entry
	max  uint64
}

func newMemStore() *memStore { return &memStore{ents: map[uint64]pb.Entry{}} }

func (s *memStore) save(ents []pb.Entry) {
	if len(ents) == 0 {
		return
	}
	for _, e := range ents {
		s.ents[e.Index] = e
	}
	s.max = ents[len(ents)-1].Index
}

func (s *memStore) removeTo(k uint64) {
	for i := range s.ents {
		if i <= k {
			delete(s.ents, i)
		}
	}
}

func (s *memStore) get(i uint64) (pb.Entry, bool) { e, ok := s.ents[i]; return e, ok }

func (s *memStore) IterateEntries(ents []pb.Entry, size uint64, shardID uint64, replicaID uint64,
	low uint64, high uint64, maxSize uint64) ([]pb.Entry, uint64, error) {
	if high > s.max+1 {
		high = s.max + 1
	}
	for i := low; i < high; i++ {
		e, ok := s.ents[i]
		if !ok {
			break
		}
		size += uint64(e.SizeUpperLimit())
		ents = append(ents, e)
		if size > maxSize {
			break
		}
	}
	return ents, size, nil
}

func (s *memStore) SaveRaftState(updates []pb.Update, shardID uint64) error {
	for _, ud := range updates {
		s.save(ud.EntriesToSave)
	}
	return nil
}
func (s *memStore) RemoveEntriesTo(shardID uint64, replicaID uint64, index uint64) error {
	s.removeTo(index)
	return nil
}

// unused parts of the interface
func (s *memStore) Name() string                                         { return "c19-mem" }
func (s *memStore) Close() error                                         { return nil }
func (s *memStore) BinaryFormat() uint32                                 { return 0 }
func (s *memStore) ListNodeInfo() ([]raftio.NodeInfo, error)             { return nil, nil }
func (s *memStore) SaveBootstrapInfo(uint64, uint64, pb.Bootstrap) error { return nil }
func (s *memStore) GetBootstrapInfo(uint64, uint64) (pb.Bootstrap, error) {
	return pb.Bootstrap{}, raftio.ErrNoBootstrapInfo
}
func (s *memStore) ReadRaftState(uint64, uint64, uint64) (raftio.RaftState, error) {
	return raftio.RaftState{}, raftio.ErrNoSavedLog
}
func (s *memStore) CompactEntriesTo(uint64, uint64, uint64) (<-chan struct{}, error) {
	ch := make(chan struct{})
	close(ch)
	return ch, nil
}
func (s *memStore) SaveSnapshots([]pb.Update) error                 { return nil }
func (s *memStore) GetSnapshot(uint64, uint64) (pb.Snapshot, error) { return pb.Snapshot{}, nil }
func (s *memStore) RemoveNodeData(uint64, uint64) error             { return nil }
func (s *memStore) ImportSnapshot(pb.Snapshot, uint64) error        { return nil }

var _ raftio.ILogDB = (*memStore)(nil)
