// R17L harness: the in-memory rate limiter (internal/server InMemRateLimiter) and the quiesce
// state machine (quiesce.go quiesceState), the two pieces outside the raft core that can hold a
// shard back (C17: proposals are paused while RateLimited(), a quiesced replica gets
// QuiescedTick instead of Tick).
//
//	case: <id> rl max=<n> | T ; I <sz> ; D <sz> ; S <sz> ; X ; F <replica> <sz> ; L
//	      <id> q en=<0|1> et=<n> | T ; R <0|1> ; E ; F
//	obs:  <id> <i>:<letter>[=<0|1>]   (L: RateLimited(); T of q: quiesced after the tick; F: newQuiesceState())
//	monitor (implementation alone): a limiter that sees nothing in memory and no fresh follower
//	report for more than ChangeTickThreashold+gcTick ticks does not say "limited"; a disabled
//	limiter / disabled quiesce never limits / quiesces; a replica is not quiesced right after
//	a non-heartbeat record.
package main

import (
	"fmt"
	"os"
	"strconv"
	"strings"

	dragonboat "github.com/lni/dragonboat/v4"
	"github.com/lni/dragonboat/v4/raftpb"
	r17 "github.com/lni/dragonboat/v4/verifhooks/r17"
	"verif/harness/vh"
)

func gen(a vh.Args) {
	n := 600
	if a.Tier == "thorough" {
		n = 30000
	}
	if a.N > 0 {
		n = a.N
	}
	w := vh.Create(a.Cases)
	defer w.Close()
	maxes := []uint64{0, 1, 2, 9, 10, 100, 1000, 1 << 20, 2635249153387078803, 1<<64 - 2, 1<<64 - 1}
	for i := 0; i < n; i++ {
		r := vh.NewRand(a.Seed*1000003 + uint64(i))
		nops := 10 + r.Intn(80)
		var ops []string
		if i%2 == 0 {
			max := maxes[r.Intn(len(maxes))]
			if r.Chance(1, 3) {
				max = uint64(50 + r.Intn(500))
			}
			scale := max
			if scale == 0 || scale > 1<<40 {
				scale = 1000
			}
			sz := func() uint64 { return uint64(r.Intn(int(scale)*2 + 2)) }
			for k := 0; k < nops; k++ {
				switch x := r.Intn(100); {
				case x < 30:
					ops = append(ops, "T")
				case x < 55:
					ops = append(ops, "L")
				case x < 65:
					ops = append(ops, fmt.Sprintf("I %d", sz()))
				case x < 72:
					ops = append(ops, fmt.Sprintf("D %d", sz()/2))
				case x < 82:
					ops = append(ops, fmt.Sprintf("S %d", sz()))
				case x < 85:
					ops = append(ops, "X")
				default:
					ops = append(ops, fmt.Sprintf("F %d %d", 2+r.Intn(3), sz()))
				}
			}
			// drain and wait: the limiter must let go
			ops = append(ops, "X", "S 0")
			for k := 0; k < 16; k++ {
				ops = append(ops, "T", "L")
			}
			w.Printf("g%d_%d rl max=%d | %s\n", a.Seed, i, max, strings.Join(ops, " ; "))
		} else {
			et := uint64(1 + r.Intn(4))
			en := 1
			if r.Chance(1, 6) {
				en = 0
			}
			nops = 20 + r.Intn(200)
			for k := 0; k < nops; k++ {
				switch x := r.Intn(100); {
				case x < 70:
					ops = append(ops, "T")
				case x < 80:
					ops = append(ops, "R 1")
				case x < 87:
					ops = append(ops, "R 0")
				case x < 94:
					ops = append(ops, "E")
				default:
					ops = append(ops, "F")
				}
			}
			w.Printf("g%d_%d q en=%d et=%d | %s\n", a.Seed, i, en, et, strings.Join(ops, " ; "))
		}
	}
}

func atoi(s string) uint64 {
	v, err := strconv.ParseUint(s, 10, 64)
	if err != nil {
		panic(err)
	}
	return v
}

func field(hf []string, key string) string {
	for _, f := range hf {
		if strings.HasPrefix(f, key+"=") {
			return f[len(key)+1:]
		}
	}
	panic("missing field " + key)
}

func b01(b bool) string {
	if b {
		return "1"
	}
	return "0"
}

func runCase(line string, out *vh.LineWriter, st *vh.Stats) {
	parts := strings.SplitN(line, " | ", 2)
	if len(parts) != 2 {
		return
	}
	hf := strings.Fields(parts[0])
	id := hf[0]
	ops := strings.Split(parts[1], " ; ")
	viol := func(msg string) { st.Violation(id, msg) }
	if hf[1] == "rl" {
		max := atoi(field(hf, "max"))
		rl := r17.NewRateLimiter(max)
		enabled := max > 0 && max != 1<<64-1
		wraps := max > (1<<64-1)/7
		// ticks since the limiter last saw anything that could justify "limited"
		quiet := -1
		sawLimited, sawUnlimit := false, false
		for i, o := range ops {
			f := strings.Fields(o)
			res := f[0]
			switch f[0] {
			case "T":
				rl.Tick()
				if quiet >= 0 {
					quiet++
				}
			case "I":
				rl.Increase(atoi(f[1]))
				quiet = -1
			case "D":
				rl.Decrease(atoi(f[1]))
				quiet = -1
			case "S":
				rl.Set(atoi(f[1]))
				if atoi(f[1]) == 0 && quiet == -2 {
					quiet = 0
				} else {
					quiet = -1
				}
			case "X":
				rl.Reset()
				quiet = -2 // followers forgotten; waits for "S 0"
			case "F":
				rl.SetFollowerState(atoi(f[1]), atoi(f[2]))
				quiet = -1
			case "L":
				v := rl.RateLimited()
				res = "L=" + b01(v)
				if v {
					sawLimited = true
				} else if sawLimited {
					sawUnlimit = true
				}
				if v && !enabled {
					viol(fmt.Sprintf("op %d: a disabled limiter (max=%d) says limited", i, max))
				}
				if v && enabled && !wraps && max >= 2 && quiet > 11 {
					viol(fmt.Sprintf("op %d: nothing in memory and no follower report for %d ticks, still limited (max=%d)", i, quiet, max))
				}
			default:
				panic("bad op " + o)
			}
			out.Printf("%s %d:%s\n", id, i, res)
		}
		st.Count("rl")
		if !enabled {
			st.Count("rl_disabled")
		}
		if wraps {
			st.Count("rl_threshold_wraps")
		}
		st.Case(parts[1], sawLimited && sawUnlimit, line)
		return
	}
	en := field(hf, "en") == "1"
	q := dragonboat.NewVerifR17Quiesce(en, atoi(field(hf, "et")))
	entered, left := false, false
	for i, o := range ops {
		f := strings.Fields(o)
		res := f[0]
		switch f[0] {
		case "T":
			v := q.Tick()
			res = "T=" + b01(v)
			if v {
				entered = true
			}
			if v && !en {
				viol(fmt.Sprintf("op %d: quiesce disabled but the replica is quiesced", i))
			}
		case "R":
			was := q.Quiesced()
			t := raftpb.Replicate
			if f[1] == "1" {
				t = raftpb.Heartbeat
			}
			q.Record(t)
			if f[1] == "0" && q.Quiesced() {
				viol(fmt.Sprintf("op %d: still quiesced after a non-heartbeat message", i))
			}
			if was && !q.Quiesced() {
				left = true
			}
		case "E":
			q.TryEnter()
		case "F":
			res = "F=" + b01(q.TakeFlag())
		default:
			panic("bad op " + o)
		}
		out.Printf("%s %d:%s\n", id, i, res)
	}
	st.Count("q")
	st.Case(parts[1], entered && left, line)
}

func main() {
	a := vh.ParseArgs()
	switch a.Mode {
	case "gen":
		gen(a)
	case "run":
		st := vh.NewStats("non-trivial: a limiter case that said limited and later not limited; a quiesce case that entered and left quiesce")
		out := vh.Create(a.Out + "/impl.obs")
		for _, l := range vh.ReadLines(a.Cases) {
			runCase(l, out, st)
		}
		out.Close()
		st.Write(a.Out)
	default:
		fmt.Fprintln(os.Stderr, "unknown mode")
		os.Exit(2)
	}
}
