// C13 harness, entries near the size limit of the colfer codec (ColferSizeMax)
// and other large entries. The payload is built here (n equal bytes), never
// written to the case file; the model is run on the LENGTH only (theorems
// entry_big_size / entry_big_encoding / entry_big_decode tie those functions to
// the list-level model), so the comparison is: Size() outcome, number of bytes
// written, every byte written before the payload, and the Unmarshal verdict. The
// payload bytes, the 0x7f terminator and the decoded value are checked by the
// monitor.
package main

import (
	"bytes"
	"fmt"
	"runtime/debug"
	"strconv"
	"strings"

	pb "github.com/lni/dragonboat/v4/raftpb"
	"verif/harness/vh"
)

// largest ColferSizeMax for which the boundary itself is exercised (three
// buffers of that size are alive at once)
const bigLimitExercised = 1 << 30

func varintExtra(x uint64) uint64 {
	n := uint64(0)
	for x >= 0x80 {
		x >>= 7
		n++
	}
	return n
}

// cmdLenForTotal: the Cmd length for which the entry e (without Cmd) encodes
// to exactly total bytes, 0 if there is none.
func cmdLenForTotal(fixed uint64, total uint64) uint64 {
	for n := total - fixed - 12; n <= total-fixed; n++ {
		if n > 0 && fixed+n+2+varintExtra(n) == total {
			return n
		}
	}
	return 0
}

func genBig(r *vh.Rand, w *vh.LineWriter, next int, tier string) int {
	emit := func(e pb.Entry, n uint64, fill byte) {
		w.Printf("%d BIG %d %d %d %d %d %d %d %d %d\n", next, e.Term, e.Index, int32(e.Type), e.Key,
			e.ClientID, e.SeriesID, e.RespondedTo, n, fill)
		next++
	}
	e := pb.Entry{Term: 1 + uint64(r.Intn(100)), Index: r.BiasedU64(), Type: pb.EntryType(r.Intn(3)), Key: r.U64(),
		ClientID: r.BiasedU64(), SeriesID: uint64(r.Intn(1000))}
	// always: a few large entries (varint length boundaries 2^14, 2^21, 64MB+1 in thorough)
	for _, n := range []uint64{1<<14 - 1, 1 << 14, 1<<21 - 1, 1 << 21, 3<<20 + uint64(r.Intn(1000))} {
		emit(e, n, byte(r.Intn(256)))
	}
	if tier == "thorough" {
		emit(e, 1<<26+1, 0)
	}
	// worst case of the non-Cmd part: all six uint64 fields in the 9 byte fixed
	// form, Type at the int32 extremes (6 bytes), Cmd length at the 2^14 / 2^21
	// varint boundaries (3 / 4 byte length) - the entries that come closest to
	// SizeUpperLimit() = EntryNonCmdFieldsSize + len(Cmd)
	bigs := []uint64{^uint64(0), 1 << 63, 1 << 49, 1<<56 + 1}
	for i, ty := range []int32{-2147483648, -1, 2147483647, 1 << 28} {
		for j, n := range []uint64{1<<14 - 1, 1 << 14, 1<<21 - 1, 1 << 21} {
			if tier != "thorough" && (i+j)%2 == 1 {
				continue
			}
			w := pb.Entry{Term: bigs[(i+j)%4], Index: bigs[(i+1)%4], Type: pb.EntryType(ty), Key: bigs[(j+2)%4],
				ClientID: bigs[(i+3)%4], SeriesID: bigs[j%4], RespondedTo: bigs[(i+j+1)%4]}
			emit(w, n, byte(r.Intn(256)))
		}
	}
	// around the limit of the running binary, when it is small enough to allocate
	max := pb.ColferSizeMax
	if max < bigLimitExercised && max > 1024 {
		var fixed uint64
		if p := vh.Catch(func() { fixed = uint64((&pb.Entry{Term: e.Term, Index: e.Index, Type: e.Type, Key: e.Key,
			ClientID: e.ClientID, SeriesID: e.SeriesID}).Size()) }); p == "" {
			for _, total := range []uint64{max - 1, max, max + 1} {
				if n := cmdLenForTotal(fixed, total); n > 0 {
					emit(e, n, 0)
				}
			}
			emit(e, max+1, 0)
		}
	}
	return next
}

func runBig(id string, f []string, line string, obs *vh.LineWriter, st *vh.Stats) {
	defer debug.FreeOSMemory()
	pu := func(s string) uint64 { v, err := strconv.ParseUint(s, 10, 64); must(err); return v }
	ty, err := strconv.ParseInt(f[3], 10, 32)
	must(err)
	n := pu(f[8])
	fill := byte(pu(f[9]))
	e := pb.Entry{Term: pu(f[1]), Index: pu(f[2]), Type: pb.EntryType(ty), Key: pu(f[4]), ClientID: pu(f[5]),
		SeriesID: pu(f[6]), RespondedTo: pu(f[7])}
	if n > 5<<30 {
		obs.Printf("%s BIG skipped\n", id)
		return
	}
	e.Cmd = bytes.Repeat([]byte{fill}, int(n))
	sizeObs := "panic"
	var sizeMsg string
	if p := vh.Catch(func() { sizeObs = strconv.Itoa(e.Size()) }); p != "" {
		sizeMsg = p
	}
	var b []byte
	if p := vh.Catch(func() {
		buf := make([]byte, e.SizeUpperLimit()+16)
		k, err := e.MarshalTo(buf)
		must(err)
		b = buf[:k]
	}); p != "" {
		obs.Printf("%s BIG SIZE %s MARSHAL-PANIC\n", id, sizeObs)
		st.Violation(id, fmt.Sprintf("entry with %d byte Cmd: MarshalTo failed: %s", n, p))
		return
	}
	headLen := len(b) - int(n) - 1
	head := []byte{}
	bodyOK := false
	if headLen >= 0 {
		head = b[:headLen]
		bodyOK = b[len(b)-1] == 0x7f && bytes.Equal(b[headLen:len(b)-1], e.Cmd)
	}
	var d pb.Entry
	dec := "ok"
	var derr error
	if p := vh.Catch(func() { derr = d.Unmarshal(b) }); p != "" {
		dec = "panic"
	} else if derr != nil {
		s := derr.Error()
		switch {
		case strings.Contains(s, "EOF"):
			dec = "eof"
		case strings.Contains(s, "unknown header"):
			dec = "bad"
		default:
			dec = "max"
		}
	}
	upper := e.SizeUpperLimit()
	obs.Printf("%s BIG SIZE %s UPPER %d LEN %d HEAD %s DEC %s\n", id, sizeObs, upper, len(b), vh.Hex(head), dec)
	if len(b) > upper {
		st.Violation(id, fmt.Sprintf("entry with %d byte Cmd: encoding %d bytes exceeds SizeUpperLimit %d (a buffer of the advertised size is overrun)", n, len(b), upper))
	}
	// monitor: an entry of this size is legal, it has to round-trip
	if sizeObs == "panic" {
		st.Violation(id, fmt.Sprintf("entry with %d byte Cmd: Size() panicked (%s); ColferSizeMax=%d", n, sizeMsg, pb.ColferSizeMax))
	} else if sizeObs != strconv.Itoa(len(b)) {
		st.Violation(id, fmt.Sprintf("entry with %d byte Cmd: Size()=%s but %d bytes written", n, sizeObs, len(b)))
	}
	if !bodyOK {
		st.Violation(id, fmt.Sprintf("entry with %d byte Cmd: payload/terminator not written as given", n))
	}
	if dec != "ok" {
		st.Violation(id, fmt.Sprintf("entry with %d byte Cmd (encoding %d bytes) does not round-trip: Unmarshal says %s; ColferSizeMax=%d", n, len(b), dec, pb.ColferSizeMax))
	} else if d.Term != e.Term || d.Index != e.Index || d.Type != e.Type || d.Key != e.Key || d.ClientID != e.ClientID ||
		d.SeriesID != e.SeriesID || d.RespondedTo != e.RespondedTo || !bytes.Equal(d.Cmd, e.Cmd) {
		st.Violation(id, fmt.Sprintf("entry with %d byte Cmd: decode(encode e) differs from e", n))
	}
	st.Count("big.cmdlen<=" + strconv.Itoa(bigBucket(n)))
	st.Case(line, true, "")
}

func bigBucket(n uint64) int {
	for _, b := range []int{1 << 14, 1 << 21, 1 << 24, 1 << 28, 1 << 30} {
		if n <= uint64(b) {
			return b
		}
	}
	return 1 << 62
}

// sizeClassNote says which entry size classes this run did not exercise.
func sizeClassNote() string {
	max := pb.ColferSizeMax
	if max < bigLimitExercised {
		return fmt.Sprintf("ColferSizeMax of the running binary = %d: entries of encoded size max-1, max, max+1 and a Cmd of max+1 bytes ARE exercised (op BIG)", max)
	}
	return fmt.Sprintf("ColferSizeMax of the running binary = %d (>= %d): entries at the limit are NOT exercised (cannot be allocated); the round-trip theorem is stated for size e < colfer_size_max and entry_at_limit_rejected covers the boundary in the model only. Largest entry exercised: 3MB quick / 64MB+1 thorough. Update records with an entry of 2^32 bytes or more (uint32 length prefix, outside wf_update) are NOT exercised in any tier", max, bigLimitExercised)
}
