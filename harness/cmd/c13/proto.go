// C13 harness, gogo-protobuf style codecs and the Tan Update record of raftpb
// (plus client.Session) versus Model/CodecProto.v and Model/CodecUpdate.v.
//
// Values travel as whitespace separated tokens (grammar in tw/tr below, the same
// in ocaml/c13/driver.ml). nil and empty-but-non-nil are distinguished in the
// case text: a byte string is `-` (nil), `=` (empty, non-nil) or hex; the
// element count of a slice/map is `0` (nil), `=` (empty, non-nil) or n > 0. Decoded values are observed through their
// re-encoding, which is injective on values. Go map iteration order is random:
// before comparing, the encoder output is canonicalised by sorting the map
// entries of Membership/Bootstrap by key (canon); the model encodes maps in
// ascending key order.
package main

import (
	"bytes"
	"encoding/binary"
	"fmt"
	"reflect"
	"sort"
	"strconv"
	"strings"

	"github.com/lni/dragonboat/v4/client"
	pb "github.com/lni/dragonboat/v4/raftpb"
	hooks "github.com/lni/dragonboat/v4/verifhooks/c13"
	"verif/harness/vh"
)

// ---------- token writer ----------

type tw struct{ b strings.Builder }

func (w *tw) u(x uint64)  { fmt.Fprintf(&w.b, " %d", x) }
func (w *tw) i(x int32)   { fmt.Fprintf(&w.b, " %d", x) }
func (w *tw) n(x int)     { fmt.Fprintf(&w.b, " %d", x) }
func (w *tw) bo(x bool)   { fmt.Fprintf(&w.b, " %d", b01(x)) }
func (w *tw) by(x []byte) {
	if x != nil && len(x) == 0 {
		w.b.WriteString(" =")
	} else {
		w.b.WriteString(" " + vh.Hex(x))
	}
}
func (w *tw) s(x string)   { w.b.WriteString(" " + vh.Hex([]byte(x))) }
func (w *tw) opt(x []byte) { w.by(x) }

// cnt writes an element count: 0 = nil, "=" = empty but non-nil
func (w *tw) cnt(n int, isNil bool) {
	if n == 0 && !isNil {
		w.b.WriteString(" =")
	} else {
		w.n(n)
	}
}
func (w *tw) entry(e *pb.Entry) {
	w.u(e.Term); w.u(e.Index); w.i(int32(e.Type)); w.u(e.Key); w.u(e.ClientID); w.u(e.SeriesID)
	w.u(e.RespondedTo); w.by(e.Cmd)
}
func (w *tw) entries(es []pb.Entry) {
	w.cnt(len(es), es == nil)
	for i := range es {
		w.entry(&es[i])
	}
}
func (w *tw) state(s *pb.State) { w.u(s.Term); w.u(s.Vote); w.u(s.Commit) }
func (w *tw) smap(m map[uint64]string) {
	ks := sortedKeys(m)
	w.cnt(len(ks), m == nil)
	for _, k := range ks {
		w.u(k); w.s(m[k])
	}
}
func (w *tw) bmap(m map[uint64]bool) {
	ks := make([]uint64, 0, len(m))
	for k := range m {
		ks = append(ks, k)
	}
	sort.Slice(ks, func(i, j int) bool { return ks[i] < ks[j] })
	w.cnt(len(ks), m == nil)
	for _, k := range ks {
		w.u(k); w.bo(m[k])
	}
}
func sortedKeys(m map[uint64]string) []uint64 {
	ks := make([]uint64, 0, len(m))
	for k := range m {
		ks = append(ks, k)
	}
	sort.Slice(ks, func(i, j int) bool { return ks[i] < ks[j] })
	return ks
}
func (w *tw) mb(m *pb.Membership) {
	w.u(m.ConfigChangeId); w.smap(m.Addresses); w.bmap(m.Removed); w.smap(m.NonVotings); w.smap(m.Witnesses)
}
func (w *tw) sf(f *pb.SnapshotFile) { w.s(f.Filepath); w.u(f.FileSize); w.u(f.FileId); w.opt(f.Metadata) }
func (w *tw) sn(s *pb.Snapshot) {
	w.s(s.Filepath); w.u(s.FileSize); w.u(s.Index); w.u(s.Term); w.mb(&s.Membership)
	w.cnt(len(s.Files), s.Files == nil)
	for _, f := range s.Files {
		w.sf(f)
	}
	w.opt(s.Checksum); w.bo(s.Dummy); w.u(s.ShardID); w.i(int32(s.Type)); w.bo(s.Imported)
	w.u(s.OnDiskIndex); w.bo(s.Witness)
}
func (w *tw) msg(m *pb.Message) {
	w.i(int32(m.Type)); w.u(m.To); w.u(m.From); w.u(m.ShardID); w.u(m.Term); w.u(m.LogTerm)
	w.u(m.LogIndex); w.u(m.Commit); w.bo(m.Reject); w.u(m.Hint); w.entries(m.Entries)
	w.sn(&m.Snapshot); w.u(m.HintHigh)
}

// ---------- token reader ----------

type tr struct {
	t []string
	i int
}

func (r *tr) next() string { s := r.t[r.i]; r.i++; return s }
func (r *tr) u() uint64    { v, err := strconv.ParseUint(r.next(), 10, 64); must(err); return v }
func (r *tr) i32() int32   { v, err := strconv.ParseInt(r.next(), 10, 32); must(err); return int32(v) }
func (r *tr) n() int       { v, err := strconv.Atoi(r.next()); must(err); return v }
func (r *tr) bo() bool     { return r.next() == "1" }
func (r *tr) by() []byte {
	t := r.next()
	if t == "=" {
		return []byte{}
	}
	return vh.UnHex(t) // "-" = nil
}
func (r *tr) s() string    { return string(vh.UnHex(r.next())) }
func (r *tr) opt() []byte  { return r.by() }

// cnt reads an element count; empty reports "=" (empty but non-nil)
func (r *tr) cnt() (n int, empty bool) {
	t := r.next()
	if t == "=" {
		return 0, true
	}
	v, err := strconv.Atoi(t)
	must(err)
	return v, false
}
func (r *tr) entry() pb.Entry {
	return pb.Entry{Term: r.u(), Index: r.u(), Type: pb.EntryType(r.i32()), Key: r.u(), ClientID: r.u(),
		SeriesID: r.u(), RespondedTo: r.u(), Cmd: r.by()}
}
func (r *tr) entries() []pb.Entry {
	n, empty := r.cnt()
	var es []pb.Entry
	if empty {
		es = []pb.Entry{}
	}
	for i := 0; i < n; i++ {
		es = append(es, r.entry())
	}
	return es
}
func (r *tr) state() pb.State { return pb.State{Term: r.u(), Vote: r.u(), Commit: r.u()} }
func (r *tr) smap() map[uint64]string {
	n, empty := r.cnt()
	var m map[uint64]string
	if empty {
		m = map[uint64]string{}
	}
	for i := 0; i < n; i++ {
		if m == nil {
			m = map[uint64]string{}
		}
		k := r.u()
		m[k] = r.s()
	}
	return m
}
func (r *tr) bmap() map[uint64]bool {
	n, empty := r.cnt()
	var m map[uint64]bool
	if empty {
		m = map[uint64]bool{}
	}
	for i := 0; i < n; i++ {
		if m == nil {
			m = map[uint64]bool{}
		}
		k := r.u()
		m[k] = r.bo()
	}
	return m
}
func (r *tr) mb() pb.Membership {
	return pb.Membership{ConfigChangeId: r.u(), Addresses: r.smap(), Removed: r.bmap(), NonVotings: r.smap(), Witnesses: r.smap()}
}
func (r *tr) sf() pb.SnapshotFile {
	return pb.SnapshotFile{Filepath: r.s(), FileSize: r.u(), FileId: r.u(), Metadata: r.opt()}
}
func (r *tr) sn() pb.Snapshot {
	s := pb.Snapshot{Filepath: r.s(), FileSize: r.u(), Index: r.u(), Term: r.u(), Membership: r.mb()}
	n, empty := r.cnt()
	if empty {
		s.Files = []*pb.SnapshotFile{}
	}
	for i := 0; i < n; i++ {
		f := r.sf()
		s.Files = append(s.Files, &f)
	}
	s.Checksum = r.opt(); s.Dummy = r.bo(); s.ShardID = r.u(); s.Type = pb.StateMachineType(r.i32())
	s.Imported = r.bo(); s.OnDiskIndex = r.u(); s.Witness = r.bo()
	return s
}
func (r *tr) msg() pb.Message {
	m := pb.Message{Type: pb.MessageType(r.i32()), To: r.u(), From: r.u(), ShardID: r.u(), Term: r.u(),
		LogTerm: r.u(), LogIndex: r.u(), Commit: r.u(), Reject: r.bo(), Hint: r.u()}
	m.Entries = r.entries()
	m.Snapshot = r.sn()
	m.HintHigh = r.u()
	return m
}

// ---------- a codec value of any of the 13 types ----------

type codec interface {
	Marshal() ([]byte, error)
	MarshalTo([]byte) (int, error)
	Unmarshal([]byte) error
	Size() int
}

type upper interface{ SizeUpperLimit() int }

func fresh(ty string) codec {
	switch ty {
	case "state":
		return &pb.State{}
	case "session":
		return &client.Session{}
	case "cc":
		return &pb.ConfigChange{}
	case "sf":
		return &pb.SnapshotFile{}
	case "sh":
		return &pb.SnapshotHeader{}
	case "rds":
		return &pb.RaftDataStatus{}
	case "eb":
		return &pb.EntryBatch{}
	case "mb":
		return &pb.Membership{}
	case "bs":
		return &pb.Bootstrap{}
	case "sn":
		return &pb.Snapshot{}
	case "msg":
		return &pb.Message{}
	case "bt":
		return &pb.MessageBatch{}
	case "ck":
		return &pb.Chunk{}
	}
	panic("unknown type " + ty)
}

func readValue(ty string, r *tr) codec {
	switch ty {
	case "state":
		s := r.state()
		return &s
	case "session":
		return &client.Session{ShardID: r.u(), ClientID: r.u(), SeriesID: r.u(), RespondedTo: r.u()}
	case "cc":
		return &pb.ConfigChange{ConfigChangeId: r.u(), Type: pb.ConfigChangeType(r.i32()), ReplicaID: r.u(), Address: r.s(), Initialize: r.bo()}
	case "sf":
		f := r.sf()
		return &f
	case "sh":
		return &pb.SnapshotHeader{SessionSize: r.u(), DataStoreSize: r.u(), UnreliableTime: r.u(), GitVersion: r.s(),
			HeaderChecksum: r.opt(), PayloadChecksum: r.opt(), ChecksumType: pb.ChecksumType(r.i32()), Version: r.u(),
			CompressionType: pb.CompressionType(r.i32())}
	case "rds":
		return &pb.RaftDataStatus{Address: r.s(), BinVer: uint32(r.u()), HardHash: r.u(), LogdbType: r.s(), Hostname: r.s(),
			DeploymentId: r.u(), StepWorkerCount: r.u(), LogdbShardCount: r.u(), MaxSessionCount: r.u(),
			EntryBatchSize: r.u(), AddressByNodeHostId: r.bo()}
	case "eb":
		return &pb.EntryBatch{Entries: r.entries()}
	case "mb":
		m := r.mb()
		return &m
	case "bs":
		return &pb.Bootstrap{Addresses: r.smap(), Join: r.bo(), Type: pb.StateMachineType(r.i32())}
	case "sn":
		s := r.sn()
		return &s
	case "msg":
		m := r.msg()
		return &m
	case "bt":
		n, empty := r.cnt()
		b := &pb.MessageBatch{}
		if empty {
			b.Requests = []pb.Message{}
		}
		for i := 0; i < n; i++ {
			b.Requests = append(b.Requests, r.msg())
		}
		b.DeploymentId = r.u(); b.SourceAddress = r.s(); b.BinVer = uint32(r.u())
		return b
	case "ck":
		c := &pb.Chunk{ShardID: r.u(), ReplicaID: r.u(), From: r.u(), ChunkId: r.u(), ChunkSize: r.u(), ChunkCount: r.u(),
			Data: r.opt(), Index: r.u(), Term: r.u(), Membership: r.mb(), Filepath: r.s(), FileSize: r.u(),
			DeploymentId: r.u(), FileChunkId: r.u(), FileChunkCount: r.u(), HasFileInfo: r.bo()}
		c.FileInfo = r.sf()
		c.BinVer = uint32(r.u()); c.OnDiskIndex = r.u(); c.Witness = r.bo()
		return c
	}
	panic("unknown type " + ty)
}

// ---------- canonical byte form: map entries sorted by key ----------

type rec struct {
	num      uint64
	wt       int
	from, to int // whole record
	pfrom    int // payload start (wt 2)
}

func split(b []byte) []rec {
	var out []rec
	i := 0
	for i < len(b) {
		start := i
		k, n := binary.Uvarint(b[i:])
		if n <= 0 {
			panic("canon: bad key")
		}
		i += n
		r := rec{num: k >> 3, wt: int(k & 7), from: start}
		switch r.wt {
		case 0:
			_, n := binary.Uvarint(b[i:])
			if n <= 0 {
				panic("canon: bad varint")
			}
			i += n
		case 2:
			l, n := binary.Uvarint(b[i:])
			if n <= 0 || i+n+int(l) > len(b) {
				panic("canon: bad length")
			}
			i += n
			r.pfrom = i
			i += int(l)
		default:
			panic("canon: unexpected wire type")
		}
		r.to = i
		out = append(out, r)
	}
	return out
}

var nested = map[string]map[uint64]string{
	"sn": {6: "mb"}, "msg": {12: "sn"}, "bt": {1: "msg"}, "ck": {10: "mb"},
}
var mapFields = map[string]map[uint64]bool{
	"mb": {2: true, 3: true, 4: true, 5: true}, "bs": {1: true},
}

// canon returns b with the entries of every map field sorted by key; bytes
// that are not a well-formed encoding are returned unchanged.
func canon(ty string, b []byte) (out []byte) {
	defer func() {
		if recover() != nil {
			out = b
		}
	}()
	return canonRaw(ty, b)
}

func canonRaw(ty string, b []byte) []byte {
	if nested[ty] == nil && mapFields[ty] == nil {
		return b
	}
	recs := split(b)
	out := make([]byte, 0, len(b))
	for i := 0; i < len(recs); {
		r := recs[i]
		if mapFields[ty][r.num] && r.wt == 2 {
			j := i
			var group [][]byte
			for j < len(recs) && recs[j].num == r.num {
				group = append(group, b[recs[j].from:recs[j].to])
				j++
			}
			keyOf := func(x []byte) uint64 {
				rs := split(x)
				inner := x[rs[0].pfrom:rs[0].to]
				k, _ := binary.Uvarint(inner[1:])
				return k
			}
			sort.SliceStable(group, func(a, c int) bool { return keyOf(group[a]) < keyOf(group[c]) })
			for _, g := range group {
				out = append(out, g...)
			}
			i = j
			continue
		}
		if sub, ok := nested[ty][r.num]; ok && r.wt == 2 {
			out = append(out, b[r.from:r.pfrom]...)
			out = append(out, canonRaw(sub, b[r.pfrom:r.to])...)
		} else {
			out = append(out, b[r.from:r.to]...)
		}
		i++
	}
	return out
}

func exact(b []byte) []byte {
	out := make([]byte, len(b))
	copy(out, b)
	return out
}

// marshalDirty runs a MarshalTo three times: into a 0xFF filled buffer of room
// bytes, into a random filled buffer of EXACTLY the number of bytes written, and
// into a zeroed buffer. The library marshals into reused buffers (tan write
// buffers, the scratch buffer of SaveSnapshots, the TCP send buffer), so the
// bytes must not depend on what the buffer held before. Returns the bytes of
// the first run and a description of the first disagreement ("" = none).
func marshalDirty(mt func([]byte) (int, error), room int, cn func([]byte) []byte) ([]byte, string) {
	a := bytes.Repeat([]byte{0xFF}, room)
	k, err := mt(a)
	must(err)
	a = a[:k]
	rnd := vh.NewRand(uint64(k)*2654435761 + 17)
	b := rnd.Bytes(k)
	for i := range b {
		b[i] |= 0x80 // stale continuation bits are the nastiest leftovers
	}
	k2, err := mt(b)
	must(err)
	z := make([]byte, room)
	k3, err := mt(z)
	must(err)
	ca := cn(a)
	if k2 != k || k3 != k {
		return a, fmt.Sprintf("MarshalTo wrote %d / %d / %d bytes into a 0xFF filled / random filled / zeroed buffer", k, k2, k3)
	}
	if !bytes.Equal(ca, cn(z[:k3])) {
		return a, "MarshalTo into a 0xFF filled buffer differs from MarshalTo into a zeroed buffer: " + firstDiff(ca, cn(z[:k3]))
	}
	if !bytes.Equal(ca, cn(b[:k2])) {
		return a, "MarshalTo into a random filled buffer of exactly the encoded size differs: " + firstDiff(ca, cn(b[:k2]))
	}
	return a, ""
}

func firstDiff(x, y []byte) string {
	for i := 0; i < len(x) && i < len(y); i++ {
		if x[i] != y[i] {
			return fmt.Sprintf("byte %d is %#02x vs %#02x", i, x[i], y[i])
		}
	}
	return fmt.Sprintf("lengths %d vs %d", len(x), len(y))
}

// one TCP connection object for the whole run: SendMessageBatch marshals into
// the connection's reused payload buffer.
var sendConn struct {
	c    *bufConn
	conn interface{ SendMessageBatch(pb.MessageBatch) error }
}

// sendOverReusedConn sends a buffer-dirtying batch and then b over the same
// TCPConnection and returns the payload bytes of b's frame as read back by the
// real frame reader.
func sendOverReusedConn(b *pb.MessageBatch) (payload []byte, problem string) {
	if sendConn.conn == nil {
		sendConn.c = newBufConn(nil)
		sendConn.conn = hooks.NewTCPConnection(sendConn.c, false)
	}
	p := vh.Catch(func() {
		dirty := pb.MessageBatch{SourceAddress: string(bytes.Repeat([]byte{0xFF}, 16384+b.Size())), BinVer: ^uint32(0), DeploymentId: ^uint64(0)}
		must(sendConn.conn.SendMessageBatch(dirty))
		sendConn.c.wr.Reset()
		must(sendConn.conn.SendMessageBatch(*b))
	})
	stream := append([]byte{}, sendConn.c.wr.Bytes()...)
	sendConn.c.wr.Reset()
	if p != "" {
		return nil, "SendMessageBatch failed: " + p
	}
	rd, got := readFrame(stream, false, 2*1024*1024)
	if len(rd) < 2 || rd[:2] != "ok" {
		return nil, "frame written by SendMessageBatch not delivered: " + rd
	}
	return got, ""
}

// decodeObs unmarshals data into a fresh value and returns the observation.
func decodeObs(ty string, data []byte) (string, codec) {
	v := fresh(ty)
	var err error
	p := vh.Catch(func() { err = v.Unmarshal(exact(data)) })
	if p != "" {
		return "panic", nil
	}
	if err != nil {
		return "err", nil
	}
	var re []byte
	if p := vh.Catch(func() { re, err = v.Marshal() }); p != "" || err != nil {
		return "remarshal-failed", nil
	}
	return "ok " + vh.Hex(canon(ty, re)), v
}

func runProto(id string, f []string, line string, obs *vh.LineWriter, st *vh.Stats) {
	switch f[0] {
	case "PB":
		ty := f[1]
		v := readValue(ty, &tr{t: f[2:]})
		var b []byte
		var size, up int
		var dirtyDiff string
		hasUp := false
		p := vh.Catch(func() {
			size = v.Size()
			if u, ok := v.(upper); ok {
				up = u.SizeUpperLimit()
				hasUp = true
			}
			n := size
			if hasUp && up > n {
				n = up
			}
			b, dirtyDiff = marshalDirty(v.MarshalTo, n+8, func(x []byte) []byte { return canon(ty, x) })
			m, err := v.Marshal()
			must(err)
			if dirtyDiff == "" && !bytes.Equal(canon(ty, m), canon(ty, b)) {
				dirtyDiff = "Marshal() and MarshalTo into a dirty buffer disagree: " + firstDiff(canon(ty, m), canon(ty, b))
			}
		})
		if p != "" {
			obs.Printf("%s PB PANIC\n", id)
			st.Violation(id, ty+": marshal failed: "+p)
			return
		}
		cb := canon(ty, b)
		dec, back := decodeObs(ty, b)
		ups := ""
		if hasUp {
			ups = fmt.Sprintf(" UPPER %d", up)
		}
		obs.Printf("%s PB ENC %s SIZE %d%s DEC %s\n", id, vh.Hex(cb), size, ups, dec)
		// monitor (implementation only)
		if dirtyDiff != "" {
			st.Violation(id, ty+" MarshalTo: the encoding depends on stale buffer content: "+dirtyDiff)
		}
		if bt, ok := v.(*pb.MessageBatch); ok {
			sent, problem := sendOverReusedConn(bt)
			if problem != "" {
				st.Violation(id, "bt: "+problem)
			} else if m, err := bt.Marshal(); err == nil && !bytes.Equal(canon(ty, sent), canon(ty, m)) {
				st.Violation(id, "bt: SendMessageBatch over a connection whose send buffer was used before wrote different bytes than Marshal(): "+firstDiff(canon(ty, sent), canon(ty, m)))
			}
		}
		if dec != "ok "+vh.Hex(cb) {
			st.Violation(id, ty+" roundtrip: re-encoding of decode(encode v) differs: "+dec)
		} else if !valueEqual(ty, v, back) {
			st.Violation(id, ty+" roundtrip: decode(encode v) is not the original value")
		}
		if size != len(b) {
			st.Violation(id, fmt.Sprintf("%s: Size()=%d but %d bytes written", ty, size, len(b)))
		}
		if hasUp && len(b) > up {
			st.Violation(id, fmt.Sprintf("%s: encoding %d bytes exceeds SizeUpperLimit %d", ty, len(b), up))
		}
		st.Count("pb." + ty)
		st.Case(line, len(b) > 24, "")
	case "PBDEC":
		dec, _ := decodeObs(f[1], vh.UnHex(f[2]))
		obs.Printf("%s PBDEC %s\n", id, dec)
		st.Count("pbdec." + f[1] + "." + strings.Fields(dec)[0])
		st.Case(line, true, "")
	case "UPD":
		r := &tr{t: f[1:]}
		u := pb.Update{ShardID: r.u(), ReplicaID: r.u(), State: r.state()}
		u.EntriesToSave = r.entries()
		u.Snapshot = r.sn()
		var b []byte
		var up int
		var dirtyDiff string
		p := vh.Catch(func() {
			up = u.SizeUpperLimit()
			b, dirtyDiff = marshalDirty(u.MarshalTo, up+4096, canonUpdate)
		})
		if p != "" {
			obs.Printf("%s UPD PANIC\n", id)
			st.Violation(id, "update: marshal failed: "+p)
			return
		}
		cb := canonUpdate(b)
		dec, back := updDecodeObs(b)
		obs.Printf("%s UPD ENC %s UPPER %d DEC %s\n", id, vh.Hex(cb), up, dec)
		if dirtyDiff != "" {
			st.Violation(id, "update MarshalTo: the record depends on stale buffer content (tan reuses its write buffer): "+dirtyDiff)
		}
		if dec != "ok "+vh.Hex(cb) {
			st.Violation(id, "update roundtrip: re-encoding of decode(encode u) differs: "+dec)
		} else if !updateEqual(&u, back) {
			st.Violation(id, "update roundtrip: decode(encode u) is not the original value")
		}
		if len(b) > up {
			st.Violation(id, fmt.Sprintf("update: encoding %d bytes exceeds SizeUpperLimit %d (a preallocated buffer of that size is overrun)", len(b), up))
		}
		st.Count("update")
		st.Case(line, len(u.EntriesToSave) > 0 || !pb.IsEmptySnapshot(u.Snapshot), "")
	case "UPDDEC":
		dec, _ := updDecodeObs(vh.UnHex(f[1]))
		obs.Printf("%s UPDDEC %s\n", id, dec)
		st.Count("upddec." + strings.Fields(dec)[0])
		st.Case(line, true, "")
	}
}

// the snapshot inside an Update record is the last framed block
func canonUpdate(b []byte) []byte {
	var u pb.Update
	if p := vh.Catch(func() { must(u.Unmarshal(exact(b))) }); p != "" {
		return b
	}
	if pb.IsEmptySnapshot(u.Snapshot) {
		return b
	}
	sz := u.Snapshot.Size()
	if sz > len(b) {
		return b
	}
	out := exact(b)
	copy(out[len(b)-sz:], canon("sn", b[len(b)-sz:]))
	return out
}

func updDecodeObs(data []byte) (string, *pb.Update) {
	var u pb.Update
	var err error
	p := vh.Catch(func() { err = u.Unmarshal(exact(data)) })
	if p != "" {
		return "panic", nil
	}
	if err != nil {
		return "err", nil
	}
	buf := make([]byte, u.SizeUpperLimit()+4096)
	n, err := u.MarshalTo(buf)
	if err != nil {
		return "remarshal-failed", nil
	}
	return "ok " + vh.Hex(canonUpdate(buf[:n])), &u
}

// ---------- value equality with nil/empty identification ----------

func normValue(v reflect.Value) {
	switch v.Kind() {
	case reflect.Ptr:
		if !v.IsNil() {
			normValue(v.Elem())
		}
	case reflect.Struct:
		for i := 0; i < v.NumField(); i++ {
			if v.Field(i).CanSet() {
				normValue(v.Field(i))
			}
		}
	case reflect.Slice:
		if v.Len() == 0 && !v.IsNil() && v.Type().Elem().Kind() != reflect.Uint8 {
			v.Set(reflect.Zero(v.Type()))
		}
		for i := 0; i < v.Len(); i++ {
			normValue(v.Index(i))
		}
	case reflect.Map:
		if v.Len() == 0 && !v.IsNil() {
			v.Set(reflect.Zero(v.Type()))
		}
	}
}

func normEntries(es []pb.Entry) {
	for i := range es {
		if len(es[i].Cmd) == 0 {
			es[i].Cmd = nil
		}
	}
}

func normCodec(ty string, c codec) {
	normValue(reflect.ValueOf(c))
	switch x := c.(type) {
	case *pb.EntryBatch:
		normEntries(x.Entries)
	case *pb.Message:
		normEntries(x.Entries)
	case *pb.MessageBatch:
		for i := range x.Requests {
			normEntries(x.Requests[i].Entries)
		}
	}
}

func valueEqual(ty string, a, b codec) bool {
	if b == nil {
		return false
	}
	normCodec(ty, a)
	normCodec(ty, b)
	return reflect.DeepEqual(a, b)
}

func updateEqual(a, b *pb.Update) bool {
	if b == nil {
		return false
	}
	x := pb.Update{ShardID: a.ShardID, ReplicaID: a.ReplicaID, State: a.State, EntriesToSave: a.EntriesToSave, Snapshot: a.Snapshot}
	y := pb.Update{ShardID: b.ShardID, ReplicaID: b.ReplicaID, State: b.State, EntriesToSave: b.EntriesToSave, Snapshot: b.Snapshot}
	normValue(reflect.ValueOf(&x))
	normValue(reflect.ValueOf(&y))
	normEntries(x.EntriesToSave)
	normEntries(y.EntriesToSave)
	if pb.IsEmptySnapshot(x.Snapshot) {
		// a snapshot with Index 0 is written as "no snapshot"
		x.Snapshot = pb.Snapshot{}
	}
	return reflect.DeepEqual(x, y)
}
