// C13 harness, transport frame part: requestHeader encode/decode, writeMessage,
// readMagicNumber+readMessage of internal/transport/tcp.go over an in-memory
// net.Conn, versus Model/Frame.v.
package main

import (
	"bytes"
	"encoding/binary"
	"fmt"
	"hash/crc32"
	"io"
	"net"
	"strconv"
	"time"

	"github.com/lni/dragonboat/v4/config"
	"github.com/lni/dragonboat/v4/logger"
	hooks "github.com/lni/dragonboat/v4/verifhooks/c13"
	"verif/harness/vh"
)

// bufConn is an in-memory net.Conn: reads come from rd, writes go to wr.
type bufConn struct {
	rd *bytes.Reader
	wr bytes.Buffer
}

func newBufConn(in []byte) *bufConn { return &bufConn{rd: bytes.NewReader(in)} }

func (c *bufConn) Read(b []byte) (int, error) {
	if c.rd.Len() == 0 {
		return 0, io.EOF
	}
	return c.rd.Read(b)
}
func (c *bufConn) Write(b []byte) (int, error)        { return c.wr.Write(b) }
func (c *bufConn) Close() error                       { return nil }
func (c *bufConn) LocalAddr() net.Addr                { return nil }
func (c *bufConn) RemoteAddr() net.Addr               { return nil }
func (c *bufConn) SetDeadline(t time.Time) error      { return nil }
func (c *bufConn) SetReadDeadline(t time.Time) error  { return nil }
func (c *bufConn) SetWriteDeadline(t time.Time) error { return nil }

func init() {
	// the frame reader logs every rejected frame
	logger.GetLogger("transport").SetLevel(logger.CRITICAL)
}

var recvBufChoices = []uint64{1, 2, 3, 7, 16, 64, 2 * 1024 * 1024}

func b01(b bool) int {
	if b {
		return 1
	}
	return 0
}

// realFrame lets the implementation write a frame; nil if it fails.
func realFrame(method uint16, payload []byte, enc bool) []byte {
	c := newBufConn(nil)
	if p := vh.Catch(func() { must(hooks.WriteMessage(c, method, 0, payload, enc)) }); p != "" {
		return nil
	}
	return append([]byte{}, c.wr.Bytes()...)
}

// crcPatch returns the 4 bytes S with crc32.ChecksumIEEE(prefix ++ S) = target.
// Four byte steps equal xoring the little-endian word of the bytes into the
// register followed by four zero-byte steps; a zero-byte step
// s' = T[s&0xff] ^ (s>>8) is undone through the top byte of s', which
// identifies the table index.
func crcPatch(prefix []byte, target uint32) []byte {
	tab := crc32.IEEETable
	var rev [256]byte
	for i := 0; i < 256; i++ {
		rev[tab[i]>>24] = byte(i)
	}
	v := ^target // register value that yields the wanted checksum
	for i := 0; i < 4; i++ {
		idx := rev[v>>24]
		v = (v^tab[idx])<<8 | uint32(idx)
	}
	reg := ^crc32.ChecksumIEEE(prefix)
	s := make([]byte, 4)
	binary.LittleEndian.PutUint32(s, v^reg)
	if crc32.ChecksumIEEE(append(append([]byte{}, prefix...), s...)) != target {
		panic("crcPatch: self-check failed")
	}
	return s
}

// zeroCRCPayload: a payload of n >= 4 bytes whose CRC-32 is target.
func forgedPayload(r *vh.Rand, n int, target uint32) []byte {
	p := r.Bytes(n - 4)
	return append(p, crcPatch(p, target)...)
}

// zeroHeaderCRCFrame builds a payload such that the header writeMessage
// produces for it has header checksum 0: the header's last field (the payload
// crc X) is chosen as the patch of the first 14 header bytes, then the payload
// is forged to have crc X.
func zeroHeaderCRCPayload(r *vh.Rand, method uint16, n int) []byte {
	h := make([]byte, 14)
	binary.BigEndian.PutUint16(h, method)
	binary.BigEndian.PutUint64(h[2:], uint64(n))
	x := binary.BigEndian.Uint32(crcPatch(h, 0))
	return forgedPayload(r, n, x)
}

// genFrames writes the frame cases; next is the first free case id.
func genFrames(r *vh.Rand, w *vh.LineWriter, next int, tier string) int {
	emit := func(format string, a ...interface{}) {
		w.Printf("%d %s\n", next, fmt.Sprintf(format, a...))
		next++
	}
	methods := []uint16{100, 200, 100, 200, 100, 200, 0, 1, 99, 101, 300, 65535, 25600, 51200}
	nh := 150
	nsamples := 8
	bursts := 250
	if tier == "thorough" {
		nh, nsamples, bursts = 8000, 30, 1500
	}
	for i := 0; i < nh; i++ {
		emit("HDR %d %d %d", methods[r.Intn(len(methods))], r.BiasedU64(), uint32(r.BiasedU64()))
	}
	for i := 0; i < nh; i++ {
		m := methods[r.Intn(6)]
		var b []byte
		if p := vh.Catch(func() { b = hooks.EncodeHeader(m, r.BiasedU64(), uint32(r.U64())) }); p != "" || len(b) == 0 {
			b = r.Bytes(18)
		}
		switch r.Intn(5) {
		case 0:
		case 1:
			b[r.Intn(len(b))] ^= 1 << uint(r.Intn(8))
		case 2:
			b = b[:r.Intn(len(b))]
		case 3:
			b = append(b, r.Bytes(1+r.Intn(3))...)
		default:
			b = r.Bytes(18)
		}
		emit("HDRDEC %s", vh.Hex(b))
	}
	for i := 0; i < nh; i++ {
		n := []int{0, 1, 2, 17, 64, 127, 128, 200}[r.Intn(8)]
		if r.Chance(1, 2) {
			n = r.Intn(200)
		}
		emit("WRITE %d %d %d %d %s", methods[r.Intn(len(methods))], uint32(r.BiasedU64())*uint32(r.Intn(2)),
			r.Intn(2), recvBufChoices[r.Intn(len(recvBufChoices))], vh.Hex(r.Bytes(n)))
	}
	// sample frames: every single-bit flip, every truncation point, bursts
	lens := []int{1, 2, 5, 17, 33, 64, 100, 150}
	// the last nzero samples have checksum 0: payload crc field = 0 (three of
	// four) or header crc field = 0 (one of four). A reader that treats a zero
	// crc field as "not checksummed" delivers corruptions of exactly these.
	nzero := 6
	if tier == "thorough" {
		nzero = 20
	}
	for k := 0; k < nsamples+nzero; k++ {
		n := lens[k%len(lens)]
		if k >= len(lens) {
			n = 1 + r.Intn(200)
		}
		enc := k%4 == 3
		method := []uint16{100, 200}[k%2]
		payload := r.Bytes(n)
		if k >= nsamples {
			enc = false
			n = []int{4, 5, 12, 40, 90, 8}[(k-nsamples)%6]
			if (k-nsamples)%4 == 3 {
				payload = zeroHeaderCRCPayload(r, method, n)
			} else {
				payload = forgedPayload(r, n, 0)
			}
		}
		f := realFrame(method, payload, enc)
		if f == nil {
			continue
		}
		if k >= nsamples {
			hz := binary.BigEndian.Uint32(f[12:16]) == 0
			pz := binary.BigEndian.Uint32(f[16:20]) == 0
			if !hz && !pz {
				panic("forged frame has no zero checksum field")
			}
		}
		tail := []byte{}
		if k%3 == 1 {
			tail = r.Bytes(1 + r.Intn(5))
		} else if k%3 == 2 {
			tail = realFrame(200, r.Bytes(3), enc)
		}
		if k >= nsamples {
			bursts = 120
		}
		s := append(append([]byte{}, f...), tail...)
		rb := recvBufChoices[r.Intn(len(recvBufChoices))]
		emit("FRAME %d %d valid %s", b01(enc), rb, vh.Hex(s))
		for bit := 0; bit < len(f)*8; bit++ {
			m := append([]byte{}, s...)
			m[bit/8] ^= 1 << uint(bit%8)
			tag := "flipH"
			if bit/8 >= 20 {
				tag = "flipP"
			}
			emit("FRAME %d %d %s %s", b01(enc), rb, tag, vh.Hex(m))
		}
		for cut := 0; cut < len(f); cut++ {
			emit("FRAME %d %d trunc %s", b01(enc), rb, vh.Hex(f[:cut]))
		}
		for j := 0; j < bursts; j++ {
			m := append([]byte{}, s...)
			blen := 2 + r.Intn(31) // burst of 2..32 bits: first and last bit flipped
			start := r.Intn(len(f)*8 - blen + 1)
			tag := "burstP"
			if start/8 < 20 {
				tag = "burstH"
			}
			for b := start; b < start+blen; b++ {
				if b == start || b == start+blen-1 || r.Bool() {
					m[b/8] ^= 1 << uint(7-b%8)
				}
			}
			emit("FRAME %d %d %s %s", b01(enc), rb, tag, vh.Hex(m))
		}
		// a header that is valid for a different size / method: consistent
		// header crc, payload does not fit
		for j := 0; j < 6; j++ {
			sz := uint64(r.Intn(3 * n))
			var h []byte
			if p := vh.Catch(func() { h = hooks.EncodeHeader(methods[r.Intn(8)], sz, uint32(r.U64())) }); p != "" {
				continue
			}
			m := append(append([]byte{0xAE, 0x7D}, h...), f[20:]...)
			emit("FRAME %d %d forged %s", b01(enc), rb, vh.Hex(m))
		}
	}
	emit("FRAME 0 64 other 0000")
	emit("FRAME 0 64 other 0000ae7d")
	emit("FRAME 0 64 other 00")
	emit("FRAME 0 64 other -")
	emit("FRAME 0 64 other ae7d")
	emit("FRAME 0 64 other ae")
	if f := realFrame(100, []byte{1, 2, 3}, false); f != nil {
		emit("FRAME 0 64 other 7dae%s", vh.Hex(f[2:]))
	}
	return next
}

// ---- configuration dimension: the checksum-off flag is derived by the real
// NewTCPTransport from MutualTLS x {CAFile, CertFile, KeyFile} ----

func nhConfig(mtls, ca, cert, key bool) config.NodeHostConfig {
	c := config.NodeHostConfig{MutualTLS: mtls}
	if ca {
		c.CAFile = "/etc/dragonboat/ca.pem"
	}
	if cert {
		c.CertFile = "/etc/dragonboat/node.pem"
	}
	if key {
		c.KeyFile = "/etc/dragonboat/node.key"
	}
	return c
}

func cfgEncrypted(mtls, ca, cert, key bool) (enc bool, ok bool) {
	p := vh.Catch(func() { enc = hooks.TransportEncrypted(nhConfig(mtls, ca, cert, key)) })
	return enc, p == ""
}

func genCfgFrames(r *vh.Rand, w *vh.LineWriter, next int, tier string) int {
	nflip := 24
	if tier == "thorough" {
		nflip = 400
	}
	for cfg := 0; cfg < 16; cfg++ {
		mtls, ca, cert, key := cfg&8 != 0, cfg&4 != 0, cfg&2 != 0, cfg&1 != 0
		enc, ok := cfgEncrypted(mtls, ca, cert, key)
		if !ok {
			continue
		}
		payload := r.Bytes(8 + r.Intn(40))
		f := realFrame([]uint16{100, 200}[cfg%2], payload, enc)
		if f == nil {
			continue
		}
		rb := recvBufChoices[r.Intn(len(recvBufChoices))]
		emit := func(tag string, s []byte) {
			w.Printf("%d CFGFRAME %d %d %d %d %d %s %s\n", next, b01(mtls), b01(ca), b01(cert), b01(key), rb, tag, vh.Hex(s))
			next++
		}
		emit("valid", f)
		for j := 0; j < nflip; j++ {
			m := append([]byte{}, f...)
			bit := 20*8 + r.Intn((len(f)-20)*8)
			m[bit/8] ^= 1 << uint(bit%8)
			emit("flipP", m)
		}
		for j := 0; j < 6; j++ {
			m := append([]byte{}, f...)
			bit := r.Intn(20 * 8)
			m[bit/8] ^= 1 << uint(bit%8)
			emit("flipH", m)
		}
		for j := 0; j < 4; j++ {
			emit("trunc", f[:20+r.Intn(len(f)-20)])
		}
		// a payload replaced wholesale, header untouched
		m := append(append([]byte{}, f[:20]...), r.Bytes(len(f)-20)...)
		emit("flipP", m)
	}
	return next
}

func runCfgFrame(id string, f []string, line string, obs *vh.LineWriter, st *vh.Stats) {
	mtls, ca, cert, key := f[1] == "1", f[2] == "1", f[3] == "1", f[4] == "1"
	rb, err := strconv.ParseUint(f[5], 10, 64)
	must(err)
	tag, s := f[6], vh.UnHex(f[7])
	enc, ok := cfgEncrypted(mtls, ca, cert, key)
	if !ok {
		obs.Printf("%s CFGFRAME panic\n", id)
		st.Violation(id, "NewTCPTransport panicked")
		return
	}
	rd, _ := readFrame(s, enc, rb)
	obs.Printf("%s CFGFRAME ENC %d %s\n", id, b01(enc), rd)
	delivered := len(rd) >= 2 && rd[:2] == "ok"
	cfg := fmt.Sprintf("MutualTLS=%v CAFile=%v CertFile=%v KeyFile=%v", mtls, ca, cert, key)
	switch tag {
	case "valid":
		if !delivered {
			st.Violation(id, "valid frame not delivered ("+cfg+"): "+rd)
		}
	case "flipH", "trunc":
		if delivered {
			st.Violation(id, "frame with corrupted header / truncated frame delivered ("+cfg+")")
		}
	case "flipP":
		// only real (mutual) TLS may leave payload integrity to the transport
		if delivered && !mtls {
			st.Violation(id, "frame with corrupted payload delivered over a connection without TLS ("+cfg+"; transport.encrypted="+strconv.FormatBool(enc)+")")
		}
	}
	if enc && !mtls {
		st.Violation(id, "payload checksum switched off although MutualTLS is false ("+cfg+")")
	}
	st.Count(fmt.Sprintf("cfgframe.mtls=%d.files=%d%d%d.%s.%s", b01(mtls), b01(ca), b01(cert), b01(key), tag, rd[:2]))
	st.Case(line, true, "")
}

func showFrame(kind string, m uint16, sz uint64, crc uint32, p []byte, rest int) string {
	if kind != "ok" {
		return kind
	}
	return fmt.Sprintf("ok %d %d %d %s %d", m, sz, crc, vh.Hex(p), rest)
}

func readFrame(stream []byte, enc bool, rb uint64) (string, []byte) {
	old := hooks.SetRecvBufSize(rb)
	defer hooks.SetRecvBufSize(old)
	c := newBufConn(stream)
	var out string
	var payload []byte
	// readMessage allocates the announced size before reading. The generator
	// never announces more than a few hundred bytes under a VALID header
	// checksum, so a header that the implementation's own decode accepts with a
	// huge size means a corrupted header got through: report that instead of
	// letting the runtime die on the allocation.
	if len(stream) >= 20 && stream[0] == 0xAE && stream[1] == 0x7D {
		if ok, _, sz, _ := hooks.DecodeHeader(append([]byte{}, stream[2:20]...)); ok && sz > 1<<26 {
			return "header-accepted-with-huge-size", nil
		}
	}
	p := vh.Catch(func() {
		kind, m, sz, crc, buf := hooks.ReadFrame(c, 32, enc)
		payload = buf
		out = showFrame(kind, m, sz, crc, buf, c.rd.Len())
	})
	if p != "" {
		return "panic", nil
	}
	return out, payload
}

func runFrame(id string, f []string, line string, obs *vh.LineWriter, st *vh.Stats) {
	pu := func(s string, bits int) uint64 { v, err := strconv.ParseUint(s, 10, bits); must(err); return v }
	switch f[0] {
	case "HDR":
		m, sz, crc := uint16(pu(f[1], 16)), pu(f[2], 64), uint32(pu(f[3], 32))
		b := hooks.EncodeHeader(m, sz, crc)
		ok, m2, sz2, crc2 := hooks.DecodeHeader(append([]byte{}, b...))
		dec := "none"
		if ok {
			dec = fmt.Sprintf("ok %d %d %d", m2, sz2, crc2)
		}
		obs.Printf("%s HDR %s DEC %s\n", id, vh.Hex(b), dec)
		valid := m == 100 || m == 200
		if valid && dec != fmt.Sprintf("ok %d %d %d", m, sz, crc) {
			st.Violation(id, "header roundtrip: decode(encode h) = "+dec)
		}
		if !valid && ok {
			st.Violation(id, "header with invalid method accepted")
		}
		st.Count("hdr.valid=" + strconv.Itoa(b01(valid)))
		st.Case(line, valid, line)
	case "HDRDEC":
		ok, m2, sz2, crc2 := hooks.DecodeHeader(vh.UnHex(f[1]))
		dec := "none"
		if ok {
			dec = fmt.Sprintf("ok %d %d %d", m2, sz2, crc2)
		}
		obs.Printf("%s HDRDEC %s\n", id, dec)
		st.Count("hdrdec." + dec[:2])
		st.Case(line, true, "")
	case "WRITE":
		m, crc, enc, rb, p := uint16(pu(f[1], 16)), uint32(pu(f[2], 32)), f[3] == "1", pu(f[4], 64), vh.UnHex(f[5])
		old := hooks.SetRecvBufSize(rb)
		c := newBufConn(nil)
		perr := vh.Catch(func() { must(hooks.WriteMessage(c, m, crc, p, enc)) })
		hooks.SetRecvBufSize(old)
		if perr != "" {
			obs.Printf("%s WRITE panic\n", id)
			st.Violation(id, "writeMessage failed: "+perr)
			return
		}
		s := append([]byte{}, c.wr.Bytes()...)
		rd, got := readFrame(s, enc, rb)
		obs.Printf("%s WRITE %s READ %s\n", id, vh.Hex(s), rd)
		valid := (m == 100 || m == 200) && len(p) > 0
		if valid && (rd[:2] != "ok" || !bytes.Equal(got, p)) {
			st.Violation(id, "frame roundtrip: written frame read back as "+rd)
		}
		st.Count(fmt.Sprintf("write.valid=%d", b01(valid)))
		st.Case(line, valid, line)
	case "FRAME":
		enc, rb, tag, s := f[1] == "1", pu(f[2], 64), f[3], vh.UnHex(f[4])
		rd, _ := readFrame(s, enc, rb)
		obs.Printf("%s FRAME %s\n", id, rd)
		delivered := len(rd) >= 2 && rd[:2] == "ok"
		switch tag {
		case "valid":
			if !delivered {
				st.Violation(id, "valid frame not delivered: "+rd)
			}
		case "flipH", "burstH", "trunc":
			if delivered {
				st.Violation(id, "frame with corrupted magic/header or truncated frame was delivered ("+tag+")")
			}
		case "flipP", "burstP":
			if delivered && !enc {
				st.Violation(id, "frame with corrupted payload was delivered ("+tag+")")
			}
		}
		if rd == "panic" {
			st.Violation(id, "frame reader panicked")
		}
		if rd == "header-accepted-with-huge-size" {
			st.Violation(id, "a corrupted header passed requestHeader.decode ("+tag+")")
		}
		st.Count("frame." + tag + "." + rd[:2])
		st.Case(line, tag != "other", "")
	}
}
