// C13 harness, entry payload encoding (internal/rsm/encoded.go + dio) versus
// Model/CodecPayload.v. Snappy itself is a Section variable of the model: the
// block the implementation produced is handed to the model as the oracle.
package main

import (
	"bytes"
	"fmt"

	pb "github.com/lni/dragonboat/v4/raftpb"
	hooks "github.com/lni/dragonboat/v4/verifhooks/c13"
	"verif/harness/vh"
)

func genPayload(r *vh.Rand, w *vh.LineWriter, next int, tier string) int {
	n := 300
	if tier == "thorough" {
		n = 50000
	}
	for i := 0; i < n; i++ {
		var cmd []byte
		switch r.Intn(6) {
		case 0:
			cmd = r.Bytes(1)
		case 1:
			cmd = bytes.Repeat([]byte{byte(r.Intn(256))}, 1+r.Intn(300))
		case 2:
			cmd = r.Bytes([]int{127, 128, 129, 16383, 16384}[r.Intn(5)])
		case 3:
			cmd = nil
		default:
			cmd = r.Bytes(1 + r.Intn(200))
		}
		ct := r.Intn(2)
		block := []byte{}
		if ct == 1 && len(cmd) > 0 {
			okc := false
			if p := vh.Catch(func() {
				max, ok := hooks.MaxEncodedLen(hooks.Snappy, uint64(len(cmd)))
				if ok {
					dst := make([]byte, max)
					block = dst[:hooks.CompressSnappyBlock(cmd, dst)]
					okc = true
				}
			}); p != "" || !okc {
				continue
			}
		}
		w.Printf("%d PAY %d %s %s\n", next, ct, vh.Hex(cmd), vh.Hex(block))
		next++
	}
	for i := 0; i < n/2; i++ {
		h := byte(r.U64())
		if r.Chance(1, 2) {
			h = []byte{0, 1, 4, 6, 16, 0x0e, 0xf0}[r.Intn(7)]
		}
		if h>>4 == 0 && h&1 == 0 && (h>>1)&7 == 1 {
			continue // snappy body: needs the decompressor, not modelled byte-wise
		}
		b := append([]byte{h}, r.Bytes(r.Intn(12))...)
		if r.Chance(1, 10) {
			b = nil
		}
		w.Printf("%d PAYDEC %s\n", next, vh.Hex(b))
		next++
	}
	return next
}

func payloadObs(enc []byte) string {
	var out []byte
	var err error
	p := vh.Catch(func() { out, err = hooks.GetPayload(pb.Entry{Type: pb.EncodedEntry, Cmd: enc}) })
	if p != "" {
		return "panic"
	}
	if err != nil {
		return "err"
	}
	return "ok " + vh.Hex(out)
}

func runPayload(id string, f []string, line string, obs *vh.LineWriter, st *vh.Stats) {
	switch f[0] {
	case "PAY":
		cmd := vh.UnHex(f[2])
		ct := hooks.NoCompression
		if f[1] == "1" {
			ct = hooks.Snappy
		}
		var enc []byte
		if p := vh.Catch(func() { enc = hooks.GetEncoded(ct, cmd, nil) }); p != "" {
			obs.Printf("%s PAY panic\n", id)
			if len(cmd) > 0 {
				st.Violation(id, "GetEncoded panicked on a non-empty payload: "+p)
			}
			st.Case(line, false, "")
			return
		}
		dec := payloadObs(enc)
		obs.Printf("%s PAY ENC %s DEC %s\n", id, vh.Hex(enc), dec)
		if dec != "ok "+vh.Hex(cmd) {
			st.Violation(id, "payload roundtrip: GetPayload(GetEncoded(cmd)) = "+dec)
		}
		if f[1] == "0" && len(enc) != len(cmd)+1 {
			st.Violation(id, fmt.Sprintf("uncompressed payload encoding has %d bytes for a %d byte payload", len(enc), len(cmd)))
		}
		st.Count("payload.ct=" + f[1])
		st.Case(line, f[1] == "1", "")
	case "PAYDEC":
		obs.Printf("%s PAYDEC %s\n", id, payloadObs(vh.UnHex(f[1])))
		st.Count("paydec")
		st.Case(line, true, "")
	}
}
