// C13 harness, entry payload encoding (internal/rsm/encoded.go + dio) versus
// Model/CodecPayload.v. Snappy itself is a Section variable of the model: the
// block the implementation produced is handed to the model as the oracle.
package main

import (
	"bytes"
	"fmt"
	"strconv"
	"strings"

	pb "github.com/lni/dragonboat/v4/raftpb"
	hooks "github.com/lni/dragonboat/v4/verifhooks/c13"
	"verif/harness/vh"
)

// payloadByRule builds a payload from a generator rule (the same construction
// is in ocaml/c13/driver.ml, op PAYR): highly compressible payloads are
// described, not spelled out, in the case file.
//   rep a b     b copies of the byte a
//   recpad a b  a 40 byte record derived from a, followed by b zero bytes
//   runs a b    b bytes in runs of 97 equal bytes starting at a
func payloadByRule(rule string, a, b int) []byte {
	switch rule {
	case "rep":
		return bytes.Repeat([]byte{byte(a)}, b)
	case "recpad":
		p := make([]byte, 40+b)
		for i := 0; i < 40; i++ {
			p[i] = byte(a*31 + i*7)
		}
		return p
	case "runs":
		p := make([]byte, b)
		for i := range p {
			p[i] = byte(a + i/97)
		}
		return p
	}
	panic("unknown rule " + rule)
}

func digest(b []byte) int {
	s := 7
	for _, x := range b {
		s = (s*31 + int(x)) % 1000000007
	}
	return s
}

func snappyBlock(cmd []byte) ([]byte, bool) {
	var block []byte
	okc := false
	if p := vh.Catch(func() {
		max, ok := hooks.MaxEncodedLen(hooks.Snappy, uint64(len(cmd)))
		if ok {
			dst := make([]byte, max)
			block = dst[:hooks.CompressSnappyBlock(cmd, dst)]
			okc = true
		}
	}); p != "" || !okc {
		return nil, false
	}
	return block, true
}

// genPayloadRules: highly compressible payloads (snappy reaches 21.33x on long
// runs: a copy element of 3 bytes yields 64 bytes) around the sizes where the
// ratio crosses 16x / 20x / 21x, and long ones.
func genPayloadRules(r *vh.Rand, w *vh.LineWriter, next int, tier string) int {
	type rc struct {
		rule string
		a, b int
	}
	cases := []rc{
		{"rep", 0, 1024}, {"rep", 0, 4096}, {"rep", r.Intn(256), 5300 + r.Intn(60)}, {"rep", 0, 5400}, {"rep", 255, 5500 + r.Intn(200)},
		{"rep", 0, 8192}, {"rep", r.Intn(256), 65536}, {"rep", 0, 65537}, {"rep", r.Intn(256), 100000 + r.Intn(50000)},
		{"recpad", r.Intn(1000), 4096}, {"recpad", r.Intn(1000), 65536}, {"recpad", r.Intn(1000), 262144},
		{"runs", r.Intn(256), 8192}, {"runs", r.Intn(256), 70000},
	}
	if tier == "thorough" {
		// the extracted model walks these lists element by element: keep them
		// below 256KB (a 1MB payload costs the model about a second)
		for i := 0; i < 80; i++ {
			cases = append(cases, rc{[]string{"rep", "recpad", "runs"}[r.Intn(3)], r.Intn(256), 1 + r.Intn(1<<18)})
		}
		cases = append(cases, rc{"rep", 0, 1 << 20})
	}
	for _, c := range cases {
		cmd := payloadByRule(c.rule, c.a, c.b)
		for ct := 0; ct < 2; ct++ {
			block := []byte{}
			if ct == 1 {
				b, ok := snappyBlock(cmd)
				if !ok {
					continue
				}
				block = b
			}
			w.Printf("%d PAYR %d %s %d %d %s\n", next, ct, c.rule, c.a, c.b, vh.Hex(block))
			next++
		}
	}
	return next
}

// genPayloadBatches: batches of entries (plain, encoded without and with snappy)
// for the batched apply path rsm.StateMachine.handleBatch, which decodes every
// payload of the batch before the state machine sees any of them.
func genPayloadBatches(r *vh.Rand, w *vh.LineWriter, next int, tier string) int {
	n := 60
	if tier == "thorough" {
		n = 2000
	}
	for i := 0; i < n; i++ {
		var ops []string
		for k := 1 + r.Intn(6); k > 0; k-- {
			rule := []string{"rep", "recpad", "runs"}[r.Intn(3)]
			sz := []int{1, 2, 17, 100, 127, 128, 500, 3000, 9000}[r.Intn(9)]
			if r.Chance(1, 3) {
				sz = 1 + r.Intn(2000)
			}
			ct := r.Intn(3)
			if i%2 == 0 && r.Chance(2, 3) {
				ct = 1
			}
			ops = append(ops, fmt.Sprintf("%d %s %d %d", ct, rule, r.Intn(256), sz))
		}
		w.Printf("%d PAYBATCH | %s\n", next, strings.Join(ops, " ; "))
		next++
	}
	return next
}

func genPayload(r *vh.Rand, w *vh.LineWriter, next int, tier string) int {
	next = genPayloadRules(r, w, next, tier)
	next = genPayloadBatches(r, w, next, tier)
	n := 300
	if tier == "thorough" {
		n = 15000
	}
	for i := 0; i < n; i++ {
		var cmd []byte
		switch r.Intn(6) {
		case 0:
			cmd = r.Bytes(1)
		case 1:
			cmd = bytes.Repeat([]byte{byte(r.Intn(256))}, 1+r.Intn(300))
		case 2:
			cmd = r.Bytes([]int{127, 128, 129, 16383, 16384}[r.Intn(5)])
		case 3:
			cmd = nil
		default:
			cmd = r.Bytes(1 + r.Intn(200))
		}
		ct := r.Intn(2)
		block := []byte{}
		if ct == 1 && len(cmd) > 0 {
			okc := false
			if p := vh.Catch(func() {
				max, ok := hooks.MaxEncodedLen(hooks.Snappy, uint64(len(cmd)))
				if ok {
					dst := make([]byte, max)
					block = dst[:hooks.CompressSnappyBlock(cmd, dst)]
					okc = true
				}
			}); p != "" || !okc {
				continue
			}
		}
		w.Printf("%d PAY %d %s %s\n", next, ct, vh.Hex(cmd), vh.Hex(block))
		next++
	}
	for i := 0; i < n/2; i++ {
		h := byte(r.U64())
		if r.Chance(1, 2) {
			h = []byte{0, 1, 4, 6, 16, 0x0e, 0xf0}[r.Intn(7)]
		}
		if h>>4 == 0 && h&1 == 0 && (h>>1)&7 == 1 {
			continue // snappy body: needs the decompressor, not modelled byte-wise
		}
		b := append([]byte{h}, r.Bytes(r.Intn(12))...)
		if r.Chance(1, 10) {
			b = nil
		}
		w.Printf("%d PAYDEC %s\n", next, vh.Hex(b))
		next++
	}
	return next
}

func payloadObs(enc []byte) string {
	var out []byte
	var err error
	p := vh.Catch(func() { out, err = hooks.GetPayload(pb.Entry{Type: pb.EncodedEntry, Cmd: enc}) })
	if p != "" {
		return "panic"
	}
	if err != nil {
		return "err"
	}
	return "ok " + vh.Hex(out)
}

func runPayload(id string, f []string, line string, obs *vh.LineWriter, st *vh.Stats) {
	switch f[0] {
	case "PAY":
		cmd := vh.UnHex(f[2])
		ct := hooks.NoCompression
		if f[1] == "1" {
			ct = hooks.Snappy
		}
		var enc []byte
		if p := vh.Catch(func() { enc = hooks.GetEncoded(ct, cmd, nil) }); p != "" {
			obs.Printf("%s PAY panic\n", id)
			if len(cmd) > 0 {
				st.Violation(id, "GetEncoded panicked on a non-empty payload: "+p)
			}
			st.Case(line, false, "")
			return
		}
		dec := payloadObs(enc)
		obs.Printf("%s PAY ENC %s DEC %s\n", id, vh.Hex(enc), dec)
		if dec != "ok "+vh.Hex(cmd) {
			st.Violation(id, "payload roundtrip: GetPayload(GetEncoded(cmd)) = "+dec)
		}
		if f[1] == "0" && len(enc) != len(cmd)+1 {
			st.Violation(id, fmt.Sprintf("uncompressed payload encoding has %d bytes for a %d byte payload", len(enc), len(cmd)))
		}
		st.Count("payload.ct=" + f[1])
		st.Case(line, f[1] == "1", "")
	case "PAYR":
		a, err := strconv.Atoi(f[3])
		must(err)
		b, err := strconv.Atoi(f[4])
		must(err)
		cmd := payloadByRule(f[2], a, b)
		ct := hooks.NoCompression
		if f[1] == "1" {
			ct = hooks.Snappy
		}
		var enc []byte
		if p := vh.Catch(func() { enc = hooks.GetEncoded(ct, cmd, nil) }); p != "" {
			obs.Printf("%s PAYR panic\n", id)
			st.Violation(id, "GetEncoded panicked on a non-empty payload: "+p)
			return
		}
		var out []byte
		var derr error
		dec := ""
		if p := vh.Catch(func() { out, derr = hooks.GetPayload(pb.Entry{Type: pb.EncodedEntry, Cmd: enc}) }); p != "" {
			dec = "panic"
		} else if derr != nil {
			dec = "err"
		} else {
			dec = fmt.Sprintf("ok %d %d", len(out), digest(out))
		}
		obs.Printf("%s PAYR ENCLEN %d ENCSUM %d DEC %s\n", id, len(enc), digest(enc), dec)
		if dec[:2] != "ok" || !bytes.Equal(out, cmd) {
			ratio := 0.0
			if len(enc) > 1 {
				ratio = float64(len(cmd)) / float64(len(enc)-1)
			}
			st.Violation(id, fmt.Sprintf("payload roundtrip: GetPayload(GetEncoded(ct=%s, %s %d x%d)) = %s, want the %d byte payload back (compression ratio %.2f)", f[1], f[2], a, b, dec, len(cmd), ratio))
		}
		st.Count("payload.rule." + f[2] + ".ct=" + f[1])
		st.Case(line, f[1] == "1", "")
	case "PAYBATCH":
		var want [][]byte
		var input []pb.Entry
		var cur []string
		flush := func() {
			if len(cur) != 4 {
				cur = nil
				return
			}
			a, err := strconv.Atoi(cur[2])
			must(err)
			b, err := strconv.Atoi(cur[3])
			must(err)
			cmd := payloadByRule(cur[1], a, b)
			e := pb.Entry{Index: uint64(len(input) + 1), Term: 1, Type: pb.ApplicationEntry, Cmd: cmd}
			if cur[0] != "2" {
				ct := hooks.NoCompression
				if cur[0] == "1" {
					ct = hooks.Snappy
				}
				e.Type = pb.EncodedEntry
				if p := vh.Catch(func() { e.Cmd = hooks.GetEncoded(ct, cmd, nil) }); p != "" {
					st.Violation(id, "GetEncoded panicked on a non-empty payload: "+p)
				}
			}
			want = append(want, cmd)
			input = append(input, e)
			cur = nil
		}
		for _, t := range f[2:] {
			if t == ";" {
				flush()
			} else {
				cur = append(cur, t)
			}
		}
		flush()
		var seen [][]byte
		var herr error
		if p := vh.Catch(func() { seen, herr = hooks.HandleBatch(input) }); p != "" || herr != nil {
			obs.Printf("%s PAYBATCH failed\n", id)
			st.Violation(id, fmt.Sprintf("handleBatch failed on a batch of valid encoded entries: %s %v", p, herr))
			return
		}
		var sb strings.Builder
		for _, c := range seen {
			fmt.Fprintf(&sb, " %d:%d", len(c), digest(c))
		}
		obs.Printf("%s PAYBATCH%s\n", id, sb.String())
		if len(seen) != len(want) {
			st.Violation(id, fmt.Sprintf("handleBatch handed %d entries to the state machine for a batch of %d", len(seen), len(want)))
		} else {
			for i := range want {
				if !bytes.Equal(seen[i], want[i]) {
					st.Violation(id, fmt.Sprintf("batched apply: entry %d of %d reaches the state machine with a payload different from the proposed one (%d bytes, want %d) once the whole batch is decoded", i+1, len(want), len(seen[i]), len(want[i])))
					break
				}
			}
		}
		st.Count("paybatch")
		st.Case(line, len(want) > 1, "")
	case "PAYDEC":
		obs.Printf("%s PAYDEC %s\n", id, payloadObs(vh.UnHex(f[1])))
		st.Count("paydec")
		st.Case(line, true, "")
	}
}
