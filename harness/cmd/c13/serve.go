// C13 harness, the per-connection loop of the TCP transport: the REAL
// TCP.serveConn (through NewTCPTransport) is fed a connection that carries a
// sequence of good and corrupted frames of both methods; what the handlers were
// given, how many bytes were left unread when the loop returned and whether a
// poison ack was written are compared with Model/Frame.v serve_conn. Monitor:
// everything before the first bad frame handed over exactly once and in order,
// nothing of or after it, the loop returned (Start's worker then closes the
// connection: fact serve_conn_then_close).
package main

import (
	"bytes"
	"fmt"
	"strconv"
	"strings"

	pb "github.com/lni/dragonboat/v4/raftpb"
	hooks "github.com/lni/dragonboat/v4/verifhooks/c13"
	"verif/harness/vh"
)

const refuseChunkID = 424242

func canonMarshal(ty string, c codec) []byte {
	var b []byte
	var err error
	if p := vh.Catch(func() { b, err = c.Marshal() }); p != "" || err != nil {
		return nil
	}
	return canon(ty, b)
}

func genServe(r *vh.Rand, w *vh.LineWriter, next int, tier string) int {
	g := pgen{r}
	nseq := 160
	if tier == "thorough" {
		nseq = 3000
	}
	goodFrame := func(enc bool, refuse bool) (string, []byte) {
		for try := 0; try < 20; try++ {
			if r.Bool() && !refuse {
				c, _ := g.value("bt")
				if b := canonMarshal("bt", c); b != nil && len(b) > 0 && len(b) < 700 {
					if f := realFrame(100, b, enc); f != nil {
						return "good", f
					}
				}
			} else {
				c, _ := g.value("ck")
				ck := c.(*pb.Chunk)
				tag := "good"
				if refuse {
					ck.ChunkId = refuseChunkID
					tag = "refuse"
				} else if ck.ChunkId == refuseChunkID {
					ck.ChunkId++
				}
				if b := canonMarshal("ck", ck); b != nil && len(b) < 900 {
					if f := realFrame(200, b, enc); f != nil {
						return tag, f
					}
				}
			}
		}
		return "", nil
	}
	for i := 0; i < nseq; i++ {
		mtls := i%5 == 4
		enc, ok := cfgEncrypted(mtls, mtls, mtls, mtls)
		if !ok {
			continue
		}
		var ops []string
		add := func(tag string, b []byte) { ops = append(ops, tag+":"+vh.Hex(b)) }
		n := 1 + r.Intn(5)
		badAt := r.Intn(n + 1) // == n: no bad frame at all
		for k := 0; k < n; k++ {
			tag, f := goodFrame(enc, false)
			if f == nil {
				continue
			}
			if k != badAt {
				add(tag, f)
				continue
			}
			m := append([]byte{}, f...)
			switch kind := r.Intn(9); {
			case kind == 0 && !enc:
				bit := 20*8 + r.Intn((len(f)-20)*8)
				m[bit/8] ^= 1 << uint(bit%8)
				add("flipP", m)
			case kind == 1:
				bit := r.Intn(20 * 8)
				m[bit/8] ^= 1 << uint(bit%8)
				add("flipH", m)
			case kind == 2:
				// the connection ends inside this frame: nothing can follow a
				// truncation (bytes sent later would just be the rest of the frame)
				add("trunc", f[:1+r.Intn(len(f)-1)])
				k = n
			case kind == 3:
				m[r.Intn(2)] ^= 0x10
				add("badmagic", m)
			case kind == 4:
				add("poison", []byte{0, 0})
			case kind == 5:
				// a frame with valid checksums whose payload does not unmarshal
				method := []uint16{100, 200}[r.Intn(2)]
				if u := realFrame(method, [][]byte{{0x08}, {0xff}, {0x0a, 0x05, 0x08}}[r.Intn(3)], enc); u != nil {
					add("undec", u)
				}
			case kind == 6:
				if t, rf := goodFrame(enc, true); rf != nil {
					add(t, rf)
				}
			case kind == 7 && !enc:
				// burst inside the payload
				start := 20*8 + r.Intn((len(f)-20)*8-1)
				for b := start; b < start+2+r.Intn(30) && b < len(f)*8; b++ {
					if b == start || r.Bool() {
						m[b/8] ^= 1 << uint(7-b%8)
					}
				}
				add("flipP", m)
			default:
				add("junk", r.Bytes(1+r.Intn(30)))
			}
		}
		if len(ops) == 0 {
			continue
		}
		w.Printf("%d SERVE %d %d | %s\n", next, b01(mtls), recvBufChoices[r.Intn(len(recvBufChoices))], strings.Join(ops, " ; "))
		next++
	}
	return next
}

func runServe(id string, f []string, line string, obs *vh.LineWriter, st *vh.Stats) {
	mtls := f[1] == "1"
	rb, err := strconv.ParseUint(f[2], 10, 64)
	must(err)
	type op struct {
		tag string
		b   []byte
	}
	var ops []op
	var stream []byte
	for _, t := range f[4:] {
		if t == ";" {
			continue
		}
		i := strings.IndexByte(t, ':')
		if i < 0 {
			continue
		}
		o := op{t[:i], vh.UnHex(t[i+1:])}
		ops = append(ops, o)
		stream = append(stream, o.b...)
	}
	type got struct {
		method int
		b      []byte
	}
	var handed []got
	conn := newBufConn(stream)
	old := hooks.SetRecvBufSize(rb)
	p := vh.Catch(func() {
		hooks.ServeConn(nhConfig(mtls, mtls, mtls, mtls), conn,
			func(b pb.MessageBatch) {
				b2 := b
				handed = append(handed, got{100, canonMarshal("bt", &b2)})
			},
			func(c pb.Chunk) bool {
				c2 := c
				handed = append(handed, got{200, canonMarshal("ck", &c2)})
				return c.ChunkId != refuseChunkID
			})
	})
	hooks.SetRecvBufSize(old)
	if p != "" {
		obs.Printf("%s SERVE panic\n", id)
		st.Violation(id, "serveConn panicked (this kills the process: the loop has no recover): "+p)
		return
	}
	var sb strings.Builder
	for _, h := range handed {
		fmt.Fprintf(&sb, " %d:%d:%d", h.method, len(h.b), digest(h.b))
	}
	ack := 0
	if conn.wr.Len() > 0 {
		ack = 1
	}
	obs.Printf("%s SERVE N %d%s UNREAD %d ACK %d\n", id, len(handed), sb.String(), conn.rd.Len(), ack)
	// monitor
	var want [][]byte
	firstBad := ""
	for _, o := range ops {
		if len(o.b) == 0 {
			continue // an op that put no bytes on the connection (e.g. a truncation to nothing)
		}
		if o.tag == "good" || o.tag == "refuse" {
			want = append(want, o.b[20:])
			if o.tag == "refuse" {
				firstBad = "refuse"
				break
			}
			continue
		}
		firstBad = o.tag
		break
	}
	if mtls && firstBad == "flipP" {
		firstBad = "" // not generated; with TLS payload integrity is the transport's
	}
	if len(handed) != len(want) {
		st.Violation(id, fmt.Sprintf("connection loop handed over %d frames, expected exactly the %d good frames before the first bad one (%s)", len(handed), len(want), firstBad))
	} else {
		for i := range want {
			if !bytes.Equal(handed[i].b, want[i]) {
				st.Violation(id, fmt.Sprintf("connection loop: frame %d handed over with different content", i))
				break
			}
		}
	}
	st.Count("serve.firstbad=" + firstBad)
	st.Case(line, firstBad != "", "")
}

// probeMalformedBatch records (not compared with the model: documented deviation)
// what the connection loop does with a frame whose checksums are valid but whose
// MessageBatch payload is malformed in the way that makes the hand-optimised
// Message.Unmarshal index past its input (entryCount pre-scan).
func probeMalformedBatch() string {
	payload := []byte{0x0a, 0x04, 0x5a, 0x01, 0x7f, 0x80}
	f := realFrame(100, payload, false)
	if f == nil {
		return "frame could not be written"
	}
	handed := 0
	conn := newBufConn(f)
	p := vh.Catch(func() {
		hooks.ServeConn(nhConfig(false, false, false, false), conn,
			func(pb.MessageBatch) { handed++ }, func(pb.Chunk) bool { handed++; return true })
	})
	if p != "" {
		return "serveConn PANICS (" + p + "); there is no recover in the loop or in the connection worker, so in a running NodeHost this terminates the process. Input: frame method=100 payload=0a045a017f80 (valid magic/header crc/payload crc)"
	}
	return fmt.Sprintf("serveConn returned (connection closed), %d frames handed over", handed)
}
