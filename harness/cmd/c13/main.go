// C13 harness: raftpb codecs of /repo versus the Coq model.
package main

import (
	"fmt"
	"strconv"
	"strings"

	pb "github.com/lni/dragonboat/v4/raftpb"
	"verif/harness/vh"
)

func genEntry(r *vh.Rand) string {
	u := func() uint64 {
		if r.Chance(1, 4) {
			return 0
		}
		return r.BiasedU64()
	}
	var ty int32
	switch r.Intn(6) {
	case 0:
		ty = 0
	case 1:
		ty = int32(r.Intn(4))
	case 2:
		ty = int32(r.U64())
	case 3:
		ty = -int32(r.Intn(200))
	case 4:
		ty = []int32{-2147483648, 2147483647, -1, 127, 128, -128, 16384}[r.Intn(7)]
	default:
		ty = int32(r.Intn(100000))
	}
	var cmd []byte
	switch k := r.Intn(36); {
	case k < 18: // nil or empty-non-nil (see ctok below): 1/4 each
	case k < 22:
		cmd = r.Bytes(1)
	case k < 26:
		cmd = r.Bytes(1 + r.Intn(20))
	case k < 30:
		cmd = r.Bytes(126 + r.Intn(4))
	case k < 31:
		cmd = r.Bytes(16382 + r.Intn(4))
	default:
		cmd = r.Bytes(r.Intn(400))
	}
	ctok := vh.Hex(cmd)
	if len(cmd) == 0 && r.Bool() {
		ctok = "=" // empty but non-nil
	}
	return fmt.Sprintf("ENTRY %d %d %d %d %d %d %d %s", u(), u(), ty, u(), u(), u(), u(), ctok)
}

func genDecode(r *vh.Rand) string {
	// mostly-valid: encode an entry, then mutate (flip, truncate, extend, splice)
	e := parseEntry(strings.Fields(genEntry(r))[1:])
	if len(e.Cmd) > 64 {
		e.Cmd = e.Cmd[:r.Intn(64)]
	}
	var b []byte
	if p := vh.Catch(func() { b, _ = e.Marshal() }); p != "" || len(b) == 0 {
		b = r.Bytes(1 + r.Intn(24)) // the run's monitor reports the marshal failure itself
	}
	switch r.Intn(6) {
	case 0:
		if len(b) > 0 {
			b[r.Intn(len(b))] ^= 1 << uint(r.Intn(8))
		}
	case 1:
		b = b[:r.Intn(len(b)+1)]
	case 2:
		b = append(b, r.Bytes(r.Intn(4))...)
	case 3:
		i := r.Intn(len(b) + 1)
		b = append(append(append([]byte{}, b[:i]...), r.Bytes(1+r.Intn(3))...), b[i:]...)
	case 4:
		b = r.Bytes(r.Intn(24))
	default:
		if len(b) > 1 {
			i := r.Intn(len(b))
			b[i] = []byte{0x80, 0xff, 0x7f, 0x00, 0x87, 0x07}[r.Intn(6)]
		}
	}
	if len(b) == 0 {
		b = []byte{0x7f}
	}
	return "DECODE " + vh.Hex(b)
}

func parseEntry(f []string) pb.Entry {
	u := func(s string) uint64 { v, err := strconv.ParseUint(s, 10, 64); must(err); return v }
	ty, err := strconv.ParseInt(f[2], 10, 32)
	must(err)
	return pb.Entry{Term: u(f[0]), Index: u(f[1]), Type: pb.EntryType(ty), Key: u(f[3]),
		ClientID: u(f[4]), SeriesID: u(f[5]), RespondedTo: u(f[6]), Cmd: cmdTok(f[7])}
}

// cmdTok: "-" = nil, "=" = empty but non-nil, else hex
func cmdTok(t string) []byte {
	if t == "=" {
		return []byte{}
	}
	return vh.UnHex(t)
}

func must(err error) {
	if err != nil {
		panic(err)
	}
}

func showDec(data []byte) string {
	var e pb.Entry
	var err error
	p := vh.Catch(func() { err = e.Unmarshal(data) })
	if p != "" {
		return "panic"
	}
	if err != nil {
		s := err.Error()
		switch {
		case strings.Contains(s, "EOF"):
			return "eof"
		case strings.Contains(s, "unknown header"):
			var pos int
			fmt.Sscanf(s, "colfer: unknown header at byte %d", &pos)
			return fmt.Sprintf("bad %d", pos)
		default:
			return "max"
		}
	}
	// the number of consumed bytes is not returned by the exported Unmarshal;
	// re-marshal gives it only for canonical input, so use SizeOfConsumed hook-free
	// approach: find it by decoding prefixes is costly - instead we report the
	// length of the shortest prefix that decodes to the same value.
	n := consumed(data, &e)
	return fmt.Sprintf("ok %d %d %d %d %d %d %d %s %d", e.Term, e.Index, int32(e.Type), e.Key,
		e.ClientID, e.SeriesID, e.RespondedTo, vh.Hex(e.Cmd), n)
}

// consumed: the decoder stops at the 0x7f terminator; the number of bytes it
// consumed is the length of the shortest prefix that still decodes without error.
func consumed(data []byte, want *pb.Entry) int {
	lo, hi := 1, len(data)
	for lo < hi {
		mid := (lo + hi) / 2
		var e pb.Entry
		if err := e.Unmarshal(data[:mid]); err == nil {
			hi = mid
		} else {
			lo = mid + 1
		}
	}
	return lo
}

func main() {
	a := vh.ParseArgs()
	switch a.Mode {
	case "gen":
		n := 3000
		if a.Tier == "thorough" {
			n = 80000
		}
		if a.N > 0 {
			n = a.N
		}
		r := vh.NewRand(a.Seed)
		w := vh.Create(a.Cases)
		for i := 0; i < n; i++ {
			if i%4 == 3 {
				w.Printf("%d %s\n", i, genDecode(r))
			} else {
				w.Printf("%d %s\n", i, genEntry(r))
			}
		}
		next := n
		if a.N == 0 {
			next = genFrames(r, w, next, a.Tier)
			next = genCfgFrames(r, w, next, a.Tier)
			next = genServe(r, w, next, a.Tier)
			next = genProto(r, w, next, a.Tier)
			next = genPayload(r, w, next, a.Tier)
			next = genBig(r, w, next, a.Tier)
		}
		_ = next
		w.Close()
	case "run":
		st := vh.NewStats("entries (colfer): each uint64 field from {0, boundary table incl. 2^49-1/2^49/2^64-1, random>>k, small, random}, type over int32 incl. negatives, cmd lengths around 0/1/127/128/16383/16384, plus mutated encodings (flip/truncate/extend/splice/random); frames: header encode/decode, writeMessage with chunk sizes 1..2MB, for 8 sample frames EVERY single-bit flip and EVERY truncation point plus 250 bursts of 2..32 bits and forged headers; 13 proto types + Update record: boundary-biased values, nil vs empty, maps of 0..40 entries, the implementation's own bytes and (map-free types) mutated encodings through both decoders, Update worst-case heads and truncations; payload encoding with and without snappy. non-trivial = entry with both fixed and varint fields / any decode or frame mutation case / valid header or written frame / proto value longer than 24 bytes / update with entries or snapshot / snappy payload; distinct by full case text")
		obs := vh.Create(a.Out + "/impl.obs")
		for _, line := range vh.ReadLines(a.Cases) {
			f := strings.Fields(line)
			id := f[0]
			switch f[1] {
			case "ENTRY":
				e := parseEntry(f[2:])
				var b []byte
				var size, upper int
				var dirtyDiff string
				p := vh.Catch(func() {
					size = e.Size()
					upper = e.SizeUpperLimit()
					b, dirtyDiff = marshalDirty(e.MarshalTo, upper+16, func(x []byte) []byte { return x })
				})
				if p != "" {
					obs.Printf("%s PANIC\n", id)
					st.Violation(id, "marshal panicked: "+p)
					continue
				}
				dec := showDec(b)
				obs.Printf("%s ENC %s SIZE %d UPPER %d DEC %s\n", id, vh.Hex(b), size, upper, dec)
				// property monitor, on the implementation alone
				want := fmt.Sprintf("ok %d %d %d %d %d %d %d %s %d", e.Term, e.Index, int32(e.Type), e.Key,
					e.ClientID, e.SeriesID, e.RespondedTo, vh.Hex(e.Cmd), len(b))
				if dirtyDiff != "" {
					st.Violation(id, "entry: the encoding depends on stale buffer content: "+dirtyDiff)
				}
				if dec != want {
					st.Violation(id, "roundtrip: decode(encode e) = "+dec+" want "+want)
				}
				if size != len(b) {
					st.Violation(id, fmt.Sprintf("Size()=%d but %d bytes written", size, len(b)))
				}
				if len(b) > upper {
					st.Violation(id, fmt.Sprintf("encoding %d bytes exceeds SizeUpperLimit %d", len(b), upper))
				}
				fixed, varint := 0, 0
				for _, x := range []uint64{e.Term, e.Index, e.Key, e.ClientID, e.SeriesID, e.RespondedTo} {
					if x >= 1<<49 {
						fixed++
					} else if x != 0 {
						varint++
					}
				}
				st.Count(fmt.Sprintf("entry.fixed=%d", fixed))
				st.Count(fmt.Sprintf("entry.cmdlen<=%d", bucket(len(e.Cmd))))
				st.Case(line[len(id):], fixed > 0 && varint > 0, line)
			case "BIG":
				runBig(id, f[1:], line, obs, st)
			case "PAY", "PAYDEC", "PAYR", "PAYBATCH":
				runPayload(id, f[1:], line, obs, st)
			case "PB", "PBDEC", "UPD", "UPDDEC":
				runProto(id, f[1:], line, obs, st)
			case "SERVE":
				runServe(id, f[1:], line, obs, st)
			case "CFGFRAME":
				runCfgFrame(id, f[1:], line, obs, st)
			case "HDR", "HDRDEC", "WRITE", "FRAME":
				runFrame(id, f[1:], line, obs, st)
			case "DECODE":
				data := vh.UnHex(f[2])
				dec := showDec(data)
				obs.Printf("%s DEC %s\n", id, dec)
				st.Count("decode." + strings.Fields(dec)[0])
				st.Case(line[len(id):], true, line)
			}
		}
		obs.Close()
		st.Notes["entry_size_classes"] = sizeClassNote()
		st.Notes["serveconn_on_malformed_messagebatch"] = probeMalformedBatch()
		st.Write(a.Out)
	}
}

func bucket(n int) int {
	for _, b := range []int{0, 1, 127, 128, 16383, 16384} {
		if n <= b {
			return b
		}
	}
	return 1 << 30
}
