package main

import (
	"fmt"
	"strings"

	"github.com/lni/dragonboat/v4/client"
	pb "github.com/lni/dragonboat/v4/raftpb"
	"verif/harness/vh"
)

type pgen struct{ r *vh.Rand }

func (g pgen) u() uint64 {
	if g.r.Chance(1, 4) {
		return 0
	}
	return g.r.BiasedU64()
}
func (g pgen) i32(valid int) int32 {
	switch g.r.Intn(8) {
	case 0:
		return []int32{-1, -2147483648, 2147483647, 127, 128, -128, 16384, 1 << 30}[g.r.Intn(8)]
	case 1:
		return int32(g.r.U64())
	case 2:
		return 0
	default:
		return int32(g.r.Intn(valid))
	}
}
func (g pgen) str() string {
	switch g.r.Intn(8) {
	case 0:
		return ""
	case 1:
		return fmt.Sprintf("host%d.example.com:%d", g.r.Intn(100), 1024+g.r.Intn(60000))
	case 2:
		return string(g.r.Bytes([]int{1, 127, 128, 129, 300}[g.r.Intn(5)]))
	case 3:
		return fmt.Sprintf("/data/snapshot-%016X/snapshot-%016X.gbsnap", g.r.U64(), g.r.U64())
	default:
		return string(g.r.Bytes(g.r.Intn(24)))
	}
}
// every []byte / slice / map field: nil 1/4, empty but non-nil 1/4, data 1/2
func (g pgen) opt() []byte {
	switch g.r.Intn(8) {
	case 0, 1:
		return nil
	case 2, 3:
		return []byte{}
	case 4:
		return g.r.Bytes(4)
	default:
		return g.r.Bytes(1 + g.r.Intn(40))
	}
}
func (g pgen) msize() int {
	return []int{0, 0, 0, 0, 1, 1, 2, 3, 5, 9, 40, 2}[g.r.Intn(12)]
}
func (g pgen) smap() map[uint64]string {
	n := g.msize()
	if n == 0 {
		if g.r.Bool() {
			return nil
		}
		return map[uint64]string{}
	}
	m := map[uint64]string{}
	for len(m) < n {
		m[g.r.BiasedU64()] = g.str()
	}
	return m
}
func (g pgen) bmap() map[uint64]bool {
	n := g.msize()
	if n == 0 {
		if g.r.Bool() {
			return nil
		}
		return map[uint64]bool{}
	}
	m := map[uint64]bool{}
	for len(m) < n {
		m[g.r.BiasedU64()] = g.r.Chance(3, 4)
	}
	return m
}
func (g pgen) mb() pb.Membership {
	if g.r.Chance(1, 6) {
		return pb.Membership{}
	}
	return pb.Membership{ConfigChangeId: g.u(), Addresses: g.smap(), Removed: g.bmap(), NonVotings: g.smap(), Witnesses: g.smap()}
}
func (g pgen) sf() pb.SnapshotFile {
	return pb.SnapshotFile{Filepath: g.str(), FileSize: g.u(), FileId: g.u(), Metadata: g.opt()}
}
func (g pgen) entry() pb.Entry {
	e := parseEntry(strings.Fields(genEntry(g.r))[1:])
	if len(e.Cmd) > 300 {
		e.Cmd = e.Cmd[:1+g.r.Intn(300)]
	}
	switch g.r.Intn(4) {
	case 0:
		e.Cmd = nil
	case 1:
		e.Cmd = []byte{}
	}
	return e
}
func (g pgen) entries() []pb.Entry {
	n := []int{0, 0, 0, 0, 1, 1, 2, 3}[g.r.Intn(8)]
	if n == 3 && g.r.Bool() {
		n = 7
	}
	var es []pb.Entry
	for i := 0; i < n; i++ {
		es = append(es, g.entry())
	}
	if n == 0 && g.r.Bool() {
		return []pb.Entry{}
	}
	return es
}
func (g pgen) sn() pb.Snapshot {
	if g.r.Chance(1, 3) {
		return pb.Snapshot{}
	}
	s := pb.Snapshot{Filepath: g.str(), FileSize: g.u(), Index: g.u(), Term: g.u(), Membership: g.mb(),
		Checksum: g.opt(), Dummy: g.r.Bool(), ShardID: g.u(), Type: pb.StateMachineType(g.i32(4)),
		Imported: g.r.Bool(), OnDiskIndex: g.u(), Witness: g.r.Bool()}
	switch k := g.r.Intn(8); {
	case k < 2:
	case k < 4:
		s.Files = []*pb.SnapshotFile{}
	default:
		for i := 1 + g.r.Intn(3); i > 0; i-- {
			f := g.sf()
			s.Files = append(s.Files, &f)
		}
	}
	return s
}
func (g pgen) msg() pb.Message {
	return pb.Message{Type: pb.MessageType(g.i32(29)), To: g.u(), From: g.u(), ShardID: g.u(), Term: g.u(),
		LogTerm: g.u(), LogIndex: g.u(), Commit: g.u(), Reject: g.r.Bool(), Hint: g.u(), Entries: g.entries(),
		Snapshot: g.sn(), HintHigh: g.u()}
}

var pbTypes = []string{"state", "session", "cc", "sf", "sh", "rds", "eb", "mb", "bs", "sn", "msg", "bt", "ck"}
var noMapTypes = []string{"state", "session", "cc", "sf", "sh", "rds", "eb"}

func (g pgen) value(ty string) (codec, string) {
	w := &tw{}
	var c codec
	switch ty {
	case "state":
		s := pb.State{Term: g.u(), Vote: g.u(), Commit: g.u()}
		w.state(&s)
		c = &s
	case "session":
		s := client.Session{ShardID: g.u(), ClientID: g.u(), SeriesID: g.u(), RespondedTo: g.u()}
		w.u(s.ShardID); w.u(s.ClientID); w.u(s.SeriesID); w.u(s.RespondedTo)
		c = &s
	case "cc":
		x := pb.ConfigChange{ConfigChangeId: g.u(), Type: pb.ConfigChangeType(g.i32(4)), ReplicaID: g.u(), Address: g.str(), Initialize: g.r.Bool()}
		w.u(x.ConfigChangeId); w.i(int32(x.Type)); w.u(x.ReplicaID); w.s(x.Address); w.bo(x.Initialize)
		c = &x
	case "sf":
		f := g.sf()
		w.sf(&f)
		c = &f
	case "sh":
		h := pb.SnapshotHeader{SessionSize: g.u(), DataStoreSize: g.u(), UnreliableTime: g.u(), GitVersion: g.str(),
			HeaderChecksum: g.opt(), PayloadChecksum: g.opt(), ChecksumType: pb.ChecksumType(g.i32(2)), Version: g.u(),
			CompressionType: pb.CompressionType(g.i32(2))}
		w.u(h.SessionSize); w.u(h.DataStoreSize); w.u(h.UnreliableTime); w.s(h.GitVersion); w.opt(h.HeaderChecksum)
		w.opt(h.PayloadChecksum); w.i(int32(h.ChecksumType)); w.u(h.Version); w.i(int32(h.CompressionType))
		c = &h
	case "rds":
		d := pb.RaftDataStatus{Address: g.str(), BinVer: uint32(g.u()), HardHash: g.u(), LogdbType: g.str(), Hostname: g.str(),
			DeploymentId: g.u(), StepWorkerCount: g.u(), LogdbShardCount: g.u(), MaxSessionCount: g.u(), EntryBatchSize: g.u(),
			AddressByNodeHostId: g.r.Bool()}
		w.s(d.Address); w.u(uint64(d.BinVer)); w.u(d.HardHash); w.s(d.LogdbType); w.s(d.Hostname); w.u(d.DeploymentId)
		w.u(d.StepWorkerCount); w.u(d.LogdbShardCount); w.u(d.MaxSessionCount); w.u(d.EntryBatchSize); w.bo(d.AddressByNodeHostId)
		c = &d
	case "eb":
		b := pb.EntryBatch{Entries: g.entries()}
		w.entries(b.Entries)
		c = &b
	case "mb":
		m := g.mb()
		w.mb(&m)
		c = &m
	case "bs":
		b := pb.Bootstrap{Addresses: g.smap(), Join: g.r.Bool(), Type: pb.StateMachineType(g.i32(4))}
		w.smap(b.Addresses); w.bo(b.Join); w.i(int32(b.Type))
		c = &b
	case "sn":
		s := g.sn()
		w.sn(&s)
		c = &s
	case "msg":
		m := g.msg()
		w.msg(&m)
		c = &m
	case "bt":
		b := pb.MessageBatch{DeploymentId: g.u(), SourceAddress: g.str(), BinVer: uint32(g.u())}
		switch k := g.r.Intn(8); {
		case k < 2:
		case k < 4:
			b.Requests = []pb.Message{}
		default:
			for i := []int{1, 1, 2, 4}[g.r.Intn(4)]; i > 0; i-- {
				b.Requests = append(b.Requests, g.msg())
			}
		}
		w.cnt(len(b.Requests), b.Requests == nil)
		for i := range b.Requests {
			w.msg(&b.Requests[i])
		}
		w.u(b.DeploymentId); w.s(b.SourceAddress); w.u(uint64(b.BinVer))
		c = &b
	case "ck":
		k := pb.Chunk{ShardID: g.u(), ReplicaID: g.u(), From: g.u(), ChunkId: g.u(), ChunkSize: g.u(), ChunkCount: g.u(),
			Data: g.opt(), Index: g.u(), Term: g.u(), Membership: g.mb(), Filepath: g.str(), FileSize: g.u(),
			DeploymentId: g.u(), FileChunkId: g.u(), FileChunkCount: g.u(), HasFileInfo: g.r.Bool(), FileInfo: g.sf(),
			BinVer: uint32(g.u()), OnDiskIndex: g.u(), Witness: g.r.Bool()}
		if g.r.Chance(1, 4) {
			k.Data = g.r.Bytes(100 + g.r.Intn(200))
		}
		if g.r.Chance(1, 3) {
			k.ChunkCount = []uint64{pb.LastChunkCount, pb.PoisonChunkCount}[g.r.Intn(2)]
		}
		w.u(k.ShardID); w.u(k.ReplicaID); w.u(k.From); w.u(k.ChunkId); w.u(k.ChunkSize); w.u(k.ChunkCount)
		w.opt(k.Data); w.u(k.Index); w.u(k.Term); w.mb(&k.Membership); w.s(k.Filepath); w.u(k.FileSize)
		w.u(k.DeploymentId); w.u(k.FileChunkId); w.u(k.FileChunkCount); w.bo(k.HasFileInfo); w.sf(&k.FileInfo)
		w.u(uint64(k.BinVer)); w.u(k.OnDiskIndex); w.bo(k.Witness)
		c = &k
	}
	return c, w.b.String()
}

func mutate(r *vh.Rand, b []byte) []byte {
	b = append([]byte{}, b...)
	switch r.Intn(7) {
	case 0:
		if len(b) > 0 {
			b[r.Intn(len(b))] ^= 1 << uint(r.Intn(8))
		}
	case 1:
		b = b[:r.Intn(len(b)+1)]
	case 2:
		b = append(b, r.Bytes(1+r.Intn(4))...)
	case 3:
		i := r.Intn(len(b) + 1)
		b = append(append(append([]byte{}, b[:i]...), r.Bytes(1+r.Intn(3))...), b[i:]...)
	case 4:
		b = r.Bytes(r.Intn(24))
	case 5:
		// an unknown field of some wire type spliced in at a field boundary (start)
		extra := [][]byte{{0xf8, 0x01, 0x05}, {0xf9, 0x01, 1, 2, 3, 4, 5, 6, 7, 8}, {0xfa, 0x01, 0x02, 9, 9},
			{0xfd, 0x01, 1, 2, 3, 4}, {0xfb, 0x01, 0x08, 0x01, 0xfc, 0x01}, {0xfb, 0x01, 0xfb, 0x01, 0xfc, 0x01, 0x0d, 1, 2, 3, 4, 0xfc, 0x01},
			{0xfc, 0x01}, {0xfe, 0x01, 0x00}}[r.Intn(8)]
		b = append(append([]byte{}, extra...), b...)
	default:
		if len(b) > 1 {
			b[r.Intn(len(b))] = []byte{0x80, 0xff, 0x7f, 0x00, 0x0b, 0x0c, 0x09, 0x0d}[r.Intn(8)]
		}
	}
	return b
}

func genProto(r *vh.Rand, w *vh.LineWriter, next int, tier string) int {
	g := pgen{r}
	emit := func(format string, a ...interface{}) {
		w.Printf("%d %s\n", next, fmt.Sprintf(format, a...))
		next++
	}
	per := 120
	nupd := 250
	if tier == "thorough" {
		per, nupd = 6000, 12000
	}
	for _, ty := range pbTypes {
		for i := 0; i < per; i++ {
			c, toks := g.value(ty)
			emit("PB %s%s", ty, toks)
			if i%3 == 0 {
				// the implementation's own bytes (random map order) through both decoders
				var b []byte
				var err error
				if p := vh.Catch(func() { b, err = c.Marshal() }); p == "" && err == nil {
					emit("PBDEC %s %s", ty, vh.Hex(b))
				}
			}
		}
	}
	for _, ty := range noMapTypes {
		for i := 0; i < per; i++ {
			c, _ := g.value(ty)
			var b []byte
			var err error
			if p := vh.Catch(func() { b, err = c.Marshal() }); p != "" || err != nil || len(b) > 200 {
				continue
			}
			emit("PBDEC %s %s", ty, vh.Hex(mutate(r, b)))
		}
	}
	for i := 0; i < nupd; i++ {
		u := pb.Update{ShardID: g.u(), ReplicaID: g.u(), EntriesToSave: g.entries(), Snapshot: g.sn()}
		if !g.r.Chance(1, 3) {
			u.State = pb.State{Term: g.u(), Vote: g.u(), Commit: g.u()}
		}
		if g.r.Chance(1, 5) {
			u.ShardID, u.ReplicaID = ^uint64(0), ^uint64(0)-uint64(g.r.Intn(2))
		}
		if i%8 == 3 {
			// worst-case head: every varint of the head and of the State takes 10
			// bytes, no entries (entries only add slack to SizeUpperLimit)
			big := func() uint64 { return 1<<63 + g.r.U64()>>1 }
			u.ShardID, u.ReplicaID = big(), big()
			u.State = pb.State{Term: big(), Vote: big(), Commit: big()}
			u.EntriesToSave = nil
			if i%16 == 3 {
				u.Snapshot = g.sn()
				u.Snapshot.Index = 1 + g.r.U64()>>1
			}
		}
		tw := &tw{}
		tw.u(u.ShardID); tw.u(u.ReplicaID); tw.state(&u.State); tw.entries(u.EntriesToSave); tw.sn(&u.Snapshot)
		emit("UPD%s", tw.b.String())
		if i%5 == 0 {
			var buf []byte
			var n int
			var err error
			p := vh.Catch(func() {
				buf = make([]byte, u.SizeUpperLimit()+4096)
				n, err = u.MarshalTo(buf)
			})
			if p == "" && err == nil && n < 400 {
				for _, cut := range []int{0, 1, n / 3, n / 2, n - 1, g.r.Intn(n + 1)} {
					if cut >= 0 && cut <= n {
						emit("UPDDEC %s", vh.Hex(buf[:cut]))
					}
				}
			}
		}
	}
	return next
}
