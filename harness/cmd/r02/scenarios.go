package main

// Scripted schedules: rare multi-step situations that random scheduling reaches too
// seldom (two campaigns racing for one voter, a transfer overlapping a removal, reads on
// a deposed leader, a delayed confirmation). Each script still goes through the same
// driver, so it is an ordinary recorded schedule: executed on the real code and on the
// model, and judged by the same monitors. Small random variations come from r.

import (
	"fmt"
	"strings"

	pb "github.com/lni/dragonboat/v4/raftpb"

	"verif/harness/raftsim"
	"verif/harness/vh"
)

func newScenarioGen(r *vh.Rand, nv int, et uint64, cq, pv bool) *gen {
	c := &raftsim.Cluster{Nodes: map[uint64]*raftsim.Node{}}
	c.HT, c.ET, c.CQ, c.PV = 1, et, cq, pv
	g := &gen{r: r, c: c, started: map[uint64]byte{}, pending: map[uint64]byte{}, blocked: map[uint64]bool{}, nextKey: 500, nboot: nv}
	g.Driver = &raftsim.Driver{C: c}
	g.Record = func(op string, rt uint64) { g.ops = append(g.ops, fmt.Sprintf("%s @%d", op, rt)) }
	var init []string
	for i := 1; i <= nv; i++ {
		init = append(init, fmt.Sprint(i))
	}
	for i := 1; i <= nv; i++ {
		g.do(fmt.Sprintf("START %d V %s %s", i, strings.Join(init, "+"), strings.Join(raftsim.BootstrapCmds(raftsim.SplitIDs(strings.Join(init, "+"))), ",")))
		g.update(uint64(i))
		g.apply(uint64(i), 100)
	}
	return g
}

// settle delivers pool messages accepted by keep (others stay in the pool) until none is left.
func (g *gen) settle(keep func(m pb.Message) bool) {
	for n := 0; n < 400 && !g.Stopped; n++ {
		idx := -1
		for i, m := range g.Pool {
			if keep == nil || keep(m) {
				idx = i
				break
			}
		}
		if idx < 0 {
			return
		}
		m := g.Pool[idx]
		g.Deliver(idx, false, false, nil)
		if g.Stopped {
			return
		}
		if _, ok := g.c.Nodes[m.To]; ok {
			g.update(m.To)
			if !g.Stopped {
				g.apply(m.To, 100)
			}
		}
	}
}

func (g *gen) role(id uint64) uint64 { return raftsim.Inspect(g.c.Nodes[id]).Role }
func (g *gen) term(id uint64) uint64 { return raftsim.Inspect(g.c.Nodes[id]).Term }

// tickUntil ticks replica id (taking its updates) until pred holds.
func (g *gen) tickUntil(id uint64, pred func() bool, max int) bool {
	for i := 0; i < max && !g.Stopped; i++ {
		if pred() {
			return true
		}
		g.do(fmt.Sprintf("T %d", id))
		if !g.Stopped {
			g.update(id)
		}
	}
	return pred()
}

func (g *gen) elect(id uint64, among func(m pb.Message) bool) bool {
	for round := 0; round < 6 && !g.Stopped; round++ {
		g.tickUntil(id, func() bool { r := g.role(id); return r == 1 || r == 2 || r == 3 }, 40)
		g.settle(among)
		if g.role(id) == 3 {
			// let the no-op commit and be applied everywhere reachable
			g.settle(among)
			for _, k := range g.liveIDs() {
				g.update(k)
				g.apply(k, 100)
			}
			g.settle(among)
			return true
		}
	}
	return false
}

func (g *gen) propose(id uint64) {
	g.nextKey++
	g.do(fmt.Sprintf("P %d %d 0 0 %s", id, g.nextKey, vh.Hex([]byte{byte(g.nextKey), byte(g.nextKey >> 8)})))
	if !g.Stopped {
		g.update(id)
	}
}

func only(ids ...uint64) func(m pb.Message) bool {
	return func(m pb.Message) bool {
		okTo, okFrom := false, false
		for _, k := range ids {
			if m.To == k {
				okTo = true
			}
			if m.From == k {
				okFrom = true
			}
		}
		return okTo && okFrom
	}
}

func (g *gen) dropPool(pred func(m pb.Message) bool) {
	var keep []pb.Message
	for _, m := range g.Pool {
		if !pred(m) {
			keep = append(keep, m)
		}
	}
	g.Pool = keep
}

// scenario 0: a leadership transfer (hinted RequestVote) races with an ordinary campaign
// for the same term; the third voter sees the ordinary request first.
func scenarioVoteRace(r *vh.Rand) (string, []string) {
	g := newScenarioGen(r, 3, uint64(4+r.Intn(4)), false, false)
	if !g.elect(1, nil) {
		return g.c.Header(), g.ops
	}
	for i := 0; i < r.Intn(3); i++ {
		g.propose(1)
		g.settle(nil)
	}
	// replica 3's timer fires while its RequestVotes stay in flight
	t0 := g.term(1)
	g.tickUntil(3, func() bool { return g.role(3) == 1 && g.term(3) == t0+1 }, 60)
	// the leader transfers to 2: TimeoutNow -> 2 campaigns for the same term with the hint
	g.do("LT 1 2")
	g.update(1)
	g.settle(func(m pb.Message) bool { return m.Type == pb.TimeoutNow })
	g.update(2)
	// replica 1 sees 3's request first, then 2's hinted request
	g.settle(func(m pb.Message) bool { return m.Type == pb.RequestVote && m.From == 3 && m.To == 1 })
	g.settle(func(m pb.Message) bool { return m.Type == pb.RequestVote && m.From == 2 && m.To == 1 })
	g.settle(func(m pb.Message) bool { return m.Type == pb.RequestVoteResp })
	g.settle(nil)
	return g.c.Header(), g.ops
}

// scenario 1: a transfer to replica 2 overlaps with the removal of replica 2; the TimeoutNow
// arrives after 2 applied its own removal.
func scenarioTransferRemove(r *vh.Rand) (string, []string) {
	g := newScenarioGen(r, 3, uint64(4+r.Intn(4)), false, false)
	if !g.elect(1, nil) {
		return g.c.Header(), g.ops
	}
	g.nextKey++
	g.cc(1, uint64(pb.RemoveNode), 2)
	g.update(1)
	g.do("LT 1 2")
	g.update(1)
	hold := func(m pb.Message) bool { return m.Type != pb.TimeoutNow }
	g.settle(hold)
	// let everybody learn the commit index and apply the removal
	for i := 0; i < 3 && !g.Stopped; i++ {
		g.do("T 1")
		g.update(1)
		g.settle(hold)
		for _, k := range g.liveIDs() {
			g.update(k)
			g.apply(k, 100)
		}
	}
	// now the delayed TimeoutNow reaches the removed replica
	g.settle(func(m pb.Message) bool { return m.Type == pb.TimeoutNow })
	g.update(2)
	g.settle(nil)
	return g.c.Header(), g.ops
}

func (g *gen) addNonVoting(leader, id uint64) {
	g.nextKey++
	g.cc(leader, uint64(pb.AddNonVoting), id)
	g.update(leader)
	g.settle(nil)
	for _, k := range g.liveIDs() {
		g.update(k)
		g.apply(k, 100)
	}
	g.settle(nil)
	g.do(fmt.Sprintf("START %d N . -", id))
	for i := 0; i < 4 && !g.Stopped; i++ {
		g.do(fmt.Sprintf("T %d", leader))
		g.update(leader)
		g.settle(nil)
		for _, k := range g.liveIDs() {
			g.update(k)
			g.apply(k, 100)
		}
	}
}

// scenario 2: the leader is cut off from the other voters together with a non-voting member;
// the others elect a new leader and commit; a read is then issued on the old leader.
func scenarioDeposedLeaderRead(r *vh.Rand) (string, []string) {
	g := newScenarioGen(r, 3, uint64(5+r.Intn(3)), false, false)
	if !g.elect(1, nil) {
		return g.c.Header(), g.ops
	}
	g.addNonVoting(1, 4)
	g.propose(1)
	g.settle(nil)
	// partition {1,4} | {2,3}
	side := only(2, 3)
	g.dropPool(func(m pb.Message) bool { return true })
	if !g.elect(2, side) {
		return g.c.Header(), g.ops
	}
	g.propose(2)
	g.settle(side)
	g.update(2)
	g.settle(side)
	// read on the deposed leader (directly, or forwarded by the non-voting member)
	g.nextKey++
	if r.Bool() {
		g.do(fmt.Sprintf("R 1 %d 1", g.nextKey))
		g.update(1)
	} else {
		g.do(fmt.Sprintf("R 4 %d 1", g.nextKey))
		g.update(4)
	}
	old := only(1, 4)
	g.settle(old)
	for i := 0; i < 3 && !g.Stopped; i++ {
		g.do("T 1")
		g.update(1)
		g.settle(old)
		g.update(4)
		g.settle(old)
	}
	g.update(1)
	g.update(4)
	return g.c.Header(), g.ops
}

// scenario 3: a confirmation for read A is delayed; the leader is deposed, a write commits
// elsewhere, read B is issued on the old leader, then the delayed confirmation for A arrives.
func scenarioDelayedConfirmation(r *vh.Rand) (string, []string) {
	g := newScenarioGen(r, 3, uint64(5+r.Intn(3)), false, false)
	if !g.elect(1, nil) {
		return g.c.Header(), g.ops
	}
	g.propose(1)
	g.settle(nil)
	g.nextKey++
	g.do(fmt.Sprintf("R 1 %d 1", g.nextKey)) // read A
	g.update(1)
	// heartbeats go out; only replica 2's confirmation comes back, 3's is held
	held := func(m pb.Message) bool { return !(m.Type == pb.HeartbeatResp && m.From == 3) }
	g.settle(held)
	g.update(1)
	// partition the old leader; 2 and 3 elect and commit
	side := only(2, 3)
	if !g.elect(2, func(m pb.Message) bool { return side(m) && held(m) }) {
		return g.c.Header(), g.ops
	}
	g.propose(2)
	g.settle(func(m pb.Message) bool { return side(m) && held(m) })
	g.update(2)
	g.settle(func(m pb.Message) bool { return side(m) && held(m) })
	// read B on the deposed leader, then the delayed confirmation for A arrives
	g.nextKey++
	g.do(fmt.Sprintf("R 1 %d 1", g.nextKey))
	g.update(1)
	g.dropPool(func(m pb.Message) bool { return m.From == 1 }) // its heartbeats are lost
	g.settle(func(m pb.Message) bool { return m.Type == pb.HeartbeatResp && m.From == 3 && m.To == 1 })
	g.update(1)
	return g.c.Header(), g.ops
}

// scenario 4: a leadership transfer reaches a follower that knows a membership change is
// committed but has not applied it; whoever leads afterwards is then asked for another change.
func scenarioTransferWithUnappliedChange(r *vh.Rand) (string, []string) {
	g := newScenarioGen(r, 3, uint64(4+r.Intn(4)), false, false)
	if !g.elect(1, nil) {
		return g.c.Header(), g.ops
	}
	g.nextKey++
	g.cc(1, uint64(pb.AddNode), 4)
	g.update(1)
	// replicate and commit, but nobody applies yet (no apply ops): deliver without the apply step
	deliverNoApply := func(keep func(m pb.Message) bool) {
		for n := 0; n < 200 && !g.Stopped; n++ {
			idx := -1
			for i, m := range g.Pool {
				if keep(m) {
					idx = i
					break
				}
			}
			if idx < 0 {
				return
			}
			m := g.Pool[idx]
			g.Deliver(idx, false, false, nil)
			if !g.Stopped {
				g.do(fmt.Sprintf("U %d 1 %d", m.To, g.c.Nodes[m.To].Applied))
			}
		}
	}
	all := func(m pb.Message) bool { return m.To != 4 }
	deliverNoApply(all)
	g.do("T 1")
	g.do(fmt.Sprintf("U 1 1 %d", g.c.Nodes[1].Applied))
	deliverNoApply(all)
	// transfer to 2 while 2 has committed > applied
	g.do("LT 1 2")
	g.do(fmt.Sprintf("U 1 1 %d", g.c.Nodes[1].Applied))
	deliverNoApply(all)
	deliverNoApply(all)
	// a second change is requested from whoever is leader now
	for _, k := range g.liveIDs() {
		if g.role(k) == 3 {
			g.nextKey++
			g.cc(k, uint64(pb.AddNode), 5)
			g.do(fmt.Sprintf("U %d 1 %d", k, g.c.Nodes[k].Applied))
		}
	}
	deliverNoApply(all)
	return g.c.Header(), g.ops
}

var scenarios = []func(r *vh.Rand) (string, []string){
	scenarioTransferWithUnappliedChange,
	scenarioVoteRace, scenarioTransferRemove, scenarioDeposedLeaderRead, scenarioDelayedConfirmation,
}
