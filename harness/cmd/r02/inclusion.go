package main

// The inclusion verdicts of the model driver as a monitor and as coverage statistics.
//
// bin/check compares the "<case> incl=ok steps=<n>" lines of both sides, which is enough to
// turn a refused L1 step into a VIOLATION. Running the driver from here as well makes the
// refused step a monitor hit (so that bin/check shrinks the schedule to the shortest
// failing prefix and writes a replayable counterexample) and puts what the explainer did
// (L2 labels by kind, L1 operations explained / resynchronised / lost with a restart) into
// stats.json, where the evidence file takes its coverage from.
//
// The driver is the one bin/check built just before the harness runs:
// <build dir>/ocaml/r02/driver, two levels above this executable's directory.

import (
	"bytes"
	"os"
	"os/exec"
	"path/filepath"
	"strconv"
	"strings"

	"verif/harness/vh"
)

func inclusionMonitor(casesFile string, st *vh.Stats) {
	exe, err := os.Executable()
	if err != nil {
		st.Notes["inclusion"] = "inclusion statistics not available: " + err.Error()
		return
	}
	drv := filepath.Join(filepath.Dir(exe), "..", "..", "ocaml", "r02", "driver")
	if _, err := os.Stat(drv); err != nil {
		st.Notes["inclusion"] = "model driver not built; the inclusion verdicts are compared by bin/check only"
		return
	}
	f, err := os.Open(casesFile)
	if err != nil {
		return
	}
	defer f.Close()
	cmd := exec.Command(drv)
	cmd.Stdin = f
	var out, errb bytes.Buffer
	cmd.Stdout = &out
	cmd.Stderr = &errb
	if err := cmd.Run(); err != nil {
		st.Notes["inclusion"] = "model driver failed: " + err.Error()
		return
	}
	okCases, failCases, labels, resync, ops := 0, 0, 0, 0, 0
	kinds := map[string]int{}
	for _, line := range strings.Split(out.String(), "\n") {
		t := strings.Fields(line)
		if len(t) < 2 || !strings.HasPrefix(t[1], "incl=") {
			continue
		}
		if t[1] != "incl=ok" {
			failCases++
			st.Violation(t[0], "an L1 step is not a run of the L2 step function: "+strings.Join(t[2:], " "))
			continue
		}
		okCases++
		for _, kv := range t[2:] {
			p := strings.SplitN(kv, "=", 2)
			if len(p) != 2 {
				continue
			}
			v, _ := strconv.Atoi(p[1])
			switch p[0] {
			case "steps":
				ops += v
			case "labels":
				labels += v
			case "resync":
				resync += v
			case "kinds", "giveup":
				for _, k := range strings.Split(p[1], ",") {
					kinds[k]++
				}
			}
		}
	}
	for _, line := range strings.Split(errb.String(), "\n") {
		// "R02 explained: T=20508 U=39669 ..." / "R02 resync: ..." / "R02 labels: ..."
		if !strings.HasPrefix(line, "R02 ") {
			continue
		}
		p := strings.SplitN(line[4:], ":", 2)
		if len(p) != 2 {
			continue
		}
		for _, kv := range strings.Fields(p[1]) {
			i := strings.LastIndex(kv, "=")
			if i < 0 {
				continue
			}
			v, _ := strconv.Atoi(kv[i+1:])
			st.Distribution["l2."+p[0]+"."+kv[:i]] += v
		}
	}
	note := "cases accepted " + strconv.Itoa(okCases) + ", refused " + strconv.Itoa(failCases) +
		"; L1 operations " + strconv.Itoa(ops) + ", L2 labels " + strconv.Itoa(labels) +
		", resynchronisations " + strconv.Itoa(resync)
	if len(kinds) > 0 {
		var ks []string
		for k, v := range kinds {
			ks = append(ks, k+"="+strconv.Itoa(v))
		}
		note += " (" + strings.Join(ks, ", ") + ")"
	}
	st.Notes["inclusion"] = note
}
