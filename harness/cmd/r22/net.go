package main

// In-process transport with fault injection for the R22 end-to-end harness (copy of harness/cmd/c01/net.go).
// Faults: loss, delay, reordering (different delays), symmetric and asymmetric
// partitions. A message batch is delivered at most once and is never altered
// (no duplication, no fabrication).

import (
	"context"
	"errors"
	"sync"
	"sync/atomic"
	"time"

	"github.com/lni/dragonboat/v4/config"
	"github.com/lni/dragonboat/v4/raftio"
	pb "github.com/lni/dragonboat/v4/raftpb"
	"verif/harness/vh"
)

var errUnreachable = errors.New("r22 net: unreachable")

// endpoint is the receiving side of one NodeHost. As with the TCP transport, once
// ITransport.Close has returned no handler call is running or will be started
// (NodeHost.Close tears the engine down right after it).
type endpoint struct {
	mu      sync.RWMutex
	closed  bool
	handler raftio.MessageHandler
	chunks  raftio.ChunkHandler
}

// deliver hands a batch to the NodeHost unless its transport was closed.
func (ep *endpoint) deliver(b pb.MessageBatch) bool {
	ep.mu.RLock()
	defer ep.mu.RUnlock()
	if ep.closed {
		return false
	}
	ep.handler(b)
	return true
}

func (ep *endpoint) deliverChunk(c pb.Chunk) bool {
	ep.mu.RLock()
	defer ep.mu.RUnlock()
	if ep.closed {
		return false
	}
	return ep.chunks(c)
}

// network is one simulated network shared by the NodeHosts of one history.
type network struct {
	mu        sync.Mutex
	eps       map[string]*endpoint
	blocked   map[[2]string]bool // directed: src -> dst dropped
	lossPct   int                // 0..100
	maxDelay  time.Duration      // uniform in [0,maxDelay]
	rnd       *vh.Rand
	sent      int64
	dropped   int64
	delayed   int64
	delivered int64
	closed    int32
	wg        sync.WaitGroup
	// the next snapDown[addr] snapshot connections to addr are refused (the snapshot
	// port of a host that just came up is not reachable yet);
	// snapRefused counts the refusals
	snapDown    map[string]int
	snapRefused int64
}

// refuseSnapshotsTo makes the next k attempts to open a snapshot connection to
// addr fail; raft messages are not affected.
func (n *network) refuseSnapshotsTo(addr string, k int) {
	n.mu.Lock()
	if n.snapDown == nil {
		n.snapDown = map[string]int{}
	}
	n.snapDown[addr] = k
	n.mu.Unlock()
}

func (n *network) snapshotsRefused(addr string) bool {
	n.mu.Lock()
	defer n.mu.Unlock()
	if n.snapDown[addr] > 0 {
		n.snapDown[addr]--
		n.snapRefused++
		return true
	}
	return false
}

func newNetwork(seed uint64) *network {
	return &network{eps: map[string]*endpoint{}, blocked: map[[2]string]bool{}, rnd: vh.NewRand(seed)}
}

func (n *network) heal() {
	n.mu.Lock()
	n.blocked = map[[2]string]bool{}
	n.lossPct = 0
	n.maxDelay = 0
	n.mu.Unlock()
}

func (n *network) block(src, dst string) {
	n.mu.Lock()
	n.blocked[[2]string{src, dst}] = true
	n.mu.Unlock()
}

func (n *network) setLossDelay(lossPct int, maxDelay time.Duration) {
	n.mu.Lock()
	n.lossPct = lossPct
	n.maxDelay = maxDelay
	n.mu.Unlock()
}

func (n *network) close() {
	atomic.StoreInt32(&n.closed, 1)
	n.wg.Wait()
}

// decide returns (deliver?, delay, endpoint)
func (n *network) decide(src, dst string) (bool, time.Duration, *endpoint) {
	n.mu.Lock()
	defer n.mu.Unlock()
	atomic.AddInt64(&n.sent, 1)
	ep := n.eps[dst]
	if ep == nil || n.blocked[[2]string{src, dst}] {
		atomic.AddInt64(&n.dropped, 1)
		return false, 0, nil
	}
	if n.lossPct > 0 && n.rnd.Intn(100) < n.lossPct {
		atomic.AddInt64(&n.dropped, 1)
		return false, 0, nil
	}
	var d time.Duration
	if n.maxDelay > 0 {
		d = time.Duration(n.rnd.Intn(int(n.maxDelay/time.Microsecond)+1)) * time.Microsecond
	}
	return true, d, ep
}

func (n *network) down(dst string) bool {
	n.mu.Lock()
	defer n.mu.Unlock()
	return n.eps[dst] == nil
}

func (n *network) reachable(src, dst string) (*endpoint, bool) {
	n.mu.Lock()
	defer n.mu.Unlock()
	ep := n.eps[dst]
	if ep == nil || n.blocked[[2]string{src, dst}] {
		return nil, false
	}
	return ep, true
}

// ---- raftio.ITransport ---------------------------------------------------------

type netFactory struct{ net *network }

func (f *netFactory) Create(c config.NodeHostConfig, h raftio.MessageHandler, ch raftio.ChunkHandler) raftio.ITransport {
	return &netTransport{net: f.net, addr: c.RaftAddress, ep: &endpoint{handler: h, chunks: ch}}
}
func (f *netFactory) Validate(string) bool { return true }

type netTransport struct {
	net  *network
	addr string
	ep   *endpoint
}

func (t *netTransport) Name() string { return "r22-faulty-inproc" }
func (t *netTransport) Start() error {
	t.net.mu.Lock()
	t.net.eps[t.addr] = t.ep
	t.net.mu.Unlock()
	return nil
}
func (t *netTransport) Close() error {
	t.net.mu.Lock()
	if t.net.eps[t.addr] == t.ep {
		delete(t.net.eps, t.addr)
	}
	t.net.mu.Unlock()
	t.ep.mu.Lock()
	t.ep.closed = true
	t.ep.mu.Unlock()
	return nil
}
func (t *netTransport) GetConnection(ctx context.Context, target string) (raftio.IConnection, error) {
	if _, ok := t.net.reachable(t.addr, target); !ok {
		return nil, errUnreachable
	}
	return &netConn{t: t, target: target}, nil
}
func (t *netTransport) GetSnapshotConnection(ctx context.Context, target string) (raftio.ISnapshotConnection, error) {
	if t.net.snapshotsRefused(target) {
		return nil, errUnreachable
	}
	if _, ok := t.net.reachable(t.addr, target); !ok {
		return nil, errUnreachable
	}
	return &netSSConn{t: t, target: target}, nil
}

type netConn struct {
	t      *netTransport
	target string
}

func (c *netConn) Close() {}
func (c *netConn) SendMessageBatch(batch pb.MessageBatch) error {
	n := c.t.net
	if atomic.LoadInt32(&n.closed) != 0 {
		return errUnreachable
	}
	ok, d, ep := n.decide(c.t.addr, c.target)
	if !ok {
		if n.down(c.target) {
			// the host is not there (restarting): the connection breaks, the sender
			// closes it and is told that the target is unreachable
			return errUnreachable
		}
		return nil // silently lost
	}
	// private copy: the sender reuses the batch
	data := pb.MustMarshal(&batch)
	var cp pb.MessageBatch
	pb.MustUnmarshal(&cp, data)
	if d == 0 {
		if ep.deliver(cp) {
			atomic.AddInt64(&n.delivered, 1)
		} else {
			atomic.AddInt64(&n.dropped, 1)
		}
		return nil
	}
	atomic.AddInt64(&n.delayed, 1)
	n.wg.Add(1)
	time.AfterFunc(d, func() {
		defer n.wg.Done()
		if atomic.LoadInt32(&n.closed) != 0 {
			return
		}
		// the endpoint may have been closed (host restart) in the meantime
		if ep.deliver(cp) {
			atomic.AddInt64(&n.delivered, 1)
		} else {
			atomic.AddInt64(&n.dropped, 1)
		}
	})
	return nil
}

type netSSConn struct {
	t      *netTransport
	target string
}

func (c *netSSConn) Close() {}
func (c *netSSConn) SendChunk(chunk pb.Chunk) error {
	ep, ok := c.t.net.reachable(c.t.addr, c.target)
	if !ok {
		return errUnreachable
	}
	data := pb.MustMarshal(&chunk)
	var cp pb.Chunk
	pb.MustUnmarshal(&cp, data)
	if !ep.deliverChunk(cp) {
		return errUnreachable
	}
	return nil
}
