package main

// The user state machine of the R22 harness: the ordered list of applied proposal ids
// (cmd = 8 byte id + padding). All three kinds (regular, concurrent, on-disk) share it.
// A gate makes Update block (a state machine that is slow for as long as the harness
// wants), which is how the rate limiter is made to engage deterministically: entries
// stay in the in-memory log until they are applied.

import (
	"encoding/binary"
	"errors"
	"io"
	"sync"

	sm "github.com/lni/dragonboat/v4/statemachine"
)

type store struct {
	mu   sync.Mutex
	ids  []uint64
	last uint64 // index of the last applied entry this state machine saw
	hash uint64
}

func (s *store) apply(index uint64, cmd []byte) uint64 {
	s.mu.Lock()
	defer s.mu.Unlock()
	var id uint64
	if len(cmd) >= 8 {
		id = binary.BigEndian.Uint64(cmd)
	}
	s.ids = append(s.ids, id)
	s.hash = (s.hash ^ id) * 0x100000001B3
	s.last = index
	return uint64(len(s.ids))
}

func (s *store) snapshot() []byte {
	s.mu.Lock()
	defer s.mu.Unlock()
	b := make([]byte, 16+8*len(s.ids))
	binary.BigEndian.PutUint64(b, s.last)
	binary.BigEndian.PutUint64(b[8:], s.hash)
	for i, id := range s.ids {
		binary.BigEndian.PutUint64(b[16+8*i:], id)
	}
	return b
}

func (s *store) restore(b []byte) error {
	if len(b) < 16 || len(b)%8 != 0 {
		return errors.New("bad snapshot")
	}
	s.mu.Lock()
	defer s.mu.Unlock()
	s.last = binary.BigEndian.Uint64(b)
	s.hash = binary.BigEndian.Uint64(b[8:])
	s.ids = s.ids[:0]
	for i := 16; i < len(b); i += 8 {
		s.ids = append(s.ids, binary.BigEndian.Uint64(b[i:]))
	}
	return nil
}

func (s *store) view() (n int, hash uint64, last uint64) {
	s.mu.Lock()
	defer s.mu.Unlock()
	return len(s.ids), s.hash, s.last
}

func (s *store) has(id uint64) bool {
	s.mu.Lock()
	defer s.mu.Unlock()
	for _, x := range s.ids {
		if x == id {
			return true
		}
	}
	return false
}

// registry is what the harness keeps of the state machines of one history.
type registry struct {
	mu    sync.Mutex
	live  map[uint64]*store // replica -> state of its current incarnation
	disks map[uint64]*store // replica -> persisted state of an on-disk state machine (survives the NodeHost)
	gates map[uint64]chan struct{}
	bad   []string
}

func newRegistry() *registry {
	return &registry{live: map[uint64]*store{}, disks: map[uint64]*store{}, gates: map[uint64]chan struct{}{}}
}

// gate(replica, true) makes every later Update of the replica block until gate(replica, false).
func (r *registry) gate(replica uint64, on bool) {
	r.mu.Lock()
	defer r.mu.Unlock()
	if on {
		if r.gates[replica] == nil {
			r.gates[replica] = make(chan struct{})
		}
	} else if g := r.gates[replica]; g != nil {
		close(g)
		delete(r.gates, replica)
	}
}

func (r *registry) openAll() {
	r.mu.Lock()
	defer r.mu.Unlock()
	for k, g := range r.gates {
		close(g)
		delete(r.gates, k)
	}
}

func (r *registry) pass(replica uint64) {
	r.mu.Lock()
	g := r.gates[replica]
	r.mu.Unlock()
	if g != nil {
		<-g
	}
}

func (r *registry) state(replica uint64) *store {
	r.mu.Lock()
	defer r.mu.Unlock()
	return r.live[replica]
}

type lookupResult struct {
	count int
	hash  uint64
}

type baseSM struct {
	reg     *registry
	replica uint64
	st      *store
}

func (r *registry) newBase(replica uint64, disk bool) *baseSM {
	r.mu.Lock()
	defer r.mu.Unlock()
	var st *store
	if disk {
		st = r.disks[replica]
		if st == nil {
			st = &store{}
			r.disks[replica] = st
		}
	} else {
		st = &store{}
	}
	r.live[replica] = st
	return &baseSM{reg: r, replica: replica, st: st}
}

func (b *baseSM) update(e sm.Entry) sm.Result {
	b.reg.pass(b.replica)
	return sm.Result{Value: b.st.apply(e.Index, e.Cmd)}
}

func (b *baseSM) Lookup(interface{}) (interface{}, error) {
	n, h, _ := b.st.view()
	return lookupResult{count: n, hash: h}, nil
}

func (b *baseSM) Close() error { return nil }

// regular
type regSM struct{ *baseSM }

func (s regSM) Update(e sm.Entry) (sm.Result, error) { return s.update(e), nil }
func (s regSM) SaveSnapshot(w io.Writer, _ sm.ISnapshotFileCollection, _ <-chan struct{}) error {
	_, err := w.Write(s.st.snapshot())
	return err
}
func (s regSM) RecoverFromSnapshot(r io.Reader, _ []sm.SnapshotFile, _ <-chan struct{}) error {
	b, err := io.ReadAll(r)
	if err != nil {
		return err
	}
	return s.st.restore(b)
}

// concurrent
type concSM struct{ *baseSM }

func (s concSM) Update(ents []sm.Entry) ([]sm.Entry, error) {
	for i := range ents {
		ents[i].Result = s.update(ents[i])
	}
	return ents, nil
}
func (s concSM) PrepareSnapshot() (interface{}, error) { return s.st.snapshot(), nil }
func (s concSM) SaveSnapshot(ctx interface{}, w io.Writer, _ sm.ISnapshotFileCollection, _ <-chan struct{}) error {
	_, err := w.Write(ctx.([]byte))
	return err
}
func (s concSM) RecoverFromSnapshot(r io.Reader, _ []sm.SnapshotFile, _ <-chan struct{}) error {
	b, err := io.ReadAll(r)
	if err != nil {
		return err
	}
	return s.st.restore(b)
}

// on-disk: the store object is the disk, it is updated in place and found again by Open
type diskSM struct{ *baseSM }

func (s diskSM) Open(<-chan struct{}) (uint64, error) {
	_, _, last := s.st.view()
	return last, nil
}
func (s diskSM) Update(ents []sm.Entry) ([]sm.Entry, error) {
	for i := range ents {
		ents[i].Result = s.update(ents[i])
	}
	return ents, nil
}
func (s diskSM) Sync() error                           { return nil }
func (s diskSM) PrepareSnapshot() (interface{}, error) { return s.st.snapshot(), nil }
func (s diskSM) SaveSnapshot(ctx interface{}, w io.Writer, _ <-chan struct{}) error {
	_, err := w.Write(ctx.([]byte))
	return err
}
func (s diskSM) RecoverFromSnapshot(r io.Reader, _ <-chan struct{}) error {
	b, err := io.ReadAll(r)
	if err != nil {
		return err
	}
	return s.st.restore(b)
}

// witness replicas are started with this one; it must never be given anything
type witSM struct{ reg *registry }

func (w witSM) note(what string) {
	w.reg.mu.Lock()
	w.reg.bad = append(w.reg.bad, what)
	w.reg.mu.Unlock()
}
func (w witSM) Update(sm.Entry) (sm.Result, error) {
	w.note("a witness replica was given an update")
	return sm.Result{}, nil
}
func (w witSM) Lookup(interface{}) (interface{}, error) { return nil, errors.New("witness") }
func (w witSM) SaveSnapshot(io.Writer, sm.ISnapshotFileCollection, <-chan struct{}) error {
	return nil
}
func (w witSM) RecoverFromSnapshot(io.Reader, []sm.SnapshotFile, <-chan struct{}) error { return nil }
func (w witSM) Close() error                                                             { return nil }
