package main

// One history of the R22 harness: real NodeHosts in this process on in-memory file
// systems with the fault injecting transport of net.go between them. The harness keeps
// its own ground truth of the faults it injected (which hosts run, which are cut off,
// loss) and of the membership it requested; the monitors judge the outcome of every
// request against that ground truth.

import (
	"context"
	"crypto/sha256"
	"encoding/binary"
	"errors"
	"fmt"
	"sort"
	"sync"
	"time"

	dragonboat "github.com/lni/dragonboat/v4"
	"github.com/lni/dragonboat/v4/config"
	"github.com/lni/dragonboat/v4/logger"
	sm "github.com/lni/dragonboat/v4/statemachine"
	gvfs "github.com/lni/vfs"
	"verif/harness/vh"
)

const shardID = 1
const maxHosts = 9

// kinds of members
const (
	kNone = iota
	kVoter
	kNonVoting
	kWitness
	kRemoved
)

type hcfg struct {
	id                 string
	pv, cq, q, ec, sc  bool
	sm                 string // reg | conc | disk
	n                  int    // initial voters
	rl                 uint64 // MaxInMemLogSize, 0 = off
	seed               uint64
	rtt, ertt          uint64
	bound, attempt, nq time.Duration // total bound of a judged request, time-out of one attempt, time-out of a request that cannot complete
}

// request outcomes
const (
	oNone = iota // no result although the deadline is long past
	oCompleted
	oRejected
	oDropped
	oTimeout
	oTerminated
	oAborted
	oBusy    // refused by the API: ErrSystemBusy
	oRefused // refused by the API: any other error
)

var oNames = []string{"none", "completed", "rejected", "dropped", "timeout", "terminated", "aborted", "busy", "refused"}

type cluster struct {
	cfg   hcfg
	net   *network
	reg   *registry
	mu    sync.Mutex
	hosts [maxHosts + 1]*dragonboat.NodeHost // by replica id, nil while down
	nhcs  [maxHosts + 1]config.NodeHostConfig
	addrs [maxHosts + 1]string
	kind  [maxHosts + 1]int  // ground truth: membership the harness brought about
	iso   [maxHosts + 1]bool // cut off from every other host
	loss  int
	// ids
	nextID   uint64
	idMu     sync.Mutex
	notAppl  map[uint64]string // proposal ids that were refused or dropped: must never be applied
	complete map[uint64]bool   // proposal ids that completed
	// quiesce baseline of the last QUIESCE op
	qbase map[int]dragonboat.VerifR22State
	// monitor
	viol  []string
	dist  map[string]int
	flags map[string]bool
	rnd   *vh.Rand
}

func (c *cluster) violation(format string, a ...interface{}) {
	c.mu.Lock()
	c.viol = append(c.viol, fmt.Sprintf(format, a...))
	c.mu.Unlock()
}

func (c *cluster) count(k string) {
	c.mu.Lock()
	c.dist[k]++
	c.mu.Unlock()
}

func (c *cluster) flag(k string) {
	c.mu.Lock()
	c.flags[k] = true
	c.mu.Unlock()
}

var quietOnce sync.Once

type quietLogger struct{}

func (quietLogger) SetLevel(logger.LogLevel)                    {}
func (quietLogger) Debugf(format string, args ...interface{})   {}
func (quietLogger) Infof(format string, args ...interface{})    {}
func (quietLogger) Warningf(format string, args ...interface{}) {}
func (quietLogger) Errorf(format string, args ...interface{})   {}
func (quietLogger) Panicf(format string, args ...interface{}) {
	panic(fmt.Sprintf(format, args...))
}

func quietLogs() {
	quietOnce.Do(func() {
		logger.SetLoggerFactory(func(string) logger.ILogger { return quietLogger{} })
	})
}

func (c *cluster) raftConfig(replica uint64, kind int) config.Config {
	rc := config.Config{
		ReplicaID:          replica,
		ShardID:            shardID,
		ElectionRTT:        c.cfg.ertt,
		HeartbeatRTT:       1,
		CheckQuorum:        c.cfg.cq,
		PreVote:            c.cfg.pv,
		Quiesce:            c.cfg.q,
		SnapshotEntries:    0, // snapshots are taken on request only
		CompactionOverhead: 2,
		IsNonVoting:        kind == kNonVoting,
		IsWitness:          kind == kWitness,
		MaxInMemLogSize:    c.cfg.rl,
	}
	if c.cfg.ec {
		rc.EntryCompressionType = config.Snappy
	}
	if c.cfg.sc {
		rc.SnapshotCompressionType = config.Snappy
	}
	return rc
}

func (c *cluster) startReplica(nh *dragonboat.NodeHost, members map[uint64]dragonboat.Target, join bool, rc config.Config) error {
	reg := c.reg
	if rc.IsWitness {
		return nh.StartReplica(members, join, func(uint64, uint64) sm.IStateMachine { return witSM{reg} }, rc)
	}
	switch c.cfg.sm {
	case "disk":
		return nh.StartOnDiskReplica(members, join, func(_ uint64, r uint64) sm.IOnDiskStateMachine { return diskSM{reg.newBase(r, true)} }, rc)
	case "conc":
		return nh.StartConcurrentReplica(members, join, func(_ uint64, r uint64) sm.IConcurrentStateMachine { return concSM{reg.newBase(r, false)} }, rc)
	default:
		return nh.StartReplica(members, join, func(_ uint64, r uint64) sm.IStateMachine { return regSM{reg.newBase(r, false)} }, rc)
	}
}

func (c *cluster) host(h int) *dragonboat.NodeHost {
	c.mu.Lock()
	defer c.mu.Unlock()
	if h < 1 || h > maxHosts {
		return nil
	}
	return c.hosts[h]
}

func startCluster(cfg hcfg) (*cluster, error) {
	quietLogs()
	c := &cluster{cfg: cfg, net: newNetwork(cfg.seed ^ 0x5bd1e995), reg: newRegistry(), notAppl: map[uint64]string{}, complete: map[uint64]bool{},
		dist: map[string]int{}, flags: map[string]bool{}, rnd: vh.NewRand(cfg.seed*7 + 3), qbase: map[int]dragonboat.VerifR22State{}}
	members := map[uint64]dragonboat.Target{}
	for h := 1; h <= maxHosts; h++ {
		addr := fmt.Sprintf("%s-n%d:1", cfg.id, h)
		c.addrs[h] = addr
		if h <= cfg.n {
			members[uint64(h)] = addr
		}
		ex := config.GetDefaultExpertConfig()
		ex.FS = gvfs.NewStrictMem()
		ex.TransportFactory = &netFactory{net: c.net}
		ex.Engine = config.EngineConfig{ExecShards: 2, CommitShards: 2, ApplyShards: 2, SnapshotShards: 2, CloseShards: 2}
		ex.LogDB.Shards = 2
		c.nhcs[h] = config.NodeHostConfig{
			NodeHostDir:    fmt.Sprintf("/r22/%s/n%d", cfg.id, h),
			RTTMillisecond: cfg.rtt,
			RaftAddress:    addr,
			Expert:         ex,
		}
	}
	for h := 1; h <= cfg.n; h++ {
		nh, err := dragonboat.NewNodeHost(c.nhcs[h])
		if err != nil {
			return nil, fmt.Errorf("NewNodeHost %d: %w", h, err)
		}
		c.hosts[h] = nh
		c.kind[h] = kVoter
		if err := c.startReplica(nh, members, false, c.raftConfig(uint64(h), kVoter)); err != nil {
			return nil, fmt.Errorf("StartReplica %d: %w", h, err)
		}
	}
	return c, nil
}

func (c *cluster) closeAll() {
	c.reg.openAll()
	for h := 1; h <= maxHosts; h++ {
		if nh := c.host(h); nh != nil {
			nh.Close()
			c.mu.Lock()
			c.hosts[h] = nil
			c.mu.Unlock()
		}
	}
	c.net.close()
}

// ---- ground truth -------------------------------------------------------------------

func (c *cluster) up(h int) bool { return c.host(h) != nil }

func (c *cluster) votingKind(k int) bool { return k == kVoter || k == kWitness }

// component of host h: the running member hosts it can exchange messages with
func (c *cluster) component(h int) []int {
	if !c.up(h) {
		return nil
	}
	if c.iso[h] {
		return []int{h}
	}
	var out []int
	for x := 1; x <= maxHosts; x++ {
		if c.up(x) && !c.iso[x] && c.kind[x] != kNone && c.kind[x] != kRemoved {
			out = append(out, x)
		}
	}
	return out
}

// quorumAt: host h runs a member replica that is not a witness and is connected to a
// majority of the voting members that contains a full voter
func (c *cluster) quorumAt(h int) bool {
	if !c.up(h) || (c.kind[h] != kVoter && c.kind[h] != kNonVoting) {
		return false
	}
	total, have, full := 0, 0, 0
	for x := 1; x <= maxHosts; x++ {
		if c.votingKind(c.kind[x]) {
			total++
		}
	}
	for _, x := range c.component(h) {
		if c.votingKind(c.kind[x]) {
			have++
		}
		if c.kind[x] == kVoter {
			full++
		}
	}
	return 2*have > total && full > 0
}

func (c *cluster) lossy() bool { return c.loss > 0 }

func (c *cluster) applyNet() {
	c.net.heal()
	for h := 1; h <= maxHosts; h++ {
		if c.iso[h] {
			for x := 1; x <= maxHosts; x++ {
				if x != h {
					c.net.block(c.addrs[h], c.addrs[x])
					c.net.block(c.addrs[x], c.addrs[h])
				}
			}
		}
	}
	c.net.setLossDelay(c.loss, 0)
}

// ---- hosts ---------------------------------------------------------------------------

func (c *cluster) stopHost(h int) {
	nh := c.host(h)
	if nh == nil {
		return
	}
	c.reg.gate(uint64(h), false)
	nh.Close()
	c.mu.Lock()
	c.hosts[h] = nil
	delete(c.qbase, h)
	c.mu.Unlock()
}

func (c *cluster) startHost(h int, join bool) error {
	if c.up(h) {
		return nil
	}
	nh, err := dragonboat.NewNodeHost(c.nhcs[h])
	if err != nil {
		return err
	}
	if err := c.startReplica(nh, nil, join, c.raftConfig(uint64(h), c.kind[h])); err != nil {
		nh.Close()
		return err
	}
	c.mu.Lock()
	c.hosts[h] = nh
	delete(c.qbase, h)
	c.mu.Unlock()
	return nil
}

// leaderHost: the running host that says of itself that it leads, 0 = none
func (c *cluster) leaderHost() int {
	best, bestTerm := 0, uint64(0)
	for h := 1; h <= maxHosts; h++ {
		if nh := c.host(h); nh != nil {
			if lid, term, ok, err := nh.GetLeaderID(shardID); err == nil && ok && lid == uint64(h) && term >= bestTerm {
				best, bestTerm = h, term
			}
		}
	}
	return best
}

// ---- requests ------------------------------------------------------------------------

// hangSlack is how long after its deadline a request may stay without any result before
// that is reported: the deadline is counted in ticks of the NodeHost, which run late on a
// loaded machine.
func hangSlack(timeout time.Duration) time.Duration { return 3*timeout + 30*time.Second }

func classify(r dragonboat.RequestResult) int {
	switch {
	case r.Completed():
		return oCompleted
	case r.Rejected():
		return oRejected
	case r.Dropped():
		return oDropped
	case r.Timeout():
		return oTimeout
	case r.Terminated():
		return oTerminated
	case r.Aborted():
		return oAborted
	}
	return oNone
}

// pending is a request the harness has issued
type pending struct {
	what    string
	id      uint64 // proposal id, 0 for the others
	rs      *dragonboat.RequestState
	refused int // oBusy / oRefused when the API returned an error, else 0
	timeout time.Duration
	issued  time.Time
	result  dragonboat.RequestResult
	out     int
	done    bool
}

// wait for the terminal result of p (exactly one is expected)
func (c *cluster) wait(p *pending) int {
	if p.done {
		return p.out
	}
	p.done = true
	if p.rs == nil {
		p.out = p.refused
		return p.out
	}
	left := time.Until(p.issued.Add(p.timeout + hangSlack(p.timeout)))
	if left < time.Second {
		left = time.Second
	}
	t := time.NewTimer(left)
	defer t.Stop()
	select {
	case r := <-p.rs.ResultC():
		p.result = r
		p.out = classify(r)
		if p.out == oNone {
			c.violation("C17 %s: a result that is none of the terminal codes", p.what)
		}
	case <-t.C:
		p.out = oNone
		c.violation("C17 HANG %s: no result %v after the deadline of the request (time-out %v): the request neither completed nor ended in Dropped/Timeout", p.what, hangSlack(p.timeout), p.timeout)
	}
	c.count("outcome_" + oNames[p.out])
	return p.out
}

// second checks that no further result follows the first one
func (c *cluster) second(p *pending) {
	if p.rs == nil || p.out == oNone {
		return
	}
	select {
	case r := <-p.rs.ResultC():
		c.violation("C17 %s: a second result (%s) after %s", p.what, oNames[classify(r)], oNames[p.out])
	default:
	}
}

func (c *cluster) newID() uint64 {
	c.idMu.Lock()
	defer c.idMu.Unlock()
	c.nextID++
	return c.nextID
}

func (c *cluster) payload(id uint64, sz int) []byte {
	if sz < 8 {
		sz = 8
	}
	b := make([]byte, sz)
	binary.BigEndian.PutUint64(b, id)
	// incompressible filler derived from the id: the in-memory size of the entry is then
	// about the same with and without entry compression
	var ctr [16]byte
	binary.BigEndian.PutUint64(ctr[:], id)
	for off := 8; off < sz; off += 32 {
		binary.BigEndian.PutUint64(ctr[8:], uint64(off))
		s := sha256.Sum256(ctr[:])
		copy(b[off:], s[:])
	}
	return b
}

func (c *cluster) apiErr(err error) int {
	if errors.Is(err, dragonboat.ErrSystemBusy) {
		return oBusy
	}
	return oRefused
}

func (c *cluster) propose(h int, sz int, timeout time.Duration) *pending {
	id := c.newID()
	p := &pending{what: fmt.Sprintf("proposal %d on host %d", id, h), id: id, timeout: timeout, issued: time.Now()}
	nh := c.host(h)
	if nh == nil {
		p.refused = oRefused
		return p
	}
	rs, err := nh.Propose(nh.GetNoOPSession(shardID), c.payload(id, sz), timeout)
	if err != nil {
		p.refused = c.apiErr(err)
		c.count("api_" + oNames[p.refused])
		return p
	}
	p.rs = rs
	return p
}

func (c *cluster) noteProposal(p *pending) {
	c.idMu.Lock()
	defer c.idMu.Unlock()
	switch p.out {
	case oCompleted:
		c.complete[p.id] = true
	case oDropped, oBusy, oRefused:
		c.notAppl[p.id] = oNames[p.out]
	}
}

func (c *cluster) readIndex(h int, timeout time.Duration) *pending {
	p := &pending{what: fmt.Sprintf("read on host %d", h), timeout: timeout, issued: time.Now()}
	nh := c.host(h)
	if nh == nil {
		p.refused = oRefused
		return p
	}
	rs, err := nh.ReadIndex(shardID, timeout)
	if err != nil {
		p.refused = c.apiErr(err)
		return p
	}
	p.rs = rs
	return p
}

type ccReq struct {
	op   string // ANV AWIT ADD DEL
	via  int
	who  int
	kind int
}

func (c *cluster) configChange(r ccReq, timeout time.Duration) *pending {
	p := &pending{what: fmt.Sprintf("%s %d requested on host %d", r.op, r.who, r.via), timeout: timeout, issued: time.Now()}
	nh := c.host(r.via)
	if nh == nil {
		p.refused = oRefused
		return p
	}
	var rs *dragonboat.RequestState
	var err error
	switch r.op {
	case "ANV":
		rs, err = nh.RequestAddNonVoting(shardID, uint64(r.who), c.addrs[r.who], 0, timeout)
	case "AWIT":
		rs, err = nh.RequestAddWitness(shardID, uint64(r.who), c.addrs[r.who], 0, timeout)
	case "ADD":
		rs, err = nh.RequestAddReplica(shardID, uint64(r.who), c.addrs[r.who], 0, timeout)
	case "DEL":
		rs, err = nh.RequestDeleteReplica(shardID, uint64(r.who), 0, timeout)
	}
	if err != nil {
		p.refused = c.apiErr(err)
		return p
	}
	p.rs = rs
	return p
}

func (c *cluster) snapshotReq(h int, timeout time.Duration) *pending {
	p := &pending{what: fmt.Sprintf("snapshot request on host %d", h), timeout: timeout, issued: time.Now()}
	nh := c.host(h)
	if nh == nil {
		p.refused = oRefused
		return p
	}
	rs, err := nh.RequestSnapshot(shardID, dragonboat.SnapshotOption{}, timeout)
	if err != nil {
		p.refused = c.apiErr(err)
		return p
	}
	p.rs = rs
	return p
}

// membership as the shard reports it (read through any running member host), nil = unknown
func (c *cluster) membership(within time.Duration) *dragonboat.Membership {
	by := time.Now().Add(within)
	for time.Now().Before(by) {
		for h := 1; h <= maxHosts; h++ {
			nh := c.host(h)
			if nh == nil || c.iso[h] || (c.kind[h] != kVoter && c.kind[h] != kNonVoting) {
				continue
			}
			ctx, cancel := context.WithTimeout(context.Background(), 3*time.Second)
			m, err := nh.SyncGetShardMembership(ctx, shardID)
			cancel()
			if err == nil {
				return m
			}
		}
		time.Sleep(50 * time.Millisecond)
	}
	return nil
}

func inEffect(m *dragonboat.Membership, r ccReq) bool {
	if m == nil {
		return false
	}
	id := uint64(r.who)
	switch r.op {
	case "ANV":
		_, ok := m.NonVotings[id]
		return ok
	case "AWIT":
		_, ok := m.Witnesses[id]
		return ok
	case "ADD":
		_, ok := m.Nodes[id]
		return ok
	default:
		_, ok := m.Removed[id]
		return ok
	}
}

// state of the replica on host h (zero value when the host is down)
func (c *cluster) state(h int) dragonboat.VerifR22State {
	nh := c.host(h)
	if nh == nil {
		return dragonboat.VerifR22State{}
	}
	return nh.VerifR22State(shardID)
}

func (c *cluster) members() []int {
	var out []int
	for h := 1; h <= maxHosts; h++ {
		if c.kind[h] != kNone && c.kind[h] != kRemoved {
			out = append(out, h)
		}
	}
	return out
}

// final state of the replicas: (host, applied index, number of updates, hash)
func (c *cluster) finalStates() [][4]uint64 {
	var out [][4]uint64
	for _, h := range c.members() {
		if !c.up(h) || c.kind[h] == kWitness {
			continue
		}
		st := c.reg.state(uint64(h))
		if st == nil {
			continue
		}
		n, hash, _ := st.view()
		out = append(out, [4]uint64{uint64(h), c.state(h).Applied, uint64(n), hash})
	}
	sort.Slice(out, func(i, j int) bool { return out[i][0] < out[j][0] })
	return out
}
