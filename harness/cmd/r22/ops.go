package main

// The script interpreter of one history and the monitors.
//
// Outcome classes printed in the observations (what the extracted model predicts):
//   C    completed (a membership change: it is in effect and the request ended)
//   J    rejected
//   F    ended without completing: Dropped / Timeout / refused by the API
//   T    some terminal result (requests issued while messages are being lost)
//   ok   a snapshot request ended Completed or Rejected (it needs no quorum)
//   none no result at all - always a violation

import (
	"fmt"
	"os"
	"strconv"
	"strings"
	"time"
)

type bgBatch struct {
	op   int
	reqs []*pending
}

type runner struct {
	c     *cluster
	obs   []string
	bgs   []*bgBatch
	burst []*pending
	all   []*pending
}

func atoi(s string) int {
	v, err := strconv.Atoi(s)
	if err != nil {
		panic("bad number " + s)
	}
	return v
}

func b01(b bool) string {
	if b {
		return "1"
	}
	return "0"
}

// judged issues a request until it completes (when the ground truth says that the host is
// connected to a quorum) or once (when not) and returns its outcome class.
func (r *runner) judged(what string, h int, issue func(timeout time.Duration) *pending, onDone func(p *pending)) string {
	c := r.c
	done := func(p *pending) {
		r.all = append(r.all, p)
		if onDone != nil {
			onDone(p)
		}
	}
	if c.lossy() {
		p := issue(c.cfg.nq)
		o := c.wait(p)
		done(p)
		if o == oNone {
			return "none"
		}
		return "T"
	}
	if !c.quorumAt(h) {
		p := issue(c.cfg.nq)
		o := c.wait(p)
		done(p)
		switch o {
		case oNone:
			return "none"
		case oCompleted:
			c.violation("C17 %s completed although the host is not connected to a quorum (ground truth of the harness)", what)
			return "C"
		case oRejected:
			return "J"
		}
		c.flag("noquorum_ended")
		c.count("noquorum_" + oNames[o])
		return "F"
	}
	by := time.Now().Add(c.cfg.bound)
	var outs []string
	for try := 0; try == 0 || time.Now().Before(by); try++ {
		p := issue(c.cfg.attempt)
		o := c.wait(p)
		done(p)
		switch o {
		case oCompleted:
			if try > 0 {
				c.count("judged_retries")
			}
			return "C"
		case oRejected:
			return "J"
		case oNone:
			return "none"
		}
		if len(outs) < 12 {
			outs = append(outs, oNames[o])
		}
		if o == oTimeout {
			c.count("fair_attempt_timeout")
		}
		time.Sleep(30 * time.Millisecond)
	}
	tag := "INCOMPLETE"
	for _, x := range c.members() {
		if c.up(x) && !c.iso[x] && c.state(x).Quiesced {
			// the shard sleeps on although a request is waiting
			tag = fmt.Sprintf("QUIESCED-REQUEST-STUCK (the replica on host %d is still quiesced) INCOMPLETE", x)
			if strings.HasPrefix(what, "proposal") {
				tag = "QUIESCED-PROPOSAL-STUCK" + tag[len("QUIESCED-REQUEST-STUCK"):]
			}
			break
		}
	}
	c.violation("C17 %s %s: not completed within %v although a majority of the voting members is running and connected and no fault is active (attempts ended: %s)", tag, what, c.cfg.bound, strings.Join(outs, ","))
	return "F"
}

func (r *runner) opProposals(h, k, sz int) string {
	c := r.c
	cls := ""
	for i := 0; i < k; i++ {
		cl := r.judged(fmt.Sprintf("proposal on host %d", h), h,
			func(t time.Duration) *pending { return c.propose(h, sz, t) },
			func(p *pending) { c.noteProposal(p) })
		cls += cl
		if cl != "C" {
			break
		}
	}
	return cls
}

func (r *runner) opRead(h int) string {
	c := r.c
	return r.judged(fmt.Sprintf("linearizable read on host %d", h), h,
		func(t time.Duration) *pending { return c.readIndex(h, t) },
		func(p *pending) {
			if p.out == oCompleted {
				if nh := c.host(h); nh != nil {
					if _, err := nh.ReadLocalNode(p.rs, nil); err != nil {
						c.violation("C17 read on host %d: ReadLocalNode after a completed ReadIndex failed: %v", h, err)
					}
				}
			}
		})
}

func (r *runner) opCC(q ccReq) string {
	c := r.c
	what := fmt.Sprintf("membership change %s %d requested on host %d", q.op, q.who, q.via)
	if q.op == "DEL" && !c.lossy() && c.quorumAt(q.via) {
		// a leader that removes itself is the recorded finding removed-replica-ahead-of-remaining-voters
		if c.leaderHost() == q.who {
			for x := 1; x <= maxHosts; x++ {
				if x != q.who && c.kind[x] == kVoter && c.up(x) && !c.iso[x] {
					r.transfer(x)
					break
				}
			}
		}
	}
	took := false
	cl := r.judged(what, q.via,
		func(t time.Duration) *pending {
			p := c.configChange(q, t)
			return p
		},
		func(p *pending) {
			if p.out == oCompleted {
				took = true
			}
		})
	if !c.lossy() && c.quorumAt(q.via) {
		if cl != "C" {
			// the request ended some other way: the membership says whether it took effect
			if inEffect(c.membership(10*time.Second), q) {
				c.count("cc_in_effect_without_completed")
				took = true
				if cl == "J" || cl == "F" {
					cl = "C"
				}
			} else if cl == "J" {
				c.violation("C17 %s was rejected although it is valid and not in effect", what)
			}
		}
	}
	if took {
		switch q.op {
		case "ANV", "AWIT", "ADD":
			c.kind[q.who] = q.kind
			if err := c.startHost(q.who, true); err != nil {
				c.violation("harness: could not start the added replica %d: %v", q.who, err)
			}
		case "DEL":
			c.kind[q.who] = kRemoved
			c.stopHost(q.who)
		}
	}
	return cl
}

func (r *runner) opSnapshot(h int) string {
	c := r.c
	if !c.up(h) {
		return "down"
	}
	by := time.Now().Add(c.cfg.bound)
	for c.state(h).Applied == 0 && time.Now().Before(by) {
		time.Sleep(20 * time.Millisecond)
	}
	var outs []string
	for try := 0; try == 0 || time.Now().Before(by); try++ {
		p := c.snapshotReq(h, c.cfg.attempt)
		o := c.wait(p)
		r.all = append(r.all, p)
		switch o {
		case oCompleted, oRejected:
			c.count("snapshot_" + oNames[o])
			return "ok"
		case oNone:
			return "none"
		}
		if len(outs) < 12 {
			outs = append(outs, oNames[o])
		}
		time.Sleep(30 * time.Millisecond)
	}
	c.violation("C17 INCOMPLETE snapshot request on host %d: neither completed nor rejected within %v (attempts ended: %s)", h, c.cfg.bound, strings.Join(outs, ","))
	return "F"
}

// transfer makes host x the leader (retrying the request, which is allowed to fail)
func (r *runner) transfer(x int) bool {
	c := r.c
	by := time.Now().Add(c.cfg.bound)
	for time.Now().Before(by) {
		l := c.leaderHost()
		if l == x {
			return true
		}
		if l > 0 {
			if nh := c.host(l); nh != nil {
				_ = nh.RequestLeaderTransfer(shardID, uint64(x))
				c.count("transfer_requests")
			}
		}
		time.Sleep(150 * time.Millisecond)
	}
	return c.leaderHost() == x
}

func (r *runner) opBG(op, h, k int) {
	c := r.c
	b := &bgBatch{op: op}
	for i := 0; i < k; i++ {
		b.reqs = append(b.reqs, c.propose(h, 24, c.cfg.nq))
	}
	b.reqs = append(b.reqs, c.readIndex(h, c.cfg.nq))
	r.bgs = append(r.bgs, b)
}

func (r *runner) collect() {
	c := r.c
	for _, b := range r.bgs {
		term := 0
		for _, p := range b.reqs {
			if c.wait(p) != oNone {
				term++
			}
			if p.id != 0 {
				c.noteProposal(p)
			}
			r.all = append(r.all, p)
		}
		r.obs[b.op] = fmt.Sprintf("BG %d/%d", term, len(b.reqs))
	}
	r.bgs = nil
	for _, p := range r.burst {
		c.wait(p)
		c.noteProposal(p)
		r.all = append(r.all, p)
	}
	r.burst = nil
}

func (r *runner) opBurst(h, k, sz int) string {
	c := r.c
	busy, lim, accepted := 0, false, 0
	for i := 0; i < k && busy < 5; i++ {
		p := c.propose(h, sz, 30*time.Second)
		r.burst = append(r.burst, p)
		if p.rs != nil {
			accepted++
		} else if p.refused == oBusy {
			busy++
		}
		if i%8 == 7 {
			time.Sleep(5 * time.Millisecond)
		}
	}
	for _, x := range c.members() {
		if c.state(x).RateLimited {
			lim = true
		}
	}
	c.count(fmt.Sprintf("burst_accepted_%d", accepted/50*50))
	if busy > 0 {
		c.flag("limiter_engaged")
	}
	return fmt.Sprintf("BURST busy=%s lim=%s", b01(busy > 0), b01(lim))
}

func (r *runner) opDrain() string {
	c := r.c
	by := time.Now().Add(c.cfg.bound + 20*time.Second)
	stuck := 0
	for {
		stuck = 0
		for _, x := range c.members() {
			if c.state(x).RateLimited {
				stuck = x
			}
		}
		if stuck == 0 || time.Now().After(by) {
			break
		}
		time.Sleep(25 * time.Millisecond)
	}
	r.collect()
	if stuck != 0 {
		c.violation("C17 RATE-LIMIT-STUCK: the replica on host %d is still rate limited %v after the burst stopped and every state machine resumed (proposals keep being refused)", stuck, c.cfg.bound+20*time.Second)
		return "DRAIN lim=1"
	}
	if c.flags["limiter_engaged"] {
		c.flag("limiter_disengaged")
	}
	return "DRAIN lim=0"
}

func (r *runner) reachableMembers() []int {
	c := r.c
	var out []int
	for _, x := range c.members() {
		if c.up(x) && !c.iso[x] {
			out = append(out, x)
		}
	}
	return out
}

func (r *runner) opQuiesce() string {
	c := r.c
	if !c.cfg.q {
		time.Sleep(time.Duration(c.cfg.rtt*c.cfg.ertt*25) * time.Millisecond)
		for _, x := range r.reachableMembers() {
			if c.state(x).Quiesced {
				c.violation("C17 quiesce is disabled but the replica on host %d is quiesced", x)
				return "QUIESCE q=1"
			}
		}
		return "QUIESCE q=0"
	}
	by := time.Now().Add(c.cfg.bound + 20*time.Second)
	for {
		all := true
		for _, x := range r.reachableMembers() {
			s := c.state(x)
			if !s.Found || !s.Quiesced {
				all = false
				break
			}
			c.qbase[x] = s
		}
		if all {
			c.flag("all_quiesced")
			return "QUIESCE q=1"
		}
		if time.Now().After(by) {
			break
		}
		time.Sleep(20 * time.Millisecond)
	}
	c.violation("harness: the shard did not become quiescent within %v (the quiesce history would pass vacuously)", c.cfg.bound+20*time.Second)
	return "QUIESCE q=0"
}

func (r *runner) opAwake() string {
	c := r.c
	if !c.cfg.q {
		return "AWAKE woke=1"
	}
	by := time.Now().Add(c.cfg.bound)
	still := 0
	for {
		still = 0
		for _, x := range r.reachableMembers() {
			s := c.state(x)
			b, had := c.qbase[x]
			if !s.Found {
				continue
			}
			if had {
				if !(s.ExitTick != b.ExitTick && s.ExitTick >= b.QuiescedSince) {
					still = x
				}
			} else if s.Quiesced {
				still = x
			}
		}
		if still == 0 || time.Now().After(by) {
			break
		}
		time.Sleep(10 * time.Millisecond)
	}
	if still != 0 {
		c.violation("C17 STILL-QUIESCED: the replica on host %d did not leave quiesce within %v after a request completed on the shard", still, c.cfg.bound)
		return "AWAKE woke=0"
	}
	c.flag("woken_by_request")
	return "AWAKE woke=1"
}

func (r *runner) heal() {
	c := r.c
	for h := range c.iso {
		c.iso[h] = false
	}
	c.loss = 0
	c.applyNet()
}

// fair: the fault-free period begins. Every member host runs, the network is whole.
func (r *runner) fair() string {
	c := r.c
	r.heal()
	c.reg.openAll()
	for _, h := range c.members() {
		if !c.up(h) {
			if err := c.startHost(h, false); err != nil {
				c.violation("harness: could not restart host %d: %v", h, err)
			}
		}
	}
	probe := 0
	for _, h := range c.members() {
		if c.kind[h] == kVoter {
			probe = h
			break
		}
	}
	cl := r.opProposals(probe, 1, 16)
	r.collect()
	return cl
}

func (r *runner) run(ops []string) {
	c := r.c
	r.obs = make([]string, len(ops))
	for i, o := range ops {
		f := strings.Fields(o)
		if len(f) == 0 {
			continue
		}
		c.count("op_" + f[0])
		q := b01(len(f) > 1 && !c.lossy() && c.quorumAt(atoiOr(f[1])))
		switch f[0] {
		case "P":
			r.obs[i] = fmt.Sprintf("P q=%s %s", q, r.opProposals(atoi(f[1]), atoi(f[2]), atoi(f[3])))
		case "R":
			r.obs[i] = fmt.Sprintf("R q=%s %s", q, r.opRead(atoi(f[1])))
		case "ANV", "AWIT", "ADD", "DEL":
			kind := map[string]int{"ANV": kNonVoting, "AWIT": kWitness, "ADD": kVoter, "DEL": kRemoved}[f[0]]
			r.obs[i] = fmt.Sprintf("%s q=%s %s", f[0], q, r.opCC(ccReq{op: f[0], via: atoi(f[1]), who: atoi(f[2]), kind: kind}))
		case "SNAP":
			r.obs[i] = "SNAP " + r.opSnapshot(atoi(f[1]))
		case "XFER":
			ok := r.transfer(atoi(f[1]))
			if !ok {
				c.violation("C17 INCOMPLETE leadership transfer to host %d: not the leader %v after the first request although no fault is active", atoi(f[1]), c.cfg.bound)
			}
			r.obs[i] = "XFER " + b01(ok)
		case "XFERQ":
			if l := c.leaderHost(); l > 0 {
				if nh := c.host(l); nh != nil {
					_ = nh.RequestLeaderTransfer(shardID, uint64(atoi(f[1])))
				}
			}
			r.obs[i] = "XFERQ"
		case "BG":
			r.opBG(i, atoi(f[1]), atoi(f[2]))
		case "PART":
			c.iso[atoi(f[1])] = true
			c.applyNet()
			r.obs[i] = "PART"
		case "HEAL":
			r.heal()
			r.obs[i] = "HEAL"
		case "LOSS":
			c.loss = atoi(f[1])
			c.applyNet()
			r.obs[i] = "LOSS"
		case "STOP":
			c.stopHost(atoi(f[1]))
			r.obs[i] = "STOP"
		case "START":
			h := atoi(f[1])
			if c.kind[h] != kNone && c.kind[h] != kRemoved {
				if err := c.startHost(h, false); err != nil {
					c.violation("harness: could not restart host %d: %v", h, err)
				}
			}
			r.obs[i] = "START"
		case "WAIT":
			time.Sleep(time.Duration(atoi(f[1])) * time.Millisecond)
			r.obs[i] = "WAIT"
		case "GATEON":
			if c.up(atoi(f[1])) {
				c.reg.gate(uint64(atoi(f[1])), true)
			}
			r.obs[i] = "GATEON"
		case "GATEOFF":
			c.reg.gate(uint64(atoi(f[1])), false)
			r.obs[i] = "GATEOFF"
		case "BURST":
			r.obs[i] = r.opBurst(atoi(f[1]), atoi(f[2]), atoi(f[3]))
		case "DRAIN":
			r.obs[i] = r.opDrain()
		case "QUIESCE":
			r.obs[i] = r.opQuiesce()
		case "AWAKE":
			r.obs[i] = r.opAwake()
		case "FAIR":
			r.obs[i] = "FAIR " + r.fair()
		case "LAG":
			r.obs[i] = r.opLag(atoi(f[1]), atoi(f[2]))
		default:
			panic("bad op " + o)
		}
	}
}

func atoiOr(s string) int {
	v, err := strconv.Atoi(s)
	if err != nil {
		return 0
	}
	return v
}

// end: the implicit last step of every history. Fault-free period, then every running
// member replica must reach the same applied index and the same state.
func (r *runner) end() string {
	c := r.c
	cl := r.fair()
	same := false
	var fs [][4]uint64
	by := time.Now().Add(c.cfg.bound + 20*time.Second)
	var wit []uint64
	for {
		fs = c.finalStates()
		same = len(fs) > 0
		for _, s := range fs {
			if s[1] != fs[0][1] || s[2] != fs[0][2] || s[3] != fs[0][3] {
				same = false
			}
		}
		wit = wit[:0]
		for _, h := range c.members() {
			if c.kind[h] == kWitness && c.up(h) {
				a := c.state(h).Applied
				wit = append(wit, a)
				if len(fs) > 0 && a != fs[0][1] {
					same = false
				}
			}
		}
		// every completed proposal is in the common state
		if same {
			st := c.reg.state(fs[0][0])
			c.idMu.Lock()
			for id := range c.complete {
				if !st.has(id) {
					same = false
				}
			}
			c.idMu.Unlock()
		}
		if same || time.Now().After(by) {
			break
		}
		if os.Getenv("R22_DEBUG") != "" {
			fmt.Fprintf(os.Stderr, "end: %v wit %v\n", fs, wit)
			for _, h := range c.members() {
				fmt.Fprintf(os.Stderr, "   %d: %+v\n", h, c.state(h))
			}
			time.Sleep(time.Second)
		}
		time.Sleep(25 * time.Millisecond)
	}
	if !same {
		c.violation("C17 CATCH-UP: %v after the faults ended the running member replicas have not reached one applied index and state: (host, applied, updates, hash) = %v, witnesses applied %v", c.cfg.bound+20*time.Second, fs, wit)
	}
	clean := true
	c.idMu.Lock()
	for id, why := range c.notAppl {
		for _, h := range c.members() {
			if st := c.reg.state(uint64(h)); st != nil && c.kind[h] != kWitness && st.has(id) {
				clean = false
				c.violation("C17 REFUSED-APPLIED: proposal %d was %s but is in the applied log of the replica on host %d", id, why, h)
			}
		}
	}
	c.idMu.Unlock()
	for _, p := range r.all {
		c.second(p)
	}
	c.reg.mu.Lock()
	for _, b := range c.reg.bad {
		c.viol = append(c.viol, "C17 "+b)
	}
	c.reg.mu.Unlock()
	if len(fs) > 1 {
		c.flag("converged_several")
	}
	return fmt.Sprintf("end %s same=%s clean=%s", cl, b01(same), b01(clean))
}

// opLag: an idle period without any request, then: is the replica on host h behind the others?
func (r *runner) opLag(h, ms int) string {
	c := r.c
	time.Sleep(time.Duration(ms) * time.Millisecond)
	if !c.up(h) {
		return "LAG behind=0"
	}
	mine := c.state(h)
	best, sleeping := uint64(0), 0
	for _, x := range r.reachableMembers() {
		if x == h {
			continue
		}
		s := c.state(x)
		if s.Applied > best {
			best = s.Applied
		}
		if s.Quiesced {
			sleeping++
		}
	}
	if mine.Applied >= best {
		return "LAG behind=0"
	}
	knows := false
	if nh := c.host(h); nh != nil {
		_, _, ok, err := nh.GetLeaderID(shardID)
		knows = ok && err == nil
	}
	kind := map[int]string{kVoter: "voting", kNonVoting: "non-voting", kWitness: "witness"}[c.kind[h]]
	tag := "CATCH-UP"
	if c.kind[h] != kVoter && sleeping > 0 {
		tag = "QUIESCED-RESTARTED-NONVOTING-BEHIND"
	}
	c.violation("C17 %s: the %s replica on host %d is still at applied index %d of %d after %d ms without faults and without requests (knows a leader: %v, quiesced itself: %v, other replicas quiesced: %d)",
		tag, kind, h, mine.Applied, best, ms, knows, mine.Quiesced, sleeping)
	c.flag("lag_behind")
	return "LAG behind=1"
}
