// R22 harness - progress through the NodeHost glue under the configuration options
// (sub-check of C17). Real NodeHosts in one process, in-memory file systems, the fault
// injecting in-process transport of net.go.
//
//	case:  <id> prefixonly pv=<0|1> cq=<0|1> q=<0|1> ec=<0|1> sc=<0|1> sm=<reg|conc|disk> n=<3|5> rl=<bytes> seed=<n> | op ; op ; ...
//	       (PreVote, CheckQuorum, Quiesce, EntryCompressionType snappy, SnapshotCompressionType snappy,
//	        state machine kind, initial voters 1..n, MaxInMemLogSize)
//	ops:   P h k sz          k proposals of sz bytes on host h, one after the other, each awaited
//	       R h               ReadIndex on host h, then ReadLocalNode
//	       ANV|AWIT|ADD v h  RequestAddNonVoting / AddWitness / AddReplica of replica h on host v, then host h is started (join)
//	       DEL v h           RequestDeleteReplica of replica h on host v, then host h is stopped
//	       SNAP h            RequestSnapshot on host h
//	       XFER h            RequestLeaderTransfer until host h leads;  XFERQ h: one request, not awaited
//	       BG h k            k proposals and a read on host h, not awaited (collected at FAIR / DRAIN / the end)
//	       PART h | HEAL | LOSS pct | STOP h | START h | WAIT ms     faults
//	       GATEON h | GATEOFF h   the state machine of host h blocks in Update / resumes
//	       BURST h k sz      up to k proposals on host h without waiting, until the API refuses with ErrSystemBusy
//	       DRAIN             wait until no replica is rate limited; collect the burst
//	       QUIESCE           wait until every running member replica is quiesced (verif hook)
//	       AWAKE             wait until every one of them has left quiesce since
//	       LAG h ms          ms without any request, then: is the replica on host h behind the others (applied index)?
//	       FAIR              the fault-free period begins: heal, restart stopped members, a probe proposal
//	       (the end of every script is an implicit FAIR followed by the convergence check)
//	obs:   <id> <i>:<OP> [q=<0|1>] <class>   (classes: see ops.go)   and   <id> end <class> same=<0|1> clean=<0|1>
//	monitors (implementation alone, tagged C17): see ops.go - HANG, INCOMPLETE, STILL-QUIESCED,
//	RATE-LIMIT-STUCK, CATCH-UP, REFUSED-APPLIED, a second result, a library panic.
package main

import (
	"bytes"
	"context"
	"encoding/json"
	"fmt"
	"os"
	"os/exec"
	"path/filepath"
	"sort"
	"strconv"
	"strings"
	"sync"
	"time"

	"verif/harness/vh"
)

func parseHeader(head string) (hcfg, error) {
	f := strings.Fields(head)
	if len(f) < 2 {
		return hcfg{}, fmt.Errorf("bad header")
	}
	cfg := hcfg{id: f[0], sm: "reg", n: 3, rtt: 5, ertt: 10, bound: 40 * time.Second, attempt: 4 * time.Second, nq: 1500 * time.Millisecond}
	for _, kv := range f[1:] {
		i := strings.IndexByte(kv, '=')
		if i < 0 {
			continue
		}
		k, v := kv[:i], kv[i+1:]
		switch k {
		case "pv":
			cfg.pv = v == "1"
		case "cq":
			cfg.cq = v == "1"
		case "q":
			cfg.q = v == "1"
		case "ec":
			cfg.ec = v == "1"
		case "sc":
			cfg.sc = v == "1"
		case "sm":
			cfg.sm = v
		case "n":
			cfg.n = atoi(v)
		case "rl":
			x, err := strconv.ParseUint(v, 10, 64)
			if err != nil {
				return cfg, err
			}
			cfg.rl = x
		case "ertt":
			cfg.ertt = uint64(atoi(v))
		case "bound":
			cfg.bound = time.Duration(atoi(v)) * time.Second
		case "seed":
			x, err := strconv.ParseUint(v, 10, 64)
			if err != nil {
				return cfg, err
			}
			cfg.seed = x
		}
	}
	if v := os.Getenv("R22_BOUND"); v != "" {
		cfg.bound = time.Duration(atoi(v)) * time.Second
	}
	return cfg, nil
}

type histOut struct {
	Obs        []string        `json:"obs"`
	Violations []string        `json:"violations"`
	Dist       map[string]int  `json:"dist"`
	Flags      map[string]bool `json:"flags"`
	Seconds    float64         `json:"seconds"`
}

// hist runs one case in this process and writes its result file
func hist(a vh.Args) {
	lines := vh.ReadLines(a.Cases)
	if len(lines) != 1 {
		fmt.Fprintln(os.Stderr, "r22 hist: exactly one case expected")
		os.Exit(2)
	}
	parts := strings.SplitN(lines[0], " | ", 2)
	cfg, err := parseHeader(parts[0])
	if err != nil {
		fmt.Fprintln(os.Stderr, "r22 hist:", err)
		os.Exit(2)
	}
	var ops []string
	if len(parts) == 2 {
		ops = strings.Split(parts[1], " ; ")
	}
	t0 := time.Now()
	c, err := startCluster(cfg)
	if err != nil {
		fmt.Fprintln(os.Stderr, "r22 hist: cluster start failed:", err)
		os.Exit(3)
	}
	r := &runner{c: c}
	r.run(ops)
	endLine := r.end()
	out := histOut{Dist: c.dist, Flags: c.flags}
	for i, o := range r.obs {
		if o != "" {
			out.Obs = append(out.Obs, fmt.Sprintf("%s %d:%s", cfg.id, i, o))
		}
	}
	out.Obs = append(out.Obs, cfg.id+" "+endLine)
	out.Violations = c.viol
	done := make(chan struct{})
	go func() { c.closeAll(); close(done) }()
	select {
	case <-done:
	case <-time.After(60 * time.Second):
		out.Violations = append(out.Violations, "C17 HANG closing the NodeHosts took more than 60s")
	}
	out.Seconds = time.Since(t0).Seconds()
	b, _ := json.Marshal(out)
	if err := os.WriteFile(filepath.Join(a.Out, "hist.json"), b, 0644); err != nil {
		panic(err)
	}
}

func classifyDeath(stderr string) (kind string, first string) {
	lines := strings.Split(stderr, "\n")
	for k, l := range lines {
		if !strings.HasPrefix(l, "panic: ") && !strings.HasPrefix(l, "fatal error: ") {
			continue
		}
		first = strings.TrimSpace(l)
		kind = "panic"
		for _, f := range lines[k+1:] {
			f = strings.TrimSpace(f)
			if f == "" || strings.HasPrefix(f, "goroutine ") || strings.HasPrefix(f, "/") || strings.HasPrefix(f, "panic(") ||
				strings.HasPrefix(f, "runtime.") || strings.HasPrefix(f, "main.quietLogger.Panicf") || strings.HasPrefix(f, "created by ") ||
				strings.Contains(f, "logger.(*dragonboatLogger).Panicf") || strings.HasPrefix(f, "[signal ") {
				continue
			}
			if strings.HasPrefix(f, "main.") {
				kind = "harness"
			}
			break
		}
		return kind, first
	}
	return "killed", ""
}

func runOne(exe string, a vh.Args, line string, k int, limit time.Duration) (histOut, string) {
	id := strings.Fields(line)[0]
	dir := filepath.Join(a.Out, fmt.Sprintf("h%d", k))
	_ = os.MkdirAll(dir, 0755)
	cf := filepath.Join(dir, "case.txt")
	_ = os.WriteFile(cf, []byte(line+"\n"), 0644)
	_ = os.Remove(filepath.Join(dir, "hist.json"))
	ctx, cancel := context.WithTimeout(context.Background(), limit)
	defer cancel()
	cmd := exec.CommandContext(ctx, exe, "hist", "-cases", cf, "-out", dir, "-tier", a.Tier, "-seed", fmt.Sprint(a.Seed))
	var eb bytes.Buffer
	cmd.Stderr = &eb
	err := cmd.Run()
	var out histOut
	if b, e := os.ReadFile(filepath.Join(dir, "hist.json")); e == nil && err == nil {
		if json.Unmarshal(b, &out) == nil {
			return out, ""
		}
	}
	kind, first := classifyDeath(eb.String())
	_ = os.WriteFile(filepath.Join(dir, "stderr.txt"), eb.Bytes(), 0644)
	if kind == "harness" || (kind == "killed" && ctx.Err() == nil) {
		return out, fmt.Sprintf("history %s: the harness itself failed (%v)\n%s", id, err, tail(eb.String(), 4000))
	}
	out.Obs = []string{id + " died"}
	if kind == "panic" {
		out.Violations = []string{"C17 LIBRARY-PANIC the process running the shard died: " + first}
	} else {
		out.Violations = []string{fmt.Sprintf("C17 HANG the history did not finish within %v", limit)}
	}
	return out, ""
}

func tail(s string, n int) string {
	if len(s) > n {
		return s[len(s)-n:]
	}
	return s
}

func run(a vh.Args) {
	exe, err := os.Executable()
	if err != nil {
		panic(err)
	}
	lines := vh.ReadLines(a.Cases)
	st := vh.NewStats("non-trivial: a history in which every replica entered quiesce and was woken by a request, or the rate limiter engaged (ErrSystemBusy seen) and disengaged, or a request without quorum ended Dropped/Timeout, or several replicas converged after a fault prefix")
	results := make([]histOut, len(lines))
	fails := make([]string, len(lines))
	par := 2
	if a.Tier == "thorough" {
		par = 3
	}
	if v := os.Getenv("R22_PAR"); v != "" {
		par = atoi(v)
	}
	sem := make(chan struct{}, par)
	var wg sync.WaitGroup
	for k, l := range lines {
		wg.Add(1)
		sem <- struct{}{}
		go func(k int, l string) {
			defer wg.Done()
			defer func() { <-sem }()
			results[k], fails[k] = runOne(exe, a, l, k, 420*time.Second)
		}(k, l)
	}
	wg.Wait()
	out := vh.Create(a.Out + "/impl.obs")
	var secs []string
	for k, l := range lines {
		if fails[k] != "" {
			out.Close()
			fmt.Fprintln(os.Stderr, fails[k])
			os.Exit(1)
		}
		id := strings.Fields(l)[0]
		r := results[k]
		for _, o := range r.Obs {
			out.Printf("%s\n", o)
		}
		for _, v := range r.Violations {
			st.Violation(id, v)
		}
		for key, n := range r.Dist {
			st.Distribution[key] += n
		}
		nt := false
		for _, f := range []string{"woken_by_request", "limiter_disengaged", "noquorum_ended", "converged_several"} {
			if r.Flags[f] {
				st.Count("flag_" + f)
				nt = true
			}
		}
		st.Case(id, nt, l)
		secs = append(secs, fmt.Sprintf("%s=%.1f", id, r.Seconds))
	}
	out.Close()
	sort.Strings(secs)
	st.Notes["seconds"] = strings.Join(secs, " ")
	st.Write(a.Out)
}

func main() {
	a := vh.ParseArgs()
	switch a.Mode {
	case "gen":
		gen(a)
	case "run":
		run(a)
	case "hist":
		hist(a)
	default:
		fmt.Fprintln(os.Stderr, "unknown mode")
		os.Exit(2)
	}
}
