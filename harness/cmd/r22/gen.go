package main

// Case generator: every history draws its configuration (printed in the case header) and
// one of the scenario shapes below. Hosts 1..n are the initial voters; higher ids are
// members added by membership change.
//
// Shapes kept out on purpose (they are recorded findings or library panics outside C17):
// a witness only joins shards of five voters with at most one voter away (with three
// voters a witness that is ahead of both remaining voters leaves no electable voter:
// findings/known.txt witness-ahead-no-electable-voter); a voter is only removed after
// leadership was moved away from it (removed-replica-ahead-of-remaining-voters); snapshot
// requests are never Exported (DESIGN 10.4b: an exported request on a just joined replica
// panics "empty membership").

import (
	"fmt"
	"strings"

	"verif/harness/vh"
)

type dims struct {
	pv, cq, q, ec, sc bool
	sm                string
	n                 int
	rl                uint64
	seed              uint64
}

// ElectionRTT: a replica goes quiet after 20 election RTTs without activity. With quiesce on
// that is kept well above the reconnect back-off of the transport (up to 1.5 s): a restarted
// replica whose peers cannot reach it yet must not doze off before they can.
func (d dims) ertt() int {
	if d.q {
		return 30
	}
	return 10
}

func (d dims) header(id string) string {
	return fmt.Sprintf("%s prefixonly pv=%s cq=%s q=%s ec=%s sc=%s sm=%s n=%d rl=%d ertt=%d seed=%d", id,
		b01(d.pv), b01(d.cq), b01(d.q), b01(d.ec), b01(d.sc), d.sm, d.n, d.rl, d.ertt(), d.seed)
}

func drawDims(r *vh.Rand) dims {
	d := dims{pv: r.Bool(), cq: r.Bool(), q: r.Chance(1, 3), ec: r.Bool(), sc: r.Bool(), n: 3, seed: r.U64() >> 16}
	d.sm = []string{"reg", "conc", "disk"}[r.Intn(3)]
	if r.Chance(1, 3) {
		d.n = 5
	}
	return d
}

// pick a host in 1..n other than the ones given
func other(r *vh.Rand, n int, not ...int) int {
	for {
		h := 1 + r.Intn(n)
		ok := true
		for _, x := range not {
			if x == h {
				ok = false
			}
		}
		if ok {
			return h
		}
	}
}

// quiesce: every replica must go quiet, then one request on a non-leader host must complete
// and wake every replica; at the end the leader's host is stopped while the shard is quiet
func scQuiesce(r *vh.Rand, d dims, variant int) (dims, []string) {
	d.q = true
	d.n = 3
	d.rl = 0
	l := 1 + r.Intn(3)
	f1 := other(r, 3, l)
	f2 := other(r, 3, l, f1)
	ops := []string{"P 1 2 16", fmt.Sprintf("ANV %d 4", f1), fmt.Sprintf("XFER %d", l)}
	var reqs []string
	switch variant % 3 {
	case 0:
		reqs = []string{fmt.Sprintf("P %d 1 16", f1), fmt.Sprintf("R %d", f2), fmt.Sprintf("ANV %d 5", f2)}
	case 1:
		reqs = []string{fmt.Sprintf("R %d", f1), fmt.Sprintf("DEL %d 4", f1), fmt.Sprintf("P %d 1 16", f2)}
	default:
		reqs = []string{"R 4", fmt.Sprintf("ANV %d 5", f1), "P 4 1 16", fmt.Sprintf("DEL %d 5", f2)}
	}
	ops = append(ops, "QUIESCE", fmt.Sprintf("SNAP %d", f1))
	for _, q := range reqs {
		ops = append(ops, q, "AWAKE", "QUIESCE")
	}
	// the leader's host goes away while everything is quiet: the next request - a proposal or
	// a read, on a follower's host - must wake the shard, a new leader must be elected and the
	// request must complete
	ops = append(ops, fmt.Sprintf("XFER %d", l), "QUIESCE", fmt.Sprintf("STOP %d", l))
	if variant%2 == 0 {
		ops = append(ops, fmt.Sprintf("P %d 1 16", f2), fmt.Sprintf("R %d", f1))
	} else {
		ops = append(ops, fmt.Sprintf("R %d", f1), fmt.Sprintf("P %d 1 16", f2))
	}
	ops = append(ops, fmt.Sprintf("START %d", l))
	return d, ops
}

// rate limit: a small MaxInMemLogSize and a state machine that does not apply
func scRateLimit(r *vh.Rand, d dims, variant int) (dims, []string) {
	d.q = false
	d.n = 3
	d.rl = uint64(16000 + r.Intn(5)*8000)
	l := 1 + r.Intn(3)
	f := other(r, 3, l)
	g := other(r, 3, l, f)
	sz := 600 + r.Intn(800)
	ops := []string{"P 1 2 16", fmt.Sprintf("XFER %d", l)}
	gated, at := l, l
	switch variant % 3 {
	case 1: // slow follower, burst on the leader: the follower's RateLimit report limits the leader
		gated, at = f, l
	case 2: // slow follower, burst on that follower's host
		gated, at = f, f
	}
	ops = append(ops, fmt.Sprintf("GATEON %d", gated), fmt.Sprintf("BURST %d 4000 %d", at, sz), fmt.Sprintf("GATEOFF %d", gated), "DRAIN",
		fmt.Sprintf("P %d 3 64", at), fmt.Sprintf("P %d 2 %d", g, sz), fmt.Sprintf("R %d", f))
	return d, ops
}

// no quorum: requests must end (Dropped / Timeout / refused), then complete once the quorum is
// back. First the majority is stopped while the remaining host leads (its membership change is
// appended and can never commit: only the clock of the request table ends it), then - after a
// fault-free period - a follower's host is cut off.
func scNoQuorum(r *vh.Rand, d dims, variant int) (dims, []string) {
	d.q = false
	d.rl = 0
	n := d.n
	keep := 1 + r.Intn(n)
	ops := []string{"P 1 1 16", fmt.Sprintf("XFER %d", keep)}
	var stopped []int
	need := n/2 + 1
	for h := 1; h <= n && len(stopped) < need; h++ {
		if h != keep {
			stopped = append(stopped, h)
		}
	}
	for _, h := range stopped {
		ops = append(ops, fmt.Sprintf("STOP %d", h))
	}
	nv := n + 1
	ops = append(ops, fmt.Sprintf("P %d 1 16", keep), fmt.Sprintf("R %d", keep), fmt.Sprintf("ANV %d %d", keep, nv), fmt.Sprintf("SNAP %d", keep), fmt.Sprintf("BG %d 3", keep))
	for _, h := range stopped {
		ops = append(ops, fmt.Sprintf("START %d", h))
	}
	o := other(r, n, keep)
	ops = append(ops, "FAIR", fmt.Sprintf("P %d 1 16", keep), fmt.Sprintf("R %d", o), fmt.Sprintf("ANV %d %d", o, nv), fmt.Sprintf("P %d 1 16", o), fmt.Sprintf("R %d", nv))
	// the minority side of a partition
	cut := other(r, n, o)
	ops = append(ops, fmt.Sprintf("XFER %d", o), fmt.Sprintf("PART %d", cut), fmt.Sprintf("P %d 1 16", cut), fmt.Sprintf("ANV %d %d", cut, nv+1), fmt.Sprintf("R %d", cut))
	if variant%2 == 0 {
		ops = append(ops, fmt.Sprintf("P %d 1 16", o))
	}
	ops = append(ops, "HEAL", "FAIR", fmt.Sprintf("R %d", cut), fmt.Sprintf("P %d 1 16", cut))
	return d, ops
}

// configuration history: drawn options, a fault prefix, then the fault-free period in which
// every kind of request must complete on leader, follower and non-voting hosts
func scConfig(r *vh.Rand, d dims, big bool) (dims, []string) {
	if big {
		d.n = 5
	}
	d.rl = 0
	if r.Chance(1, 4) {
		d.rl = 1 << 20 // enabled but roomy: the accounting runs, nothing is refused
	}
	n := d.n
	nv, wit := 0, 0
	next := n + 1
	ops := []string{"P 1 2 16"}
	if big || r.Chance(2, 3) {
		nv = next
		next++
		ops = append(ops, fmt.Sprintf("ANV %d %d", 1+r.Intn(n), nv))
	}
	if n == 5 && (big || r.Chance(1, 2)) {
		wit = next
		next++
		ops = append(ops, fmt.Sprintf("AWIT %d %d", 1+r.Intn(n), wit))
	}
	a := 1 + r.Intn(n)
	b := other(r, n, a)
	c := other(r, n, a, b)
	ops = append(ops, fmt.Sprintf("XFER %d", a))
	nf := 1 + r.Intn(2)
	for k := 0; k < nf; k++ {
		switch r.Intn(4) {
		case 0: // the leader is cut off
			ops = append(ops, fmt.Sprintf("PART %d", a), fmt.Sprintf("BG %d 3", a), fmt.Sprintf("BG %d 3", b), "WAIT 300",
				fmt.Sprintf("P %d 2 16", b), fmt.Sprintf("P %d 1 16", a), fmt.Sprintf("R %d", a), "HEAL")
		case 1: // a host is stopped, misses entries (and a compaction), comes back
			x := []int{a, b, c}[r.Intn(3)]
			y := other(r, n, x)
			ops = append(ops, fmt.Sprintf("STOP %d", x), fmt.Sprintf("BG %d 3", y), fmt.Sprintf("P %d 4 16", y), fmt.Sprintf("SNAP %d", y),
				fmt.Sprintf("P %d 3 16", y), fmt.Sprintf("SNAP %d", other(r, n, x)), fmt.Sprintf("START %d", x))
		case 2: // leadership transfer under load
			ops = append(ops, fmt.Sprintf("BG %d 4", a), fmt.Sprintf("XFERQ %d", b), fmt.Sprintf("BG %d 4", b), fmt.Sprintf("BG %d 4", c), "WAIT 200")
		default: // message loss
			ops = append(ops, fmt.Sprintf("LOSS %d", 10+r.Intn(25)), fmt.Sprintf("BG %d 5", a), fmt.Sprintf("BG %d 5", b), "WAIT 400",
				fmt.Sprintf("P %d 1 16", c), "HEAL")
		}
	}
	ops = append(ops, "FAIR")
	l2 := 1 + r.Intn(n)
	f2 := other(r, n, l2)
	ops = append(ops, fmt.Sprintf("XFER %d", l2), fmt.Sprintf("P %d 2 16", f2), fmt.Sprintf("R %d", f2), fmt.Sprintf("SNAP %d", f2), fmt.Sprintf("P %d 1 64", l2), fmt.Sprintf("R %d", l2))
	if nv != 0 {
		ops = append(ops, fmt.Sprintf("R %d", nv), fmt.Sprintf("P %d 1 16", nv), fmt.Sprintf("SNAP %d", nv))
	}
	extra := next
	next++
	switch r.Intn(3) {
	case 0:
		ops = append(ops, fmt.Sprintf("ANV %d %d", f2, extra), fmt.Sprintf("P %d 1 16", l2), fmt.Sprintf("DEL %d %d", l2, extra))
	case 1:
		ops = append(ops, fmt.Sprintf("ADD %d %d", f2, extra), fmt.Sprintf("P %d 2 16", f2), fmt.Sprintf("R %d", extra), fmt.Sprintf("DEL %d %d", f2, extra))
	default:
		if nv != 0 {
			ops = append(ops, fmt.Sprintf("ADD %d %d", f2, nv), fmt.Sprintf("P %d 1 16", nv)) // promotion of the non-voting replica
		}
	}
	if d.q {
		ops = append(ops, "QUIESCE", fmt.Sprintf("P %d 1 16", f2), "AWAKE")
	}
	return d, ops
}

func gen(a vh.Args) {
	n := 9
	if a.Tier == "thorough" {
		n = 60
	}
	if a.N > 0 {
		n = a.N
	}
	w := vh.Create(a.Cases)
	defer w.Close()
	for i := 0; i < n; i++ {
		r := vh.NewRand(a.Seed*1000003 + uint64(i)*7919 + 17)
		d := drawDims(r)
		var ops []string
		// the first five shapes are fixed, the rest are configuration histories
		// (in thorough runs every tenth is one of the fixed shapes again)
		k := i
		if i >= 5 {
			k = 5
			if i%10 < 4 {
				k = i % 10
			}
		}
		v := int(a.Seed) + i/10
		switch k {
		case 0:
			d, ops = scQuiesce(r, d, v)
		case 1:
			d, ops = scRateLimit(r, d, v)
		case 2:
			d, ops = scNoQuorum(r, d, v)
		case 3:
			d, ops = scRateLimit(r, d, v+1+int(r.Intn(2)))
		case 4:
			d, ops = scQuiesce(r, d, v+1)
		default:
			d, ops = scConfig(r, d, i%10 == 6)
		}
		w.Printf("%s | %s\n", d.header(fmt.Sprintf("g%d_%d", a.Seed, i)), strings.Join(ops, " ; "))
	}
}
