package main

import (
	"fmt"
	"strings"

	"verif/harness/vh"
)

// a simulated client that follows the client.Session discipline:
// PrepareForRegister, PrepareForPropose (series 1), ProposalCompleted
// (respondedTo = series; series++), retries with identical ids.
type gclient struct {
	id         uint64
	series     uint64 // next series id to use
	responded  uint64
	registered bool // the generator's belief (evictions are not tracked)
	inflight   string
}

type pending struct {
	after int // insert when this many ops have been emitted
	text  string
}

func cmdFor(r *vh.Rand) []byte {
	var b []byte
	switch r.Intn(8) {
	case 0:
		b = []byte{byte(r.Intn(3))}
	case 1:
		b = r.Bytes(2)
	default:
		b = r.Bytes(1 + r.Intn(5))
	}
	// payload sizes: mostly tiny, sometimes tens to hundreds of bytes (compressible
	// and incompressible), so that sizes within a batch go up and down
	switch r.Intn(12) {
	case 0:
		b = r.Bytes(8 + r.Intn(60))
	case 1:
		b = r.Bytes(100 + r.Intn(300))
	case 2:
		b = make([]byte, 30+r.Intn(200))
		for i := range b {
			b[i] = byte(i % (1 + r.Intn(3)))
		}
		b[len(b)-1] = byte(r.Intn(4))
	}
	// result-shape dimension of the harness state machine: zero Result, Value 0 with
	// empty non-nil Data, Value != 0 with nil Data, Value 0 with Data
	if r.Chance(1, 4) {
		b[0] = byte(0xE0 + r.Intn(4))
		if r.Chance(1, 2) {
			b[0] = byte(0xE0 + r.Intn(2))
		}
	}
	return b
}

// entryText: the op for one entry. The encoding (plain ApplicationEntry, v0
// uncompressed or v0 snappy EncodedEntry) is a function of the payload, so that a
// retry is byte-identical.
func entryText(c, s, resp uint64, cmd []byte) string {
	k := "E"
	if len(cmd) > 0 {
		switch cmd[len(cmd)-1] % 4 {
		case 0:
			k = "EN"
		case 1:
			k = "ES"
		}
	}
	return fmt.Sprintf("%s %d %d %d %s", k, c, s, resp, vh.Hex(cmd))
}

func genCase(r *vh.Rand, i int, tier string) string {
	cap := uint64(1 + r.Intn(8))
	if r.Chance(1, 3) {
		cap = uint64(4 + r.Intn(5))
	}
	nops := 10 + r.Intn(70)
	big := false
	if (tier == "thorough" && i%2000 == 7) || (tier != "thorough" && i == 7) {
		// the real capacity with more clients than it holds
		cap = defaultCap
		big = true
	}
	nclients := int(cap) + 1 + r.Intn(4)
	if r.Chance(1, 4) {
		nclients = 1 + r.Intn(int(cap)+1)
	}
	if big {
		nclients = int(cap) + 40
		nops = nclients + 600
	}
	clients := make([]*gclient, nclients)
	for k := range clients {
		id := uint64(k + 1)
		switch r.Intn(6) {
		case 0:
			id = r.BiasedU64()
		case 1:
			id = ^uint64(0) - uint64(k)
		}
		if id == 0 {
			id = uint64(1000 + k)
		}
		clients[k] = &gclient{id: id, series: 1}
	}
	var ops []string
	var pend []pending
	emit := func(s string) { ops = append(ops, s) }
	dup := func(s string) {
		// all duplicate placements: immediately, soon, late
		n := 0
		switch r.Intn(6) {
		case 0, 1:
			n = 1
		case 2:
			n = 2 + r.Intn(2)
		}
		for j := 0; j < n; j++ {
			d := 0
			switch r.Intn(3) {
			case 1:
				d = 1 + r.Intn(4)
			case 2:
				d = 1 + r.Intn(40)
			}
			pend = append(pend, pending{after: len(ops) + d, text: s})
		}
	}
	regSeq := 0
	lag := 0
	for len(ops) < nops {
		// due duplicates first
		rest := pend[:0]
		for _, p := range pend {
			if p.after <= len(ops) {
				emit(p.text)
			} else {
				rest = append(rest, p)
			}
		}
		pend = rest
		if big && regSeq < nclients {
			c := clients[regSeq]
			regSeq++
			emit(entryText(c.id, seriesRegister, 0, nil))
			c.registered = true
			if r.Chance(1, 3) {
				cmd := cmdFor(r)
				emit(entryText(c.id, c.series, c.responded, cmd))
				c.inflight = entryText(c.id, c.series, c.responded, cmd)
			}
			continue
		}
		c := clients[r.Intn(len(clients))]
		x := r.Intn(100)
		if lag > 0 {
			lag--
			// while the replica lags, make the table change: sessions go (unregister,
			// eviction by new registrations) and come
			if y := r.Intn(6); y == 0 {
				x = 13 // unregister
			} else if y <= 2 {
				x = 0 // register
			}
			if x >= 90 {
				x = 20
			}
		} else if !big && r.Chance(1, 35) {
			lag = 1 + r.Intn(12)
			emit(fmt.Sprintf("INSTALL %d", lag))
			continue
		}
		if lag == 0 && !big && r.Chance(1, 30) {
			// snapshots of the running replica with only "quiet" session traffic in between
			// (proposals that do not advance RespondedUpTo, typically a client's first
			// proposal), then a restart from the latest one and the retry
			if !c.registered {
				emit(entryText(c.id, seriesRegister, 0, nil))
				c.registered, c.series, c.responded, c.inflight = true, 1, 0, ""
			}
			emit(fmt.Sprintf("SAVE %d", r.Intn(3)))
			n := 1 + r.Intn(3)
			for j := 0; j < n; j++ {
				if c.inflight == "" || r.Chance(1, 3) {
					if c.inflight != "" {
						c.series++ // the client gives up on the previous one without acknowledging it
					}
					c.inflight = entryText(c.id, c.series, c.responded, cmdFor(r))
				}
				emit(c.inflight)
			}
			emit(fmt.Sprintf("SAVE %d", r.Intn(2)))
			if r.Chance(1, 2) {
				emit(c.inflight)
			}
			emit("RESTART")
			emit(c.inflight)
			continue
		}
		if lag == 0 && !big && r.Chance(1, 25) {
			// a snapshot with entries applied while it is being written, later a restart
			emit(fmt.Sprintf("SAVE %d", 1+r.Intn(4)))
			continue
		}
		if lag == 0 && !big && r.Chance(1, 30) {
			emit("RESTART")
			continue
		}
		if lag == 0 && !big && r.Chance(1, 40) {
			emit("OLD")
			continue
		}
		if lag == 0 && !big && r.Chance(1, 18) {
			// several entries in one task
			n := 2 + r.Intn(5)
			emit(fmt.Sprintf("B %d", n))
			if r.Chance(1, 2) {
				// all of them NoOP-session proposals (handleBatch for a concurrent state machine)
				for j := 0; j < n; j++ {
					emit(entryText(clients[r.Intn(len(clients))].id, 0, 0, cmdFor(r)))
				}
			}
			continue
		}
		if r.Chance(1, 25) {
			// the client library asks about a session without proposing anything
			emit(fmt.Sprintf("Q %d", c.id))
			continue
		}
		switch {
		case x < 12:
			s := entryText(c.id, seriesRegister, 0, nil)
			emit(s)
			if !c.registered {
				// a new registration starts a fresh client.Session
				c.registered, c.series, c.responded, c.inflight = true, 1, 0, ""
			}
			dup(s)
		case x < 16:
			s := entryText(c.id, seriesUnregister, 0, nil)
			emit(s)
			c.registered = false
			dup(s)
		case x < 58:
			// a (mostly registered) client proposes with its current series id
			if !c.registered && r.Chance(4, 5) {
				s := entryText(c.id, seriesRegister, 0, nil)
				emit(s)
				c.registered, c.series, c.responded, c.inflight = true, 1, 0, ""
			}
			if c.inflight == "" {
				c.inflight = entryText(c.id, c.series, c.responded, cmdFor(r))
			}
			emit(c.inflight)
			dup(c.inflight)
		case x < 72:
			// the client saw the result: ProposalCompleted
			if c.inflight != "" {
				c.responded = c.series
				c.series++
				c.inflight = ""
			}
			// and immediately proposes again (carrying the acknowledgement)
			c.inflight = entryText(c.id, c.series, c.responded, cmdFor(r))
			emit(c.inflight)
			dup(c.inflight)
		case x < 78:
			// a stale retry of an older series id of this client
			if c.series > 1 {
				old := 1 + uint64(r.Intn(int(min64(c.series-1, 50))))
				resp := uint64(0)
				if old > 1 && r.Bool() {
					resp = old - 1
				}
				emit(entryText(c.id, old, resp, cmdFor(r)))
			} else {
				emit(entryText(c.id, 1, 0, cmdFor(r)))
			}
		case x < 84:
			// wild: arbitrary series / respondedTo, incl. the special values
			series := r.BiasedU64()
			resp := r.BiasedU64()
			switch r.Intn(5) {
			case 0:
				series = seriesRegister
			case 1:
				series = seriesUnregister
			case 2:
				series = uint64(r.Intn(6))
				resp = uint64(r.Intn(6))
			}
			var cmd []byte
			if r.Chance(3, 4) {
				cmd = cmdFor(r)
			}
			s := entryText(c.id, series, resp, cmd)
			emit(s)
			dup(s)
		case x < 87:
			// NoOP session proposal (series 0), possibly of a registered client id
			emit(entryText(c.id, 0, uint64(r.Intn(3)), cmdFor(r)))
		case x < 89:
			emit(entryText(0, uint64(r.Intn(3)), 0, nil)) // empty entry (leader's noop)
		case x < 90:
			emit(entryText(0, uint64(r.Intn(3)), 0, cmdFor(r))) // not session managed, not empty
		case x < 95:
			emit("SNAP")
		case x < 97:
			emit("H")
		default:
			emit("D")
		}
	}
	if i == 3 {
		ops = append(ops, "CAP")
	}
	kind := ""
	if !big && r.Chance(2, 5) {
		kind = " kind=conc"
	}
	if !big && kind == "" && r.Chance(1, 6) {
		kind = " kind=disk"
	}
	if !big && r.Chance(1, 3) {
		kind += " role=nonvoting"
	}
	return fmt.Sprintf("cap=%d%s | %s", cap, kind, strings.Join(ops, " ; "))
}

func min64(a, b uint64) uint64 {
	if a < b {
		return a
	}
	return b
}

// genE2ECase: a client program against real NodeHosts.
func genE2ECase(r *vh.Rand, i int) string {
	n := 1
	if r.Chance(1, 2) {
		n = 3
	}
	cap := 2 + r.Intn(3)
	kind := "reg"
	if r.Chance(1, 2) {
		kind = "conc"
	}
	comp := r.Intn(2)
	type cl struct {
		name             string
		open, inflight   bool
		cmd              string
		completedAtLeast int
	}
	var cls []*cl
	var ops []string
	emit := func(s string) { ops = append(ops, s) }
	host := func() int { return r.Intn(n) }
	newCmd := func() string { return vh.Hex(cmdFor(r)) }
	nops := 25 + r.Intn(25)
	restarts := 0
	for len(ops) < nops {
		x := r.Intn(100)
		var c *cl
		if len(cls) > 0 {
			c = cls[r.Intn(len(cls))]
		}
		switch {
		case x < 14 || c == nil:
			// more sessions than the LRU holds: the oldest ones get evicted
			c = &cl{name: fmt.Sprintf("s%d", len(cls)), open: true}
			cls = append(cls, c)
			emit("REG " + c.name)
		case x < 50:
			if !c.open {
				continue
			}
			if !c.inflight {
				c.cmd, c.inflight = newCmd(), true
			}
			emit(fmt.Sprintf("P %s %s", c.name, c.cmd)) // a new proposal or a retry of the one in flight
		case x < 66:
			if !c.open || !c.inflight {
				continue
			}
			emit("DONE " + c.name)
			c.inflight = false
			c.completedAtLeast++
			if r.Chance(2, 3) {
				c.cmd, c.inflight = newCmd(), true
				emit(fmt.Sprintf("P %s %s", c.name, c.cmd))
			}
		case x < 71:
			if c.open && c.completedAtLeast > 0 {
				emit(fmt.Sprintf("STALE %s %s", c.name, newCmd()))
			}
		case x < 75:
			if c.open {
				emit("CLOSE " + c.name)
				c.open = false
			}
		case x < 81:
			emit("READ")
		case x < 87:
			emit(fmt.Sprintf("SNAPSHOT %d", host()))
		case x < 92:
			if restarts < 3 {
				restarts++
				emit(fmt.Sprintf("RESTARTHOST %d", host()))
			}
		case x < 96:
			if n > 1 {
				emit(fmt.Sprintf("XFER %d", host()))
				emit(fmt.Sprintf("HOST %d", host()))
			}
		default:
			if c.open && c.inflight && restarts < 4 {
				restarts++
				// the typical sequence: snapshot, restart, then the retry
				h := host()
				emit(fmt.Sprintf("SNAPSHOT %d", h))
				emit(fmt.Sprintf("RESTARTHOST %d", h))
				emit(fmt.Sprintf("P %s %s", c.name, c.cmd))
			}
		}
	}
	if i%1000 == 5 {
		emit("GUARD")
	}
	emit("READ")
	return fmt.Sprintf("e2e n=%d cap=%d kind=%s comp=%d | %s", n, cap, kind, comp, strings.Join(ops, " ; "))
}
