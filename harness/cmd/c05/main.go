// C05 harness: the real rsm.StateMachine (session manager, LRU, snapshot save /
// load of the session table) driven white-box with synthetic entry streams, versus
// the Coq model Model/Session.v.
//
// case:  "<id> cap=<n> | op ; op ; ..."     ops:
//
//	E <client> <series> <respondedTo> <cmdhex>   one committed entry (not a config change)
//	EN / ES  the same entry as an EncodedEntry (rsm.GetEncoded: v0 uncompressed / v0 snappy), the
//	         form pendingProposal.propose gives every non-empty command
//	B n      the next n entries reach the replica in ONE task (Handle on a batch; handleBatch for a
//	         concurrent state machine when all of them are NoOP-session updates)
//	SNAP     save a snapshot, "restart": restore it into a fresh StateMachine + fresh user SM
//	H        GetSessionHash (walks the LRU through save)
//	D        dump the session table
//	INSTALL k  the replica stops applying (lags) for the next k entries, which only the
//	         other replica applies; then that replica's snapshot is installed on the LIVE
//	         lagging StateMachine (Recover on a non-empty session table) and the stream goes on
//	SAVE n   snapshot of the running replica (no restart). With a concurrent state machine
//	         (header kind=conc) and n > 0 the next n entries are applied between the two steps
//	         of concurrentSave (after prepare released s.mu, before the file is written)
//	OLD      the live replica is offered its own previous (older than applied) snapshot: must be refused
//	RESTART  fresh StateMachine: recover from the most recent snapshot, replay the log above it
//	Q c      a client API call that does not reach the log: every exported session accessor of
//	         the real StateMachine (found by reflection) is called, with client id c
//	header kind=disk: IOnDiskStateMachine (apply path only: SNAP/SAVE/RESTART/INSTALL are skipped)
//	CAP      print the default rsm.LRUMaxSessionCount of the binary (cross-check of the generated constant)
package main

import (
	"encoding/json"
	"fmt"
	"os"
	"os/exec"
	"path/filepath"
	"sort"
	"strconv"
	"strings"
	"sync"

	"verif/harness/vh"
)

type op struct {
	kind                      string
	client, series, responded uint64
	cmd                       []byte
	n                         int  // INSTALL: length of the lag window (entries)
	enc                       byte // 0 plain ApplicationEntry, 'N' EncodedEntry v0 uncompressed, 'S' EncodedEntry v0 snappy
}

func parseCase(line string) (id string, cap uint64, conc, nonVoting bool, ops []op) {
	head, body := line, ""
	if i := strings.Index(line, " | "); i >= 0 {
		head, body = line[:i], line[i+3:]
	} else if strings.HasSuffix(line, " |") {
		head = line[:len(line)-2]
	}
	hf := strings.Fields(head)
	id = hf[0]
	cap = 4
	for _, h := range hf[1:] {
		if strings.HasPrefix(h, "cap=") {
			v, err := strconv.ParseUint(h[4:], 10, 64)
			must(err)
			cap = v
		}
		if h == "kind=conc" {
			conc = true
		}
		if h == "kind=disk" {
			diskKind = true
		}
		if h == "role=nonvoting" {
			nonVoting = true
		}
	}
	for _, t := range strings.Split(body, " ; ") {
		f := strings.Fields(t)
		if len(f) == 0 {
			continue
		}
		switch f[0] {
		case "Q":
			v, err := strconv.ParseUint(f[1], 10, 64)
			must(err)
			ops = append(ops, op{kind: "Q", client: v})
		case "E", "EN", "ES":
			u := func(s string) uint64 { v, err := strconv.ParseUint(s, 10, 64); must(err); return v }
			o := op{kind: "E", client: u(f[1]), series: u(f[2]), responded: u(f[3]), cmd: vh.UnHex(f[4])}
			if len(f[0]) == 2 && len(o.cmd) > 0 {
				o.enc = f[0][1]
			}
			ops = append(ops, o)
		case "INSTALL", "SAVE", "B":
			n := 1
			if f[0] == "SAVE" {
				n = 0
			}
			if len(f) > 1 {
				v, err := strconv.Atoi(f[1])
				must(err)
				n = v
			}
			ops = append(ops, op{kind: f[0], n: n})
		default:
			ops = append(ops, op{kind: f[0]})
		}
	}
	return
}

func must(err error) {
	if err != nil {
		panic(err)
	}
}

func showSessions(cap uint64, ss []sessionView) string {
	var b strings.Builder
	fmt.Fprintf(&b, "cap=%d", cap)
	for _, s := range ss {
		keys := make([]uint64, 0, len(s.History))
		for k := range s.History {
			keys = append(keys, k)
		}
		sort.Slice(keys, func(i, j int) bool { return keys[i] < keys[j] })
		fmt.Fprintf(&b, " [%d:%d:", s.ClientID, s.RespondedUpTo)
		for i, k := range keys {
			if i > 0 {
				b.WriteString(",")
			}
			r := s.History[k]
			fmt.Fprintf(&b, "%d=%d/%s", k, r.Value, vh.Hex(r.Data))
		}
		b.WriteString("]")
	}
	return b.String()
}

const (
	seriesRegister   = ^uint64(0) - 1
	seriesUnregister = ^uint64(0)
)

// classification of an entry the way the monitor needs it (from the API's
// documented meaning, not from the implementation's predicates)
func entryKind(o op) string {
	switch {
	case o.client == 0 && len(o.cmd) == 0:
		return "noop"
	case o.client == 0:
		return "bad"
	case len(o.cmd) == 0 && o.series == seriesRegister:
		return "register"
	case len(o.cmd) == 0 && o.series == seriesUnregister:
		return "unregister"
	case o.series == 0:
		return "noopsession"
	}
	return "update"
}

type tag struct {
	client uint64
	epoch  int
	series uint64
}

func runCase(line string, obs *vh.LineWriter, st *vh.Stats) {
	if f := strings.Fields(line); len(f) > 1 && f[1] == "e2e" {
		runE2ECase(line, obs, st)
		return
	}
	if f := strings.Fields(line); len(f) > 1 && strings.HasPrefix(f[1], "client=") {
		runClientCase(line, obs, st)
		return
	}
	diskKind = false
	id, cap, conc, nonVoting, ops := parseCase(line)
	if cap == 0 {
		obs.Printf("%s BADCAP\n", id)
		return
	}
	fs := newFS()
	r := newReplica(conc, nonVoting, cap, fs, "a")
	twin := newReplica(conc, false, cap, newFS(), "t") // always a full member // never snapshots: monitor for snapshot equivalence
	viol := func(format string, a ...interface{}) { st.Violation(id, fmt.Sprintf(format, a...)) }

	epoch := map[uint64]int{}
	applied := map[tag]int{}
	firstResult := map[tag]string{}
	evictions, cachedHits, ignoredHits, rejectedHits, snaps, applies := 0, 0, 0, 0, 0, 0

	var history []op // every entry of the log so far
	lagLeft, installDue, installs := 0, false, 0
	doInstall := func(k int) {
		installs++
		saved, want, acc, perr := r.installFrom(history, installs)
		if perr != "" {
			obs.Printf("%s %d INSTALLFAIL\n", id, k)
			viol("op %d: installing a snapshot on the live replica failed: %s", k, perr)
			return
		}
		c1, after := r.dump()
		obs.Printf("%s %d S %s sm=%d\n", id, k, saved, acc)
		obs.Printf("%s %d T %s sm=%d\n", id, k, showSessions(c1, after), r.usm.acc)
		if got := showSessions(c1, after); got != want || r.usm.acc != acc {
			viol("install: after installing a snapshot on the live replica its session table is %s sm=%d, the snapshot holds %s sm=%d", got, r.usm.acc, want, acc)
		}
		tc, td := twin.dump()
		if showSessions(c1, after) != showSessions(tc, td) || r.usm.acc != twin.usm.acc {
			viol("install: replica that installed the snapshot has %s sm=%d, replica that applied the log has %s sm=%d", showSessions(c1, after), r.usm.acc, showSessions(tc, td), twin.usm.acc)
		}
	}
	var pend *pendingSave
	var stash *entryResult
	stashK := -1
	saves, restarts, windowed := 0, 0, 0
	closeSave := func() {
		p := pend
		pend = nil
		fileOrder, mru, perr := r.saveEnd(p)
		if perr != "" {
			obs.Printf("%s %d SAVEFAIL\n", id, p.k)
			viol("op %d: saving a snapshot failed: %s", p.k, perr)
			return
		}
		obs.Printf("%s %d S %s sm=%d\n", id, p.k, fileOrder, p.acc)
		if mru != p.table {
			viol("snapshot image: the session table saved in the snapshot is %s, the table at the snapshot index was %s", mru, p.table)
		}
	}
	// B n: entries buffered for one task; the twin applies them one by one right away
	// (and carries the monitors), the replica under test gets them as one batch
	type buffered struct {
		k    int
		o    op
		tres string
	}
	var buf []buffered
	batchLeft, batches := 0, 0
	flush := func() {
		batchLeft = 0
		if len(buf) == 0 {
			return
		}
		batches++
		os := make([]op, len(buf))
		for i := range buf {
			os[i] = buf[i].o
		}
		rs, perr := r.applyBatch(os)
		for i, b := range buf {
			if perr != "" {
				obs.Printf("%s %d BATCHFAIL\n", id, b.k)
				continue
			}
			obs.Printf("%s %d %s\n", id, b.k, rs[i].String())
			if rs[i].String() != b.tres {
				viol("batching changed behaviour: op %d applied as part of a batch of %d reports %q, applied alone %q", b.k, len(buf), rs[i].String(), b.tres)
			}
		}
		if perr != "" {
			viol("ops %d..%d: applying a batch failed: %s", buf[0].k, buf[len(buf)-1].k, perr)
		}
		st.Count(fmt.Sprintf("batch.size<=%d", bucket(len(buf))))
		buf = nil
	}
	for k, o := range ops {
		if len(buf) > 0 && (batchLeft == 0 || o.kind != "E" || entryKind(o) == "bad") {
			flush()
		}
		if o.kind != "E" {
			batchLeft = 0
		}
		if installDue {
			installDue = false
			doInstall(k - 1)
		}
		if pend != nil && (pend.left <= 0 || o.kind != "E") {
			closeSave()
		}
		if diskKind && (o.kind == "SNAP" || o.kind == "SAVE" || o.kind == "RESTART" || o.kind == "INSTALL") {
			// an on-disk state machine keeps its own state; sessions are not snapshotted for it
			obs.Printf("%s %d skip\n", id, k)
			continue
		}
		if lagLeft > 0 && o.kind != "E" {
			obs.Printf("%s %d skip\n", id, k)
			continue
		}
		switch o.kind {
		case "SAVE":
			st.Count("op.SAVE")
			saves++
			// concurrent kind, real concurrentSave: if the save does not hold s.mu while it
			// fixes the snapshot index, the session image and the state machine image, the
			// update thread can get an entry in between. The next entry of the stream is
			// offered from inside the user's PrepareSnapshot, and taken only when s.mu is
			// free there (never on a correct implementation, where it would deadlock).
			stash, stashK = nil, -1
			if r.conc && lagLeft == 0 && k+1 < len(ops) && ops[k+1].kind == "E" && entryKind(ops[k+1]) != "bad" {
				rr, nk, no := r, k+1, ops[k+1]
				r.usm.onPrepare = func() {
					if rr.muFree() {
						res := rr.apply(no)
						stash, stashK = &res, nk
						st.Count("save.entry_applied_inside_prepare")
					}
				}
			}
			pend = r.saveBegin(k, o.n)
			r.usm.onPrepare = nil
			if pend.twoStep {
				windowed++
			}
		case "OLD":
			st.Count("op.OLD")
			if !r.snap.has {
				obs.Printf("%s %d OLD none\n", id, k)
				continue
			}
			c0, before := r.dump()
			acc0 := r.usm.acc
			refused, perr := r.installOld()
			c1, after := r.dump()
			if perr != "" {
				obs.Printf("%s %d OLD panic\n", id, k)
				viol("op %d: offering an out-of-date snapshot to the live replica panicked: %s", k, perr)
				continue
			}
			if refused {
				obs.Printf("%s %d OLD refused\n", id, k)
			} else {
				obs.Printf("%s %d OLD accepted\n", id, k)
			}
			if !refused || showSessions(c0, before) != showSessions(c1, after) || acc0 != r.usm.acc {
				viol("out-of-date snapshot: the live replica (applied index above the snapshot's) accepted=%v a snapshot older than its state: %s sm=%d -> %s sm=%d", !refused, showSessions(c0, before), acc0, showSessions(c1, after), r.usm.acc)
			}
		case "RESTART":
			st.Count("op.RESTART")
			restarts++
			c0, before := r.dump()
			acc0 := r.usm.acc
			nr, restored, perr := r.restart()
			if perr != "" {
				obs.Printf("%s %d RESTARTFAIL\n", id, k)
				viol("op %d: restart (recover + replay) failed: %s", k, perr)
				continue
			}
			r = nr
			c1, after := r.dump()
			obs.Printf("%s %d R %s\n", id, k, restored)
			obs.Printf("%s %d T %s sm=%d\n", id, k, showSessions(c1, after), r.usm.acc)
			if showSessions(c0, before) != showSessions(c1, after) || acc0 != r.usm.acc {
				viol("restart: before the restart %s sm=%d, after recovering the latest snapshot and replaying the log %s sm=%d", showSessions(c0, before), acc0, showSessions(c1, after), r.usm.acc)
			}
		case "B":
			st.Count("op.B")
			if o.n > 0 {
				batchLeft = o.n
			}
			obs.Printf("%s %d B %d\n", id, k, o.n)
		case "INSTALL":
			st.Count("op.INSTALL")
			if o.n > 0 {
				lagLeft = o.n
			}
			obs.Printf("%s %d INSTALL %d\n", id, k, o.n)
		case "E":
			kind := entryKind(o)
			st.Count("op.E." + kind)
			if o.enc != 0 {
				st.Count("op.E.encoded." + string(o.enc))
			}
			x := r
			batched := lagLeft == 0 && batchLeft > 0 && kind != "bad"
			if lagLeft > 0 {
				x = twin
				st.Count("op.E.lagging")
			} else if batched {
				x = twin
				st.Count("op.E.batched")
			}
			capBefore, before := x.dump()
			accBefore := x.usm.acc
			var res entryResult
			if stash != nil && stashK == k && x == r {
				res, stash = *stash, nil // already applied from inside the snapshot save
			} else {
				res = x.apply(o)
			}
			history = append(history, o)
			if batched {
				buf = append(buf, buffered{k, o, res.String()})
				batchLeft--
			} else if lagLeft > 0 {
				// only the other replica applies this entry; the replica under test lags
				obs.Printf("%s %d L %s\n", id, k, res.String())
				lagLeft--
				installDue = lagLeft == 0
			} else {
				if pend != nil {
					pend.left--
				}
				tres := twin.apply(o)
				obs.Printf("%s %d %s\n", id, k, res.String())
				if res.String() != tres.String() {
					viol("snapshot/restart/install changed behaviour: op %d replica with restarts reports %q, replica without reports %q", k, res.String(), tres.String())
				}
			}
			if res.panicked {
				if kind != "bad" {
					viol("op %d: implementation panicked: %s", k, res.panicMsg)
				}
				continue
			}
			_, after := x.dump()
			if kind == "register" && res.applyCalled && !res.rejected && len(after) <= len(before) {
				evictions++
			}
			// ---- property monitor (implementation only) ----
			var present *sessionView
			for i := range before {
				if before[i].ClientID == o.client {
					present = &before[i]
				}
			}
			switch kind {
			case "register", "unregister", "noop":
				if res.updateCalls != 0 {
					viol("op %d: %s entry reached the user state machine", k, kind)
				}
				if kind == "register" && present != nil {
					// a duplicate of the registration request must not start a new session
					if !(res.applyCalled && res.rejected) {
						viol("duplicate register: client %d already registered but op %d gave %s", o.client, k, res.String())
					}
					if a := findViewPtr(after, o.client); a == nil || showSessions(0, []sessionView{*a}) != showSessions(0, []sessionView{*present}) {
						viol("duplicate register: op %d changed the session of client %d", k, o.client)
					}
				}
				if kind == "register" && present == nil {
					epoch[o.client]++ // a new incarnation of this client id
				}
				if kind == "register" && res.applyCalled && !res.rejected {
					// a registration is effective, and evicts only when the table is full,
					// and then exactly one (the least recently used) session
					if len(after) == 0 || after[0].ClientID != o.client {
						viol("register: client %d reported registered at op %d but is not in the session table", o.client, k)
					}
					lost := 0
					for _, b := range before {
						found := false
						for _, a := range after {
							found = found || a.ClientID == b.ClientID
						}
						if !found {
							lost++
						}
					}
					if (uint64(len(before)) < capBefore && lost > 0) || lost > 1 ||
						(lost == 1 && findView(after, before[len(before)-1].ClientID)) {
						viol("eviction: registering client %d at op %d with %d/%d sessions dropped %d session(s) (only the least recently used one of a full table may go)", o.client, k, len(before), capBefore, lost)
					}
				}
			case "update":
				t := tag{o.client, epoch[o.client], o.series}
				if res.updateCalls > 0 {
					applies++
					applied[t] += res.updateCalls
					if applied[t] > 1 {
						viol("at-most-once: client %d series %d applied %d times to the user state machine (op %d)", o.client, o.series, applied[t], k)
					}
				}
				if res.applyCalled && !res.rejected && !res.ignored {
					rs := fmt.Sprintf("%d/%s", res.value, vh.Hex(res.data))
					if res.updateCalls > 0 {
						switch {
						case res.value == 0 && len(res.data) == 0:
							st.Count("result.zero")
						case res.value == 0:
							st.Count("result.value0_data")
						case len(res.data) == 0:
							st.Count("result.value_nodata")
						default:
							st.Count("result.value_data")
						}
					} else if rs == "0/-" {
						st.Count("retry.answered_with_cached_zero_result")
					}
					if f, ok := firstResult[t]; !ok {
						firstResult[t] = rs
					} else {
						cachedHits++
						if f != rs {
							viol("retry result: client %d series %d completed with %s, the first completion returned %s (op %d)", o.client, o.series, rs, f, k)
						}
					}
				}
				if present == nil {
					rejectedHits++
					if !(res.applyCalled && res.rejected) || res.updateCalls != 0 || x.usm.acc != accBefore {
						viol("unknown session: client %d not registered but op %d gave %s", o.client, k, res.String())
					}
					if showSessions(capBefore, before) != showSessions(capBefore, after) {
						viol("unknown session: op %d of unregistered client %d changed the session table", k, o.client)
					}
				} else {
					if res.applyCalled && res.rejected {
						viol("registered session rejected: client %d op %d", o.client, k)
					}
					ack := present.RespondedUpTo
					if o.responded > ack {
						ack = o.responded
					}
					if o.series <= ack {
						ignoredHits++
						if res.applyCalled || res.updateCalls != 0 || x.usm.acc != accBefore {
							viol("acknowledged duplicate: client %d series %d <= acknowledged %d but op %d gave %s", o.client, o.series, ack, k, res.String())
						}
					}
				}
			}
		case "SNAP":
			st.Count("op.SNAP")
			snaps++
			c0, before := r.dump()
			acc0 := r.usm.acc
			saved, nr, perr := r.snapshotRestart()
			if perr != "" {
				obs.Printf("%s %d SNAPFAIL\n", id, k)
				viol("op %d: snapshot/restore failed: %s", k, perr)
				continue
			}
			r = nr
			c1, after := r.dump()
			obs.Printf("%s %d S %s sm=%d\n", id, k, saved, acc0)
			obs.Printf("%s %d T %s sm=%d\n", id, k, showSessions(c1, after), r.usm.acc)
			if showSessions(c0, before) != showSessions(c1, after) || acc0 != r.usm.acc {
				viol("snapshot restore: table/SM before save %s sm=%d, after restore %s sm=%d", showSessions(c0, before), acc0, showSessions(c1, after), r.usm.acc)
			}
		case "H":
			st.Count("op.H")
			c0, before := r.dump()
			p := vh.Catch(func() { r.sm.GetSessionHash() })
			c1, after := r.dump()
			if p != "" {
				obs.Printf("%s %d H panic\n", id, k)
				viol("op %d: GetSessionHash panicked: %s", k, p)
				continue
			}
			obs.Printf("%s %d H ok\n", id, k)
			if showSessions(c0, before) != showSessions(c1, after) {
				viol("saving the sessions changed the table: %s -> %s", showSessions(c0, before), showSessions(c1, after))
			}
		case "Q":
			st.Count("op.Q")
			c0, before := r.dump()
			acc0 := r.usm.acc
			names, p := r.nonLogLookup(o.client)
			c1, after := r.dump()
			for _, n := range names {
				st.Count("accessor." + n)
			}
			if p != "" {
				obs.Printf("%s %d Q panic\n", id, k)
				viol("op %d: a session accessor panicked: %s", k, p)
				continue
			}
			obs.Printf("%s %d Q ok\n", id, k)
			if showSessions(c0, before) != showSessions(c1, after) || acc0 != r.usm.acc {
				viol("non-log lookup: calling the session accessors %v for client %d outside the apply path changed the session table (LRU order is no longer a function of the log): %s -> %s", names, o.client, showSessions(c0, before), showSessions(c1, after))
			}
		case "D":
			st.Count("op.D")
			c, d := r.dump()
			obs.Printf("%s %d T %s sm=%d\n", id, k, showSessions(c, d), r.usm.acc)
		case "CAP":
			obs.Printf("%s %d CAP %d\n", id, k, defaultCap)
		default:
			obs.Printf("%s %d ? %s\n", id, k, o.kind)
		}
	}
	flush()
	if pend != nil {
		closeSave()
	}
	if lagLeft > 0 || installDue {
		doInstall(len(ops))
	}
	c, d := r.dump()
	obs.Printf("%s end T %s sm=%d\n", id, showSessions(c, d), r.usm.acc)
	tc, td := twin.dump()
	if showSessions(c, d) != showSessions(tc, td) || r.usm.acc != twin.usm.acc {
		viol("snapshot/restart changed the final state: %s sm=%d vs %s sm=%d", showSessions(c, d), r.usm.acc, showSessions(tc, td), twin.usm.acc)
	}
	st.Count(fmt.Sprintf("case.evictions<=%d", bucket(evictions)))
	st.Count(fmt.Sprintf("case.cached_retries<=%d", bucket(cachedHits)))
	st.Count(fmt.Sprintf("case.ignored_dups<=%d", bucket(ignoredHits)))
	st.Count(fmt.Sprintf("case.unknown_session<=%d", bucket(rejectedHits)))
	st.Count(fmt.Sprintf("case.snaps<=%d", bucket(snaps)))
	st.Count(fmt.Sprintf("case.installs<=%d", bucket(installs)))
	st.Count(fmt.Sprintf("case.batches<=%d", bucket(batches)))
	st.Count(fmt.Sprintf("case.saves<=%d", bucket(saves)))
	st.Count(fmt.Sprintf("case.restarts<=%d", bucket(restarts)))
	st.Count(fmt.Sprintf("case.saves_with_entries_in_flight<=%d", bucket(windowed)))
	if conc {
		st.Count("case.kind=conc")
	}
	if diskKind {
		st.Count("case.kind=disk")
	}
	if nonVoting {
		st.Count("case.role=nonvoting")
	}
	nontrivial := cachedHits > 0 && rejectedHits > 0 && ignoredHits > 0 && applies > 0
	body := line
	if i := strings.Index(line, " "); i >= 0 {
		body = line[i:]
	}
	st.Case(body, nontrivial, line)
}

func findView(l []sessionView, c uint64) bool {
	for _, x := range l {
		if x.ClientID == c {
			return true
		}
	}
	return false
}

func findViewPtr(l []sessionView, c uint64) *sessionView {
	for i := range l {
		if l[i].ClientID == c {
			return &l[i]
		}
	}
	return nil
}

func boolInt(b bool) int {
	if b {
		return 1
	}
	return 0
}

func bucket(n int) int {
	for _, b := range []int{0, 1, 3, 10, 30, 100} {
		if n <= b {
			return b
		}
	}
	return 1 << 30
}

func main() {
	a := vh.ParseArgs()
	switch a.Mode {
	case "gen":
		n := 1000
		if a.Tier == "thorough" {
			n = 30000
		}
		if a.N > 0 {
			n = a.N
		}
		r := vh.NewRand(a.Seed)
		w := vh.Create(a.Cases)
		for i := 0; i < n; i++ {
			if i%10 == 9 {
				w.Printf("g%d %s\n", i, genClientCase(r))
				continue
			}
			if (a.Tier == "thorough" && i%300 == 5) || (a.Tier != "thorough" && i%400 == 5) {
				w.Printf("g%d %s\n", i, genE2ECase(r, i))
				continue
			}
			w.Printf("g%d %s\n", i, genCase(r, i, a.Tier))
		}
		w.Close()
	case "run":
		quiet()
		if lines := vh.ReadLines(a.Cases); os.Getenv("C05_CHILD") == "" && len(lines) >= 200 {
			runParallel(a, lines)
			return
		}
		st := vh.NewStats("entry streams of many clients over the real rsm.StateMachine with rsm.LRUMaxSessionCount lowered to 1..8 (a few at the real 4096): register / propose / retry (duplicates placed at random later positions) / acknowledge / unregister, clients that follow the client.Session discipline and wild entries (boundary series ids, special ids with non-empty cmd, client 0), more clients than the LRU capacity, snapshot+restart (SNAP) and session-hash (H) at random cut points. non-trivial = the case contains at least one fresh application, one retry answered from the session cache, one acknowledged duplicate that is ignored and one proposal of an unknown/evicted session; distinct by full case text")
		obs := vh.Create(a.Out + "/impl.obs")
		for _, line := range vh.ReadLines(a.Cases) {
			func() {
				id := strings.Fields(line)[0]
				if p := vh.Catch(func() { runCase(line, obs, st) }); p != "" {
					obs.Printf("%s HARNESS-PANIC\n", id)
					st.Violation(id, "harness/implementation panicked outside an entry: "+p)
				}
			}()
		}
		obs.Close()
		st.Write(a.Out)
	}
}

// runParallel: the cases are independent; rsm.LRUMaxSessionCount is a package
// variable, so they are split over child PROCESSES (contiguous chunks) and the
// observations / statistics are concatenated in order.
func runParallel(a vh.Args, lines []string) {
	workers := 4
	if a.Tier == "thorough" {
		workers = 10
	}
	exe, err := os.Executable()
	must(err)
	type child struct {
		dir string
		err error
	}
	cs := make([]child, workers)
	var wg sync.WaitGroup
	for w := 0; w < workers; w++ {
		lo, hi := len(lines)*w/workers, len(lines)*(w+1)/workers
		dir := filepath.Join(a.Out, fmt.Sprintf("child%d", w))
		must(os.MkdirAll(dir, 0755))
		cf := filepath.Join(dir, "cases.txt")
		must(os.WriteFile(cf, []byte(strings.Join(lines[lo:hi], "\n")+"\n"), 0644))
		cs[w].dir = dir
		wg.Add(1)
		go func(w int) {
			defer wg.Done()
			cmd := exec.Command(exe, "run", "-tier", a.Tier, "-seed", fmt.Sprint(a.Seed), "-cases", cf, "-out", dir)
			cmd.Env = append(os.Environ(), "C05_CHILD=1")
			cmd.Stderr = os.Stderr
			cs[w].err = cmd.Run()
		}(w)
	}
	wg.Wait()
	out, err := os.Create(filepath.Join(a.Out, "impl.obs"))
	must(err)
	var total *vh.Stats
	for _, c := range cs {
		if c.err != nil {
			fmt.Fprintln(os.Stderr, "c05: child failed:", c.err)
			os.Exit(3)
		}
		b, err := os.ReadFile(filepath.Join(c.dir, "impl.obs"))
		must(err)
		_, err = out.Write(b)
		must(err)
		var s vh.Stats
		sb, err := os.ReadFile(filepath.Join(c.dir, "stats.json"))
		must(err)
		must(json.Unmarshal(sb, &s))
		if total == nil {
			total = vh.NewStats(s.Rule)
			total.Samples = s.Samples
		}
		total.Evaluations += s.Evaluations
		total.DistinctNontrivial += s.DistinctNontrivial
		for k, v := range s.Distribution {
			total.Distribution[k] += v
		}
		total.MonitorViolations = append(total.MonitorViolations, s.MonitorViolations...)
		_ = os.RemoveAll(c.dir)
	}
	must(out.Close())
	total.Write(a.Out)
}
