package main

import (
	"fmt"
	"strconv"
	"strings"

	"github.com/lni/dragonboat/v4/client"

	"verif/harness/vh"
)

// client cases: "<id> client=<cid> [series=<s> resp=<r>] | P ; C ; REG ; UNREG ; PROP"
//
//	P      what a proposal made now would carry: ClientID SeriesID RespondedTo
//	C      ProposalCompleted
//	PROP   PrepareForPropose, REG PrepareForRegister, UNREG PrepareForUnregister
//
// without series=/resp= the session is what client.NewSession creates, followed
// by PrepareForPropose (the state after a successful registration).
func runClientCase(line string, obs *vh.LineWriter, st *vh.Stats) {
	head, body := line, ""
	if i := strings.Index(line, " | "); i >= 0 {
		head, body = line[:i], line[i+3:]
	}
	hf := strings.Fields(head)
	id := hf[0]
	var cid, series, resp uint64
	raw := false
	for _, h := range hf[1:] {
		kv := strings.SplitN(h, "=", 2)
		v, err := strconv.ParseUint(kv[1], 10, 64)
		must(err)
		switch kv[0] {
		case "client":
			cid = v
		case "series":
			series, raw = v, true
		case "resp":
			resp, raw = v, true
		}
	}
	cs := &client.Session{ShardID: 1, ClientID: cid, SeriesID: client.NoOPSeriesID + 1}
	if raw {
		cs.SeriesID, cs.RespondedTo = series, resp
	} else if p := vh.Catch(cs.PrepareForPropose); p != "" {
		obs.Printf("%s init panic\n", id)
		st.Case(line[len(id):], false, "")
		return
	}
	lastSeries, completed := uint64(0), map[uint64]bool{}
	disciplined := !raw
	npanic := 0
	k := 0
	for _, t := range strings.Split(body, " ; ") {
		t = strings.TrimSpace(t)
		if t == "" {
			continue
		}
		st.Count("clientop." + t)
		switch t {
		case "P":
			obs.Printf("%s %d P %d %d %d\n", id, k, cs.ClientID, cs.SeriesID, cs.RespondedTo)
			if disciplined {
				// monitor: a disciplined client never re-uses a completed series id, never goes
				// back, never emits a reserved id, and acknowledges exactly the previous one
				if completed[cs.SeriesID] || cs.SeriesID < lastSeries || cs.SeriesID == 0 ||
					cs.SeriesID >= client.SeriesIDForRegister || cs.RespondedTo+1 != cs.SeriesID {
					st.Violation(id, fmt.Sprintf("client discipline: op %d proposes with series %d respondedTo %d (last %d, completed %v)", k, cs.SeriesID, cs.RespondedTo, lastSeries, completed[cs.SeriesID]))
				}
				lastSeries = cs.SeriesID
			}
		case "C", "PROP", "REG", "UNREG":
			before := cs.SeriesID
			f := map[string]func(){"C": cs.ProposalCompleted, "PROP": cs.PrepareForPropose, "REG": cs.PrepareForRegister, "UNREG": cs.PrepareForUnregister}[t]
			if p := vh.Catch(f); p != "" {
				npanic++
				obs.Printf("%s %d %s panic\n", id, k, t)
				if disciplined {
					st.Violation(id, fmt.Sprintf("client discipline: %s panicked at op %d: %s", t, k, p))
				}
			} else {
				obs.Printf("%s %d %s ok %d %d\n", id, k, t, cs.SeriesID, cs.RespondedTo)
				if t == "C" {
					completed[before] = true
				} else {
					disciplined = false
				}
			}
		default:
			obs.Printf("%s %d ? %s\n", id, k, t)
		}
		k++
	}
	st.Count(fmt.Sprintf("clientcase.panics<=%d", bucket(npanic)))
	st.Case(line[len(id):], false, "")
}

func genClientCase(r *vh.Rand) string {
	cid := r.BiasedU64()
	if r.Chance(3, 4) && cid == 0 {
		cid = 77
	}
	head := fmt.Sprintf("client=%d", cid)
	wild := r.Chance(1, 3)
	if wild {
		s := r.BiasedU64()
		resp := s - 1
		switch r.Intn(4) {
		case 0:
			resp = r.BiasedU64()
		case 1:
			resp = s
		}
		head += fmt.Sprintf(" series=%d resp=%d", s, resp)
	}
	var ops []string
	n := 1 + r.Intn(30)
	for i := 0; i < n; i++ {
		x := r.Intn(100)
		switch {
		case x < 50:
			ops = append(ops, "P")
		case x < 90 || !wild:
			ops = append(ops, "C")
		case x < 94:
			ops = append(ops, "PROP")
		case x < 97:
			ops = append(ops, "REG")
		default:
			ops = append(ops, "UNREG")
		}
	}
	return head + " | " + strings.Join(ops, " ; ")
}
