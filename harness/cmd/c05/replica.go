package main

import (
	"bytes"
	"encoding/binary"
	"encoding/json"
	"errors"
	"fmt"
	"io"
	"reflect"
	"sort"
	"strings"

	"github.com/lni/dragonboat/v4/config"
	"github.com/lni/dragonboat/v4/logger"
	pb "github.com/lni/dragonboat/v4/raftpb"
	sm "github.com/lni/dragonboat/v4/statemachine"
	hk "github.com/lni/dragonboat/v4/verifhooks/c05"

	"verif/harness/vh"
)

type sessionView = hk.SessionView

// diskKind: the case under execution uses an IOnDiskStateMachine (set per case)
var diskKind bool

var defaultCap = hk.LRUMaxSessionCount() // value of rsm.LRUMaxSessionCount before the harness touches it

// quietLogger discards the library's log text; Panicf keeps its meaning.
type quietLogger struct{}

func (quietLogger) SetLevel(logger.LogLevel)        {}
func (quietLogger) Debugf(string, ...interface{})   {}
func (quietLogger) Infof(string, ...interface{})    {}
func (quietLogger) Warningf(string, ...interface{}) {}
func (quietLogger) Errorf(string, ...interface{})   {}
func (quietLogger) Panicf(format string, args ...interface{}) {
	panic(fmt.Sprintf(format, args...))
}

func quiet() {
	logger.SetLoggerFactory(func(string) logger.ILogger { return quietLogger{} })
}

func newFS() hk.IFS { return hk.NewMemFS() }

// ---- the user state machine: same arithmetic as acc_update in Model/Session.v ----

type accSM struct {
	acc   uint64
	calls []sm.Entry
	// onPrepare, when set, runs once inside the next PrepareSnapshot (concurrent kind)
	onPrepare func()
}

func accHash(cmd []byte) uint64 {
	h := uint64(7)
	for _, b := range cmd {
		h = h*257 + uint64(b) + 1
	}
	return h
}

func (a *accSM) Update(e sm.Entry) (sm.Result, error) {
	a.calls = append(a.calls, sm.Entry{Index: e.Index, Cmd: append([]byte(nil), e.Cmd...)})
	a.acc = a.acc*31 + accHash(e.Cmd)
	d := e.Cmd
	if len(d) > 2 {
		d = d[:2]
	}
	d = append([]byte(nil), d...)
	// the first command byte selects the shape of the result (acc_update in Model/Session.v)
	if len(e.Cmd) > 0 {
		switch e.Cmd[0] {
		case 0xE0:
			return sm.Result{}, nil // the zero Result
		case 0xE1:
			return sm.Result{Value: 0, Data: []byte{}}, nil // Value 0, empty non-nil Data
		case 0xE2:
			return sm.Result{Value: a.acc}, nil // Value != 0, nil Data
		case 0xE3:
			return sm.Result{Value: 0, Data: d}, nil // Value 0, some Data
		}
	}
	return sm.Result{Value: a.acc, Data: d}, nil
}
func (a *accSM) Lookup(interface{}) (interface{}, error) { return a.acc, nil }
func (a *accSM) SaveSnapshot(w io.Writer, _ sm.ISnapshotFileCollection, _ <-chan struct{}) error {
	b := make([]byte, 8)
	binary.LittleEndian.PutUint64(b, a.acc)
	_, err := w.Write(b)
	return err
}
func (a *accSM) RecoverFromSnapshot(r io.Reader, _ []sm.SnapshotFile, _ <-chan struct{}) error {
	b := make([]byte, 8)
	if _, err := io.ReadFull(r, b); err != nil {
		return err
	}
	a.acc = binary.LittleEndian.Uint64(b)
	return nil
}
func (a *accSM) Close() error { return nil }

// concAccSM is the same machine as an IConcurrentStateMachine: PrepareSnapshot
// captures the accumulator, SaveSnapshot writes the captured value (entries may
// be applied in between).
type concAccSM struct{ core *accSM }

func (c *concAccSM) Update(ents []sm.Entry) ([]sm.Entry, error) {
	for i := range ents {
		r, err := c.core.Update(ents[i])
		if err != nil {
			return nil, err
		}
		ents[i].Result = r
	}
	return ents, nil
}
func (c *concAccSM) Lookup(q interface{}) (interface{}, error) { return c.core.Lookup(q) }
func (c *concAccSM) PrepareSnapshot() (interface{}, error) {
	v := c.core.acc
	if f := c.core.onPrepare; f != nil {
		c.core.onPrepare = nil
		f()
	}
	return v, nil
}
func (c *concAccSM) SaveSnapshot(ctx interface{}, w io.Writer, _ sm.ISnapshotFileCollection, _ <-chan struct{}) error {
	b := make([]byte, 8)
	binary.LittleEndian.PutUint64(b, ctx.(uint64))
	_, err := w.Write(b)
	return err
}
func (c *concAccSM) RecoverFromSnapshot(r io.Reader, f []sm.SnapshotFile, d <-chan struct{}) error {
	return c.core.RecoverFromSnapshot(r, f, d)
}
func (c *concAccSM) Close() error { return nil }

// diskAccSM: the same machine as an IOnDiskStateMachine (always opened empty:
// index 0). Only the apply path is driven for this kind.
type diskAccSM struct{ concAccSM }

func (d *diskAccSM) Open(<-chan struct{}) (uint64, error) { return 0, nil }
func (d *diskAccSM) Sync() error                          { return nil }
func (d *diskAccSM) SaveSnapshot(ctx interface{}, w io.Writer, _ <-chan struct{}) error {
	return d.concAccSM.SaveSnapshot(ctx, w, nil, nil)
}
func (d *diskAccSM) RecoverFromSnapshot(r io.Reader, _ <-chan struct{}) error {
	return d.core.RecoverFromSnapshot(r, nil, nil)
}

// ---- rsm.INode: records what handleEntry reports ----

type applyRec struct {
	result            sm.Result
	rejected, ignored bool
}

type nodeProxy struct {
	applied map[uint64][]applyRec // by entry index
	stop    chan struct{}
}

func (n *nodeProxy) StepReady()                       {}
func (n *nodeProxy) RestoreRemotes(pb.Snapshot) error { return nil }
func (n *nodeProxy) ApplyUpdate(e pb.Entry, r sm.Result, rejected bool, ignored bool, last bool) {
	n.applied[e.Index] = append(n.applied[e.Index], applyRec{r, rejected, ignored})
}
func (n *nodeProxy) ApplyConfigChange(pb.ConfigChange, uint64, bool) error { return nil }
func (n *nodeProxy) ReplicaID() uint64                                     { return 1 }
func (n *nodeProxy) ShardID() uint64                                       { return 1 }
func (n *nodeProxy) ShouldStop() <-chan struct{}                           { return n.stop }

// ---- rsm.ISnapshotter over the in-memory fs, using the real snapshot writer/reader ----

var errNoSnapshot = errors.New("no snapshot available")

type snapshotter struct {
	fs       hk.IFS
	dir      string
	last     pb.Snapshot
	has      bool
	sessions []byte // the session bytes handed to the snapshot file by the last Save
	n        int
}

func (s *snapshotter) GetSnapshot() (pb.Snapshot, error) {
	if !s.has {
		return pb.Snapshot{}, errNoSnapshot
	}
	return s.last, nil
}
func (s *snapshotter) Stream(hk.IStreamable, hk.SSMeta, pb.IChunkSink) error {
	return errors.New("not used")
}
func (s *snapshotter) Shrunk(pb.Snapshot) (bool, error) { return false, nil }
func (s *snapshotter) IsNoSnapshotError(err error) bool { return errors.Is(err, errNoSnapshot) }

func (s *snapshotter) Save(savable hk.ISavable, meta hk.SSMeta) (ss pb.Snapshot, env hk.SSEnv, err error) {
	s.n++
	fp := s.fs.PathJoin(s.dir, fmt.Sprintf("snapshot-%d.gbsnap", s.n))
	w, err := hk.NewSnapshotWriter(fp, pb.NoCompression, s.fs)
	if err != nil {
		return pb.Snapshot{}, env, err
	}
	s.sessions = append([]byte(nil), meta.Session.Bytes()...)
	if _, err := savable.Save(meta, w, meta.Session.Bytes(), nil); err != nil {
		_ = w.Close()
		return pb.Snapshot{}, env, err
	}
	if err := w.Close(); err != nil {
		return pb.Snapshot{}, env, err
	}
	return pb.Snapshot{Filepath: fp, Membership: meta.Membership, Index: meta.Index, Term: meta.Term, Type: meta.Type}, env, nil
}

func (s *snapshotter) Load(ss pb.Snapshot, sessions hk.ILoadable, asm hk.IRecoverable) (err error) {
	reader, header, err := hk.NewSnapshotReader(ss.Filepath, s.fs)
	if err != nil {
		return err
	}
	defer func() {
		if cerr := reader.Close(); err == nil {
			err = cerr
		}
	}()
	if err := sessions.LoadSessions(reader, hk.SSVersion(header.Version)); err != nil {
		return err
	}
	return asm.Recover(reader, nil)
}

// ---- one replica's apply path ----

type replica struct {
	sm    *hk.StateMachine
	usm   *accSM
	node  *nodeProxy
	snap  *snapshotter
	fs    hk.IFS
	cap   uint64
	index uint64
	name  string
	conc  bool       // user state machine is an IConcurrentStateMachine
	nv    bool       // config.IsNonVoting
	rlog  []pb.Entry // every entry this replica has applied (its part of the raft log)
}

func mkStateMachine(conc, nonVoting bool, cap uint64, fs hk.IFS, snap *snapshotter) (*hk.StateMachine, *accSM, *nodeProxy) {
	hk.SetLRUMaxSessionCount(cap)
	// the replica kind: a non-voting replica (observer) applies the same log and must
	// end up with the same sessions, results and user state as a full member
	cfg := config.Config{ShardID: 1, ReplicaID: 1, IsNonVoting: nonVoting}
	usm := &accSM{}
	node := &nodeProxy{applied: map[uint64][]applyRec{}, stop: make(chan struct{})}
	var msm hk.IManagedStateMachine
	if diskKind {
		msm = hk.NewOnDiskSM(cfg, &diskAccSM{concAccSM{core: usm}}, make(chan struct{}))
		s := hk.NewStateMachine(msm, snap, cfg, node, fs)
		if _, err := s.OpenOnDiskStateMachine(); err != nil {
			panic(err)
		}
		return s, usm, node
	}
	if conc {
		msm = hk.NewConcurrentSM(cfg, &concAccSM{core: usm}, make(chan struct{}))
	} else {
		msm = hk.NewRegularSM(cfg, usm, make(chan struct{}))
	}
	return hk.NewStateMachine(msm, snap, cfg, node, fs), usm, node
}

func newReplica(conc, nonVoting bool, cap uint64, fs hk.IFS, name string) *replica {
	dir := "/c05-" + name
	must(fs.MkdirAll(dir, 0755))
	snap := &snapshotter{fs: fs, dir: dir}
	s, usm, node := mkStateMachine(conc, nonVoting, cap, fs, snap)
	r := &replica{sm: s, usm: usm, node: node, snap: snap, fs: fs, cap: cap, name: name, conc: conc, nv: nonVoting}
	// index 1: the config change that makes replica 1 a member (snapshots need a membership)
	cc := pb.ConfigChange{Type: pb.AddNode, ReplicaID: 1, Address: "a1"}
	r.feed([]pb.Entry{{Index: 1, Term: 1, Type: pb.ConfigChangeEntry, Cmd: pb.MustMarshal(&cc)}})
	r.index = 1
	return r
}

func (r *replica) feed(ents []pb.Entry) {
	r.sm.TaskQ().Add(hk.Task{Entries: ents})
	batch := make([]hk.Task, 0, 8)
	apply := make([]sm.Entry, 0, 8)
	if _, err := r.sm.Handle(batch, apply); err != nil {
		panic(err)
	}
	r.rlog = append(r.rlog, ents...)
}

type entryResult struct {
	panicked    bool
	panicMsg    string
	applyCalled bool
	value       uint64
	data        []byte
	rejected    bool
	ignored     bool
	updateCalls int
	nApply      int
}

func (e entryResult) String() string {
	if e.panicked {
		return "panic"
	}
	if !e.applyCalled {
		return fmt.Sprintf("none upd=%d", e.updateCalls)
	}
	s := fmt.Sprintf("A v=%d d=%s rej=%d ign=%d upd=%d", e.value, vh.Hex(e.data), boolInt(e.rejected), boolInt(e.ignored), e.updateCalls)
	if e.nApply != 1 {
		s += fmt.Sprintf(" applyupdate-calls=%d", e.nApply)
	}
	return s
}

// mkEntry: the log entry for an op; EN / ES carry the payload the way
// pendingProposal.propose encodes every non-empty command.
func mkEntry(idx uint64, o op) pb.Entry {
	e := pb.Entry{Index: idx, Term: 1, Type: pb.ApplicationEntry, Key: idx, ClientID: o.client, SeriesID: o.series, RespondedTo: o.responded, Cmd: o.cmd}
	if o.enc != 0 && len(o.cmd) > 0 {
		ct := config.NoCompression
		if o.enc == 'S' {
			ct = config.Snappy
		}
		e.Type = pb.EncodedEntry
		e.Cmd = hk.GetEncoded(ct, o.cmd)
	}
	return e
}

// applyBatch feeds several entries as ONE task and collects, per entry, what
// apply collects for a single one.
func (r *replica) applyBatch(os []op) (out []entryResult, perr string) {
	ents := make([]pb.Entry, len(os))
	for i, o := range os {
		ents[i] = mkEntry(r.index+1+uint64(i), o)
	}
	calls0 := len(r.usm.calls)
	perr = vh.Catch(func() { r.feed(ents) })
	if perr != "" {
		return nil, perr
	}
	r.index += uint64(len(os))
	out = make([]entryResult, len(os))
	for i, o := range os {
		idx := ents[i].Index
		res := &out[i]
		for _, c := range r.usm.calls[calls0:] {
			if c.Index == idx {
				res.updateCalls++
				if !bytes.Equal(c.Cmd, o.cmd) {
					res.panicked, res.panicMsg = true, fmt.Sprintf("user Update got cmd %x for entry %d whose payload is %x", c.Cmd, idx, o.cmd)
				}
			}
		}
		recs := r.node.applied[idx]
		delete(r.node.applied, idx)
		res.nApply = len(recs)
		if len(recs) > 0 {
			res.applyCalled = true
			res.value, res.data, res.rejected, res.ignored = recs[0].result.Value, recs[0].result.Data, recs[0].rejected, recs[0].ignored
		} else {
			res.nApply = 1
		}
	}
	for _, c := range r.usm.calls[calls0:] {
		if c.Index < ents[0].Index || c.Index > ents[len(ents)-1].Index {
			return nil, fmt.Sprintf("user Update called for index %d outside the batch", c.Index)
		}
	}
	return out, ""
}

func (r *replica) apply(o op) entryResult {
	idx := r.index + 1
	e := mkEntry(idx, o)
	calls0 := len(r.usm.calls)
	var res entryResult
	if p := vh.Catch(func() { r.feed([]pb.Entry{e}) }); p != "" {
		res.panicked = true
		res.panicMsg = p
		// the entry was not applied (handleEntry panics before any state change for the
		// one kind of entry that is expected to panic); the index is not consumed
		if r.sm.GetLastApplied() != r.index {
			res.panicMsg += fmt.Sprintf(" [applied index moved to %d]", r.sm.GetLastApplied())
			r.index = r.sm.GetLastApplied()
		}
		return res
	}
	r.index = idx
	res.updateCalls = len(r.usm.calls) - calls0
	for _, c := range r.usm.calls[calls0:] {
		if c.Index != idx || !bytes.Equal(c.Cmd, o.cmd) {
			res.panicked, res.panicMsg = true, fmt.Sprintf("user Update got index %d cmd %x for entry %d cmd %x", c.Index, c.Cmd, idx, o.cmd)
		}
	}
	recs := r.node.applied[idx]
	delete(r.node.applied, idx)
	res.nApply = len(recs)
	if len(recs) > 0 {
		res.applyCalled = true
		res.value, res.data, res.rejected, res.ignored = recs[0].result.Value, recs[0].result.Data, recs[0].rejected, recs[0].ignored
	} else {
		res.nApply = 1
	}
	return res
}

func (r *replica) dump() (uint64, []sessionView) { return hk.Dump(r.sm) }

// snapshotRestart: Save on this replica, then a fresh StateMachine with a fresh
// user state machine recovers from the snapshot file (what a restart does).
// Returns the session table as written into the snapshot (file order).
func (r *replica) snapshotRestart() (saved string, nr *replica, perr string) {
	perr = vh.Catch(func() {
		// a snapshot needs at least one entry since the previous one
		r.feed([]pb.Entry{{Index: r.index + 1, Term: 1, Type: pb.ApplicationEntry}})
		r.index++
		delete(r.node.applied, r.index)
		ss, _, err := r.sm.Save(hk.SSRequest{})
		if err != nil {
			panic(err)
		}
		r.snap.last, r.snap.has = ss, true
		cap, sessions := decodeSessions(r.snap.sessions)
		saved = showSessions(cap, sessions)
		s, usm, node := mkStateMachine(r.conc, r.nv, r.cap, r.fs, r.snap)
		got, err := s.Recover(hk.Task{Initial: true})
		if err != nil {
			panic(err)
		}
		if got.Index != r.index {
			panic(fmt.Sprintf("recovered snapshot index %d, want %d", got.Index, r.index))
		}
		nr = &replica{sm: s, usm: usm, node: node, snap: r.snap, fs: r.fs, cap: r.cap, index: r.index, name: r.name, conc: r.conc, nv: r.nv, rlog: r.rlog}
	})
	return
}

// decodeSessions parses what lrusession.save wrote: size, count, then per session
// an 8-byte length and the JSON of rsm.Session.
func decodeSessions(b []byte) (uint64, []sessionView) {
	rd := bytes.NewReader(b)
	u := func() uint64 {
		x := make([]byte, 8)
		if _, err := io.ReadFull(rd, x); err != nil {
			panic(err)
		}
		return binary.LittleEndian.Uint64(x)
	}
	size := u()
	total := u()
	out := make([]sessionView, 0)
	for i := uint64(0); i < total; i++ {
		data := make([]byte, u())
		if _, err := io.ReadFull(rd, data); err != nil {
			panic(err)
		}
		var s sessionView
		if err := json.Unmarshal(data, &s); err != nil {
			panic(err)
		}
		out = append(out, s)
	}
	if rd.Len() != 0 {
		panic("trailing bytes after the session table")
	}
	return size, out
}

// installFrom: another replica (built by applying the whole log `history` to a
// fresh StateMachine) saves a snapshot; this LIVE replica — whose session table
// is whatever it was when it stopped applying — recovers from it
// (StateMachine.Recover, not initial) and continues from the snapshot index.
// Returns the snapshot's session table in file order (saved), the same table
// most-recently-used first (want) and the user state in the image.
func (r *replica) installFrom(history []op, n int) (saved, want string, acc uint64, perr string) {
	perr = vh.Catch(func() {
		ld := newReplica(r.conc, false, r.cap, r.fs, fmt.Sprintf("%s-ld%d", r.name, n))
		for _, o := range history {
			ld.apply(o)
		}
		for ld.index < r.index { // the image must be ahead of the lagging replica
			ld.feed([]pb.Entry{{Index: ld.index + 1, Term: 1, Type: pb.ApplicationEntry}})
			ld.index++
			delete(ld.node.applied, ld.index)
		}
		ld.feed([]pb.Entry{{Index: ld.index + 1, Term: 1, Type: pb.ApplicationEntry}})
		ld.index++
		ss, _, err := ld.sm.Save(hk.SSRequest{})
		if err != nil {
			panic(err)
		}
		acc = ld.usm.acc
		cap, sessions := decodeSessions(ld.snap.sessions)
		saved = showSessions(cap, sessions)
		mru := make([]sessionView, len(sessions))
		for i := range sessions {
			mru[len(sessions)-1-i] = sessions[i]
		}
		want = showSessions(cap, mru)
		r.snap.last, r.snap.has = ss, true
		hk.SetLRUMaxSessionCount(r.cap)
		got, err := r.sm.Recover(hk.Task{Index: ss.Index})
		if err != nil {
			panic(err)
		}
		if got.Index != ss.Index {
			panic(fmt.Sprintf("recovered snapshot index %d, want %d", got.Index, ss.Index))
		}
		r.index = ss.Index
	})
	return
}

// ---- SAVE / RESTART: snapshots of a replica that keeps running ----

type pendingSave struct {
	k       int
	left    int       // entries still to be applied before the save completes
	meta    hk.SSMeta // concurrent two-step save in flight
	twoStep bool
	table   string // session table (most recently used first) at the snapshot index
	acc     uint64 // user state at the snapshot index
	line    string // observation, printed when the save completes
	failed  string
}

func mruString(b []byte) (fileOrder, mru string) {
	cap, sessions := decodeSessions(b)
	fileOrder = showSessions(cap, sessions)
	m := make([]sessionView, len(sessions))
	for i := range sessions {
		m[len(sessions)-1-i] = sessions[i]
	}
	return fileOrder, showSessions(cap, m)
}

// saveBegin starts a snapshot of the running replica. For a concurrent state
// machine and window > 0 only the first step of concurrentSave runs now
// (prepare, under s.mu); the caller applies `window` entries, then saveEnd.
func (r *replica) saveBegin(k, window int) *pendingSave {
	p := &pendingSave{k: k, left: window} // the observation is printed after `window` entries in every case
	p.failed = vh.Catch(func() {
		r.feed([]pb.Entry{{Index: r.index + 1, Term: 1, Type: pb.ApplicationEntry}})
		r.index++
		delete(r.node.applied, r.index)
		c, d := r.dump()
		p.table, p.acc = showSessions(c, d), r.usm.acc
		if r.conc && window > 0 {
			meta, err := hk.SaveStep1(r.sm, hk.SSRequest{})
			if err != nil {
				panic(err)
			}
			p.meta, p.twoStep, p.left = meta, true, window
			return
		}
		ss, _, err := r.sm.Save(hk.SSRequest{})
		if err != nil {
			panic(err)
		}
		r.snap.last, r.snap.has = ss, true
	})
	return p
}

// saveEnd completes the snapshot; returns the image's session table in file
// order and most-recently-used first.
func (r *replica) saveEnd(p *pendingSave) (fileOrder, mru string, perr string) {
	if p.failed != "" {
		return "", "", p.failed
	}
	perr = vh.Catch(func() {
		if p.twoStep {
			ss, _, err := hk.SaveStep2(r.sm, p.meta)
			if err != nil {
				panic(err)
			}
			r.snap.last, r.snap.has = ss, true
		}
		fileOrder, mru = mruString(r.snap.sessions)
	})
	return
}

// restart: a fresh StateMachine + fresh user state machine recovers from the
// most recent snapshot (if any) and replays the entries above its index.
func (r *replica) restart() (nr *replica, restored string, perr string) {
	perr = vh.Catch(func() {
		s, usm, node := mkStateMachine(r.conc, r.nv, r.cap, r.fs, r.snap)
		nr = &replica{sm: s, usm: usm, node: node, snap: r.snap, fs: r.fs, cap: r.cap, name: r.name, conc: r.conc, nv: r.nv}
		if r.snap.has {
			got, err := s.Recover(hk.Task{Initial: true})
			if err != nil {
				panic(err)
			}
			nr.index = got.Index
		}
		c, d := nr.dump()
		restored = fmt.Sprintf("%s sm=%d", showSessions(c, d), usm.acc)
		for _, e := range r.rlog {
			if e.Index > nr.index {
				nr.feed([]pb.Entry{e})
				nr.index = e.Index
			}
		}
		nr.rlog = r.rlog
		nr.node.applied = map[uint64][]applyRec{}
		if nr.index != r.index {
			panic(fmt.Sprintf("replayed up to index %d, the replica had applied %d", nr.index, r.index))
		}
	})
	return
}

// ---- non-log lookups ----

// sessionAccessors lists, by reflection on the real *rsm.StateMachine, every
// exported method that concerns client sessions and can be called from outside
// the apply path with no argument or a client id (today: GetSessionHash). A new
// accessor is picked up automatically.
func sessionAccessors(s *hk.StateMachine) []string {
	var out []string
	t := reflect.TypeOf(s)
	for i := 0; i < t.NumMethod(); i++ {
		m := t.Method(i)
		n := strings.ToLower(m.Name)
		if strings.HasPrefix(m.Name, "Verif") {
			continue
		}
		if !(strings.Contains(n, "session") || strings.Contains(n, "client") || strings.Contains(n, "regist") || strings.Contains(n, "series")) {
			continue
		}
		ok := m.Type.NumIn() == 1
		if m.Type.NumIn() == 2 && m.Type.In(1).Kind() == reflect.Uint64 {
			ok = true
		}
		if ok {
			out = append(out, m.Name)
		}
	}
	sort.Strings(out)
	return out
}

// nonLogLookup calls all of them (a client API call that never reaches the log).
func (r *replica) nonLogLookup(client uint64) (names []string, perr string) {
	names = sessionAccessors(r.sm)
	perr = vh.Catch(func() {
		v := reflect.ValueOf(r.sm)
		for _, n := range names {
			m := v.MethodByName(n)
			if m.Type().NumIn() == 0 {
				m.Call(nil)
			} else {
				m.Call([]reflect.Value{reflect.ValueOf(client).Convert(m.Type().In(0))})
			}
		}
	})
	return
}

// installOld: the live replica is handed a snapshot that is OLDER than what it has
// applied (its own previous image). StateMachine.Recover must refuse it.
func (r *replica) installOld() (refused bool, perr string) {
	perr = vh.Catch(func() {
		r.feed([]pb.Entry{{Index: r.index + 1, Term: 1, Type: pb.ApplicationEntry}})
		r.index++
		delete(r.node.applied, r.index)
		_, err := r.sm.Recover(hk.Task{Index: r.snap.last.Index})
		refused = err != nil
	})
	return
}

func (r *replica) muFree() bool { return hk.MuFree(r.sm) }
