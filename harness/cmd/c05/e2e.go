package main

// End-to-end cases: real NodeHosts (1 or 3, in-process transport, in-memory file
// systems) with the session API of the library: NewSession / ProposeSession
// (register, unregister), Propose with a registered client.Session, retries with
// the same series id, ProposalCompleted, snapshots (the real snapshotter: Save,
// and on restart Load -> LoadSessions), host restarts, leader transfers, more
// sessions than rsm.LRUMaxSessionCount (an evicted session is Rejected through
// the API), and the guard that keeps registered sessions away from on-disk state
// machines.
//
// case: "<id> e2e n=<1|3> cap=<c> kind=<reg|conc> comp=<0|1> | op ; op ; ..."
//
//	REG s        register a new session under the name s (client id 1000, 1001, ... in order of REG ops)
//	P s hex      propose hex with session s (its current series id); the session is NOT completed
//	DONE s       client.Session.ProposalCompleted
//	STALE s hex  a late duplicate: series id = the last acknowledged one
//	CLOSE s      unregister session s
//	READ         linearizable read of the user state on the current host
//	HOST h       the client now talks to host h
//	SNAPSHOT h   host h takes a snapshot
//	RESTARTHOST h  host h is closed and started again (recover from its snapshot, replay its log)
//	XFER h       leadership is transferred to host h
//	GUARD        registered sessions are refused on an on-disk state machine (panics), NoOP sessions work

import (
	"context"
	"errors"
	"fmt"
	"strconv"
	"strings"
	"sync"
	"time"

	dragonboat "github.com/lni/dragonboat/v4"
	"github.com/lni/dragonboat/v4/client"
	"github.com/lni/dragonboat/v4/config"
	"github.com/lni/dragonboat/v4/raftio"
	pb "github.com/lni/dragonboat/v4/raftpb"
	sm "github.com/lni/dragonboat/v4/statemachine"
	hk "github.com/lni/dragonboat/v4/verifhooks/c05"

	"verif/harness/vh"
)

// ---- reliable in-process transport ----

type memEP struct {
	mu     sync.RWMutex
	closed bool
	h      raftio.MessageHandler
	ch     raftio.ChunkHandler
}

type memNet struct {
	mu  sync.RWMutex
	eps map[string]*memEP
}

func (n *memNet) get(addr string) *memEP {
	n.mu.RLock()
	defer n.mu.RUnlock()
	return n.eps[addr]
}

type memFactory struct{ net *memNet }

func (f *memFactory) Create(c config.NodeHostConfig, h raftio.MessageHandler, ch raftio.ChunkHandler) raftio.ITransport {
	return &memTransport{net: f.net, addr: c.RaftAddress, ep: &memEP{h: h, ch: ch}}
}
func (f *memFactory) Validate(string) bool { return true }

type memTransport struct {
	net  *memNet
	addr string
	ep   *memEP
}

var errNoPeer = errors.New("c05 e2e: peer not running")

func (t *memTransport) Name() string { return "c05-inproc" }
func (t *memTransport) Start() error {
	t.net.mu.Lock()
	t.net.eps[t.addr] = t.ep
	t.net.mu.Unlock()
	return nil
}
func (t *memTransport) Close() error {
	t.net.mu.Lock()
	if t.net.eps[t.addr] == t.ep {
		delete(t.net.eps, t.addr)
	}
	t.net.mu.Unlock()
	t.ep.mu.Lock()
	t.ep.closed = true
	t.ep.mu.Unlock()
	return nil
}
func (t *memTransport) GetConnection(_ context.Context, target string) (raftio.IConnection, error) {
	if t.net.get(target) == nil {
		return nil, errNoPeer
	}
	return &memConn{t: t, target: target}, nil
}
func (t *memTransport) GetSnapshotConnection(_ context.Context, target string) (raftio.ISnapshotConnection, error) {
	if t.net.get(target) == nil {
		return nil, errNoPeer
	}
	return &memConn{t: t, target: target}, nil
}

type memConn struct {
	t      *memTransport
	target string
}

func (c *memConn) Close() {}
func (c *memConn) SendMessageBatch(b pb.MessageBatch) error {
	ep := c.t.net.get(c.target)
	if ep == nil {
		return errNoPeer
	}
	var cp pb.MessageBatch
	pb.MustUnmarshal(&cp, pb.MustMarshal(&b)) // the sender reuses the batch
	ep.mu.RLock()
	defer ep.mu.RUnlock()
	if ep.closed {
		return errNoPeer
	}
	ep.h(cp)
	return nil
}
func (c *memConn) SendChunk(ch pb.Chunk) error {
	ep := c.t.net.get(c.target)
	if ep == nil {
		return errNoPeer
	}
	var cp pb.Chunk
	pb.MustUnmarshal(&cp, pb.MustMarshal(&ch))
	ep.mu.RLock()
	defer ep.mu.RUnlock()
	if ep.closed || !ep.ch(cp) {
		return errNoPeer
	}
	return nil
}

// ---- the cluster ----

const e2eShard, e2eDiskShard = uint64(1), uint64(2)

type e2eCluster struct {
	id      string
	n       int
	conc    bool
	snappy  bool
	net     *memNet
	nhcs    []config.NodeHostConfig
	hosts   []*dragonboat.NodeHost
	members map[uint64]dragonboat.Target
}

type idSource struct{ next uint64 }

func (s *idSource) Uint64() uint64 { v := s.next; s.next++; return v }
func (s *idSource) Int() int       { return int(s.Uint64()) }

func (c *e2eCluster) raftConfig(i int) config.Config {
	rc := config.Config{ReplicaID: uint64(i + 1), ShardID: e2eShard, ElectionRTT: 10, HeartbeatRTT: 1,
		SnapshotEntries: 0, CompactionOverhead: 3}
	if c.snappy {
		rc.EntryCompressionType = config.Snappy
		rc.SnapshotCompressionType = config.Snappy
	}
	return rc
}

func (c *e2eCluster) startHost(i int) error {
	nh, err := dragonboat.NewNodeHost(c.nhcs[i])
	if err != nil {
		return err
	}
	c.hosts[i] = nh
	if c.conc {
		return nh.StartConcurrentReplica(c.members, false, func(uint64, uint64) sm.IConcurrentStateMachine {
			return &concAccSM{core: &accSM{}}
		}, c.raftConfig(i))
	}
	return nh.StartReplica(c.members, false, func(uint64, uint64) sm.IStateMachine { return &accSM{} }, c.raftConfig(i))
}

func newE2ECluster(id string, n int, conc, snappy bool) (*e2eCluster, error) {
	c := &e2eCluster{id: id, n: n, conc: conc, snappy: snappy, net: &memNet{eps: map[string]*memEP{}},
		hosts: make([]*dragonboat.NodeHost, n), members: map[uint64]dragonboat.Target{}}
	for i := 0; i < n; i++ {
		addr := fmt.Sprintf("c05-%s-n%d:1", id, i+1)
		c.members[uint64(i+1)] = addr
		ex := config.GetDefaultExpertConfig()
		ex.FS = hk.NewMemFS()
		ex.TransportFactory = &memFactory{net: c.net}
		ex.Engine = config.EngineConfig{ExecShards: 2, CommitShards: 2, ApplyShards: 2, SnapshotShards: 2, CloseShards: 2}
		ex.LogDB.Shards = 2
		c.nhcs = append(c.nhcs, config.NodeHostConfig{NodeHostDir: fmt.Sprintf("/c05e/%s/n%d", id, i+1),
			RTTMillisecond: 5, RaftAddress: addr, Expert: ex})
	}
	for i := 0; i < n; i++ {
		if err := c.startHost(i); err != nil {
			return c, err
		}
	}
	return c, c.waitLeader(10 * time.Second)
}

func (c *e2eCluster) waitLeader(d time.Duration) error {
	deadline := time.Now().Add(d)
	for time.Now().Before(deadline) {
		for _, nh := range c.hosts {
			if nh == nil {
				continue
			}
			if _, _, ok, _ := nh.GetLeaderID(e2eShard); ok {
				return nil
			}
		}
		time.Sleep(5 * time.Millisecond)
	}
	return errors.New("no leader")
}

func (c *e2eCluster) close() {
	for i, nh := range c.hosts {
		if nh != nil {
			nh.Close()
			c.hosts[i] = nil
		}
	}
}

// submit runs one request until it has a definite outcome: "ok" (with the result),
// "rejected", or "timeout" after all attempts. A retry re-submits the SAME session
// state, which is what the API prescribes after a timeout.
// e2eUncertain: set by e2eSubmit when an earlier attempt of the request was
// submitted and ended without a definite result (timeout, terminated, aborted), so
// that a copy of it may be in the log. Dropped attempts never reach the log.
var e2eUncertain bool

func e2eSubmit(attempts int, timeout time.Duration, f func(time.Duration) (*dragonboat.RequestState, error)) (string, sm.Result, int) {
	tries := 0
	e2eUncertain = false
	notReady := time.Now().Add(20 * time.Second) // a host that just restarted refuses requests for a while
	for a := 0; a < attempts; {
		rs, err := f(timeout)
		if errors.Is(err, dragonboat.ErrInvalidSession) || errors.Is(err, dragonboat.ErrPayloadTooBig) {
			return "invalid", sm.Result{}, tries
		}
		if err != nil {
			// not submitted at all (shard not ready, system busy): nothing reached the log
			if time.Now().After(notReady) {
				break
			}
			time.Sleep(20 * time.Millisecond)
			continue
		}
		a++
		tries++
		r := <-rs.ResultC()
		switch {
		case r.Completed():
			res := r.GetResult()
			rs.Release()
			return "ok", res, tries
		case r.Rejected():
			rs.Release()
			return "rejected", sm.Result{}, tries
		case r.Dropped():
			// refused by raft before it was appended (no leader yet): not an attempt
			a--
			if time.Now().After(notReady) {
				return "timeout", sm.Result{}, tries
			}
			time.Sleep(20 * time.Millisecond)
		default: // timeout, terminated, aborted: try again with the same ids
			e2eUncertain = true
			time.Sleep(10 * time.Millisecond)
		}
	}
	return "timeout", sm.Result{}, tries
}

// e2eRead: linearizable read with patience for restarts / elections
func e2eRead(nh *dragonboat.NodeHost) (uint64, error) {
	var err error
	deadline := time.Now().Add(20 * time.Second)
	for time.Now().Before(deadline) {
		ctx, cancel := context.WithTimeout(context.Background(), 3*time.Second)
		var v interface{}
		v, err = nh.SyncRead(ctx, e2eShard, nil)
		cancel()
		if err == nil {
			return v.(uint64), nil
		}
		time.Sleep(20 * time.Millisecond)
	}
	return 0, err
}

type e2eSession struct {
	cs     *client.Session
	closed bool
	// monitor: the first completed result per series id of this session
	results map[uint64]string
	// monitor: the largest RespondedTo carried by a proposal of this session that completed
	ackDelivered uint64
}

func runE2ECase(line string, obs *vh.LineWriter, st *vh.Stats) {
	head, body := line, ""
	if i := strings.Index(line, " | "); i >= 0 {
		head, body = line[:i], line[i+3:]
	}
	hf := strings.Fields(head)
	id := hf[0]
	n, cap, conc, snappy := 1, uint64(4), false, false
	for _, h := range hf[2:] {
		kv := strings.SplitN(h, "=", 2)
		if len(kv) != 2 {
			continue
		}
		switch kv[0] {
		case "n":
			n, _ = strconv.Atoi(kv[1])
		case "cap":
			cap, _ = strconv.ParseUint(kv[1], 10, 64)
		case "kind":
			conc = kv[1] == "conc"
		case "comp":
			snappy = kv[1] == "1"
		}
	}
	if n != 3 {
		n = 1
	}
	if cap == 0 {
		cap = 1
	}
	viol := func(format string, a ...interface{}) { st.Violation(id, fmt.Sprintf(format, a...)) }
	hk.SetLRUMaxSessionCount(cap)
	defer hk.SetLRUMaxSessionCount(defaultCap)
	c, err := newE2ECluster(id, n, conc, snappy)
	defer c.close()
	if err != nil {
		obs.Printf("%s E2EFAIL\n", id)
		viol("e2e: the cluster did not start: %v", err)
		return
	}
	ids := &idSource{next: 1000}
	sessions := map[string]*e2eSession{}
	cur := 0
	expected := uint64(0) // monitor: the accumulator if every completed proposal was applied exactly once, in order
	retried, rejectedSeen, timeouts, restarts := 0, 0, 0, 0
	host := func() *dragonboat.NodeHost { return c.hosts[cur] }
	ops := strings.Split(body, " ; ")
	k := -1
	for _, t := range ops {
		f := strings.Fields(t)
		if len(f) == 0 {
			continue
		}
		k++
		st.Count("e2e.op." + f[0])
		arg := func(i int) string {
			if len(f) > i {
				return f[i]
			}
			return ""
		}
		hostArg := func() int {
			h, _ := strconv.Atoi(arg(1))
			if h < 0 || h >= n {
				h = 0
			}
			return h
		}
		switch f[0] {
		case "REG":
			cs := client.NewSession(e2eShard, ids)
			cs.PrepareForRegister()
			out, _, tries := e2eSubmit(5, 3*time.Second, func(d time.Duration) (*dragonboat.RequestState, error) {
				return host().ProposeSession(cs, d)
			})
			if out == "rejected" && e2eUncertain {
				out = "ok" // the id is fresh: only the earlier, timed-out copy can have registered it
			}
			_ = tries
			if out == "ok" {
				cs.PrepareForPropose()
				sessions[arg(1)] = &e2eSession{cs: cs, results: map[uint64]string{}}
				obs.Printf("%s %d REG ok\n", id, k)
			} else {
				obs.Printf("%s %d REG fail\n", id, k)
				if out == "timeout" {
					timeouts++
				}
			}
		case "P", "STALE":
			s := sessions[arg(1)]
			cmd := vh.UnHex(arg(2))
			if s == nil || s.closed || len(cmd) == 0 {
				obs.Printf("%s %d %s invalid\n", id, k, f[0])
				continue
			}
			cs := s.cs
			attempts, d := 4, 3*time.Second
			if f[0] == "STALE" {
				if cs.RespondedTo == 0 {
					obs.Printf("%s %d STALE none\n", id, k)
					continue
				}
				cs = &client.Session{ShardID: e2eShard, ClientID: cs.ClientID, SeriesID: cs.RespondedTo, RespondedTo: cs.RespondedTo - 1}
				attempts, d = 2, 250*time.Millisecond
			}
			series := cs.SeriesID
			out, res, tries := e2eSubmit(attempts, d, func(d time.Duration) (*dragonboat.RequestState, error) {
				return host().Propose(cs, cmd, d)
			})
			if tries > 1 {
				retried++
			}
			switch out {
			case "ok":
				rs := fmt.Sprintf("%d %s", res.Value, vh.Hex(res.Data))
				obs.Printf("%s %d %s ok %s\n", id, k, f[0], rs)
				if f[0] == "STALE" && series <= s.ackDelivered {
					viol("e2e acknowledged duplicate: session %s series %d was acknowledged (a later proposal carrying RespondedTo %d completed) but its late duplicate completed with %s", arg(1), series, s.ackDelivered, rs)
				}
				if f[0] == "P" && cs.RespondedTo > s.ackDelivered {
					s.ackDelivered = cs.RespondedTo
				}
				if first, seen := s.results[series]; seen {
					if first != rs {
						viol("e2e retry result: session %s series %d completed with %s, its first completion returned %s", arg(1), series, rs, first)
					}
				} else {
					s.results[series] = rs
					// the first completion of a series id: exactly one more application
					expected = expected*31 + accHash(cmd)
					if want := resultOf(expected, cmd); want != rs {
						viol("e2e at-most-once: session %s series %d returned %s; with every completed proposal applied exactly once the state machine would have returned %s", arg(1), series, rs, want)
					}
				}
			case "rejected":
				rejectedSeen++
				obs.Printf("%s %d %s rejected\n", id, k, f[0])
			case "invalid":
				obs.Printf("%s %d %s refused-by-api\n", id, k, f[0])
			default:
				timeouts++
				obs.Printf("%s %d %s timeout\n", id, k, f[0])
			}
		case "DONE":
			s := sessions[arg(1)]
			if s == nil || s.closed {
				obs.Printf("%s %d DONE invalid\n", id, k)
				continue
			}
			if p := vh.Catch(s.cs.ProposalCompleted); p != "" {
				obs.Printf("%s %d DONE panic\n", id, k)
			} else {
				obs.Printf("%s %d DONE ok\n", id, k)
			}
		case "CLOSE":
			s := sessions[arg(1)]
			if s == nil || s.closed {
				obs.Printf("%s %d CLOSE invalid\n", id, k)
				continue
			}
			s.closed = true
			// was the session registered when the request was made? (decides what a Rejected
			// answer to a RESUBMITTED unregistration means)
			present := false
			if _, err := e2eRead(host()); err == nil {
				_, tbl, _ := dragonboat.VerifC05SessionDump(host(), e2eShard)
				present = findView(tbl, s.cs.ClientID)
			}
			s.cs.PrepareForUnregister()
			out, _, _ := e2eSubmit(5, 3*time.Second, func(d time.Duration) (*dragonboat.RequestState, error) {
				return host().ProposeSession(s.cs, d)
			})
			if out == "rejected" && e2eUncertain && present {
				out = "ok" // the earlier copy, whose answer was lost, had removed it
			}
			obs.Printf("%s %d CLOSE %s\n", id, k, out)
		case "READ":
			v, err := e2eRead(host())
			if err != nil {
				obs.Printf("%s %d READ fail\n", id, k)
				viol("e2e: linearizable read failed: %v", err)
				continue
			}
			tcap, table, _ := dragonboat.VerifC05SessionDump(host(), e2eShard)
			obs.Printf("%s %d READ %d T %s\n", id, k, v, showSessions(tcap, table))
			// acknowledged responses are released on the replica: nothing at or below the
			// acknowledgement a completed proposal delivered stays cached
			for name, es := range sessions {
				if es.closed {
					continue
				}
				for _, sv := range table {
					if sv.ClientID != es.cs.ClientID {
						continue
					}
					kept := 0
					for key := range sv.History {
						if key <= es.ackDelivered {
							kept++
						}
					}
					if sv.RespondedUpTo < es.ackDelivered || kept > 0 {
						viol("e2e acknowledgement: session %s delivered RespondedTo %d with a completed proposal, host %d still has RespondedUpTo %d and %d cached response(s) at or below it", name, es.ackDelivered, cur, sv.RespondedUpTo, kept)
					}
				}
			}
			if v != expected {
				viol("e2e at-most-once: the user state on host %d is %d; with every completed proposal applied exactly once it would be %d", cur, v, expected)
			}
		case "HOST":
			cur = hostArg()
			obs.Printf("%s %d HOST ok\n", id, k)
		case "SNAPSHOT":
			h := hostArg()
			ctx, cancel := context.WithTimeout(context.Background(), 5*time.Second)
			_, err := c.hosts[h].SyncRequestSnapshot(ctx, e2eShard, dragonboat.DefaultSnapshotOption)
			cancel()
			if err == nil {
				st.Count("e2e.snapshot.taken")
			}
			obs.Printf("%s %d SNAPSHOT ok\n", id, k)
		case "RESTARTHOST":
			h := hostArg()
			restarts++
			c.hosts[h].Close()
			c.hosts[h] = nil
			if err := c.startHost(h); err != nil {
				obs.Printf("%s %d RESTARTHOST fail\n", id, k)
				viol("e2e: host %d did not restart: %v", h, err)
				return
			}
			if err := c.waitLeader(10 * time.Second); err != nil {
				viol("e2e: no leader after restarting host %d", h)
			}
			obs.Printf("%s %d RESTARTHOST ok\n", id, k)
		case "XFER":
			h := hostArg()
			_ = c.hosts[cur].RequestLeaderTransfer(e2eShard, uint64(h+1))
			deadline := time.Now().Add(2 * time.Second)
			for time.Now().Before(deadline) {
				if l, _, ok, _ := c.hosts[h].GetLeaderID(e2eShard); ok && l == uint64(h+1) {
					st.Count("e2e.leader.transferred")
					break
				}
				time.Sleep(5 * time.Millisecond)
			}
			obs.Printf("%s %d XFER ok\n", id, k)
		case "GUARD":
			obs.Printf("%s %d GUARD %s\n", id, k, e2eGuard(c.hosts[0], c.members[1]))
		default:
			obs.Printf("%s %d ? %s\n", id, k, f[0])
		}
	}
	// every host ends with the same user state
	for h := range c.hosts {
		if v, err := e2eRead(c.hosts[h]); err == nil && v != expected {
			viol("e2e replicas: host %d ends with user state %d, expected %d", h, v, expected)
		}
	}
	obs.Printf("%s end %d\n", id, expected)
	st.Count(fmt.Sprintf("e2e.case.n=%d", n))
	st.Count(fmt.Sprintf("e2e.case.resubmitted<=%d", bucket(retried)))
	st.Count(fmt.Sprintf("e2e.case.rejected<=%d", bucket(rejectedSeen)))
	st.Count(fmt.Sprintf("e2e.case.timeouts<=%d", bucket(timeouts)))
	st.Count(fmt.Sprintf("e2e.case.host_restarts<=%d", bucket(restarts)))
	st.Case(line[len(id):], rejectedSeen > 0 && restarts > 0, "")
}

// resultOf: what acc_update returns for cmd when the new accumulator is acc
func resultOf(acc uint64, cmd []byte) string {
	d := cmd
	if len(d) > 2 {
		d = d[:2]
	}
	switch cmd[0] {
	case 0xE0, 0xE1:
		return "0 -"
	case 0xE2:
		return fmt.Sprintf("%d -", acc)
	case 0xE3:
		return fmt.Sprintf("0 %s", vh.Hex(d))
	}
	return fmt.Sprintf("%d %s", acc, vh.Hex(d))
}

// e2eGuard: an on-disk shard refuses registered sessions (NodeHost.ProposeSession
// and NodeHost.propose panic) and accepts NoOP sessions.
func e2eGuard(nh *dragonboat.NodeHost, addr dragonboat.Target) string {
	rc := config.Config{ReplicaID: 1, ShardID: e2eDiskShard, ElectionRTT: 10, HeartbeatRTT: 1}
	err := nh.StartOnDiskReplica(map[uint64]dragonboat.Target{1: addr}, false, func(uint64, uint64) sm.IOnDiskStateMachine {
		return &diskAccSM{concAccSM{core: &accSM{}}}
	}, rc)
	if err != nil {
		return "start-failed"
	}
	deadline := time.Now().Add(10 * time.Second)
	for time.Now().Before(deadline) {
		if _, _, ok, _ := nh.GetLeaderID(e2eDiskShard); ok {
			break
		}
		time.Sleep(5 * time.Millisecond)
	}
	get, prop, noop := "returned", "returned", "fail"
	if p := vh.Catch(func() {
		ctx, cancel := context.WithTimeout(context.Background(), time.Second)
		defer cancel()
		_, _ = nh.SyncGetSession(ctx, e2eDiskShard)
	}); p != "" {
		get = "panic"
	}
	if p := vh.Catch(func() {
		cs := &client.Session{ShardID: e2eDiskShard, ClientID: 77, SeriesID: client.SeriesIDFirstProposal}
		if rs, err := nh.Propose(cs, []byte{1}, time.Second); err == nil {
			<-rs.ResultC()
		}
	}); p != "" {
		prop = "panic"
	}
	out, _, _ := e2eSubmit(5, 3*time.Second, func(d time.Duration) (*dragonboat.RequestState, error) {
		return nh.Propose(nh.GetNoOPSession(e2eDiskShard), []byte{1}, d)
	})
	if out == "ok" {
		noop = "ok"
	}
	return fmt.Sprintf("getsession=%s propose=%s noop=%s", get, prop, noop)
}
