package main

import (
	"fmt"
	"strings"

	"verif/harness/vh"
)

type gprop struct{ cid, sid, key uint64 }
type gctx struct{ lo, hi uint64 }

var timeouts = []uint64{1, 1, 2, 2, 3, 5, 5, 100, 1 << 32}

func genTimeout(r *vh.Rand) uint64 {
	switch x := r.Intn(100); {
	case x < 5:
		return 0
	case x < 8:
		return 1<<64 - 1
	}
	return timeouts[r.Intn(len(timeouts))]
}

// genCase draws one interleaving of the actors. Keys, ctx ids and close
// operations are unique within a case, so every sub-sequence (the shrinker
// removes operations) still respects the assumptions of the environment.
func genCase(r *vh.Rand, thorough bool) string {
	ps := uint64(1 + r.Intn(3))
	nc := r.Intn(2)
	sz := []int{1, 2, 8, 8}
	head := fmt.Sprintf("ps=%d nc=%d pq=%d rq=%d", ps, nc, sz[r.Intn(4)], sz[r.Intn(4)])
	nops := 6 + r.Intn(40)
	if thorough && r.Chance(1, 3) {
		nops = 40 + r.Intn(100)
	}
	var ops []string
	var props []gprop
	var ccs, sss []uint64
	var ctxs []gctx
	committed := map[uint64]bool{}
	tick := uint64(0)
	nreq := 0
	nkey := uint64(1000 + r.Intn(3))
	nctx := uint64(100)
	lqPending := false
	var closeOps []string
	closeAt := -1
	wholeNode := false
	handOpen := false // a TR without its AR yet
	lastReady := uint64(0)
	// applied values on both sides of the last confirmed read index (the "index <= applied" boundary)
	applied := func(alt []uint64) uint64 {
		if lastReady > 0 && r.Chance(1, 2) {
			return lastReady - 1 + uint64(r.Intn(3))
		}
		return alt[r.Intn(len(alt))]
	}
	readyIdx := func() uint64 {
		v := []uint64{0, 1, 5, 5, 10, 2, 6}[r.Intn(7)]
		if v > 0 {
			lastReady = v
		}
		return v
	}
	if r.Chance(2, 5) {
		closeAt = r.Intn(nops)
		wholeNode = r.Chance(1, 3)
		closeOps = append(closeOps, "XR")
		for k := uint64(0); k < ps; k++ {
			if r.Chance(1, 3) {
				// the shard is closed while a propose to it is under way
				key := 900000 + k
				for key%ps != k {
					key++
				}
				closeOps = append(closeOps, fmt.Sprintf("XQ %d %d %d %d %d", 1+r.Intn(3), 1+r.Intn(2), key, []uint64{1, 3, 100}[r.Intn(3)], r.Intn(4)))
			} else {
				closeOps = append(closeOps, fmt.Sprintf("XP %d", k))
			}
		}
		closeOps = append(closeOps, "XC", "XS", "XL")
		if wholeNode {
			closeOps = []string{"XN"} // the real node.close()
		}
	}
	emit := func(f string, a ...interface{}) { ops = append(ops, fmt.Sprintf(f, a...)) }
	pickProp := func() (gprop, bool) {
		if len(props) == 0 {
			return gprop{1, 1, 999}, false
		}
		// recent proposals are the ones most likely still pending
		i := len(props) - 1 - r.Intn(min(len(props), 4))
		return props[i], true
	}
	aim := func(p gprop) gprop {
		switch x := r.Intn(20); {
		case x == 0:
			p.sid++
		case x == 1:
			p.cid++
		case x == 2:
			p.key += 7777
		}
		return p
	}
	for len(ops) < nops || len(closeOps) > 0 {
		if closeAt >= 0 && len(ops) >= closeAt && len(closeOps) > 0 && r.Chance(3, 5) {
			ops = append(ops, closeOps[0])
			closeOps = closeOps[1:]
			continue
		}
		if len(ops) >= nops+20 {
			ops = append(ops, closeOps...)
			break
		}
		switch x := r.Intn(176); {
		case x < 16:
			nkey += uint64(1 + r.Intn(2))
			p := gprop{uint64(1 + r.Intn(3)), uint64(1 + r.Intn(2)), nkey}
			to := genTimeout(r)
			emit("P %d %d %d %d %d", p.cid, p.sid, p.key, to, r.Intn(4))
			if to != 0 {
				props = append(props, p)
				nreq++
			}
		case x < 28:
			to := genTimeout(r)
			emit("R %d %d", to, r.Intn(4))
			if to != 0 {
				nreq++
			}
		case x < 32:
			nkey++
			emit("C %d %d", nkey, genTimeout(r))
			ccs = append(ccs, nkey)
			nreq++
		case x < 36:
			nkey++
			emit("S %d %d", nkey, genTimeout(r))
			sss = append(sss, nkey)
			nreq++
		case x < 39:
			emit("Q")
			lqPending = true
			nreq++
		case x < 48:
			emit("D %d", r.Intn(nreq+1))
		case x < 57:
			emit("L %d", r.Intn(nreq+1))
		case x < 59:
			emit("TP %d", r.Intn(2))
		case x < 66:
			emit("TR")
			handOpen = true
			if r.Chance(4, 5) {
				handOpen = false
				nctx++
				hi := tick + 30
				if r.Chance(1, 5) {
					hi = tick + uint64(r.Intn(3))
				}
				ctxs = append(ctxs, gctx{nctx, hi})
				emit("AR %d %d", nctx, hi)
			}
		case x < 70:
			handOpen = false
			if len(ctxs) > 0 && r.Chance(1, 30) {
				c := ctxs[r.Intn(len(ctxs))]
				emit("AR %d %d", c.lo, c.hi) // same ctx again: the code panics if requests are in hand
			} else {
				nctx++
				ctxs = append(ctxs, gctx{nctx, tick + 30})
				emit("AR %d %d", nctx, tick+30)
			}
		case x < 76:
			if len(ctxs) > 0 {
				c := ctxs[len(ctxs)-1-r.Intn(min(len(ctxs), 3))]
				emit("RY %d %d %d", c.lo, c.hi, readyIdx())
			}
		case x < 82:
			emit("RA %d", applied([]uint64{0, 1, 5, 7, 10, 100}))
		case x < 84:
			if len(ctxs) > 0 {
				c := ctxs[len(ctxs)-1-r.Intn(min(len(ctxs), 3))]
				emit("RD %d %d", c.lo, c.hi)
			}
		case x < 96:
			switch y := r.Intn(40); {
			case y == 0 && tick > 3:
				tick -= uint64(1 + r.Intn(3))
			case y == 1:
				tick += 1 << 40
			case y < 5:
				tick += uint64(10 + r.Intn(200))
			case y < 10:
			default:
				tick += uint64(1 + r.Intn(3))
			}
			emit("T %d", tick)
		case x < 101:
			emit("GP %d", r.Intn(int(ps)))
		case x < 104:
			emit("GC")
		case x < 107:
			emit("GS")
		case x < 110:
			p, _ := pickProp()
			p = aim(p)
			emit("DP %d %d %d", p.cid, p.sid, p.key)
		case x < 111:
			if len(ccs) > 0 {
				emit("DC %d", ccs[len(ccs)-1])
			}
		case x < 113:
			emit("TC")
		case x < 115:
			emit("TS")
		case x < 117:
			if lqPending || r.Chance(1, 20) {
				emit("QR %d %d %d", r.Intn(2), 1+r.Intn(5), 6+r.Intn(5))
				lqPending = false
			}
		case x < 128:
			p, _ := pickProp()
			p = aim(p)
			rej := 0
			if r.Chance(1, 8) {
				rej = 1
			}
			emit("AP %d %d %d %d %d", p.cid, p.sid, p.key, r.Intn(1000), rej)
		case x < 131:
			if len(ccs) > 0 {
				k := ccs[len(ccs)-1-r.Intn(min(len(ccs), 2))]
				emit("CA %d %d", k, r.Intn(2))
			}
		case x < 134:
			if len(sss) > 0 {
				k := sss[len(sss)-1-r.Intn(min(len(sss), 2))]
				ign, abo := 0, 0
				switch y := r.Intn(40); {
				case y == 0:
					ign, abo = 1, 1
				case y < 8:
					ign = 1
				case y < 14:
					abo = 1
				}
				emit("SA %d %d %d %d", k, ign, abo, 1+r.Intn(50))
			}
		case x < 139:
			// without NotifyCommit the code panics inside RequestState.committed(): the harness looks at the
			// shard lock from there
			if p, ok := pickProp(); ok && !committed[p.key] && (nc == 1 || r.Chance(1, 5)) {
				committed[p.key] = true
				emit("CP %d %d %d", p.cid, p.sid, p.key)
			}
		case x < 141:
			if len(ccs) > 0 {
				k := ccs[len(ccs)-1]
				if !committed[k] && (nc == 1 || r.Chance(1, 5)) {
					committed[k] = true
					emit("CC %d", k)
				}
			}
		case x < 143:
			// one batch whose requests have different timeouts (long ones first, a short one
			// later), confirmation outstanding beyond the gc horizon (ctx.High = tick+30), gc runs
			// while the long ones are still waiting; then late confirmation / deadline / close
			long := []uint64{100, 100, 1 << 32}[r.Intn(3)]
			for k := 0; k < 1+r.Intn(2); k++ {
				emit("R %d %d", long, r.Intn(4))
				nreq++
			}
			for k := 0; k < 1+r.Intn(2); k++ {
				emit("R %d %d", []uint64{1, 2, 3, 5}[r.Intn(4)], r.Intn(4))
				nreq++
			}
			if r.Chance(1, 4) {
				emit("R %d %d", long, r.Intn(4))
				nreq++
			}
			emit("TR")
			nctx++
			c := gctx{nctx, tick + 30}
			ctxs = append(ctxs, c)
			emit("AR %d %d", c.lo, c.hi)
			tick += uint64(31 + r.Intn(40))
			emit("T %d", tick)
			emit("RA 0")
			if r.Chance(1, 2) {
				tick += uint64(2 + r.Intn(3))
				emit("T %d", tick)
				emit("RA 0")
			}
			switch r.Intn(3) {
			case 0:
				emit("RY %d %d %d", c.lo, c.hi, 5)
				emit("RA 5")
			case 1:
				tick += 200
				emit("T %d", tick)
				emit("RA 0")
			}
		case x < 146:
			// read pipeline as node.handleReadIndex runs it: batch 1 taken and added, batch 2
			// taken and added (the queue has flipped twice), then further reads that land in
			// the buffer batch 1 was taken from - all before any batch is confirmed
			for b := 0; b < 2+r.Intn(2); b++ {
				for k := 0; k < 1+r.Intn(3); k++ {
					to := []uint64{2, 3, 5, 100}[r.Intn(4)]
					emit("R %d %d", to, r.Intn(4))
					nreq++
				}
				emit("TR")
				nctx++
				ctxs = append(ctxs, gctx{nctx, tick + 30})
				emit("AR %d %d", nctx, tick+30)
			}
			for k := 0; k < 1+r.Intn(3); k++ {
				emit("R %d %d", []uint64{2, 3, 5, 100}[r.Intn(4)], r.Intn(4))
				nreq++
			}
		case x < 148:
			emit("QS %d", []int{1, 1, 1, 0}[r.Intn(4)])
		case x < 151:
			// session register / unregister requests (node.proposeSession)
			nkey += uint64(1 + r.Intn(2))
			reg := r.Intn(2)
			sid := uint64(1<<64 - 1)
			if reg == 1 {
				sid = 1<<64 - 2
			}
			p := gprop{uint64(1 + r.Intn(3)), sid, nkey}
			to := genTimeout(r)
			emit("PS %d %d %d %d %d", p.cid, reg, p.key, to, r.Intn(4))
			if to != 0 {
				props = append(props, p)
				nreq++
			}
		case x < 152:
			nkey++
			emit("PB %d %d %d %d", 1+r.Intn(3), 1+r.Intn(2), nkey, 1+r.Intn(5))
		case x < 157:
			// the real node.handleReadIndex, usually after a few reads
			for k := 0; k < r.Intn(3); k++ {
				to := genTimeout(r)
				emit("R %d %d", to, r.Intn(4))
				if to != 0 {
					nreq++
				}
			}
			if !handOpen {
				nctx++
				ctxs = append(ctxs, gctx{nctx, tick + 30})
				emit("HR %d", nctx)
			}
		case x < 161:
			if len(ctxs) > 0 {
				c := ctxs[len(ctxs)-1-r.Intn(min(len(ctxs), 3))]
				ri := readyIdx()
				a := applied([]uint64{0, 1, 5, 7, 10, 100})
				if r.Chance(1, 2) {
					// the update also carries committed entries beyond the applied index (fast apply or not)
					emit("PR %d %d %d %d %d %d", c.lo, c.hi, ri, a, r.Intn(2), max(a, ri)+uint64(r.Intn(3)))
				} else {
					emit("PR %d %d %d %d", c.lo, c.hi, ri, a)
				}
			}
		case x < 166:
			p, _ := pickProp()
			p = aim(p)
			rej, ign := 0, 0
			if r.Chance(1, 8) {
				rej = 1
			}
			if r.Chance(1, 8) {
				ign = 1
			}
			emit("AU %d %d %d %d %d %d %d", p.cid, p.sid, p.key, r.Intn(1000), rej, applied([]uint64{0, 1, 5, 7, 10}), ign)
		case x < 170:
			emit("NG")
		case x < 174:
			// single-slot tables: a retry at / just after the deadline of the request that occupies the
			// slot, after the step worker took it from the channel and before the table's gc ran
			// (node.tick and node.gc are separate steps)
			to := []uint64{1, 2, 3, 5}[r.Intn(4)]
			kind, take, gcop := "C", "TC", "GC"
			if r.Chance(1, 2) {
				kind, take, gcop = "S", "TS", "GS"
			}
			nkey++
			emit("%s %d %d", kind, nkey, to)
			if kind == "C" {
				ccs = append(ccs, nkey)
			} else {
				sss = append(sss, nkey)
			}
			nreq++
			if r.Chance(4, 5) {
				emit(take)
			}
			tick += to + uint64(r.Intn(3)) - uint64(r.Intn(2))
			emit("T %d", tick)
			if r.Chance(1, 4) {
				emit(gcop)
			}
			nkey++
			emit("%s %d %d", kind, nkey, genTimeout(r))
			if kind == "C" {
				ccs = append(ccs, nkey)
			} else {
				sss = append(sss, nkey)
			}
			nreq++
			if r.Chance(1, 2) {
				emit("Q")
				emit("Q")
				nreq += 2
			}
		default:
			// a client that polls and releases right away
			i := r.Intn(nreq + 1)
			emit("D %d", i)
			emit("L %d", i)
		}
	}
	return head + " | " + strings.Join(ops, " ; ")
}
