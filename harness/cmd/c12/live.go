package main

// A live single-replica NodeHost with racing client goroutines, tiny timeouts and a
// StopShard / NodeHost.Close in the middle: real goroutine interleavings of clients with the
// step / commit / apply workers, the tick worker, ResultC() and Release(). Judged by the property
// monitor only (every accepted request: exactly one terminal result, Committed first, the value
// the state machine returned); the compared observation is the constant "LIVE ok".
//
// case line: <id> LIVE seed=<n> nc=<0|1> clients=<k> ms=<run time before the stop> stop=<0 StopShard | 1 Close | 2 StopShard, StartReplica again, later StopShard>

import (
	"context"
	"encoding/binary"
	"errors"
	"fmt"
	"hash/fnv"
	"io"
	"strings"
	"sync"
	"sync/atomic"
	"time"

	dragonboat "github.com/lni/dragonboat/v4"
	"github.com/lni/dragonboat/v4/config"
	"github.com/lni/dragonboat/v4/raftio"
	sm "github.com/lni/dragonboat/v4/statemachine"
	gvfs "github.com/lni/vfs"
	"verif/harness/vh"
)

type liveSM struct{ n uint64 }

func cmdValue(cmd []byte) uint64 {
	h := fnv.New64a()
	_, _ = h.Write(cmd)
	return h.Sum64()
}
func (s *liveSM) Update(e sm.Entry) (sm.Result, error) {
	s.n++
	if s.n%7 == 0 {
		time.Sleep(300 * time.Microsecond) // a dwelling update now and then
	}
	return sm.Result{Value: cmdValue(e.Cmd)}, nil
}
func (s *liveSM) Lookup(interface{}) (interface{}, error) { return s.n, nil }
func (s *liveSM) SaveSnapshot(w io.Writer, _ sm.ISnapshotFileCollection, _ <-chan struct{}) error {
	var b [8]byte
	binary.LittleEndian.PutUint64(b[:], s.n)
	_, err := w.Write(b[:])
	return err
}
func (s *liveSM) RecoverFromSnapshot(r io.Reader, _ []sm.SnapshotFile, _ <-chan struct{}) error {
	var b [8]byte
	if _, err := io.ReadFull(r, b[:]); err != nil {
		return err
	}
	s.n = binary.LittleEndian.Uint64(b[:])
	return nil
}
func (s *liveSM) Close() error { return nil }

type nullFactory struct{}
type nullTransport struct{}

func (nullFactory) Create(config.NodeHostConfig, raftio.MessageHandler, raftio.ChunkHandler) raftio.ITransport {
	return nullTransport{}
}
func (nullFactory) Validate(string) bool { return true }
func (nullTransport) Name() string       { return "c12-null" }
func (nullTransport) Start() error       { return nil }
func (nullTransport) Close() error       { return nil }
func (nullTransport) GetConnection(context.Context, string) (raftio.IConnection, error) {
	return nil, errors.New("unreachable")
}
func (nullTransport) GetSnapshotConnection(context.Context, string) (raftio.ISnapshotConnection, error) {
	return nil, errors.New("unreachable")
}

type liveReq struct {
	kind     string
	rs       *dragonboat.RequestState
	want     uint64
	released bool
	done     bool
}

func runLive(line string, st *vh.Stats) string {
	f := strings.Fields(line)
	id := f[0]
	seed, clients, ms, stop, nc := uint64(1), 4, 150, 0, false
	for _, kv := range f[2:] {
		p := strings.SplitN(kv, "=", 2)
		if len(p) != 2 {
			continue
		}
		switch p[0] {
		case "seed":
			seed = u(p[1])
		case "nc":
			nc = p[1] == "1"
		case "clients":
			clients = int(u(p[1]))
		case "ms":
			ms = int(u(p[1]))
		case "stop":
			stop = int(u(p[1]))
		}
	}
	st.Count("live.case")
	const shard = 1
	const rtt = 2
	ex := config.GetDefaultExpertConfig()
	ex.FS = gvfs.NewMem()
	ex.TransportFactory = nullFactory{}
	ex.Engine = config.EngineConfig{ExecShards: 2, CommitShards: 2, ApplyShards: 2, SnapshotShards: 2, CloseShards: 2}
	ex.LogDB.Shards = 2
	nh, err := dragonboat.NewNodeHost(config.NodeHostConfig{NodeHostDir: "/c12live", RTTMillisecond: rtt,
		RaftAddress: "c12live:1", NotifyCommit: nc, Expert: ex})
	if err != nil {
		st.Count("live.skipped: " + err.Error())
		return id + " LIVE ok"
	}
	var closeOnce sync.Once
	closeHost := func() { closeOnce.Do(nh.Close) }
	defer closeHost()
	rc := config.Config{ReplicaID: 1, ShardID: shard, ElectionRTT: 10, HeartbeatRTT: 1}
	if err := nh.StartReplica(map[uint64]dragonboat.Target{1: "c12live:1"}, false,
		func(uint64, uint64) sm.IStateMachine { return &liveSM{} }, rc); err != nil {
		st.Count("live.skipped: " + err.Error())
		return id + " LIVE ok"
	}
	deadline := time.Now().Add(30 * time.Second)
	for {
		if _, _, ok, _ := nh.GetLeaderID(shard); ok {
			break
		}
		if time.Now().After(deadline) {
			st.Count("live.skipped: no leader within 30 s")
			return id + " LIVE ok"
		}
		time.Sleep(2 * time.Millisecond)
	}
	var stopFlag int32
	var stoppedAt int64
	var mu sync.Mutex
	var all []*liveReq
	var viol []string
	bad := func(format string, a ...interface{}) {
		mu.Lock()
		viol = append(viol, fmt.Sprintf(format, a...))
		mu.Unlock()
	}
	timeouts := []time.Duration{rtt * time.Millisecond, rtt * time.Millisecond, 2 * rtt * time.Millisecond,
		10 * rtt * time.Millisecond, 2 * time.Second}
	var wg sync.WaitGroup
	for c := 0; c < clients; c++ {
		wg.Add(1)
		go func(c int) {
			defer wg.Done()
			r := vh.NewRand(seed*1000 + uint64(c))
			session := nh.GetNoOPSession(shard)
			for n := 0; atomic.LoadInt32(&stopFlag) == 0 || n < 3; n++ {
				if atomic.LoadInt32(&stopFlag) != 0 && n > 100000 {
					break
				}
				d := timeouts[r.Intn(len(timeouts))]
				q := &liveReq{}
				var err error
				switch x := r.Intn(20); {
				case x < 12:
					cmd := []byte(fmt.Sprintf("c%d-%d", c, n))
					q.kind, q.want = "propose", cmdValue(cmd)
					q.rs, err = nh.Propose(session, cmd, d)
				case x < 17:
					q.kind = "read"
					q.rs, err = nh.ReadIndex(shard, d)
				case x < 18:
					q.kind = "snapshot"
					q.rs, err = nh.RequestSnapshot(shard, dragonboat.SnapshotOption{}, d)
				case x < 19:
					q.kind = "logquery"
					q.rs, err = nh.QueryRaftLog(shard, 1, 3, 1024)
				default:
					q.kind = "membership"
					q.rs, err = nh.RequestAddNonVoting(shard, 50, "c12nv:1", 0, d)
				}
				if err != nil || q.rs == nil {
					if atomic.LoadInt32(&stopFlag) != 0 {
						return // the shard is gone
					}
					time.Sleep(200 * time.Microsecond)
					continue
				}
				mu.Lock()
				all = append(all, q)
				mu.Unlock()
				// the client waits for its result(s)
				ncommitted, nterminal := 0, 0
				start := time.Now()
				poll := time.NewTicker(50 * time.Millisecond)
			recv:
				for nterminal == 0 {
					select {
					case res := <-q.rs.ResultC():
						switch {
						case res.Committed() && !res.Completed():
							ncommitted++
						default:
							nterminal++
							if res.Completed() && q.kind == "propose" && res.GetResult().Value != q.want {
								bad("propose: Completed with value %d, the state machine returned %d for this entry", res.GetResult().Value, q.want)
							}
						}
					case <-poll.C:
						// a running shard expires the request (largest timeout 2 s); a stopped one has terminated it
						if st := atomic.LoadInt64(&stoppedAt); st != 0 && time.Since(time.Unix(0, st)) > 20*time.Second {
							bad("%s (timeout %v): still no terminal result 20 s after the shard was stopped", q.kind, d)
							break recv
						}
						if time.Since(start) > 90*time.Second {
							bad("%s (timeout %v): no terminal result within 90 s", q.kind, d)
							break recv
						}
					}
				}
				poll.Stop()
				if ncommitted > 1 || (ncommitted > 0 && !nc) {
					bad("%s: %d Committed notifications (notifyCommit=%v)", q.kind, ncommitted, nc)
				}
				q.done = nterminal > 0
				if q.done && r.Chance(1, 2) {
					q.released = true
					q.rs.Release()
				}
				if atomic.LoadInt32(&stopFlag) != 0 {
					return
				}
			}
		}(c)
	}
	time.Sleep(time.Duration(ms) * time.Millisecond)
	if stop == 2 {
		// in-process restart of the replica: the new incarnation replays the log (the state machine is
		// in memory) while the same clients, with the same NoOP session, keep proposing
		if err := nh.StopShard(shard); err != nil {
			bad("StopShard: %v", err)
		}
		// the stopped replica is unloaded in the background; StartReplica is refused until that is done
		restarted := false
		for until := time.Now().Add(60 * time.Second); time.Now().Before(until); time.Sleep(time.Millisecond) {
			err := nh.StartReplica(map[uint64]dragonboat.Target{1: "c12live:1"}, false,
				func(uint64, uint64) sm.IStateMachine { return &liveSM{} }, rc)
			if err == nil {
				restarted = true
				break
			}
			if !errors.Is(err, dragonboat.ErrShardAlreadyExist) {
				bad("StartReplica after StopShard: %v", err)
				break
			}
		}
		if restarted {
			st.Count("live.restarted")
			time.Sleep(time.Duration(ms) * time.Millisecond)
		} else {
			stop = 1 // nothing to stop any more, close the host
		}
	}
	if stop == 1 {
		closeHost()
	} else if err := nh.StopShard(shard); err != nil {
		bad("StopShard: %v", err)
	}
	atomic.StoreInt64(&stoppedAt, time.Now().UnixNano())
	atomic.StoreInt32(&stopFlag, 1)
	fin := make(chan struct{})
	go func() { wg.Wait(); close(fin) }()
	select {
	case <-fin:
	case <-time.After(120 * time.Second):
		bad("clients still waiting for results 120 s after the shard was stopped")
	}
	closeHost()
	// nothing may arrive after the terminal result
	mu.Lock()
	for _, q := range all {
		if q.done && !q.released {
			select {
			case res := <-q.rs.AppliedC():
				viol = append(viol, fmt.Sprintf("%s: a second result (completed=%v timeout=%v terminated=%v) after the terminal one",
					q.kind, res.Completed(), res.Timeout(), res.Terminated()))
			default:
			}
		}
	}
	st.Count(fmt.Sprintf("live.requests<=%d", bucket10(len(all))))
	for _, m := range viol {
		st.Violation(id, "live NodeHost: "+m)
	}
	mu.Unlock()
	st.Case(line, len(all) >= 10, line)
	return id + " LIVE ok"
}

func bucket10(n int) int {
	b := 10
	for b < n {
		b *= 10
	}
	return b
}
