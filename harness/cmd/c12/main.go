// C12 harness: the pending request tables of /repo/request.go (white-box,
// through /repo/verif_hooks_c12.go) versus the Coq model Model/Requests.v.
//
// case line:  <id> ps=<shards> nc=<0|1> pq=<size> rq=<size> | op ; op ; ...
// ops (one real method call = one critical section each, except P and AP):
//
//	P cid sid key to pick     propose            R to pick      read index
//	C key to  S key to  Q     config change / snapshot / raft log query request
//	D i   L i                 client drains the channels of request i / calls Release
//	TP b  TR  AR lo hi  RY lo hi idx  RA a  RD lo hi  T t  GP k  GC  GS
//	DP cid sid key  DC key  TC  TS  QR oor a b          (step worker; T is the real node.tick)
//	QS b                      the shard enters (1) / leaves (0) the quiesced state
//	PS cid reg key to pick  PB cid sid key to   session register/unregister request; oversized payload
//	HR lo   PR lo hi idx a [fast lastCommitted]   AU cid sid key v rej idx ign   NG   XN    the real node.handleReadIndex,
//	     node.processReadyToRead, node.ApplyUpdate(notifyRead), node.gc, node.close
//	(P R C S Q AP DP DC RD CP CC T go through the real node.go functions as well)
//	AP cid sid key v rej  CA key rej  SA key ign abo idx (apply worker)
//	CP cid sid key  CC key  CB cid sid key  CF           (commit worker; CB/CF = the two halves of
//	                                                       proposalShard.committed, replay only)
//	XR  XP k  XC  XS  XL                                 (node.close(), table by table)
//	XQ cid sid key to pick    propose(key) held before its first shard-lock section (queue / table inspected), then close of its shard
//
// observation: one line per case, one token per op: <what>=<table sizes>.
package main

import (
	"fmt"
	"strconv"
	"strings"

	dragonboat "github.com/lni/dragonboat/v4"
	"github.com/lni/dragonboat/v4/logger"
	"verif/harness/vh"
)

type recv struct {
	drain     int // number of the drain that received it
	committed bool
	code      int
	v, w      uint64
	mt        uint64 // highest tick the tables had seen when it was received
}

type reqRec struct {
	kind     byte // P R C S Q
	rs       *dragonboat.RequestState
	comp     chan dragonboat.RequestResult
	comm     chan dragonboat.RequestResult
	accepted bool
	released bool
	nc       bool
	cid, sid uint64
	key      uint64 // the key used in the case text
	ctx      string // reads: "lo hi" of the batch the request was added to
	deadline uint64
	wrapped  bool
	got      []recv
}

type world struct {
	v            *dragonboat.VerifC12
	ps           uint64
	nc           bool
	reqs         []*reqRec
	chanOwner    map[chan dragonboat.RequestResult]int
	ccKey        map[uint64]uint64
	ssKey        map[uint64]uint64
	taken        []int // request numbers in the step worker's hands
	queued       []int // request numbers in the read queue
	tick         uint64
	maxTick      uint64
	drains       int
	closedAny    bool
	closed       map[string]bool
	oplog        map[string]bool // "AP cid sid key v rej", "DP ...", ...
	ready        map[string]uint64
	readyOK      map[string]bool // ctx whose index was covered by a later RA
	lqOut        bool
	assumeBad    bool // the case itself broke an environment assumption (double close ...)
	clockStuck   string
	apiBad       string
	ctxMap       map[string][2]uint64
	earlyEnqueue string
	committed    map[string]bool
}

const (
	cTimeout = iota
	cCompleted
	cTerminated
	cRejected
	cDropped
	cAborted
	cCommitted
	cOutOfRange
)

func u(s string) uint64 {
	x, err := strconv.ParseUint(s, 10, 64)
	if err != nil {
		panic("bad number " + s)
	}
	return x
}

func panicCode(p string) int {
	switch {
	case strings.Contains(p, "CompletedC is full"):
		return 1
	case strings.Contains(p, "committedC is full"):
		return 2
	case strings.Contains(p, "notify commit not allowed"):
		return 3
	case strings.Contains(p, "committedC is nil"):
		return 4
	case strings.Contains(p, "same system ctx"):
		return 5
	case strings.Contains(p, "no pending raft log query"):
		return 6
	case strings.Contains(p, "ignored && aborted"):
		return 7
	}
	return 99
}

func newWorld(head string) *world {
	w := &world{ps: 1, chanOwner: map[chan dragonboat.RequestResult]int{}, ccKey: map[uint64]uint64{},
		ssKey: map[uint64]uint64{}, closed: map[string]bool{}, oplog: map[string]bool{},
		ctxMap: map[string][2]uint64{}, ready: map[string]uint64{}, readyOK: map[string]bool{}, committed: map[string]bool{}}
	pq, rq := uint64(8), uint64(8)
	for _, f := range strings.Fields(head) {
		kv := strings.SplitN(f, "=", 2)
		if len(kv) != 2 {
			continue
		}
		switch kv[0] {
		case "ps":
			w.ps = u(kv[1])
			if w.ps == 0 {
				w.ps = 1
			}
		case "nc":
			w.nc = kv[1] == "1"
		case "pq":
			pq = u(kv[1])
		case "rq":
			rq = u(kv[1])
		}
	}
	w.v = dragonboat.NewVerifC12(w.ps, w.nc, pq, rq)
	return w
}

// farAway: the deadline cannot be passed by any clock value the harness uses
// (timeout 2^64-1 without wrap-around); such a request need not expire
func (r *reqRec) farAway() bool { return !r.wrapped && r.deadline >= 1<<62 }

func (w *world) sizes() string {
	z := w.v.Sizes()
	s := make([]string, 0, 9)
	for _, x := range z {
		s = append(s, strconv.Itoa(x))
	}
	s = append(s, strconv.Itoa(w.v.Taken()))
	return strings.Join(s, ",")
}

func (w *world) accept(kind byte, rs *dragonboat.RequestState, ok bool, to uint64) *reqRec {
	r := &reqRec{kind: kind, rs: rs, accepted: ok}
	if ok {
		r.comp, r.comm = dragonboat.VerifC12Chans(rs)
		w.chanOwner[r.comp] = len(w.reqs)
		if r.comm != nil {
			w.chanOwner[r.comm] = len(w.reqs)
		}
		r.deadline = w.tick + to
		r.wrapped = r.deadline < w.tick
	}
	w.reqs = append(w.reqs, r)
	return r
}

func showRes(rr dragonboat.RequestResult) (int, uint64, uint64) {
	code := dragonboat.VerifC12ResultCode(rr)
	v := rr.GetResult().Value
	var x uint64
	lr := dragonboat.VerifC12ResultRange(rr)
	if lr.FirstIndex != 0 || lr.LastIndex != 0 {
		v, x = lr.FirstIndex, lr.LastIndex
	}
	return code, v, x
}

// drain: the client of request i receives whatever its channels hold
func (w *world) drain(i int) string {
	r := w.reqs[i]
	w.drains++
	var cs, rs []string
	if r.comm != nil && w.chanOwner[r.comm] == i {
		select {
		case rr := <-r.comm:
			c, v, x := showRes(rr)
			r.got = append(r.got, recv{w.drains, true, c, v, x, w.maxTick})
			cs = append(cs, strconv.Itoa(c))
		default:
		}
	}
	if w.chanOwner[r.comp] == i {
		select {
		case rr := <-r.comp:
			c, v, x := showRes(rr)
			r.got = append(r.got, recv{w.drains, false, c, v, x, w.maxTick})
			rs = append(rs, fmt.Sprintf("%d.%d.%d", c, v, x))
		default:
		}
	}
	return strings.Join(cs, ",") + "/" + strings.Join(rs, ",")
}

func (w *world) doOp(f []string) string {
	v := w.v
	switch f[0] {
	case "P":
		cid, sid, key, to := u(f[1]), u(f[2]), u(f[3]), u(f[4])
		// node.propose with a payload of 0..2 bytes (plain / encoded entry)
		rs, err := v.NodePropose(cid, sid, 0, key, to, make([]byte, key%3))
		code := dragonboat.VerifC12ErrCode(err)
		if to == 0 {
			return fmt.Sprintf("P-:%d", code)
		}
		r := w.accept('P', rs, err == nil, to)
		r.nc, r.cid, r.sid, r.key = w.nc, cid, sid, key
		return fmt.Sprintf("P%d:%d", len(w.reqs)-1, code)
	case "PS":
		// node.proposeSession: register (1) / unregister (0) a client session
		cid, reg, key, to := u(f[1]), f[2] == "1", u(f[3]), u(f[4])
		sid := uint64(1<<64 - 1)
		if reg {
			sid = 1<<64 - 2
		}
		rs, err := v.NodeProposeSession(cid, reg, key, to)
		code := dragonboat.VerifC12ErrCode(err)
		if to == 0 {
			return fmt.Sprintf("PS-:%d", code)
		}
		r := w.accept('P', rs, err == nil, to)
		r.nc, r.cid, r.sid, r.key = w.nc, cid, sid, key
		return fmt.Sprintf("PS%d:%d", len(w.reqs)-1, code)
	case "PB":
		// node.propose refuses a payload above Config.MaxInMemLogSize before anything is allocated
		cid, sid, key, to := u(f[1]), u(f[2]), u(f[3]), u(f[4])
		v.SetMaxInMemLogSize(1024)
		rs, err := v.NodePropose(cid, sid, 0, key, to, make([]byte, 2048))
		v.SetMaxInMemLogSize(0)
		if rs != nil || err != dragonboat.ErrPayloadTooBig {
			w.apiBad = fmt.Sprintf("node.propose accepted a 2048 byte payload with MaxInMemLogSize 1024 (err %v)", err)
		}
		return "PB-:9"
	case "R":
		to := u(f[1])
		rs, err := v.NodeRead(to)
		code := dragonboat.VerifC12ErrCode(err)
		if to == 0 {
			return fmt.Sprintf("R-:%d", code)
		}
		w.accept('R', rs, err == nil, to)
		if err == nil {
			w.queued = append(w.queued, len(w.reqs)-1)
		}
		return fmt.Sprintf("R%d:%d", len(w.reqs)-1, code)
	case "C", "S":
		key, to := u(f[1]), u(f[2])
		var rs *dragonboat.RequestState
		var err error
		if f[0] == "C" {
			rs, err = v.NodeRequestConfigChange(to)
		} else {
			rs, err = v.NodeRequestSnapshot(to)
		}
		code := dragonboat.VerifC12ErrCode(err)
		if err != nil {
			return fmt.Sprintf("%s-:%d", f[0], code)
		}
		r := w.accept(f[0][0], rs, true, to)
		r.key = key
		if f[0] == "C" {
			r.nc = w.nc
			w.ccKey[key] = dragonboat.VerifC12Key(rs)
		} else {
			w.ssKey[key] = dragonboat.VerifC12Key(rs)
		}
		return fmt.Sprintf("%s%d:0", f[0], len(w.reqs)-1)
	case "Q":
		rs, err := v.NodeQueryRaftLog(1, 2)
		if err != nil {
			return fmt.Sprintf("Q-:%d", dragonboat.VerifC12ErrCode(err))
		}
		w.accept('Q', rs, true, 0)
		w.lqOut = true
		return fmt.Sprintf("Q%d:0", len(w.reqs)-1)
	case "D":
		i := int(u(f[1]))
		if i >= len(w.reqs) || !w.reqs[i].accepted {
			return fmt.Sprintf("D%d:x", i)
		}
		return fmt.Sprintf("D%d:%s", i, w.drain(i))
	case "L":
		i := int(u(f[1]))
		eff := 0
		if i < len(w.reqs) {
			r := w.reqs[i]
			// a client may call Release at any time until it took effect, never after
			if r.accepted && !r.released {
				if dragonboat.VerifC12Poolable(r.rs) && dragonboat.VerifC12ReadyToRelease(r.rs) {
					eff = 1
					r.released = true
				}
				r.rs.Release()
			}
		}
		return fmt.Sprintf("L%d:%d", i, eff)
	case "TP":
		v.TakeProposals(f[1] == "1")
	case "TR":
		if v.TakeReads() >= 0 {
			w.taken, w.queued = w.queued, nil
		}
	case "AR":
		if len(w.taken) > 0 {
			for _, i := range w.taken {
				w.reqs[i].ctx = f[1] + " " + f[2]
			}
			w.taken = nil
		}
		lo, hi := w.ctx(f[1], f[2]) // a ctx named after one that handleReadIndex drew is that ctx
		v.AddReads(lo, hi)
	case "HR":
		// the real node.handleReadIndex: queue get, fresh ctx (random low, high = tick+30), add, raft ReadIndex
		if v.Taken() > 0 {
			return "HR" // the step worker is inside an explicit TR .. AR
		}
		lo, hi, ok := v.NodeHandleReadIndex()
		name := fmt.Sprintf("%s %d", f[1], w.tick+30)
		if ok {
			w.ctxMap[name] = [2]uint64{lo, hi}
			if hi != w.tick+30 {
				w.apiBad = fmt.Sprintf("handleReadIndex created a ctx with High %d at tick %d", hi, w.tick)
			}
		}
		for _, i := range w.queued {
			w.reqs[i].ctx = name
		}
		w.queued = nil
		// the ctx is also the hint raft matches heartbeat responses with, across replicas: ctxs drawn by
		// different tables (other replicas, this replica after a restart) at the same tick must differ
		seen := map[[2]uint64]string{}
		for n, c := range w.ctxMap {
			seen[c] = "this node (" + n + ")"
		}
		for t := 0; t < 2; t++ {
			for _, c := range dragonboat.VerifC12FreshReadCtxs(w.tick, 2) {
				if who, dup := seen[c]; dup {
					w.apiBad = fmt.Sprintf("read index ctx {%d %d} generated twice: by %s and by a fresh pendingReadIndex table %d", c[0], c[1], who, t)
				}
				seen[c] = fmt.Sprintf("fresh table %d", t)
			}
		}
	case "RY":
		lo, hi := w.ctx(f[1], f[2])
		v.AddReady(lo, hi, u(f[3]))
		w.ready[f[1]+" "+f[2]] = u(f[3])
	case "PR":
		// node.processReadyToRead(ud): addReady(ud.ReadyToReads) ; applied(ud.LastApplied)
		lo, hi := w.ctx(f[1], f[2])
		w.ready[f[1]+" "+f[2]] = u(f[3])
		a := u(f[4])
		for c, idx := range w.ready {
			if idx > 0 && idx <= a {
				w.readyOK[c] = true
			}
		}
		if len(f) >= 7 {
			// fast-apply update whose committed entries (up to f[6]) are only queued for the apply worker
			v.NodeProcessReadyToReadUpdate(lo, hi, u(f[3]), a, f[5] == "1", u(f[6]))
		} else {
			v.NodeProcessReadyToRead(lo, hi, u(f[3]), a)
		}
	case "RA":
		a := u(f[1])
		for c, idx := range w.ready {
			if idx > 0 && idx <= a {
				w.readyOK[c] = true
			}
		}
		v.ReadsApplied(a)
	case "RD":
		w.oplog["RD "+f[1]+" "+f[2]] = true
		lo, hi := w.ctx(f[1], f[2])
		v.NodeDroppedReadIndex(lo, hi)
	case "T":
		w.tick = u(f[1])
		if w.tick > w.maxTick {
			w.maxTick = w.tick
		}
		// the real node.tick: raft tick (quiesced or not) + the table clocks
		if err := v.NodeTick(w.tick); err != nil {
			panic("node.tick: " + err.Error())
		}
		for _, c := range v.Clocks() {
			if c != w.tick {
				w.clockStuck = fmt.Sprintf("node.tick(%d) left a request table clock at %d (quiesced=%v)", w.tick, c, v.Quiesced())
			}
		}
	case "QS":
		// the shard becomes quiesced / active again; invisible to the request tables
		v.SetQuiesced(f[1] == "1")
	case "NG":
		v.NodeGc() // node.gc(): every proposal shard, config change, snapshot - once per node tick
	case "GP":
		v.GcProposals(u(f[1]))
	case "GC":
		v.GcConfigChange()
	case "GS":
		v.GcSnapshot()
	case "DP":
		w.oplog[strings.Join(f, " ")] = true
		v.NodeDroppedProposal(u(f[1]), u(f[2]), u(f[3]))
	case "DC":
		w.oplog[strings.Join(f, " ")] = true
		v.NodeDroppedConfigChange(w.real(w.ccKey, u(f[1])))
	case "TC":
		v.TakeConfigChange()
	case "TS":
		v.TakeSnapshotRequest()
	case "QR":
		w.oplog[strings.Join(f, " ")] = true
		v.LogQueryReturned(f[1] == "1", u(f[2]), u(f[3]))
		w.lqOut = false
	case "AP":
		w.oplog[strings.Join(f, " ")] = true
		v.NodeApplyUpdate(u(f[1]), u(f[2]), u(f[3]), 1, u(f[4]), f[5] == "1", false, false)
	case "AU":
		// node.ApplyUpdate with notifyRead: AU cid sid key v rej idx ign
		idx, ign := u(f[6]), f[7] == "1"
		if !ign {
			w.oplog["AP "+strings.Join(f[1:6], " ")] = true
		}
		for c, i := range w.ready {
			if i > 0 && i <= idx {
				w.readyOK[c] = true
			}
		}
		v.NodeApplyUpdate(u(f[1]), u(f[2]), u(f[3]), idx, u(f[4]), f[5] == "1", ign, true)
	case "CA":
		w.oplog[strings.Join(f, " ")] = true
		v.ConfigChangeApplied(w.real(w.ccKey, u(f[1])), f[2] == "1")
	case "SA":
		w.oplog[strings.Join(f, " ")] = true
		if f[2] == "1" && f[3] == "0" {
			v.NodeIgnoredSnapshotRequest(w.real(w.ssKey, u(f[1]))) // node.reportIgnoredSnapshotRequest
		} else {
			v.SnapshotApplied(w.real(w.ssKey, u(f[1])), f[2] == "1", f[3] == "1", u(f[4]))
		}
	case "CP":
		k := "P " + f[3]
		if w.committed[k] {
			w.assumeBad = true
		}
		w.committed[k] = true
		// RequestState.committed() is reached with the shard lock held (the proposal stays in the table:
		// without the lock it can be expired, released and reused before the notification is sent).
		// Its plog.Panicf calls (notify commit not allowed / committedC full / nil) run inside that section.
		key := u(f[3])
		onPanic = func(msg string) {
			if strings.Contains(msg, "ommit") && !v.ProposalShardLockHeld(key) {
				w.apiBad = fmt.Sprintf("the Committed notification of proposal %d is sent without the shard lock (seen at %q)", key, msg)
			}
		}
		defer func() { onPanic = nil }()
		v.NodeCommitted(false, u(f[1]), u(f[2]), key)
	case "CC":
		k := "C " + f[1]
		if w.committed[k] {
			w.assumeBad = true
		}
		w.committed[k] = true
		onPanic = func(msg string) {
			if strings.Contains(msg, "ommit") && !v.ConfigChangeLockHeld() {
				w.apiBad = fmt.Sprintf("the Committed notification of a config change is sent without the table lock (seen at %q)", msg)
			}
		}
		defer func() { onPanic = nil }()
		v.NodeCommitted(true, 0, 0, w.real(w.ccKey, u(f[1])))
	case "XN":
		// the real node.close()
		for _, name := range []string{"XR", "XC", "XS", "XL"} {
			if w.closed[name] {
				w.assumeBad = true
			}
			w.closed[name] = true
		}
		for k := uint64(0); k < w.ps; k++ {
			name := fmt.Sprintf("XP %d", k)
			if w.closed[name] {
				w.assumeBad = true
			}
			w.closed[name] = true
		}
		w.closedAny = true
		w.queued = nil
		v.NodeClose()
	case "XQ":
		// a propose() is held before its first shard-lock section (the harness owns the lock and
		// looks whether the entry is already queued while the request is not yet registered), then
		// runs to its end alone; then the shard is closed. Compared observation = propose ; close.
		cid, sid, key, to := u(f[1]), u(f[2]), u(f[3]), u(f[4])
		name := fmt.Sprintf("XP %d", key%w.ps)
		if w.closed[name] {
			w.assumeBad = true
		}
		w.closed[name] = true
		w.closedAny = true
		var rs *dragonboat.RequestState
		var err error
		var early bool
		// the request is recorded before close() can panic (double close)
		rec := func() string {
			code := dragonboat.VerifC12ErrCode(err)
			if to == 0 {
				return fmt.Sprintf("XQ-:%d", code)
			}
			r := w.accept('P', rs, err == nil, to)
			r.nc, r.cid, r.sid, r.key = w.nc, cid, sid, key
			return fmt.Sprintf("XQ%d:%d", len(w.reqs)-1, code)
		}
		rs, err, early = v.ProposeHeldThenClose(cid, sid, key, to)
		if early {
			w.earlyEnqueue = fmt.Sprintf("propose(key %d) handed the entry to the proposal queue before the request was in the pending table: a close() of the shard in that window loses the accepted request (no Terminated, no Timeout)", key)
		}
		return rec()
	case "XR", "XC", "XS", "XL", "XP":
		name := strings.Join(f, " ")
		if f[0] == "XP" {
			name = fmt.Sprintf("XP %d", u(f[1])%w.ps)
		}
		if w.closed[name] && (f[0] == "XR" || f[0] == "XP") {
			w.assumeBad = true
		}
		w.closed[name] = true
		w.closedAny = true
		switch f[0] {
		case "XR":
			v.CloseReads()
			w.queued = nil
		case "XP":
			v.CloseProposals(u(f[1]))
		case "XC":
			v.CloseConfigChange()
		case "XS":
			v.CloseSnapshot()
		case "XL":
			v.CloseLogQuery()
		}
	default:
		panic("unknown op " + f[0])
	}
	return f[0]
}

// ctx translates the ctx named in the case to the one the real handleReadIndex drew
func (w *world) ctx(lo, hi string) (uint64, uint64) {
	if c, ok := w.ctxMap[lo+" "+hi]; ok {
		return c[0], c[1]
	}
	return u(lo), u(hi)
}

// probeLogger: see main. onPanic is set while an operation of a case runs.
type probeLogger struct{}

var onPanic func(msg string)

func (probeLogger) SetLevel(logger.LogLevel)        {}
func (probeLogger) Debugf(string, ...interface{})   {}
func (probeLogger) Infof(string, ...interface{})    {}
func (probeLogger) Warningf(string, ...interface{}) {}
func (probeLogger) Errorf(string, ...interface{})   {}
func (probeLogger) Panicf(format string, args ...interface{}) {
	msg := fmt.Sprintf(format, args...)
	if onPanic != nil {
		onPanic(msg)
	}
	panic(msg)
}

func (w *world) real(m map[uint64]uint64, k uint64) uint64 {
	if r, ok := m[k]; ok {
		return r
	}
	return k
}

// CB / CF: the two halves of proposalShard.committed (replay of that interleaving only)
var borrowed *dragonboat.RequestState

func (w *world) doSplit(f []string) string {
	switch f[0] {
	case "CB":
		w.committed["P "+f[3]] = true
		borrowed = w.v.BorrowCommitted(u(f[1]), u(f[2]), u(f[3]))
	case "CF":
		if borrowed != nil {
			dragonboat.VerifC12NotifyCommitted(borrowed)
			borrowed = nil
		}
	}
	return f[0]
}

// finale: what the node does anyway after the case ends (implementation only):
// a stopped node finishes close() and the step worker finishes the call it is
// in; a running node lets the clock pass every deadline and runs one worker round.
func (w *world) finale() string {
	v := w.v
	return vh.Catch(func() {
		if w.closedAny {
			for _, name := range []string{"XR"} {
				if !w.closed[name] {
					v.CloseReads()
				}
			}
			for k := uint64(0); k < w.ps; k++ {
				if !w.closed[fmt.Sprintf("XP %d", k)] {
					v.CloseProposals(k)
				}
			}
			if !w.closed["XC"] {
				v.CloseConfigChange()
			}
			if !w.closed["XS"] {
				v.CloseSnapshot()
			}
			if !w.closed["XL"] {
				v.CloseLogQuery()
			}
			v.AddReads(1<<63+1, 0) // the step worker finishes handleReadIndex
			return
		}
		t := w.maxTick
		for _, r := range w.reqs {
			if r.accepted && !r.wrapped && !r.farAway() && r.deadline > t {
				t = r.deadline
			}
		}
		t += 10
		w.maxTick = t
		if err := v.NodeTick(t); err != nil {
			panic("node.tick: " + err.Error())
		}
		v.AddReads(1<<63+1, t+30)
		v.TakeReads()
		v.AddReads(1<<63+2, t+30)
		v.NodeGc() // node.gc(): all proposal shards, config change, snapshot
		v.ReadsApplied(0)
		if v.Sizes()[7] == 1 {
			v.LogQueryReturned(false, 1, 2)
		}
	})
}

func (w *world) monitor(id string, st *vh.Stats) {
	for i, r := range w.reqs {
		if !r.accepted {
			continue
		}
		w.drain(i)
		nt, ncm := 0, 0
		tdrain := 0
		for _, g := range r.got {
			if g.code == cCommitted {
				ncm++
				if !g.committed {
					st.Violation(id, fmt.Sprintf("request %d: Committed delivered on CompletedC", i))
				}
				if !w.committed[fmt.Sprintf("%c %d", r.kind, r.key)] {
					st.Violation(id, fmt.Sprintf("request %d (%c): Committed delivered but its entry (key %d) was never reported committed", i, r.kind, r.key))
				}
				if tdrain != 0 && g.drain > tdrain {
					st.Violation(id, fmt.Sprintf("request %d: Committed received after the terminal result", i))
				}
			} else {
				nt++
				tdrain = g.drain
				if g.committed {
					st.Violation(id, fmt.Sprintf("request %d: terminal result on committedC", i))
				}
				if msg := w.truthful(r, g); msg != "" {
					st.Violation(id, fmt.Sprintf("request %d (%c): %s", i, r.kind, msg))
				}
			}
		}
		if nt == 0 && !w.closedAny && r.farAway() {
			continue
		}
		if nt != 1 {
			st.Violation(id, fmt.Sprintf("request %d (%c): %d terminal results (want exactly 1 after expiry/close)", i, r.kind, nt))
		}
		if ncm > 1 || (ncm > 0 && !r.nc) {
			st.Violation(id, fmt.Sprintf("request %d (%c): %d Committed notifications (notifyCommit=%v)", i, r.kind, ncm, r.nc))
		}
	}
}

// truthful: the terminal result is one the operations of the case justify
func (w *world) truthful(r *reqRec, g recv) string {
	has := func(s string) bool { return w.oplog[s] }
	switch g.code {
	case cTerminated:
		if !w.closedAny {
			return "Terminated but the node was never closed"
		}
	case cTimeout:
		if !r.wrapped && g.mt < r.deadline {
			return fmt.Sprintf("Timeout before the deadline %d (clock never above %d)", r.deadline, g.mt)
		}
	case cDropped:
		switch r.kind {
		case 'P':
			if !has(fmt.Sprintf("DP %d %d %d", r.cid, r.sid, r.key)) {
				return "Dropped without a matching dropped entry"
			}
		case 'C':
			if !has(fmt.Sprintf("DC %d", r.key)) {
				return "Dropped without a matching dropped entry"
			}
		case 'R':
			if !has("RD " + r.ctx) {
				return "Dropped without a dropped read index ctx"
			}
		default:
			return "Dropped on a table that never drops"
		}
	case cCompleted, cRejected, cAborted, cOutOfRange:
		switch r.kind {
		case 'P':
			rej := 0
			if g.code == cRejected {
				rej = 1
			}
			if g.code == cAborted || g.code == cOutOfRange || !has(fmt.Sprintf("AP %d %d %d %d %d", r.cid, r.sid, r.key, g.v, rej)) {
				return fmt.Sprintf("result code %d value %d was never returned by the apply path for (%d,%d,%d)", g.code, g.v, r.cid, r.sid, r.key)
			}
		case 'R':
			if g.code != cCompleted || !w.readyOK[r.ctx] {
				return fmt.Sprintf("read result code %d but its batch %q was never confirmed and applied", g.code, r.ctx)
			}
		case 'C':
			rej := 0
			if g.code == cRejected {
				rej = 1
			}
			if g.code == cAborted || g.code == cOutOfRange || !has(fmt.Sprintf("CA %d %d", r.key, rej)) {
				return fmt.Sprintf("config change result code %d without matching apply", g.code)
			}
		case 'S':
			ok := false
			switch g.code {
			case cCompleted:
				ok = has(fmt.Sprintf("SA %d 0 0 %d", r.key, g.v))
			case cRejected:
				for k := range w.oplog {
					if strings.HasPrefix(k, fmt.Sprintf("SA %d 1 0 ", r.key)) {
						ok = true
					}
				}
			case cAborted:
				for k := range w.oplog {
					if strings.HasPrefix(k, fmt.Sprintf("SA %d 0 1 ", r.key)) {
						ok = true
					}
				}
			}
			if !ok {
				return fmt.Sprintf("snapshot result code %d value %d without matching apply", g.code, g.v)
			}
		case 'Q':
			oor := 0
			if g.code == cOutOfRange {
				oor = 1
			}
			if (g.code != cCompleted && g.code != cOutOfRange) || (!has(fmt.Sprintf("QR %d %d %d", oor, g.v, g.w)) && !(g.v == 1 && g.w == 2)) {
				return fmt.Sprintf("log query result code %d [%d,%d) never returned", g.code, g.v, g.w)
			}
		}
	}
	return ""
}

func runCase(line string, st *vh.Stats) string {
	if f := strings.Fields(line); len(f) > 1 && f[1] == "LIVE" {
		return runLive(line, st)
	}
	id := strings.Fields(line)[0]
	rest := strings.TrimSpace(line[len(id):])
	head, body := rest, ""
	if i := strings.Index(rest, "|"); i >= 0 {
		head, body = strings.TrimSpace(rest[:i]), strings.TrimSpace(rest[i+1:])
	}
	w := newWorld(head)
	borrowed = nil
	// applied entries are matched to waiting requests by (clientID, seriesID, key): the keys handed out
	// by different incarnations of one replica in this process, and by different replicas, must differ
	{
		seen := map[uint64]string{}
		for inc, who := range [][2]uint64{{1, 1}, {1, 1}, {1, 2}} {
			for _, k := range dragonboat.VerifC12FreshProposalKeys(who[0], who[1], w.ps, 7, 3) {
				if prev, dup := seen[k]; dup {
					st.Violation(id, fmt.Sprintf("proposal key %d handed out twice: by %s and by incarnation %d (shard %d replica %d)", k, prev, inc, who[0], who[1]))
				}
				seen[k] = fmt.Sprintf("incarnation %d (shard %d replica %d)", inc, who[0], who[1])
			}
		}
	}
	var out []string
	kinds := map[string]bool{}
	panicked := false
	if body != "" {
		for _, opText := range strings.Split(body, " ; ") {
			f := strings.Fields(opText)
			if len(f) == 0 {
				continue
			}
			st.Count("op." + f[0])
			kinds[f[0]] = true
			var tok string
			lq := w.lqOut
			p := vh.Catch(func() {
				if f[0] == "CB" || f[0] == "CF" {
					tok = w.doSplit(f)
				} else {
					tok = w.doOp(f)
				}
			})
			if p != "" {
				c := panicCode(p)
				out = append(out, fmt.Sprintf("X%d", c))
				if w.apiBad != "" {
					st.Violation(id, w.apiBad)
				}
				st.Count(fmt.Sprintf("panic.%d", c))
				// a panic is a violation unless the case broke an assumption of the environment
				switch {
				case c == 1 && !w.assumeBad, c == 2 && !w.assumeBad, c == 4, c == 99:
					st.Violation(id, "panic: "+p)
				case c == 6 && lq:
					st.Violation(id, "panic: log query result delivered after close: "+p)
				}
				panicked = true
				break
			}
			out = append(out, tok+"="+w.sizes())
		}
	}
	if !panicked {
		for i, r := range w.reqs {
			if r.accepted {
				out = append(out, fmt.Sprintf("F%d:%s", i, w.drain(i)))
			}
		}
		out = append(out, "Z="+w.sizes())
		// ---- property monitor (implementation alone) ----
		if w.clockStuck != "" {
			st.Violation(id, w.clockStuck)
		}
		if w.apiBad != "" {
			st.Violation(id, w.apiBad)
		}
		if w.earlyEnqueue != "" {
			st.Violation(id, w.earlyEnqueue)
		}
		if !w.assumeBad {
			if p := w.finale(); p != "" {
				st.Violation(id, "panic while the node winds down: "+p)
			} else {
				w.monitor(id, st)
			}
		}
	}
	nacc := 0
	for _, r := range w.reqs {
		if r.accepted {
			nacc++
		}
	}
	closeAndReq := w.closedAny && nacc > 0
	st.Case(rest, nacc >= 2 && (closeAndReq || kinds["L"] || kinds["T"]), line)
	if w.closedAny {
		st.Count("case.with_close")
	}
	if kinds["L"] {
		st.Count("case.with_release")
	}
	return id + " " + strings.Join(out, " ")
}

func main() {
	// the library logs through this logger: silent, and its Panicf - which runs inside the library at
	// the point of the plog.Panicf - lets the harness look at the locks before the panic unwinds
	logger.SetLoggerFactory(func(string) logger.ILogger { return probeLogger{} })
	a := vh.ParseArgs()
	switch a.Mode {
	case "gen":
		n := 1500
		if a.Tier == "thorough" {
			n = 60000
		}
		if a.N > 0 {
			n = a.N
		}
		r := vh.NewRand(a.Seed)
		w := vh.Create(a.Cases)
		for i := 0; i < n; i++ {
			w.Printf("%d %s\n", i, genCase(r, a.Tier == "thorough"))
		}
		// live NodeHost cases: racing clients, tiny timeouts, StopShard / Close in the middle
		nl := 3
		if a.Tier == "thorough" {
			nl = 24
		}
		if a.N > 0 && a.N < 200 {
			nl = 0
		}
		for i := 0; i < nl; i++ {
			w.Printf("L%d LIVE seed=%d nc=%d clients=%d ms=%d stop=%d\n", i, r.U64()%100000, i%2, 3+r.Intn(4), 60+r.Intn(120), i%3)
		}
		w.Close()
	case "run":
		st := vh.NewStats("step sequences of all actors over the five real pending tables (proposals with 1-3 shards, read index queue+batches, config change, snapshot, raft log query): propose/read/cc/snapshot/logquery requests with timeouts {0,1,2,3,5,100,2^32,2^64-1}, tick (mostly +0..3, jumps, rare backwards), gc, applied/dropped/committed (85% aimed at a pending key, rest stale or mismatching client/series), read ctx add/ready/applied/dropped, queue take, drain, Release/reuse, node.close() table by table interleaved with everything else, requests after close. non-trivial = at least 2 accepted requests and (a close, a Release or a tick) in the case; distinct by case text")
		obs := vh.Create(a.Out + "/impl.obs")
		for _, line := range vh.ReadLines(a.Cases) {
			obs.Printf("%s\n", runCase(line, st))
		}
		obs.Close()
		st.Write(a.Out)
	}
}
