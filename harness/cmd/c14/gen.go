package main

import (
	"encoding/binary"
	"fmt"
	"strings"

	pb "github.com/lni/dragonboat/v4/raftpb"
	c14 "github.com/lni/dragonboat/v4/verifhooks/c14"
	"verif/harness/vh"
)

func segment(r *vh.Rand, p []byte) [][]byte {
	var segs [][]byte
	for len(p) > 0 {
		n := 1 + r.Intn(len(p))
		if r.Chance(1, 3) {
			n = 1 + r.Intn(4)
			if n > len(p) {
				n = len(p)
			}
		}
		if r.Chance(1, 10) {
			segs = append(segs, nil) // empty write
		}
		segs = append(segs, p[:n])
		p = p[n:]
	}
	if len(segs) == 0 && r.Bool() {
		segs = append(segs, nil)
	}
	return segs
}

func payloadLen(r *vh.Rand, bs int) int {
	switch r.Intn(8) {
	case 0:
		return 0
	case 1:
		return 1
	case 2:
		return bs - 1 + r.Intn(3)
	case 3:
		k := 1 + r.Intn(4)
		return k*bs - 1 + r.Intn(3)
	case 4:
		return r.Intn(5*bs + 1)
	default:
		return r.Intn(3*bs + 8)
	}
}

func genBW(r *vh.Rand) string {
	bss := []int{1, 2, 3, 4, 5, 7, 8, 12, 13, 16, 32}
	bs := bss[r.Intn(len(bss))]
	n := payloadLen(r, bs)
	if n < 0 {
		n = 0
	}
	if r.Chance(1, 2) && n < bs+4 {
		n = bs + 4 + r.Intn(3*bs+2)
	}
	p := r.Bytes(n)
	var ops []string
	if r.Chance(1, 2) {
		// block-aligned position, then single writes of at least one block + 4 bytes
		q := p
		if k := r.Intn(3) * bs; k <= len(q) && r.Bool() {
			if k > 0 {
				ops = append(ops, "w "+vh.Hex(q[:k]))
			}
			q = q[k:]
		}
		for len(q) > 0 {
			m := len(q)
			if r.Chance(1, 3) && len(q) > 2*bs+4 {
				m = (1+r.Intn(len(q)/bs))*bs + []int{0, 0, 4, 1 + r.Intn(bs)}[r.Intn(4)]
				if m > len(q) {
					m = len(q)
				}
			}
			ops = append(ops, "w "+vh.Hex(q[:m]))
			q = q[m:]
		}
	} else {
		for _, s := range segment(r, p) {
			ops = append(ops, "w "+vh.Hex(s))
		}
	}
	ops = append(ops, "c")
	outLen := n + 4*((n+bs-1)/bs) + 16
	reads := func() {
		k := 1 + r.Intn(6)
		for i := 0; i < k; i++ {
			switch r.Intn(5) {
			case 0:
				ops = append(ops, fmt.Sprintf("r %d", r.Intn(3)))
			case 1:
				ops = append(ops, fmt.Sprintf("r %d", n+1+r.Intn(4)))
			case 2:
				ops = append(ops, fmt.Sprintf("r %d", bs-1+r.Intn(3)))
			default:
				ops = append(ops, fmt.Sprintf("r %d", r.Intn(2*bs+6)))
			}
		}
	}
	switch r.Intn(10) {
	case 0, 1, 2:
		ops = append(ops, fmt.Sprintf("f %d", r.Intn(8*outLen)))
	case 3:
		ops = append(ops, fmt.Sprintf("t %d", r.Intn(outLen+1)))
	case 4:
		reads()
		ops = append(ops, fmt.Sprintf("f %d", r.Intn(8*outLen)))
	}
	reads()
	ops = append(ops, fmt.Sprintf("r %d", n+5), "r 1", "r 0")
	if r.Chance(1, 20) {
		ops = append(ops, "c", "w 00")
	}
	return fmt.Sprintf("BW %d | %s", bs, strings.Join(ops, " ; "))
}

func chunking(r *vh.Rand, total int) []int {
	var out []int
	first := 1024
	switch r.Intn(6) {
	case 0:
		first = total
	case 1:
		first = 1024 + r.Intn(40)
	case 2:
		first = 1028 + r.Intn(10)
	case 3:
		if r.Chance(1, 3) {
			first = 1000 + r.Intn(24) // too small: panics
		}
	}
	out = append(out, first)
	left := total - first
	for left > 0 && len(out) < 12 {
		n := 1 + r.Intn(left)
		if r.Bool() {
			n = 1 + r.Intn(20)
		}
		out = append(out, n)
		left -= n
	}
	return out
}

func genSW(r *vh.Rand) string {
	ver := 2
	if r.Chance(1, 5) {
		ver = 1
	}
	comp := r.Intn(2)
	n := []int{0, 1, 2, 15, 16, 17, 40, 100, 200}[r.Intn(9)]
	if r.Bool() {
		n = r.Intn(120)
	}
	p := r.Bytes(n)
	var ops []string
	for _, s := range segment(r, p) {
		ops = append(ops, "w "+vh.Hex(s))
	}
	var reads []int
	for i := 0; i < 1+r.Intn(5); i++ {
		reads = append(reads, r.Intn(n+4))
	}
	reads = append(reads, n+1, 1)
	fsz := 1024 + n
	if ver == 2 {
		fsz += 16
		if n > 0 {
			fsz += 4
		}
	}
	return fmt.Sprintf("SW %d %d %s %s | %s", ver, comp, intsStr(reads), intsStr(chunking(r, fsz)), strings.Join(ops, " ; "))
}

// realFile runs the real writer
func realFile(ver, comp int, p []byte) []byte {
	fs := newFS()
	_, _, err := writeSnapshot(fs, ver, comp, [][]byte{p})
	must(err)
	return getFile(fs, fp)
}

// genRFFlips: every bit of the used header region and of the body, sampled padding bits
func genRFFlips(r *vh.Rand, f []byte, payloadLen int, all bool) []string {
	pad := headerPadStart(f)
	var bits []int
	for b := 0; b < 8*pad; b++ {
		bits = append(bits, b)
	}
	for i := 0; i < 24; i++ {
		bits = append(bits, 8*pad+r.Intn(8*(1024-pad)))
	}
	for b := 8 * 1024; b < 8*len(f); b++ {
		bits = append(bits, b)
	}
	if !all {
		var s []int
		for i := 0; i < 60; i++ {
			s = append(s, bits[r.Intn(len(bits))])
		}
		bits = s
	}
	var cases []string
	var ops []string
	flush := func() {
		if len(ops) > 0 {
			cases = append(cases, "RF | file "+vh.Hex(f)+" ; "+strings.Join(ops, " ; "))
			ops = nil
		}
	}
	for _, b := range bits {
		ops = append(ops, fmt.Sprintf("fo %d %d", b, payloadLen+r.Intn(2)))
		ch := chunking(r, len(f))
		if ch[0] < 1024 {
			ch[0] = 1024
		}
		ops = append(ops, fmt.Sprintf("fv %d %s", b, intsStr(ch)))
		if len(ops) >= 120 {
			flush()
		}
	}
	flush()
	return cases
}

// genRFTailSweep: every bit of the last 20 bytes of the file (last block CRC, tail length
// field, magic), each through the reader (whole payload +
// one more Read), the validator with the whole stream as one chunk and the validator with
// a chunking. Used for payload lengths whose last block is 2^k bytes on disk, where one
// tail length bit names another valid block boundary.
func genRFTailSweep(r *vh.Rand, f []byte, payloadLen int) []string {
	var cases []string
	var ops []string
	flush := func() {
		if len(ops) > 0 {
			cases = append(cases, "RF | file "+vh.Hex(f)+" ; "+strings.Join(ops, " ; "))
			ops = nil
		}
	}
	lo := 8 * (len(f) - 20) // the 16 byte tail and the CRC of the last block
	if lo < 8*1024 {
		lo = 8 * 1024
	}
	for b := lo; b < 8*len(f); b++ {
		ch := chunking(r, len(f))
		if ch[0] < 1024 {
			ch[0] = 1024
		}
		ops = append(ops, fmt.Sprintf("fo %d %d", b, payloadLen+1), fmt.Sprintf("fv %d %d", b, len(f)), fmt.Sprintf("fv %d %s", b, intsStr(ch)))
		if len(ops) >= 192 {
			flush()
		}
	}
	flush()
	return cases
}

func genRFTrunc(r *vh.Rand, f []byte, payloadLen int, all bool) []string {
	var lens []int
	for l := 1024; l < len(f); l++ {
		lens = append(lens, l)
	}
	for i := 0; i < 12; i++ {
		lens = append(lens, r.Intn(1024))
	}
	lens = append(lens, 0, 7, 8, 1023, len(f))
	if !all {
		var s []int
		for i := 0; i < 30; i++ {
			s = append(s, lens[r.Intn(len(lens))])
		}
		lens = s
	}
	var ops []string
	for _, l := range lens {
		ops = append(ops, fmt.Sprintf("to %d %d", l, payloadLen))
		ch := chunking(r, l)
		if r.Chance(3, 4) && ch[0] < 1024 {
			ch[0] = 1024
		}
		ops = append(ops, fmt.Sprintf("tv %d %s", l, intsStr(ch)))
	}
	return []string{"RF | file " + vh.Hex(f) + " ; " + strings.Join(ops, " ; ")}
}

func crcAppend(data []byte) []byte { return append(append([]byte{}, data...), crcBytes(data)...) }

// synthetic header blocks: valid layout around mutated protobuf bytes, with and without a
// stored CRC, so that the Unmarshal model (unknown fields, groups, overlong varints,
// wrong wire types) is compared on inputs that get past the checksum
func genRFHeader(r *vh.Rand) string {
	h := pb.SnapshotHeader{UnreliableTime: r.BiasedU64(), PayloadChecksum: []byte{0, 0, 0, 0},
		ChecksumType: pb.ChecksumType(r.Intn(2) * r.Intn(2)), Version: uint64([]int{2, 2, 2, 1, 0, 3}[r.Intn(6)]),
		CompressionType: pb.CompressionType(r.Intn(2))}
	if r.Chance(1, 4) {
		h.SessionSize, h.DataStoreSize = r.BiasedU64(), r.BiasedU64()
	}
	if r.Chance(1, 4) {
		h.GitVersion = "v" + fmt.Sprint(r.Intn(100))
	}
	if r.Chance(1, 4) {
		h.ChecksumType = pb.ChecksumType(int32(r.U64()))
	}
	data := pb.MustMarshal(&h)
	extra := func() []byte {
		switch r.Intn(10) {
		case 0: // unknown varint field
			return append([]byte{byte((10+r.Intn(5))<<3 | 0)}, []byte{0x96, 0x01}...)
		case 1: // unknown fixed64
			return append([]byte{byte(11<<3 | 1)}, r.Bytes(8)...)
		case 2: // unknown bytes
			n := r.Intn(5)
			return append([]byte{byte(12<<3 | 2), byte(n)}, r.Bytes(n)...)
		case 3: // group with a nested varint field, end group
			return []byte{byte(13<<3 | 3), byte(1<<3 | 0), 0x05, byte(13<<3 | 4)}
		case 4: // unknown fixed32
			return append([]byte{byte(14<<3 | 5)}, r.Bytes(4)...)
		case 5: // overlong varint value for Version
			return []byte{0x40, 0x82, 0x80, 0x80, 0x80, 0x80, 0x80, 0x80, 0x80, 0x80, 0x00}
		case 6: // wrong wire type for a known field
			return []byte{byte(8<<3 | 2), 0x01, 0x02}
		case 7: // truncated
			return []byte{byte(12<<3 | 2), 0x7f}
		case 8: // two-byte tag, large field number
			return []byte{0x80 | byte(r.Intn(8)), byte(1 + r.Intn(0x7f)), 0x01}
		default:
			return r.Bytes(1 + r.Intn(4))
		}
	}
	switch r.Intn(4) {
	case 0:
		data = append(data, extra()...)
	case 1:
		data = append(extra(), data...)
	case 2:
		i := r.Intn(len(data))
		data[i] ^= 1 << uint(r.Intn(8))
	}
	blk := make([]byte, 1024)
	sz := uint64(len(data))
	switch r.Intn(12) {
	case 0:
		sz = 1013 + uint64(r.Intn(4))
	case 1:
		sz = 1017 + uint64(r.Intn(3))
	case 2:
		sz = r.BiasedU64()
	}
	binary.LittleEndian.PutUint64(blk, sz)
	copy(blk[8:], data)
	if r.Chance(3, 4) {
		copy(blk[8+len(data):], crcBytes(data))
	}
	p := r.Bytes(r.Intn(12))
	body := p
	if h.Version != 1 {
		body = nil
		if len(p) > 0 {
			body = crcAppend(p)
		}
		tail := make([]byte, 8)
		binary.LittleEndian.PutUint64(tail, uint64(len(body)))
		body = append(append(body, tail...), 0x3F, 0x5B, 0xCB, 0xF1, 0xFA, 0xBA, 0x81, 0x9F)
	}
	f := append(blk, body...)
	if r.Chance(1, 10) {
		f = f[:r.Intn(len(f))]
	}
	ch := chunking(r, len(f))
	return fmt.Sprintf("RF | file %s ; rs %d,1 ; vs %s ; sh ; sk", vh.Hex(f), len(p), intsStr(ch))
}

func gen(a vh.Args) {
	r := vh.NewRand(a.Seed)
	out := vh.Create(a.Cases)
	id := 0
	emit := func(s string) {
		id++
		out.Printf("c%d %s\n", id, s)
	}
	nBW, nSW, nHdr := 400, 80, 150
	allFlips := 2
	if a.Tier == "thorough" {
		nBW, nSW, nHdr = 6000, 1000, 3000
		allFlips = 8
	}
	if a.N > 0 {
		nBW, nSW, nHdr = a.N, a.N/4+1, a.N/2+1
	}
	for i := 0; i < nBW; i++ {
		emit(genBW(r))
	}
	for i := 0; i < nSW; i++ {
		emit(genSW(r))
	}
	// file images from the real writer: everything about them, every bit of the small ones
	type fc struct{ ver, comp, n int }
	files := []fc{{2, 0, 20}, {2, 1, 5}, {2, 0, 0}, {1, 0, 9}, {2, 0, 1}, {2, 1, 33}, {1, 1, 0}, {2, 0, 64}}
	for i, c := range files {
		p := r.Bytes(c.n)
		f := realFile(c.ver, c.comp, p)
		emit(fmt.Sprintf("RF | file %s ; rs %d,1 ; rs 3,0,%d,1,1 ; vs %s ; vs %d ; sh ; sk", vh.Hex(f), c.n, c.n+2, intsStr(chunking(r, len(f))), len(f)))
		for _, s := range genRFFlips(r, f, c.n, i < allFlips) {
			emit(s)
		}
		for _, s := range genRFTrunc(r, f, c.n, i < allFlips) {
			emit(s)
		}
	}
	// exact reads: the consumer reads exactly what it stored and closes, no EOF probe.
	// every payload bit of version 1 files (checked in Close only) and of a version 2 file
	for _, c := range []fc{{1, 0, 12}, {1, 1, 6}, {2, 0, 12}} {
		f := realFile(c.ver, c.comp, r.Bytes(c.n))
		pieces := []string{fmt.Sprint(c.n), fmt.Sprintf("%d,%d", c.n/2, c.n/2), fmt.Sprintf("%d,%d,%d", c.n/3, c.n/3, c.n/3),
			strings.TrimSuffix(strings.Repeat("1,", c.n), ","), fmt.Sprintf("%d,%d", 1, c.n-1), fmt.Sprintf("%d,0,%d", c.n-1, 1)}
		var ops []string
		for _, ps := range pieces {
			ops = append(ops, "rs "+ps)
		}
		for b := 8 * 1024; b < 8*len(f); b++ {
			ops = append(ops, fmt.Sprintf("fx %d %s", b, pieces[r.Intn(len(pieces))]))
			if c.ver == 1 && r.Chance(1, 3) {
				ops = append(ops, fmt.Sprintf("fx %d %s", b, pieces[r.Intn(len(pieces))]))
			}
		}
		emit("RF | file " + vh.Hex(f) + " ; " + strings.Join(ops, " ; "))
	}
	// tail sweep: payload lengths 2^k-4 (last block 2^k bytes on disk) and neighbours
	tails := []int{0, 12, 28, 60, 124, 13}
	if a.Tier == "thorough" {
		tails = append(tails, 4, 11, 61, 252, 508, 1020, 2044, 4092, 59, 1021)
	}
	for _, n := range tails {
		for _, s := range genRFTailSweep(r, realFile(2, 0, r.Bytes(n)), n) {
			emit(s)
		}
	}
	// a shrunk file, and shrinking it again
	{
		fs := newFS()
		putFile(fs, fp, realFile(2, 1, r.Bytes(50)))
		must(c14ShrinkTo(fs))
		f := getFile(fs, dir+"/shrunk.tmp")
		emit(fmt.Sprintf("RF | file %s ; sh ; rs 16,1 ; rs 8,8,1 ; vs %d ; sk", vh.Hex(f), len(f)))
	}
	for i := 0; i < nHdr; i++ {
		emit(genRFHeader(r))
	}
	// real block size, multi-block (monitor only)
	bsz := int(c14.BlockSize())
	// bsz+60, 2*bsz+1020: the last block is 2^k bytes on disk (tail bit sweep in runBG)
	bg := [][]int{{bsz + 60, bsz + 100}, {2*bsz + bsz/2 + 7, 4 * bsz}, {2*bsz + 4, bsz, bsz + 4}, {2*bsz + 1020, 1000, 4 * bsz}, {3 * bsz, 1000, 4 * bsz}, {bsz + 100, bsz + 100}}
	if a.Tier != "thorough" {
		bg = bg[:4]
	}
	for _, c := range bg {
		emit(fmt.Sprintf("BG %d %d %s", r.U64()>>1, c[0], intsStr(c[1:])))
	}
	// pb.Snapshot.Validate: main file and external files shorter / equal / longer than
	// recorded, missing, zero sized, without a path
	{
		one := func() string {
			rec := []int{1040, 1, 16, 1044, 4096, 70000, 1 + r.Intn(5000)}[r.Intn(7)]
			act := rec
			switch r.Intn(12) {
			case 0:
				act = rec + 1
			case 1:
				act = rec - 1
			case 2:
				act = rec + 1 + r.Intn(5000)
			case 3:
				act = r.Intn(rec)
			case 4:
				act = 2 * rec
			}
			hp, a := 1, fmt.Sprint(act)
			switch r.Intn(40) {
			case 0:
				hp = 0
			case 1:
				a = "-"
			case 2:
				rec, a = 0, "0"
			}
			return fmt.Sprintf("f %d %d %s", hp, rec, a)
		}
		npv := 150
		if a.Tier == "thorough" {
			npv = 3000
		}
		for i := 0; i < npv; i++ {
			var ops []string
			for k := 0; k < 1+r.Intn(4)*r.Intn(2)+r.Intn(2); k++ {
				ops = append(ops, one())
			}
			emit("PV | " + strings.Join(ops, " ; "))
		}
		// every single deviation around an otherwise exact record, main and external
		for _, d := range []int{-1, 1, -1040, 1040, 12345} {
			emit(fmt.Sprintf("PV | f 1 1040 %d", 1040+d))
			emit(fmt.Sprintf("PV | f 1 1040 1040 ; f 1 500 %d", max(500+d, 0)))
			emit(fmt.Sprintf("PV | f 1 1040 1040 ; f 1 500 500 ; f 1 9 9 ; f 1 77 %d", max(77+d, 0)))
		}
		emit("PV | f 1 1040 1040 ; f 1 500 500")
	}
	// stream validator: payload lengths at every boundary of the block size, each against
	// every structural chunk cut (runVS)
	{
		deltas := []int{0, 1, -1, 4, -4, 16, -16, 20, -20}
		var lens []int
		for _, d := range deltas {
			lens = append(lens, bsz+d)
		}
		for _, d := range []int{0, -16, -4, 1} {
			lens = append(lens, 2*bsz+d)
		}
		lens = append(lens, 0, 1, 12, bsz/2)
		if a.Tier == "thorough" {
			for _, d := range deltas {
				lens = append(lens, 2*bsz+d, 3*bsz+d)
			}
			for i := 0; i < 20; i++ {
				lens = append(lens, r.Intn(3*bsz))
			}
		}
		for _, n := range lens {
			if n >= 0 {
				emit(fmt.Sprintf("VS %d %d", r.U64()>>1, n))
			}
		}
	}
	// compression chain (monitor only): the PATTERN of Write sizes is the dimension, for
	// every compression type: sessions then image, many small, small-then-huge,
	// huge-then-small, around the 64 KB snappy frame, across the 2 MB block
	g := func(n int) string { return fmt.Sprintf("g %d %d %d", r.U64()>>1, n, r.Intn(3)) }
	for _, comp := range []int{0, 1} {
		for _, n := range []int{0, 1, 40, 700} {
			p := r.Bytes(n)
			if n > 100 {
				for i := range p {
					p[i] = byte(i / 7) // compressible
				}
			}
			var ops []string
			for _, s := range segment(r, p) {
				ops = append(ops, "w "+vh.Hex(s))
			}
			emit(fmt.Sprintf("CZ %d | %s", comp, strings.Join(ops, " ; ")))
		}
		pats := [][]string{
			{"s", g(100000)},                                   // session table, then a huge image
			{g(100000), "s", g(7)},                             // huge then small
			{"s", g(65535), g(3), g(65536), g(5), g(65537), g(1)}, // around the frame size
			{g(65536)},
			{g(10), g(65536), g(65536), g(10)},
			{"s", g(3), g(bsz + 70000), g(5)}, // across the block size
		}
		var small []string
		for i := 0; i < 150; i++ {
			small = append(small, g(1+r.Intn(300)))
		}
		pats = append(pats, append(append([]string{"s"}, small...), g(70000+r.Intn(100000)), g(2)))
		nrand := 4
		if a.Tier == "thorough" {
			nrand = 60
			pats = append(pats, []string{"s", g(2*bsz + 5), g(65536), g(1)}, []string{g(bsz - 1), g(bsz + 1), g(65537)})
		}
		for i := 0; i < nrand; i++ {
			var ops []string
			for k := 0; k < 2+r.Intn(7); k++ {
				switch r.Intn(6) {
				case 0:
					ops = append(ops, "s")
				case 1:
					ops = append(ops, g(65535+r.Intn(3)))
				case 2:
					ops = append(ops, g(65536+r.Intn(200000)))
				case 3:
					ops = append(ops, g(r.Intn(65536)))
				default:
					ops = append(ops, g(r.Intn(200)))
				}
			}
			pats = append(pats, ops)
		}
		for _, ops := range pats {
			emit(fmt.Sprintf("CZ %d | %s", comp, strings.Join(ops, " ; ")))
		}
	}
	out.Close()
}

func c14ShrinkTo(fs c14.IFS) error {
	return c14.ShrinkSnapshot(fp, dir+"/shrunk.tmp", fs)
}
