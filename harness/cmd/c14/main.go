// C14 harness: snapshot file format of /repo (internal/rsm/snapshotio.go, rwv.go)
// versus the Coq model, plus the property monitor.
//
// case kinds (one per line, "<id> <head> | op ; op ; ..."):
//
//	BW <bs>                      block writer / block reader with a small block size
//	   ops: w <hex> | c | r <n> | f <bit> | t <len>
//	SW <ver> <comp> <reads> <chunks>   SnapshotWriter at the real block size, then
//	   read back / validate the produced file;  ops: w <hex>
//	RF                           operations on a given file image
//	   ops: file <hex> | rs <reads> | vs <chunks> | fo <bit> <n> | fx <bit> <reads> | fv <bit> <chunks>
//	        | to <len> <n> | tv <len> <chunks> | sh | sk
//	CZ <comp>                    compressor chain at the snapshotter level, monitor only
//	   ops: w <hex> | s | g <seed> <len> <kind>
//	BG <seed> <len> <segsizes>   real 2 MB block size, multi-megabyte payload, monitor only
//	PV                           pb.Snapshot.Validate: recorded sizes vs files; ops: f <haspath> <recorded> <actual|->
//	VS <seed> <len>              stream validator: payload length x structural chunk cuts, monitor only
package main

import (
	"bytes"
	"encoding/binary"
	"fmt"
	"hash/crc32"
	"io"
	"runtime/debug"
	"strconv"
	"strings"

	pb "github.com/lni/dragonboat/v4/raftpb"
	c14 "github.com/lni/dragonboat/v4/verifhooks/c14"
	"verif/harness/vh"
)

const dir = "/c14"
const fp = "/c14/snapshot.gbsnap"

func must(err error) {
	if err != nil {
		panic(err)
	}
}

var sharedFS c14.IFS

// newFS: one in-memory file system per process; every use overwrites its files (Create
// truncates) and closes them again
func newFS() c14.IFS {
	if sharedFS == nil {
		sharedFS = c14.NewMem()
		must(sharedFS.MkdirAll(dir, 0755))
	}
	return sharedFS
}

func putFile(fs c14.IFS, name string, data []byte) {
	f, err := fs.Create(name)
	must(err)
	if len(data) > 0 {
		_, err = f.Write(data)
		must(err)
	}
	must(f.Sync())
	must(f.Close())
}

func getFile(fs c14.IFS, name string) []byte {
	f, err := fs.Open(name)
	must(err)
	defer f.Close()
	b, err := io.ReadAll(f)
	must(err)
	return b
}

func ints(s string) []int {
	if s == "-" || s == "" {
		return nil
	}
	var out []int
	for _, x := range strings.Split(s, ",") {
		v, err := strconv.Atoi(x)
		must(err)
		out = append(out, v)
	}
	return out
}

func intsStr(v []int) string {
	if len(v) == 0 {
		return "-"
	}
	s := make([]string, len(v))
	for i, x := range v {
		s[i] = strconv.Itoa(x)
	}
	return strings.Join(s, ",")
}

func crcBytes(b []byte) []byte {
	var out [4]byte
	binary.BigEndian.PutUint32(out[:], crc32.ChecksumIEEE(b))
	return out[:]
}

// ---------------------------------------------------------------- canonical header

func canonHeader(blk []byte) string {
	raw := "RAW:" + vh.Hex(blk)
	if len(blk) != 1024 {
		return raw
	}
	sz := int(binary.LittleEndian.Uint64(blk[:8]))
	if binary.LittleEndian.Uint64(blk[:8]) > 1012 || sz < 20 {
		return raw
	}
	data := blk[8 : 8+sz]
	crc := blk[8+sz : 12+sz]
	pad := blk[12+sz:]
	if vh.Hex(data[:5]) != "0800100018" {
		return raw
	}
	tl := 0
	for i := 5; i < len(data); i++ {
		tl++
		if data[i] < 0x80 {
			break
		}
	}
	if 13+tl > len(data) || vh.Hex(data[5+tl:9+tl]) != "22002a04" {
		return raw
	}
	hcrc := data[9+tl : 13+tl]
	post := data[13+tl:]
	without := append(append([]byte{}, data[:7+tl]...), post...)
	hok := "0"
	if bytes.Equal(crcBytes(without), hcrc) {
		hok = "1"
	}
	cok := "0:" + vh.Hex(crc)
	if bytes.Equal(crcBytes(data), crc) {
		cok = "1"
	}
	z := "1"
	for _, b := range pad {
		if b != 0 {
			z = "0"
		}
	}
	return fmt.Sprintf("len:%d:%sT%sH%s%s|C%s|Z%s", sz-tl, vh.Hex(data[:5]), vh.Hex(data[5+tl:9+tl]), hok, vh.Hex(post), cok, z)
}

// ---------------------------------------------------------------- read sessions

type session struct {
	str      string // observation
	opened   bool
	failed   bool   // error / panic anywhere (open, read, close)
	data     []byte // bytes handed out before any failure
	ver      uint64
	comp     int32
	complete bool // open ok, no panic, close ok
}

// readSession opens file image f with the real SnapshotReader, performs the reads, closes.
func readSession(f []byte, reads []int) session {
	fs := newFS()
	putFile(fs, fp, f)
	var s session
	var r *c14.SnapshotReader
	var h pb.SnapshotHeader
	var err error
	if p := vh.Catch(func() { r, h, err = c14.NewSnapshotReader(fp, fs) }); p != "" {
		s.str, s.failed = "P", true
		return s
	}
	if err != nil {
		s.str, s.failed = "E", true
		return s
	}
	s.opened = true
	s.ver, s.comp = h.Version, int32(h.CompressionType)
	pc := "nil"
	if h.PayloadChecksum != nil {
		pc = vh.Hex(h.PayloadChecksum)
	}
	var b strings.Builder
	fmt.Fprintf(&b, "OK(%d,%d,%d,%s)", h.Version, uint32(h.ChecksumType), uint32(h.CompressionType), pc)
	for _, n := range reads {
		buf := make([]byte, n)
		var k int
		var rerr error
		if p := vh.Catch(func() { k, rerr = r.Read(buf) }); p != "" {
			b.WriteString(",P")
			s.str, s.failed = b.String(), true
			return s
		}
		s.data = append(s.data, buf[:k]...)
		if rerr == io.EOF {
			b.WriteString(",E" + vh.Hex(buf[:k]))
		} else if rerr != nil {
			b.WriteString(",ERR")
			s.failed = true
		} else {
			b.WriteString(",D" + vh.Hex(buf[:k]))
		}
	}
	var cerr error
	if p := vh.Catch(func() { cerr = r.Close() }); p != "" {
		b.WriteString(",X")
		s.str, s.failed = b.String(), true
		return s
	}
	if cerr != nil {
		b.WriteString(",XE")
		s.failed = true
	} else {
		b.WriteString(",x")
	}
	s.str = b.String()
	s.complete = !s.failed
	return s
}

func splitChunks(f []byte, sizes []int) [][]byte {
	var out [][]byte
	for _, n := range sizes {
		if len(f) == 0 {
			return out
		}
		if n > len(f) {
			n = len(f)
		}
		out = append(out, append(make([]byte, 0, n), f[:n]...)) // cap == len
		f = f[n:]
	}
	if len(f) > 0 {
		out = append(out, append(make([]byte, 0, len(f)), f...))
	}
	return out
}

// verdict feeds the chunks to the real SnapshotValidator: A accept, R reject, P panic
func verdict(f []byte, sizes []int) string {
	v := c14.NewSnapshotValidator()
	res := "R"
	if p := vh.Catch(func() {
		for i, c := range splitChunks(f, sizes) {
			if !v.AddChunk(c, uint64(i)) {
				return
			}
		}
		if v.Validate() {
			res = "A"
		}
	}); p != "" {
		return "P"
	}
	return res
}

func flip(f []byte, bit int) []byte {
	if bit < 0 || bit >= 8*len(f) {
		return nil
	}
	g := append([]byte{}, f...)
	g[bit/8] ^= 1 << uint(bit%8)
	return g
}

func shrunkStr(f []byte) string {
	fs := newFS()
	putFile(fs, fp, f)
	var ok bool
	var err error
	if p := vh.Catch(func() { ok, err = c14.IsShrunkSnapshotFile(fp, fs) }); p != "" {
		return "P"
	}
	if err != nil {
		return "E"
	}
	if ok {
		return "1"
	}
	return "0"
}

// headerPadStart returns the offset of the unused zero padding of the header block
func headerPadStart(f []byte) int {
	if len(f) < 1024 {
		return 1024
	}
	sz := binary.LittleEndian.Uint64(f[:8])
	if sz > 1012 {
		return 1024
	}
	return int(12 + sz)
}

// ---------------------------------------------------------------- caller buffers

// backing lays all write segments of a case out in ONE array (followed by a few spare
// bytes) and keeps an immutable reference copy. Every Write gets the sub-slice of its
// segment, so cap > len and the bytes after it are the next payload bytes - what a state
// machine writing pieces of one large buffer does. unchanged() is the io.Writer contract
// "Write must not modify the slice data, even temporarily".
type backing struct {
	buf, ref []byte
	off      int
}

func newBacking(ops []string) *backing {
	b := &backing{}
	for _, op := range ops {
		f := strings.Fields(op)
		if len(f) == 2 && f[0] == "w" {
			b.buf = append(b.buf, vh.UnHex(f[1])...)
		}
	}
	for i := 0; i < 16; i++ {
		b.buf = append(b.buf, byte(0xA5+i))
	}
	b.buf = append(make([]byte, 0, len(b.buf)+32), b.buf...)
	b.ref = append([]byte{}, b.buf...)
	return b
}

// next returns the caller's slice for a segment of n bytes and its reference copy
func (b *backing) next(n int) (seg []byte, ref []byte) {
	seg, ref = b.buf[b.off:b.off+n], b.ref[b.off:b.off+n]
	b.off += n
	return
}

func (b *backing) unchanged() bool { return bytes.Equal(b.buf, b.ref) }

func (b *backing) firstDiff() int {
	for i := range b.ref {
		if b.buf[i] != b.ref[i] {
			return i
		}
	}
	return -1
}

// ---------------------------------------------------------------- BW

type sliceReader struct{ r *bytes.Reader }

func (s *sliceReader) Read(p []byte) (int, error) { return s.r.Read(p) }

func runBW(id string, bs int, ops []string, st *vh.Stats) string {
	var out []byte
	var cur []byte
	have := false
	// the callback is the one newV2Writer installs: fw.Write(append(data, crc...))
	var fw bytes.Buffer
	bw := c14.NewBlockWriter(uint64(bs), func(data []byte, crc []byte) error {
		_, err := fw.Write(append(data, crc...))
		out = fw.Bytes()
		return err
	}, pb.CRC32IEEE)
	back := newBacking(ops)
	var rd io.Reader
	mk := func() {
		n := len(cur) - 16
		if n < 0 {
			n = 0
		}
		rd = c14.NewBlockReader(&sliceReader{bytes.NewReader(cur[:n])}, uint64(bs))
	}
	var payload, got []byte
	clean := true // no flip / truncation so far: the monitor's round trip applies
	eof := false
	monOff := false
	var toks []string
	for _, op := range ops {
		f := strings.Fields(op)
		if len(f) == 0 {
			continue
		}
		switch f[0] {
		case "w":
			d, dref := back.next(len(vh.UnHex(f[1])))
			if p := vh.Catch(func() { _, err := bw.Write(d); must(err) }); p != "" {
				toks = append(toks, "wP")
			} else {
				toks = append(toks, "w")
				payload = append(payload, dref...) // immutable reference, not the caller's slice
			}
			if !back.unchanged() {
				st.Violation(id, fmt.Sprintf("writer-clobbers-caller: Write(%d bytes, block size %d) modified the caller's buffer at offset %d", len(d), bs, back.firstDiff()))
				copy(back.buf, back.ref)
			}
			if len(d) >= bs+4 {
				st.Count("bw-write-ge-block")
			}
			st.Count("bw-write")
		case "c":
			if p := vh.Catch(func() { must(bw.Close()) }); p != "" {
				toks = append(toks, "cP")
			} else {
				cur = append([]byte{}, out...)
				have = true
				mk()
				got, eof = nil, false
				toks = append(toks, "c:"+vh.Hex(cur)+":"+vh.Hex(bw.GetPayloadChecksum()))
				if want := c14.GetV2PayloadSize(uint64(len(payload)), uint64(bs)); want != uint64(len(cur)) {
					st.Violation(id, fmt.Sprintf("size: getV2PayloadSize(%d,%d)=%d but the writer produced %d bytes", len(payload), bs, want, len(cur)))
				}
			}
			st.Count("bw-close")
		case "r":
			if rd == nil {
				toks = append(toks, "-")
				continue
			}
			n, _ := strconv.Atoi(f[1])
			buf := make([]byte, n)
			var k int
			var err error
			if p := vh.Catch(func() { k, err = rd.Read(buf) }); p != "" {
				toks = append(toks, "P")
				rd = nil
				st.Count("bw-read-panic")
				continue
			}
			if eof && k > 0 {
				st.Violation(id, fmt.Sprintf("roundtrip: Read returned %d bytes (%s) after it had reported EOF", k, vh.Hex(buf[:k])))
			}
			got = append(got, buf[:k]...)
			if err == io.EOF {
				toks = append(toks, "E"+vh.Hex(buf[:k]))
				eof = true
			} else if err != nil {
				toks = append(toks, "ERR")
			} else {
				toks = append(toks, "D"+vh.Hex(buf[:k]))
			}
			// monitor: whatever is handed out is a prefix of what was written
			if !monOff && !bytes.HasPrefix(payload, got) {
				if clean {
					st.Violation(id, fmt.Sprintf("roundtrip: read back %s is not a prefix of the written %s", vh.Hex(got), vh.Hex(payload)))
				} else {
					st.Violation(id, fmt.Sprintf("corruption: modified block file handed out %s, written was %s", vh.Hex(got), vh.Hex(payload)))
				}
			}
			if !monOff && clean && err == io.EOF && !bytes.Equal(got, payload) {
				st.Violation(id, fmt.Sprintf("roundtrip: EOF after %d of %d bytes", len(got), len(payload)))
			}
			st.Count("bw-read")
		case "f":
			b, _ := strconv.Atoi(f[1])
			if !have || flip(cur, b) == nil {
				toks = append(toks, "-")
				continue
			}
			cur = flip(cur, b)
			mk()
			got, eof, clean = nil, false, false
			toks = append(toks, "f")
			st.Count("bw-flip")
		case "t":
			n, _ := strconv.Atoi(f[1])
			if !have || n > len(cur) {
				toks = append(toks, "-")
				continue
			}
			cur = cur[:n]
			mk()
			got, eof, clean = nil, false, false
			// truncation is not covered by the file-level property (only by the stream
			// validator): no monitor on what is read afterwards
			monOff = true
			toks = append(toks, "t")
			st.Count("bw-trunc")
		default:
			toks = append(toks, "?")
		}
	}
	return fmt.Sprintf("%s BW %s", id, strings.Join(toks, " "))
}

// ---------------------------------------------------------------- SW

// lastClobber: offset at which the last writeSnapshot found the caller's buffer modified
var lastClobber = -1

func writeSnapshot(fs c14.IFS, ver int, comp int, segsIn [][]byte) (w *c14.SnapshotWriter, total int, err error) {
	// segments as sub-slices of one backing array (cap > len), checked afterwards
	var ops []string
	for _, s := range segsIn {
		ops = append(ops, "w "+vh.Hex(s))
	}
	back := newBacking(ops)
	var segs [][]byte
	for _, s := range segsIn {
		seg, _ := back.next(len(s))
		segs = append(segs, seg)
	}
	lastClobber = -1
	defer func() {
		if !back.unchanged() {
			lastClobber = back.firstDiff()
		}
	}()
	if ver == 2 {
		w, err = c14.NewSnapshotWriter(fp, pb.CompressionType(comp), fs)
	} else {
		w, err = c14.NewVersionedSnapshotWriter(fp, uint64(ver), pb.CompressionType(comp), fs)
	}
	if err != nil {
		return nil, 0, err
	}
	for _, s := range segs {
		n, err := w.Write(s)
		if err != nil {
			return nil, 0, err
		}
		total += n
	}
	return w, total, w.Close()
}

func runSW(id string, ver, comp int, reads, sizes []int, ops []string, st *vh.Stats) string {
	var segs [][]byte
	var payload []byte
	for _, op := range ops {
		f := strings.Fields(op)
		if len(f) == 2 && f[0] == "w" {
			segs = append(segs, vh.UnHex(f[1]))
			payload = append(payload, vh.UnHex(f[1])...)
		}
	}
	fs := newFS()
	var w *c14.SnapshotWriter
	var total int
	var err error
	if p := vh.Catch(func() { w, total, err = writeSnapshot(fs, ver, comp, segs) }); p != "" || err != nil {
		return fmt.Sprintf("%s SW P", id)
	}
	if lastClobber >= 0 {
		st.Violation(id, fmt.Sprintf("writer-clobbers-caller: SnapshotWriter.Write modified the caller's buffer at offset %d", lastClobber))
	}
	f := getFile(fs, fp)
	pcrc := w.GetPayloadChecksum()
	psize := w.GetPayloadSize(uint64(total))
	fsum := ""
	var sum []byte
	if p := vh.Catch(func() { sum, err = c14.GetV2PayloadChecksum(fp, fs) }); p != "" {
		fsum = "P"
	} else if err != nil {
		fsum = "E"
	} else {
		fsum = vh.Hex(sum)
	}
	rs := readSession(f, reads)
	v := verdict(f, sizes)
	// ---- monitor
	if psize+1024 != uint64(len(f)) {
		st.Violation(id, fmt.Sprintf("size: recorded size %d+1024 but the file has %d bytes", psize, len(f)))
	}
	if ver == 2 && len(payload) > 0 && fsum != vh.Hex(pcrc) {
		st.Violation(id, fmt.Sprintf("checksum: recorded %s, file gives %s", vh.Hex(pcrc), fsum))
	}
	if !bytes.HasPrefix(payload, rs.data) || rs.failed {
		st.Violation(id, fmt.Sprintf("roundtrip: session %s on a freshly written file (payload %s)", rs.str, vh.Hex(payload)))
	}
	all := readSession(f, []int{len(payload) + 1, 1})
	if !all.complete || !bytes.Equal(all.data, payload) || int(all.ver) != ver || int(all.comp) != comp {
		st.Violation(id, fmt.Sprintf("roundtrip: full read gives %s, written %s", all.str, vh.Hex(payload)))
	}
	if len(sizes) > 0 && sizes[0] >= 1024 && v != "A" {
		st.Violation(id, fmt.Sprintf("validator: writer output refused (%s) with chunking %v", v, sizes))
	}
	st.Count(fmt.Sprintf("sw-v%d-comp%d", ver, comp))
	return fmt.Sprintf("%s SW hdr=%s body=%s pcrc=%s psize=%d fsize=%d fsum=%s rd=%s v=%s", id,
		canonHeader(f[:1024]), vh.Hex(f[1024:]), vh.Hex(pcrc), psize, len(f), fsum, rs.str, v)
}

// ---------------------------------------------------------------- RF

// genuine reports whether the image is what a writer produces (opens, reads, closes, validates)
type baseInfo struct {
	genuine bool
	full    session
	pad     int
	orig    map[string]session // sessions on the unmodified image, by read sizes
}

func baseOf(f []byte) baseInfo {
	full := readSession(f, []int{len(f) + 1, 1})
	ok := full.complete && verdict(f, []int{len(f)}) == "A"
	return baseInfo{genuine: ok, full: full, pad: headerPadStart(f), orig: map[string]session{}}
}

// monitor for a modified image: the session either fails or hands out exactly what the
// original hands out (same bytes, same format version and compression type)
func checkModified(id, what string, bit int, base baseInfo, f []byte, reads []int, s session, st *vh.Stats) {
	if !base.genuine {
		return
	}
	if bit >= 0 && bit < 64 {
		what = "header-length-escape: " + what
	}
	orig := readSession(f, reads)
	// format version 1 verifies the payload checksum in Close only (panic): bytes handed
	// out before that failure are not compared
	v1 := orig.ver == 1 && s.ver == 1
	if !bytes.HasPrefix(orig.data, s.data) && !(v1 && s.failed) {
		st.Violation(id, fmt.Sprintf("corruption: %s: reader handed out %s, original %s (session %s)", what, vh.Hex(s.data), vh.Hex(orig.data), s.str))
		return
	}
	if s.complete && (!bytes.Equal(orig.data, s.data) || s.ver != orig.ver || s.comp != orig.comp) {
		st.Violation(id, fmt.Sprintf("corruption: %s: accepted without any failure but differs from the original: %s vs %s", what, s.str, orig.str))
	}
}

func runRF(id string, ops []string, st *vh.Stats) string {
	var file []byte
	have := false
	var base baseInfo
	var toks []string
	for _, op := range ops {
		f := strings.Fields(op)
		if len(f) == 0 {
			continue
		}
		if f[0] == "file" {
			file = vh.UnHex(f[1])
			have = true
			base = baseOf(file)
			toks = append(toks, "file")
			if base.genuine {
				st.Count("rf-genuine-file")
			} else {
				st.Count("rf-other-file")
			}
			continue
		}
		if !have {
			toks = append(toks, "-")
			continue
		}
		switch f[0] {
		case "rs":
			toks = append(toks, "rs:"+readSession(file, ints(f[1])).str)
			st.Count("rf-read")
		case "vs":
			toks = append(toks, "vs:"+verdict(file, ints(f[1])))
			st.Count("rf-validate")
		case "fo":
			b, _ := strconv.Atoi(f[1])
			n, _ := strconv.Atoi(f[2])
			g := flip(file, b)
			if g == nil {
				toks = append(toks, "-")
				continue
			}
			s := readSession(g, []int{n, 1})
			toks = append(toks, "fo:"+s.str)
			checkModified(id, fmt.Sprintf("bit %d flipped", b), b, base, file, []int{n, 1}, s, st)
			st.Count("rf-flip-read")
			if s.failed {
				st.Count("rf-flip-read-detected")
			}
		case "fx":
			// flipped copy, exactly the given reads (no extra Read probing for EOF), Close
			b, _ := strconv.Atoi(f[1])
			g := flip(file, b)
			if g == nil {
				toks = append(toks, "-")
				continue
			}
			s := readSession(g, ints(f[2]))
			toks = append(toks, "fx:"+s.str)
			checkModified(id, fmt.Sprintf("bit %d flipped, reads %s then Close", b, f[2]), b, base, file, ints(f[2]), s, st)
			st.Count("rf-flip-read-exact")
			if s.failed {
				st.Count("rf-flip-read-detected")
			}
		case "fv":
			b, _ := strconv.Atoi(f[1])
			g := flip(file, b)
			if g == nil {
				toks = append(toks, "-")
				continue
			}
			v := verdict(g, ints(f[2]))
			toks = append(toks, "fv:"+v)
			if base.genuine && v == "A" && !(b/8 >= base.pad && b/8 < 1024) {
				tag := ""
				if b < 64 {
					tag = "header-length-escape: "
				}
				st.Violation(id, fmt.Sprintf("validator: %sstream with bit %d flipped accepted (chunking %s)", tag, b, f[2]))
			}
			st.Count("rf-flip-validate")
		case "to":
			l, _ := strconv.Atoi(f[1])
			n, _ := strconv.Atoi(f[2])
			if l > len(file) {
				toks = append(toks, "-")
				continue
			}
			toks = append(toks, "to:"+readSession(file[:l], []int{n, 1}).str)
			st.Count("rf-trunc-read")
		case "tv":
			l, _ := strconv.Atoi(f[1])
			if l > len(file) {
				toks = append(toks, "-")
				continue
			}
			v := verdict(file[:l], ints(f[2]))
			toks = append(toks, "tv:"+v)
			if base.genuine && v == "A" && l < len(file) {
				st.Violation(id, fmt.Sprintf("validator: stream cut to %d of %d bytes accepted (chunking %s)", l, len(file), f[2]))
			}
			st.Count("rf-trunc-validate")
		case "sh":
			toks = append(toks, "sh:"+shrunkStr(file))
			st.Count("rf-isshrunk")
		case "sk":
			fs := newFS()
			putFile(fs, fp, file)
			nfp := dir + "/shrunk.tmp"
			var err error
			if p := vh.Catch(func() { err = c14.ShrinkSnapshot(fp, nfp, fs) }); p != "" {
				toks = append(toks, "sk:P")
			} else if err != nil {
				toks = append(toks, "sk:E")
			} else {
				nf := getFile(fs, nfp)
				s := readSession(nf, []int{16, 1})
				sh := shrunkStr(nf)
				toks = append(toks, fmt.Sprintf("sk:%s:%s:%s:%s", canonHeader(nf[:1024]), vh.Hex(nf[1024:]), sh, s.str))
				if sh != "1" || !s.complete || !bytes.Equal(s.data, c14.GetEmptyLRUSession()) || verdict(nf, []int{len(nf)}) != "A" {
					st.Violation(id, fmt.Sprintf("shrink: shrunk file not loadable as an empty snapshot: shrunk=%s session=%s", sh, s.str))
				}
				if d, failed := loadVia(nf); failed || !bytes.Equal(d, c14.GetEmptyLRUSession()) {
					st.Violation(id, fmt.Sprintf("shrink: the shrunk snapshot does not load as the empty payload through the decompressor its header names (compression type %d): loaded %s failed=%v", s.comp, vh.Hex(d), failed))
				}
			}
			st.Count("rf-shrink")
		default:
			toks = append(toks, "?")
		}
	}
	return fmt.Sprintf("%s RF %s", id, strings.Join(toks, " "))
}

// loadVia reads a file image the way snapshotter.Load does: SnapshotReader, then the
// decompressor named by the file's own header, to the end, Close.
func loadVia(img []byte) (data []byte, failed bool) {
	lfs := newFS()
	putFile(lfs, fp, img)
	p := vh.Catch(func() {
		r, h, err := c14.NewSnapshotReader(fp, lfs)
		if err != nil {
			failed = true
			return
		}
		cr := c14.NewDecompressor(h.CompressionType, r)
		d, err := io.ReadAll(cr)
		data = d
		if err != nil {
			failed = true
		}
		if err := cr.Close(); err != nil {
			failed = true
		}
	})
	if p != "" {
		failed = true
	}
	return
}

// shrinkLoads: ShrinkSnapshot on the image, then the shrunk file must load (header
// selected decompressor) as exactly the empty session table and be reported as shrunk
func shrinkLoads(id, what string, img []byte, st *vh.Stats) {
	fs := newFS()
	putFile(fs, fp, img)
	nfp := dir + "/shrunk.tmp"
	var err error
	if p := vh.Catch(func() { err = c14.ShrinkSnapshot(fp, nfp, fs) }); p != "" || err != nil {
		st.Violation(id, fmt.Sprintf("shrink: %s: ShrinkSnapshot failed (%v %s)", what, err, p))
		return
	}
	nf := getFile(fs, nfp)
	d, failed := loadVia(nf)
	if failed || !bytes.Equal(d, c14.GetEmptyLRUSession()) || shrunkStr(nf) != "1" {
		st.Violation(id, fmt.Sprintf("shrink: %s: the shrunk snapshot does not load as the empty payload through the decompressor its header names: loaded %s failed=%v shrunk=%s", what, vh.Hex(d), failed, shrunkStr(nf)))
	}
}

// ---------------------------------------------------------------- CZ (monitor only)

type nopSavable struct{}

// runCZ drives the chain snapshotter.Save / Load use: Compressor -> CountedWriter ->
// SnapshotWriter, then SnapshotReader -> Decompressor chosen from the header; then every
// single-bit flip of the header's used region and sampled body bits.
// genSeg: the bytes of a generated write segment "g <seed> <len> <kind>"
// (kind 0 random, 1 compressible with a period, 2 all one byte)
func genSeg(seed uint64, n int, kind int) []byte {
	r := vh.NewRand(seed)
	b := make([]byte, n)
	switch kind {
	case 0:
		for i := range b {
			if i%8 == 0 {
				v := r.U64()
				for k := 0; k < 8 && i+k < n; k++ {
					b[i+k] = byte(v >> (8 * uint(k)))
				}
			}
		}
	case 1:
		per := 3 + r.Intn(200)
		pat := r.Bytes(per)
		for i := range b {
			b[i] = pat[i%per] + byte(i/(per*16))
		}
	default:
		v := byte(r.U64())
		for i := range b {
			b[i] = v
		}
	}
	return b
}

func firstDiffOf(a, b []byte) int {
	n := len(a)
	if len(b) < n {
		n = len(b)
	}
	for i := 0; i < n; i++ {
		if a[i] != b[i] {
			return i
		}
	}
	return n
}

func shortHex(b []byte, at int) string {
	lo, hi := at-8, at+16
	if lo < 0 {
		lo = 0
	}
	if hi > len(b) {
		hi = len(b)
	}
	if lo > hi {
		lo = hi
	}
	return vh.Hex(b[lo:hi])
}

// loadViaReads is loadVia with the given Read sizes (cycled) instead of io.ReadAll
func loadViaReads(img []byte, sizes []int) (data []byte, failed bool) {
	lfs := newFS()
	putFile(lfs, fp, img)
	p := vh.Catch(func() {
		r, h, err := c14.NewSnapshotReader(fp, lfs)
		if err != nil {
			failed = true
			return
		}
		cr := c14.NewDecompressor(h.CompressionType, r)
		for i := 0; ; i++ {
			k := sizes[i%len(sizes)]
			buf := make([]byte, k)
			m, err := cr.Read(buf)
			data = append(data, buf[:m]...)
			if err == io.EOF {
				break
			}
			if err != nil || (m == 0 && k > 0 && i > len(data)+64) {
				failed = true
				break
			}
		}
		if err := cr.Close(); err != nil {
			failed = true
		}
	})
	if p != "" {
		failed = true
	}
	return
}

// runCZ drives the real snapshotter.Save / snapshotter.Load (root package, through the
// verif hook): Compressor -> CountedWriter -> SnapshotWriter with the state machine issuing
// the case's pattern of Write calls (sizes of the individual writes
// are the point: small, huge, around the 64 KB snappy frame, across the 2 MB block), then
// SnapshotReader -> Decompressor chosen from the header. The bytes read back must be the
// concatenation of the writes, byte for byte, and the caller's buffers untouched. Then
// shrink, and single-bit flips of the header's used region and sampled body bits.
//   ops: w <hex> | s (the 16 byte empty session table, what Save writes first)
//        | g <seed> <len> <kind> (generated segment)
func runCZ(id string, comp int, ops []string, seed uint64, st *vh.Stats) string {
	var lens []int
	var all []byte
	for _, op := range ops {
		f := strings.Fields(op)
		var d []byte
		switch {
		case len(f) == 2 && f[0] == "w":
			d = vh.UnHex(f[1])
		case len(f) == 1 && f[0] == "s":
			d = c14.GetEmptyLRUSession()
		case len(f) == 4 && f[0] == "g":
			sd, _ := strconv.ParseUint(f[1], 10, 64)
			n, _ := strconv.Atoi(f[2])
			k, _ := strconv.Atoi(f[3])
			d = genSeg(sd, n, k)
		default:
			continue
		}
		lens = append(lens, len(d))
		all = append(all, d...)
		st.Count("cz-write-" + sizeClass(len(d)))
	}
	// one caller buffer, every Write gets its sub-slice; immutable reference copy
	buf := append(make([]byte, 0, len(all)+64), all...)
	buf = append(buf, 0xA5, 0x5A, 0xA5, 0x5A)
	ref := append([]byte{}, buf...)
	session := c14.GetEmptyLRUSession()
	payload := ref[:len(all)]
	ct := pb.CompressionType(comp)
	// the REAL snapshotter: Save (Compressor -> CountedWriter -> SnapshotWriter, recorded
	// size and checksum), finalized into its directory, then Load
	fs := newFS()
	root := func(uint64, uint64) string { return dir + "/ss" }
	must(fs.MkdirAll(dir+"/ss", 0755))
	sn := c14.NewSnapshotter(root, fs)
	czIndex++
	ss, err := sn.Save(czIndex, ct, session, func(w io.Writer) error {
		off := 0
		for _, n := range lens {
			k, err := w.Write(buf[off : off+n])
			if err != nil {
				return err
			}
			if k != n {
				st.Violation(id, fmt.Sprintf("roundtrip: compression %d: Write of %d bytes reported %d", comp, n, k))
			}
			if !bytes.Equal(buf, ref) {
				st.Violation(id, fmt.Sprintf("writer-clobbers-caller: compression %d: Write(buf[%d:%d]) modified the caller's buffer at offset %d", comp, off, off+n, firstDiffOf(buf, ref)))
				copy(buf, ref)
			}
			off += n
		}
		return nil
	})
	must(err)
	f := getFile(fs, ss.Filepath)
	if ss.FileSize != uint64(len(f)) {
		st.Violation(id, fmt.Sprintf("size: snapshotter.Save recorded FileSize %d but the file has %d bytes", ss.FileSize, len(f)))
	}
	if sum, err := c14.GetV2PayloadChecksum(ss.Filepath, fs); err != nil || !bytes.Equal(sum, ss.Checksum) {
		st.Violation(id, fmt.Sprintf("checksum: snapshotter.Save recorded %s, file gives %s (%v)", vh.Hex(ss.Checksum), vh.Hex(sum), err))
	}
	// load: the file image img is put in place of the saved file, then snapshotter.Load
	// with a state machine that reads with the given sizes (nil: io.ReadAll)
	load := func(img []byte, sizes []int) (sess []byte, data []byte, failed bool) {
		putFile(fs, ss.Filepath, img)
		p := vh.Catch(func() {
			var err error
			sess, err = sn.Load(ss, len(session), func(r io.Reader) error {
				if sizes == nil {
					d, err := io.ReadAll(r)
					data = d
					return err
				}
				for i := 0; ; i++ {
					k := sizes[i%len(sizes)]
					b := make([]byte, k)
					m, err := r.Read(b)
					data = append(data, b[:m]...)
					if err == io.EOF {
						return nil
					}
					if err != nil {
						return err
					}
					if i > len(data)+1000 {
						return io.ErrNoProgress
					}
				}
			})
			if err != nil {
				failed = true
			}
		})
		if p != "" {
			failed = true
		}
		return
	}
	report := func(how string, sess, d []byte, failed bool) {
		if failed || !bytes.Equal(d, payload) || !bytes.Equal(sess, session) {
			at := firstDiffOf(d, payload)
			st.Violation(id, fmt.Sprintf("roundtrip: compression %d, session table then writes of %v bytes, snapshotter.Load with %s: sessions %s (saved %s), read back %d bytes (failed=%v), written %d bytes, first difference at offset %d: got ..%s.. written ..%s..",
				comp, lens, how, vh.Hex(sess), vh.Hex(session), len(d), failed, len(payload), at, shortHex(d, at), shortHex(payload, at)))
		}
	}
	sess, d, failed := load(f, nil)
	report("io.ReadAll", sess, d, failed)
	r := vh.NewRand(seed + uint64(len(all)))
	pat := []int{1 + r.Intn(40), 16, 1 + r.Intn(70000), 0, 65536, 1 + r.Intn(5)}
	if len(all) > 1<<20 {
		pat = []int{16, 1 + r.Intn(300000), 65537, 1 << 20}
	}
	sess, d, failed = load(f, pat)
	report(fmt.Sprintf("reads of %v", pat), sess, d, failed)
	if v := verdict(f, []int{1024 + r.Intn(100), 1 + r.Intn(len(f)), 1 + r.Intn(len(f))}); v != "A" {
		st.Violation(id, fmt.Sprintf("validator: writer output refused (%s), compression %d, %d bytes", v, comp, len(f)))
	}
	shrinkLoads(id, fmt.Sprintf("snapshot saved with compression %d", comp), f, st)
	// bit flips: all used header bits for small files, a sample otherwise
	pad := headerPadStart(f)
	var bits []int
	if len(f) < 8192 {
		for b := 0; b < 8*pad; b++ {
			bits = append(bits, b)
		}
		for i := 0; i < 64; i++ {
			bits = append(bits, 8*1024+r.Intn(8*(len(f)-1024)))
		}
	} else {
		nb := 12
		if len(f) > 1<<20 {
			nb = 4
		}
		for i := 0; i < nb; i++ {
			bits = append(bits, 64+r.Intn(8*pad-64), 8*1024+r.Intn(8*(len(f)-1024)))
		}
	}
	detected := 0
	for _, b := range bits {
		sess, d, failed := load(flip(f, b), nil)
		if failed {
			detected++
			continue
		}
		if !bytes.Equal(d, payload) || !bytes.Equal(sess, session) {
			at := firstDiffOf(d, payload)
			tag := ""
			if b < 64 {
				tag = "header-length-escape: "
			}
			st.Violation(id, fmt.Sprintf("corruption: %scompression %d: bit %d flipped, snapshotter.Load succeeded with different bytes (sessions %s, first difference at offset %d: ..%s.. instead of ..%s..)", tag, comp, b, vh.Hex(sess), at, shortHex(d, at), shortHex(payload, at)))
			break
		}
	}
	must(fs.RemoveAll(dir + "/ss"))
	st.Count(fmt.Sprintf("cz-comp%d", comp))
	st.Distribution["cz-flips"] += len(bits)
	st.Distribution["cz-flips-detected"] += detected
	return fmt.Sprintf("%s CZ", id)
}

var czIndex uint64

func sizeClass(n int) string {
	switch {
	case n == 0:
		return "0"
	case n < 256:
		return "lt256"
	case n < 65535:
		return "lt64K"
	case n <= 65537:
		return "64K+-1"
	case n < 2<<20:
		return "lt2M"
	default:
		return "ge2M"
	}
}

// ---------------------------------------------------------------- BG (monitor only)

// runBG: the real v2 SnapshotWriter at the real 2 MB block size with multi-megabyte
// payloads written as sub-slices of one buffer (segment sizes from the case), read back
// with the real reader, validated as a chunk stream; a few bit flips and cuts.
// The payload is derived from the seed in the case (too large for the model's CRC).
func runBG(id string, pseed uint64, n int, segSizes []int, st *vh.Stats) string {
	r := vh.NewRand(pseed)
	buf := make([]byte, n+64, n+4096)
	for i := 0; i+8 <= len(buf); i += 8 {
		binary.LittleEndian.PutUint64(buf[i:], r.U64())
	}
	ref := append([]byte{}, buf...)
	fs := newFS()
	w, err := c14.NewSnapshotWriter(fp, pb.NoCompression, fs)
	must(err)
	off := 0
	for i := 0; off < n; i++ {
		k := n - off
		if i < len(segSizes) && segSizes[i] < k {
			k = segSizes[i]
		}
		_, err := w.Write(buf[off : off+k])
		must(err)
		if !bytes.Equal(buf, ref) {
			d := 0
			for d < len(ref) && buf[d] == ref[d] {
				d++
			}
			st.Violation(id, fmt.Sprintf("writer-clobbers-caller: SnapshotWriter.Write(buf[%d:%d]) modified the caller's buffer at offset %d", off, off+k, d))
			copy(buf, ref)
		}
		off += k
	}
	must(w.Close())
	payload := ref[:n]
	f := getFile(fs, fp)
	if w.GetPayloadSize(uint64(n))+1024 != uint64(len(f)) {
		st.Violation(id, fmt.Sprintf("size: recorded size %d+1024 but the file has %d bytes", w.GetPayloadSize(uint64(n)), len(f)))
	}
	if sum, err := c14.GetV2PayloadChecksum(fp, fs); err != nil || !bytes.Equal(sum, w.GetPayloadChecksum()) {
		st.Violation(id, fmt.Sprintf("checksum: recorded %s, file gives %s (%v)", vh.Hex(w.GetPayloadChecksum()), vh.Hex(sum), err))
	}
	readAll := func(img []byte, sizes []int) (data []byte, failed bool) {
		lfs := newFS()
		putFile(lfs, fp, img)
		if p := vh.Catch(func() {
			rd, _, err := c14.NewSnapshotReader(fp, lfs)
			if err != nil {
				failed = true
				return
			}
			for i := 0; ; i++ {
				k := 1 << 20
				if i < len(sizes) && sizes[i] > 0 {
					k = sizes[i]
				}
				b := make([]byte, k)
				m, err := rd.Read(b)
				data = append(data, b[:m]...)
				if err != nil {
					break
				}
			}
			if err := rd.Close(); err != nil {
				failed = true
			}
		}); p != "" {
			failed = true
		}
		return
	}
	got, failed := readAll(f, segSizes)
	if failed || !bytes.Equal(got, payload) {
		d := 0
		for d < len(got) && d < len(payload) && got[d] == payload[d] {
			d++
		}
		st.Violation(id, fmt.Sprintf("roundtrip: %d bytes written with segments %v, read back %d bytes (failed=%v), first difference at offset %d", n, segSizes, len(got), failed, d))
	}
	ch := []int{1024 + r.Intn(3000)}
	for i := 0; i < 6; i++ {
		ch = append(ch, 1+r.Intn(2<<20))
	}
	if v := verdict(f, ch); v != "A" {
		st.Violation(id, fmt.Sprintf("validator: writer output refused (%s), %d bytes", v, len(f)))
	}
	for i := 0; i < 6; i++ {
		b := 8*1024 + r.Intn(8*(len(f)-1024))
		g := flip(f, b)
		if v := verdict(g, ch); v == "A" {
			st.Violation(id, fmt.Sprintf("validator: stream with bit %d flipped accepted (%d bytes)", b, len(f)))
		}
		if i < 2 {
			d, failed := readAll(g, nil)
			if !failed && !bytes.Equal(d, payload) || !bytes.HasPrefix(payload, d) {
				st.Violation(id, fmt.Sprintf("corruption: bit %d flipped, reader handed out different bytes (%d bytes file)", b, len(f)))
			}
		}
		l := 1024 + r.Intn(len(f)-1024)
		if v := verdict(f[:l], ch); v == "A" {
			st.Violation(id, fmt.Sprintf("validator: stream cut to %d of %d bytes accepted", l, len(f)))
		}
	}
	// every bit of the 8 byte tail length field and a few of the magic, through the reader:
	// accepted without a failure => must be the original bytes
	var tbits []int
	// (length bits 0..23 name offsets inside a file of a few MB; two higher ones, two of the magic)
	for k := 0; k < 24; k++ {
		tbits = append(tbits, 8*(len(f)-16)+k)
	}
	tbits = append(tbits, 8*(len(f)-16)+24+r.Intn(40), 8*(len(f)-16)+63, 8*(len(f)-8)+r.Intn(64), 8*(len(f)-8)+r.Intn(64))
	for _, b := range tbits {
		d, failed := readAll(flip(f, b), nil)
		if !failed && !bytes.Equal(d, payload) {
			st.Violation(id, fmt.Sprintf("corruption: tail bit %d (of the last 128) flipped: accepted without any failure but differs from the original: %d of %d bytes read back", b-8*(len(f)-16), len(d), len(payload)))
		} else if !bytes.HasPrefix(payload, d) {
			st.Violation(id, fmt.Sprintf("corruption: tail bit %d flipped: reader handed out altered bytes", b-8*(len(f)-16)))
		}
		st.Distribution["bg-tail-flips"]++
	}
	st.Count("bg-real-block-size")
	return fmt.Sprintf("%s BG", id)
}

// ---------------------------------------------------------------- PV

// runPV: the real pb.Snapshot.Validate on the file system the code uses. ops:
// "f <has path 0/1> <recorded size> <actual size | - (no such file)>", the first one is
// the main snapshot file, the others external files. T true, F false, P panic.
// monitor: a snapshot with any file whose size differs from the record - shorter OR
// longer - or is missing is never accepted.
func runPV(id string, ops []string, st *vh.Stats) string {
	fs := newFS()
	pdir := dir + "/pv"
	must(fs.RemoveAll(pdir))
	must(fs.MkdirAll(pdir, 0755))
	var ss pb.Snapshot
	mismatch := ""
	n := 0
	for _, op := range ops {
		f := strings.Fields(op)
		if len(f) != 4 || f[0] != "f" {
			continue
		}
		rec, _ := strconv.ParseUint(f[2], 10, 64)
		path := ""
		if f[1] == "1" {
			path = fmt.Sprintf("%s/file-%d", pdir, n)
			if f[3] != "-" {
				act, _ := strconv.Atoi(f[3])
				putFile(fs, path, make([]byte, act))
				if uint64(act) != rec && mismatch == "" {
					mismatch = fmt.Sprintf("file %d recorded %d bytes, on disk %d", n, rec, act)
					if uint64(act) > rec {
						st.Count("pv-longer")
					} else {
						st.Count("pv-shorter")
					}
				}
			} else if mismatch == "" {
				mismatch = fmt.Sprintf("file %d missing", n)
			}
		}
		if n == 0 {
			ss.Filepath, ss.FileSize = path, rec
		} else {
			ss.Files = append(ss.Files, &pb.SnapshotFile{Filepath: path, FileSize: rec, FileId: uint64(n)})
		}
		n++
	}
	res := "F"
	if p := vh.Catch(func() {
		if ss.Validate(fs) {
			res = "T"
		}
	}); p != "" {
		res = "P"
	}
	if res == "T" && mismatch != "" {
		st.Violation(id, fmt.Sprintf("snapshot-size: pb.Snapshot.Validate accepted a snapshot whose files do not match the record: %s", mismatch))
	}
	st.Count("pv-" + res)
	return fmt.Sprintf("%s PV %s", id, res)
}

// ---------------------------------------------------------------- VS (monitor only)

// verdictCuts feeds file image f to the real validator cut at the given absolute offsets
func verdictCuts(f []byte, cuts []int) string {
	var sizes []int
	prev := 0
	for _, c := range cuts {
		if c > prev && c < len(f) {
			sizes = append(sizes, c-prev)
			prev = c
		}
	}
	sizes = append(sizes, len(f)-prev)
	return verdict(f, sizes)
}

// runVS: (payload length) x (chunk cut positions) for the stream validator at the real
// block size. The file comes from the real SnapshotWriter; cuts are placed at every
// structural boundary - after the header, after each block, before the tail, inside the
// tail - alone, in every adjacent pair, all together, and shifted by the deltas
// {-20,-16,-4,-1,+1,+4,+16,+20}. Every cut of the intact stream must be accepted; the same
// cuts of a stream with one flipped bit (each region) or cut short at a structural
// boundary must not be.
func runVS(id string, pseed uint64, n int, st *vh.Stats) string {
	r := vh.NewRand(pseed)
	payload := make([]byte, n)
	for i := 0; i+8 <= n; i += 8 {
		binary.LittleEndian.PutUint64(payload[i:], r.U64())
	}
	fs := newFS()
	w, err := c14.NewSnapshotWriter(fp, pb.NoCompression, fs)
	must(err)
	_, err = w.Write(payload)
	must(err)
	must(w.Close())
	f := getFile(fs, fp)
	bs := int(c14.BlockSize())
	// structural boundaries (absolute offsets)
	bounds := []int{1024}
	for o := 1024 + bs + 4; o < len(f)-16; o += bs + 4 {
		bounds = append(bounds, o)
	}
	if len(f)-16 > 1024 {
		bounds = append(bounds, len(f)-16)
	}
	bounds = append(bounds, len(f)-8)
	var cutsets [][]int
	cutsets = append(cutsets, nil, bounds) // one chunk; one chunk per structural unit
	for i, b := range bounds {
		cutsets = append(cutsets, []int{b})
		if i+1 < len(bounds) {
			cutsets = append(cutsets, []int{b, bounds[i+1]})
		}
		if i > 0 {
			cutsets = append(cutsets, []int{1024, b}) // header alone, everything up to b, the rest
		}
		for _, d := range []int{-20, -16, -4, -1, 1, 4, 16, 20} {
			if b+d >= 1024 && b+d < len(f) {
				cutsets = append(cutsets, []int{b + d}, []int{1024, b + d})
			}
		}
	}
	// header, then every block as its own chunk, last block + tail together
	if len(bounds) > 2 {
		cutsets = append(cutsets, bounds[:len(bounds)-2], bounds[:len(bounds)-1])
	}
	seen := map[string]bool{}
	nAcc := 0
	for _, cs := range cutsets {
		k := fmt.Sprint(cs)
		if seen[k] {
			continue
		}
		seen[k] = true
		nAcc++
		if v := verdictCuts(f, cs); v != "A" {
			st.Violation(id, fmt.Sprintf("validator: writer output refused (%s): payload %d bytes (block size %d), stream of %d bytes cut at %v", v, n, bs, len(f), cs))
			break
		}
	}
	st.Distribution["vs-accept-cuts"] += nAcc
	// the other direction: one flipped bit per region / a cut at a structural boundary
	var bits []int
	if n > 0 {
		bits = append(bits, 8*1024+r.Intn(8*min(n, bs)), 8*(len(f)-20)+r.Intn(32)) // first block data, last crc
		if len(f)-20 > 1024+bs+4 {
			bits = append(bits, 8*(len(f)-20)-1-r.Intn(8*(len(f)-20-1024-bs-4))) // last block data
		}
	}
	bits = append(bits, 8*(len(f)-16)+r.Intn(24), 8*(len(f)-8)+r.Intn(64)) // tail length, magic
	pick := func() []int { return cutsets[r.Intn(len(cutsets))] }
	for _, b := range bits {
		g := flip(f, b)
		for _, cs := range [][]int{nil, bounds, pick(), pick()} {
			if v := verdictCuts(g, cs); v == "A" {
				st.Violation(id, fmt.Sprintf("validator: stream with bit %d flipped accepted: payload %d bytes, cut at %v", b, n, cs))
			}
			st.Distribution["vs-reject-flips"]++
		}
	}
	for _, b := range bounds {
		for _, d := range []int{0, -1, 1} {
			if l := b + d; l >= 1024 && l < len(f) {
				for _, cs := range [][]int{nil, bounds} {
					if v := verdictCuts(f[:l], cs); v == "A" {
						st.Violation(id, fmt.Sprintf("validator: stream cut to %d of %d bytes accepted: payload %d bytes, cut at %v", l, len(f), n, cs))
					}
					st.Distribution["vs-reject-truncations"]++
				}
			}
		}
	}
	st.Count("vs-real-block-size")
	return fmt.Sprintf("%s VS", id)
}

func min(a, b int) int {
	if a < b {
		return a
	}
	return b
}

// ---------------------------------------------------------------- main

func splitCase(line string) (id string, head []string, ops []string) {
	h, b := line, ""
	if i := strings.Index(line, " | "); i >= 0 {
		h, b = line[:i], line[i+3:]
	} else if strings.HasSuffix(line, " |") {
		h = line[:len(line)-2]
	}
	f := strings.Fields(h)
	if len(f) == 0 {
		return "", nil, nil
	}
	for _, o := range strings.Split(b, " ; ") {
		if strings.TrimSpace(o) != "" {
			ops = append(ops, strings.TrimSpace(o))
		}
	}
	return f[0], f[1:], ops
}

func main() {
	a := vh.ParseArgs()
	// the real reader / validator allocate a 2 MB block buffer per instance
	debug.SetGCPercent(400)
	switch a.Mode {
	case "gen":
		gen(a)
	case "run":
		st := vh.NewStats("distinct cases whose operations reached a block boundary, a modified image or the validator (BW: >= 1 full block or a flip/truncation; SW/RF/CZ: all)")
		out := vh.Create(a.Out + "/impl.obs")
		for _, line := range vh.ReadLines(a.Cases) {
			id, head, ops := splitCase(line)
			if id == "" || len(head) == 0 {
				continue
			}
			var obs string
			nontrivial := true
			switch head[0] {
			case "BW":
				bs, _ := strconv.Atoi(head[1])
				obs = runBW(id, bs, ops, st)
				nontrivial = strings.Contains(line, " f ") || strings.Contains(line, " t ") || len(line) > 2*bs+40
			case "SW":
				ver, _ := strconv.Atoi(head[1])
				comp, _ := strconv.Atoi(head[2])
				obs = runSW(id, ver, comp, ints(head[3]), ints(head[4]), ops, st)
			case "RF":
				obs = runRF(id, ops, st)
			case "CZ":
				comp, _ := strconv.Atoi(head[1])
				obs = runCZ(id, comp, ops, a.Seed, st)
			case "PV":
				obs = runPV(id, ops, st)
			case "VS":
				ps, _ := strconv.ParseUint(head[1], 10, 64)
				n, _ := strconv.Atoi(head[2])
				obs = runVS(id, ps, n, st)
			case "BG":
				ps, _ := strconv.ParseUint(head[1], 10, 64)
				n, _ := strconv.Atoi(head[2])
				obs = runBG(id, ps, n, ints(head[3]), st)
			default:
				obs = id + " ? unparsed"
			}
			out.Printf("%s\n", obs)
			key := line
			if i := strings.Index(line, " "); i > 0 {
				key = line[i+1:]
			}
			sample := line
			st.Case(key, nontrivial, sample)
		}
		out.Close()
		st.Write(a.Out)
	default:
		panic("unknown mode " + a.Mode)
	}
}
