package main

import (
	"encoding/binary"
	"strings"
	"errors"
	"fmt"

	"github.com/lni/dragonboat/v4/raftio"
	pb "github.com/lni/dragonboat/v4/raftpb"
	hooks "github.com/lni/dragonboat/v4/verifhooks/c09"
	"verif/harness/vh"
)

// store drives one REAL log store through the public raftio.ILogDB interface.
type store struct {
	kind string
	mlfs int64
	fs   hooks.FS
	db   raftio.ILogDB
}

const storeDir = "/c09"

func openStore(kind string, mlfs int64) (*store, error) {
	s := &store{kind: kind, mlfs: mlfs, fs: hooks.NewMemFS()}
	return s, s.open()
}

func (s *store) open() error {
	var err error
	switch s.kind {
	case "plain":
		s.db, err = hooks.OpenPebble(s.fs, storeDir, 2, false)
	case "batched":
		s.db, err = hooks.OpenPebble(s.fs, storeDir, 2, true)
	case "tan":
		s.db, err = hooks.OpenTan(s.fs, storeDir, false)
	case "tanmux":
		s.db, err = hooks.OpenTan(s.fs, storeDir, true)
	default:
		return fmt.Errorf("unknown store kind %s", s.kind)
	}
	if err != nil {
		return err
	}
	if s.kind == "tan" || s.kind == "tanmux" {
		for _, id := range nodeIDs {
			if err := hooks.TanPreopen(s.db, id.Shard, id.Replica, s.mlfs); err != nil {
				return err
			}
		}
	}
	return nil
}

func (s *store) close() error {
	if s.db == nil {
		return nil
	}
	err := s.db.Close()
	s.db = nil
	return err
}

func (s *store) reopen() error {
	if err := s.close(); err != nil {
		return err
	}
	return s.open()
}

func mkCmd(tag uint64, n uint64) []byte {
	b := make([]byte, n)
	binary.BigEndian.PutUint64(b, tag)
	for i := 8; i < len(b); i++ {
		b[i] = byte(tag) + byte(i)
	}
	return b
}

func mkEntry(e ent) pb.Entry {
	return pb.Entry{Index: e.Index, Term: e.Term, Key: e.Tag, Cmd: mkCmd(e.Tag, e.Len)}
}

func mkSnapshot(n int, ss snap) pb.Snapshot {
	return pb.Snapshot{Index: ss.Index, Term: ss.Term, FileSize: ss.Tag, ShardID: nodeIDs[n].Shard,
		Type: pb.RegularStateMachine, Filepath: fmt.Sprintf("snapshot-%d-%d", ss.Index, ss.Tag)}
}

func mkUpdate(u update) pb.Update {
	id := nodeIDs[u.N]
	r := pb.Update{ShardID: id.Shard, ReplicaID: id.Replica,
		State: pb.State{Term: u.St.Term, Vote: u.St.Vote, Commit: u.St.Commit}}
	if u.Ss.Index > 0 {
		r.Snapshot = mkSnapshot(u.N, u.Ss)
	}
	for _, e := range u.Ents {
		r.EntriesToSave = append(r.EntriesToSave, mkEntry(e))
	}
	return r
}

// exec runs a mutating operation; the result is "ok", "err" or "panic".
func (s *store) exec(o op) (res string, detail string) {
	var err error
	p := vh.Catch(func() {
		switch o.Kind {
		case "SAVE":
			var uds []pb.Update
			for _, u := range o.Ups {
				uds = append(uds, mkUpdate(u))
			}
			// worker id = the engine's step worker of the first shard (1-based)
			err = s.db.SaveRaftState(uds, nodeIDs[o.Ups[0].N].Shard%16+1)
		case "SNAP":
			id := nodeIDs[o.N]
			err = s.db.SaveSnapshots([]pb.Update{{ShardID: id.Shard, ReplicaID: id.Replica, Snapshot: mkSnapshot(o.N, o.Ss)}})
		case "REMTO":
			id := nodeIDs[o.N]
			err = s.db.RemoveEntriesTo(id.Shard, id.Replica, o.A)
			if err == nil {
				var ch <-chan struct{}
				ch, err = s.db.CompactEntriesTo(id.Shard, id.Replica, o.A)
				if err == nil {
					<-ch
				}
			}
		case "BOOT":
			id := nodeIDs[o.N]
			err = s.db.SaveBootstrapInfo(id.Shard, id.Replica, mkBootstrap(o))
		case "REMNODE":
			id := nodeIDs[o.N]
			err = s.db.RemoveNodeData(id.Shard, id.Replica)
		case "IMPORT":
			if err = s.reopen(); err != nil {
				return
			}
			id := nodeIDs[o.N]
			if err = s.db.ImportSnapshot(mkSnapshot(o.N, o.Ss), id.Replica); err != nil {
				return
			}
			err = s.reopen()
		case "REOPEN":
			err = s.reopen()
		}
	})
	if p != "" {
		return "panic", p
	}
	if err != nil {
		return "err", err.Error()
	}
	return "ok", ""
}

func mkBootstrap(o op) pb.Bootstrap {
	return pb.Bootstrap{Join: o.A == 1, Type: pb.StateMachineType(o.B),
		Addresses: map[uint64]string{1: fmt.Sprintf("a%d", o.C), 2: fmt.Sprintf("b%d", o.C)}}
}

// readerEntries reads [low, high) through the REAL LogReader placed on top of
// the store the way a restart sets it up (marker, then SetRange).
func (s *store) readerEntries(n int, marker, mterm, length, low, high, maxSize uint64) (string, bool) {
	id := nodeIDs[n]
	var es []pb.Entry
	var err error
	p := vh.Catch(func() {
		lr := hooks.NewLogReader(s.db, id.Shard, id.Replica)
		if marker > 0 {
			if e := lr.ApplySnapshot(marker, mterm); e != nil {
				panic(e)
			}
		}
		lr.SetRange(marker+1, length)
		es, err = lr.Entries(low, high, maxSize)
	})
	if p != "" {
		return "panic: " + p, false
	}
	if err != nil {
		return "err: " + err.Error(), false
	}
	var out []ent
	for _, e := range es {
		r, ok := readEnt(e)
		if !ok {
			return "corrupt-payload", false
		}
		out = append(out, r)
	}
	return showEnts(out), true
}

// bootQuery: GetBootstrapInfo / ListNodeInfo in canonical form
func (s *store) bootQuery(o op) string {
	switch o.Kind {
	case "GB":
		id := nodeIDs[o.N]
		var b pb.Bootstrap
		var err error
		if p := vh.Catch(func() { b, err = s.db.GetBootstrapInfo(id.Shard, id.Replica) }); p != "" {
			return "panic"
		}
		if errors.Is(err, raftio.ErrNoBootstrapInfo) {
			return "none"
		}
		if err != nil {
			return "err"
		}
		join := 0
		if b.Join {
			join = 1
		}
		if len(b.Addresses) == 0 {
			return fmt.Sprintf("%d %d -1", join, b.Type)
		}
		var tag uint64
		if _, e := fmt.Sscanf(b.Addresses[1], "a%d", &tag); e != nil || len(b.Addresses) != 2 ||
			b.Addresses[2] != fmt.Sprintf("b%d", tag) {
			return fmt.Sprintf("%d %d corrupt-addresses", join, b.Type)
		}
		return fmt.Sprintf("%d %d %d", join, b.Type, tag)
	case "LNI":
		var l []raftio.NodeInfo
		var err error
		if p := vh.Catch(func() { l, err = s.db.ListNodeInfo() }); p != "" {
			return "panic"
		}
		if err != nil {
			return "err"
		}
		seen := map[int]int{}
		extra := ""
		for _, ni := range l {
			found := false
			for i, id := range nodeIDs {
				if id.Shard == ni.ShardID && id.Replica == ni.ReplicaID {
					seen[i]++
					found = true
				}
			}
			if !found {
				extra += fmt.Sprintf(" ?%d.%d", ni.ShardID, ni.ReplicaID)
			}
		}
		var out []string
		for i := range nodeIDs {
			for k := 0; k < seen[i]; k++ {
				out = append(out, fmt.Sprint(i))
			}
		}
		return "[" + strings.Join(out, " ") + "]" + extra
	}
	return "?"
}

// entry read back from the store -> (index, term, tag, len); ok=false when the
// payload is not what mkCmd produces for that tag (a corrupted / foreign entry).
func readEnt(e pb.Entry) (ent, bool) {
	r := ent{Index: e.Index, Term: e.Term, Len: uint64(len(e.Cmd))}
	if len(e.Cmd) < 8 {
		return r, false
	}
	r.Tag = binary.BigEndian.Uint64(e.Cmd)
	want := mkCmd(r.Tag, r.Len)
	ok := e.Key == r.Tag
	for i := range want {
		if want[i] != e.Cmd[i] {
			ok = false
			break
		}
	}
	return r, ok
}

// query returns the raw and the canonical observation of a query operation.
// canonical: what every store kind must agree on inside the contract
// (ReadRaftState normalised the way LogReader.SetRange consumes it).
func (s *store) query(o op) (raw string, canon string) {
	id := nodeIDs[o.N]
	switch o.Kind {
	case "Q":
		var es []pb.Entry
		var size uint64
		var err error
		p := vh.Catch(func() {
			es, size, err = s.db.IterateEntries(nil, 0, id.Shard, id.Replica, o.A, o.B, o.C)
		})
		if p != "" {
			return "panic", "panic"
		}
		if err != nil {
			return "err", "err"
		}
		var out []ent
		bad := ""
		for _, e := range es {
			r, ok := readEnt(e)
			if !ok {
				bad = " corrupt-payload"
			}
			out = append(out, r)
		}
		r := fmt.Sprintf("%s %d%s", showEnts(out), size, bad)
		return r, r
	case "RRS":
		var rs raftio.RaftState
		var err error
		p := vh.Catch(func() { rs, err = s.db.ReadRaftState(id.Shard, id.Replica, o.A) })
		if p != "" {
			return "panic", "panic"
		}
		if errors.Is(err, raftio.ErrNoSavedLog) {
			return "nostate", "nostate"
		}
		if err != nil {
			return "err", "err"
		}
		st := fmt.Sprintf("st=%d,%d,%d", rs.State.Term, rs.State.Vote, rs.State.Commit)
		raw = fmt.Sprintf("%s first=%d count=%d", st, rs.FirstIndex, rs.EntryCount)
		// canonical form: what the REAL LogReader makes of the answer on a restart
		// (marker at the snapshot index the state was read for, then SetRange)
		var first, last uint64
		if p := vh.Catch(func() {
			lr := hooks.NewLogReader(s.db, id.Shard, id.Replica)
			if o.A > 0 {
				if err := lr.ApplySnapshot(o.A, 1); err != nil {
					panic(err)
				}
			}
			lr.SetRange(rs.FirstIndex, rs.EntryCount)
			first, last = lr.GetRange()
		}); p != "" {
			return raw, st + " logreader-panic"
		}
		if last < first {
			return raw, st + " count=0"
		}
		return raw, fmt.Sprintf("%s first=%d count=%d", st, first, last-first+1)
	case "GS":
		var ss pb.Snapshot
		var err error
		p := vh.Catch(func() { ss, err = s.db.GetSnapshot(id.Shard, id.Replica) })
		if p != "" {
			return "panic", "panic"
		}
		if err != nil {
			return "err", "err"
		}
		if pb.IsEmptySnapshot(ss) {
			return "none", "none"
		}
		r := fmt.Sprintf("%d %d %d", ss.Index, ss.Term, ss.FileSize)
		if ss.Filepath != fmt.Sprintf("snapshot-%d-%d", ss.Index, ss.FileSize) || ss.ShardID != id.Shard {
			r += " corrupt-record"
		}
		return r, r
	}
	return "?", "?"
}
