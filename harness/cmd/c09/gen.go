package main

import (
	"fmt"
	"strings"

	pb "github.com/lni/dragonboat/v4/raftpb"
	hooks "github.com/lni/dragonboat/v4/verifhooks/c09"
	"verif/harness/vh"
)

type gstate struct {
	r     *vh.Rand
	ref   *ref
	ops   []op
	tag   uint64
	term  [numNodes]uint64
	big   bool
	bs    uint64
	nmuts int
}

func (g *gstate) nextTag() uint64 { g.tag++; return g.tag }

func (g *gstate) elen() uint64 {
	if g.big {
		return uint64(12000 + g.r.Intn(30000))
	}
	switch g.r.Intn(5) {
	case 0:
		return 8
	case 1:
		return uint64(8 + g.r.Intn(8))
	default:
		return uint64(8 + g.r.Intn(120))
	}
}

func (g *gstate) mkEnts(n int, i0 uint64, k int, bump bool) []ent {
	g.term[n] = maxu(maxu(g.term[n], g.ref.nodes[n].mterm), 1)
	if bump {
		g.term[n] += uint64(1 + g.r.Intn(2))
	}
	var es []ent
	for i := 0; i < k; i++ {
		if g.r.Chance(1, 25) {
			g.term[n]++
		}
		es = append(es, ent{Index: i0 + uint64(i), Term: g.term[n], Tag: g.nextTag(), Len: g.elen()})
	}
	return es
}

func (g *gstate) count() int {
	if g.big {
		return 1 + g.r.Intn(6)
	}
	switch g.r.Intn(6) {
	case 0:
		return 1
	case 1:
		return 1 + g.r.Intn(3)
	case 2:
		return int(g.bs) - 2 + g.r.Intn(5) // around one batch
	case 3:
		return int(g.bs) + g.r.Intn(int(g.bs)+10) // straddles at least one boundary
	default:
		return 1 + g.r.Intn(20)
	}
}

func (g *gstate) maybeState(n int, u *update) {
	if g.r.Chance(1, 2) {
		nd := &g.ref.nodes[n]
		c := nd.marker
		if l := nd.last() + uint64(len(u.Ents)); l > c && g.r.Bool() {
			c += uint64(g.r.Intn(int(min64(l-c, 1000)) + 1))
		}
		t := g.term[n]
		if t == 0 {
			t = 1
		}
		u.St = hstate{Term: t, Vote: uint64(g.r.Intn(4)), Commit: c}
	}
}

func min64(a, b uint64) uint64 {
	if a < b {
		return a
	}
	return b
}

// appendUpdate: the next contiguous entries, or an overwrite of a suffix with a newer term
func (g *gstate) appendUpdate(n int, overwrite bool) update {
	nd := &g.ref.nodes[n]
	u := update{N: n}
	if overwrite && len(nd.ents) > 0 {
		off := uint64(g.r.Intn(len(nd.ents))) // position inside the retained entries
		if g.r.Chance(1, 3) && uint64(len(nd.ents)) > g.bs {
			// reach back into an older batch
			off = uint64(g.r.Intn(len(nd.ents) - int(g.bs) + 1))
		}
		i0 := nd.marker + 1 + off
		remaining := int(nd.last() - i0 + 1)
		var k int
		switch g.r.Intn(4) {
		case 0, 1: // shorter suffix: logically truncates what follows
			k = 1 + g.r.Intn(remaining)
			if k == remaining && remaining > 1 {
				k--
			}
		case 2:
			k = remaining
		default:
			k = remaining + 1 + g.r.Intn(10)
		}
		if g.big && k > 6 {
			k = 6
		}
		// the overwriting entries carry a newer term than what they replace
		if t := nd.ents[len(nd.ents)-1].Term; g.term[n] < t {
			g.term[n] = t
		}
		u.I0 = i0
		u.Ents = g.mkEnts(n, i0, k, true)
	} else {
		if l := len(nd.ents); l > 0 && g.term[n] < nd.ents[l-1].Term {
			g.term[n] = nd.ents[l-1].Term
		}
		u.I0 = nd.last() + 1
		u.Ents = g.mkEnts(n, u.I0, g.count(), g.r.Chance(1, 8))
	}
	g.maybeState(n, &u)
	return u
}

func (g *gstate) emit(o op) bool {
	if !g.ref.wf(o) {
		return false
	}
	g.ops = append(g.ops, o)
	g.ref.apply(o)
	return true
}

func (g *gstate) boundaryIndex(n int) uint64 {
	nd := &g.ref.nodes[n]
	lo, hi := nd.marker+1, nd.last()+1
	var c []uint64
	c = append(c, lo, hi, hi-1+uint64(g.r.Intn(2)), lo+uint64(g.r.Intn(3)))
	for b := (lo / g.bs) * g.bs; b <= hi+g.bs; b += g.bs {
		if b+1 >= lo && b <= hi+1 {
			c = append(c, b, b+1)
			if b > 0 {
				c = append(c, b-1)
			}
		}
	}
	if hi > lo {
		c = append(c, lo+uint64(g.r.Intn(int(min64(hi-lo, 100000)))), lo+uint64(g.r.Intn(int(min64(hi-lo, 100000)))))
	}
	return c[g.r.Intn(len(c))]
}

func (g *gstate) queries(n int) {
	nd := &g.ref.nodes[n]
	nq := 2 + g.r.Intn(2)
	for i := 0; i < nq; i++ {
		low := g.boundaryIndex(n)
		if low <= nd.marker && !g.r.Chance(1, 6) {
			low = nd.marker + 1
		}
		var high uint64
		switch g.r.Intn(6) {
		case 0:
			high = low + 1
		case 1:
			high = nd.last() + 1
		case 2:
			high = nd.last() + 1 + uint64(1+g.r.Intn(100)) // past the logical end
		case 3:
			high = low
		default:
			high = g.boundaryIndex(n)
			if high < low {
				high = low + uint64(g.r.Intn(60))
			}
		}
		var max uint64
		switch g.r.Intn(6) {
		case 0:
			max = 1
		case 1:
			max = g.ref.nonCmd + 8 + uint64(g.r.Intn(200))
		case 2:
			max = uint64(1+g.r.Intn(6)) * (g.ref.nonCmd + uint64(g.r.Intn(100)))
			if g.big {
				max *= 200
			}
		case 3:
			if g.r.Chance(1, 3) {
				max = 0 // outside the contract (stores differ on 0); raw comparison only
			} else {
				max = 1 << 62
			}
		default:
			max = ^uint64(0)
		}
		g.ops = append(g.ops, op{Kind: "Q", N: n, A: low, B: high, C: max})
	}
	// ReadRaftState the way a restart does it: with the newest snapshot index,
	// plus boundary arguments
	var arg uint64
	switch g.r.Intn(5) {
	case 0:
		arg = nd.marker
	case 1:
		arg = nd.last()
	case 2:
		arg = nd.ssidx()
	case 3:
		arg = nd.marker + uint64(g.r.Intn(int(min64(nd.last()-nd.marker, 100000))+1))
	default:
		arg = nd.ssidx()
		if arg < nd.marker {
			arg = nd.marker
		}
	}
	g.ops = append(g.ops, op{Kind: "RRS", N: n, A: arg})
	if g.r.Chance(1, 2) {
		g.ops = append(g.ops, op{Kind: "GS", N: n})
	}
	if g.r.Chance(1, 5) {
		g.ops = append(g.ops, op{Kind: "GB", N: n})
	}
	if g.r.Chance(1, 10) {
		g.ops = append(g.ops, op{Kind: "LNI"})
	}
}

func (g *gstate) pickNode() int {
	if g.r.Chance(1, 6) {
		return 3
	}
	return g.r.Intn(3)
}

// boundaryStep targets the cached last batch of the batched format: an append
// that ends exactly on the last slot of a batch (index k*batch-1), directly
// followed (optionally across a reopen, i.e. with a cold cache) by an overwrite
// with a newer term that starts at a non-aligned index inside the last one or
// two batches. The first partial batch of that overwrite is merged with the
// cached (or, cold, the stored) last batch.
func (g *gstate) boundaryStep(n int) {
	nd := &g.ref.nodes[n]
	emitSave := func(u update) bool {
		if !g.emit(op{Kind: "SAVE", Ups: []update{u}}) {
			return false
		}
		g.nmuts++
		g.queries(n)
		return true
	}
	if g.r.Chance(1, 4) { // cold cache before the boundary append
		g.emit(op{Kind: "REOPEN"})
	}
	if g.r.Bool() { // an older version of the same batch is cached first
		u := update{N: n, I0: nd.last() + 1}
		if l := len(nd.ents); l > 0 && g.term[n] < nd.ents[l-1].Term {
			g.term[n] = nd.ents[l-1].Term
		}
		u.Ents = g.mkEnts(n, u.I0, 1+g.r.Intn(12), false)
		if !emitSave(u) {
			return
		}
	}
	i0 := nd.last() + 1
	end := (i0/g.bs+1)*g.bs - 1
	if g.r.Chance(1, 3) {
		end += g.bs
	}
	if g.big && end-i0 > 8 {
		return
	}
	u := update{N: n, I0: i0}
	if l := len(nd.ents); l > 0 && g.term[n] < nd.ents[l-1].Term {
		g.term[n] = nd.ents[l-1].Term
	}
	u.Ents = g.mkEnts(n, i0, int(end-i0+1), false)
	g.maybeState(n, &u)
	if !emitSave(u) {
		return
	}
	if g.r.Chance(1, 4) { // the same shape with a cold cache
		g.emit(op{Kind: "REOPEN"})
	}
	// the overwrite: newer term, non-aligned start inside the last 1-2 batches
	span := g.bs * uint64(1+g.r.Intn(2))
	lo := nd.marker + 1
	if nd.last()+1 > span && nd.last()+1-span > lo {
		lo = nd.last() + 1 - span
	}
	if lo > nd.last() {
		return
	}
	start := lo + uint64(g.r.Intn(int(nd.last()-lo+1)))
	if start%g.bs == 0 {
		start++
	}
	if start > nd.last() {
		return
	}
	remaining := int(nd.last() - start + 1)
	k := 1 + g.r.Intn(remaining+5)
	if g.big && k > 6 {
		k = 6
	}
	if t := nd.ents[len(nd.ents)-1].Term; g.term[n] < t {
		g.term[n] = t
	}
	o := update{N: n, I0: start, Ents: g.mkEnts(n, start, k, true)}
	g.maybeState(n, &o)
	if !emitSave(o) {
		return
	}
	if g.r.Chance(1, 3) {
		g.emit(op{Kind: "REOPEN"})
		g.queries(n)
	}
}

// stateStep: hard-state-only saves in a row, each derived from the last saved
// state: identical (the skip branch), lower / higher / equal commit with the
// same term and vote, changed vote, changed term. The store must report the
// last one saved, whatever its commit value.
func (g *gstate) stateStep(n int) {
	nd := &g.ref.nodes[n]
	cur := hstate{Term: maxu(g.term[n], 1), Vote: uint64(g.r.Intn(4)), Commit: nd.marker + uint64(g.r.Intn(len(nd.ents)+1))}
	if nd.st != nil && g.r.Chance(3, 4) {
		cur = *nd.st
	}
	k := 2 + g.r.Intn(3)
	for i := 0; i < k; i++ {
		switch g.r.Intn(7) {
		case 0: // identical
		case 1, 2: // commit goes down
			if cur.Commit > 0 {
				cur.Commit -= 1 + uint64(g.r.Intn(int(min64(cur.Commit, 20))))
			}
		case 3:
			cur.Commit += 1 + uint64(g.r.Intn(20))
		case 4:
			cur.Vote = (cur.Vote + 1 + uint64(g.r.Intn(3))) % 5
		case 5:
			cur.Term += 1 + uint64(g.r.Intn(2))
		default:
			cur.Term += uint64(g.r.Intn(2))
			cur.Commit = uint64(g.r.Intn(int(min64(nd.last(), 1000)) + 2))
		}
		if cur.empty() {
			cur.Term = 1
		}
		if cur.Term > g.term[n] {
			g.term[n] = cur.Term
		}
		if g.emit(op{Kind: "SAVE", Ups: []update{{N: n, St: cur}}}) {
			g.nmuts++
			g.ops = append(g.ops, op{Kind: "RRS", N: n, A: nd.marker})
			if g.r.Chance(1, 5) {
				g.emit(op{Kind: "REOPEN"})
				g.ops = append(g.ops, op{Kind: "RRS", N: n, A: nd.last()})
			}
		}
	}
}

// recreateStep: the replica has a log, its data is removed, and the same
// (shard, replica) joins again from a snapshot at S chosen around the OLD log
// (inside it, at its end, beyond it), appends S+1.. and is then asked for ranges
// below, across and at S, before and after a reopen. Nothing of the removed
// incarnation may come back.
func (g *gstate) recreateStep(n int) {
	nd := &g.ref.nodes[n]
	if len(nd.ents) == 0 {
		u := update{N: n, I0: nd.last() + 1}
		u.Ents = g.mkEnts(n, u.I0, g.count(), false)
		g.maybeState(n, &u)
		if !g.emit(op{Kind: "SAVE", Ups: []update{u}}) {
			return
		}
		g.nmuts++
	}
	oldFirst, oldLast := nd.marker+1, nd.last()
	if g.r.Chance(1, 4) {
		g.emit(op{Kind: "REOPEN"})
	}
	if !g.emit(op{Kind: "REMNODE", N: n}) {
		return
	}
	g.nmuts++
	g.term[n] = 0
	if g.r.Chance(1, 4) {
		g.emit(op{Kind: "REOPEN"})
	}
	var s uint64
	switch g.r.Intn(5) {
	case 0:
		s = oldLast
	case 1:
		s = oldLast + uint64(1+g.r.Intn(60))
	case 2:
		s = (oldLast/g.bs)*g.bs + uint64(g.r.Intn(int(g.bs))) // inside the old last batch
	default:
		s = oldFirst + uint64(g.r.Intn(int(oldLast-oldFirst+1)))
	}
	if s == 0 {
		s = 1
	}
	t := uint64(1 + g.r.Intn(3))
	g.term[n] = t
	u := update{N: n, Ss: snap{Index: s, Term: t, Tag: g.nextTag()}, St: hstate{Term: t, Vote: uint64(g.r.Intn(4)), Commit: s}}
	if g.r.Chance(4, 5) {
		k := g.count()
		if g.big && k > 6 {
			k = 6
		}
		u.I0 = s + 1
		u.Ents = g.mkEnts(n, s+1, k, false)
	}
	if !g.emit(op{Kind: "SAVE", Ups: []update{u}}) {
		return
	}
	g.nmuts++
	ask := func() {
		big := ^uint64(0)
		qs := [][2]uint64{{1, s + 1}, {s, nd.last() + 1}, {oldFirst, oldLast + 2}}
		if s > 2 {
			qs = append(qs, [2]uint64{s - 1, s + 3}, [2]uint64{1 + uint64(g.r.Intn(int(s-1))), s + uint64(g.r.Intn(4))})
		}
		for _, q := range qs {
			if q[0] <= q[1] {
				g.ops = append(g.ops, op{Kind: "Q", N: n, A: q[0], B: q[1], C: big})
			}
		}
		g.ops = append(g.ops, op{Kind: "RRS", N: n, A: s}, op{Kind: "GS", N: n}, op{Kind: "GB", N: n}, op{Kind: "LNI"})
		g.queries(n)
	}
	ask()
	if g.r.Chance(2, 3) {
		g.emit(op{Kind: "REOPEN"})
		ask()
	}
}

// compactStep: RemoveEntriesTo + compaction at the places that matter (the
// snapshot index, the very end of the log, right at / next to a batch boundary,
// the first retained entry), with every other kind of operation right after it:
// reopen, append, overwrite starting at the first retained entry, a snapshot
// record, a second compaction, and queries at the new first index.
func (g *gstate) compactStep(n int) {
	nd := &g.ref.nodes[n]
	if len(nd.ents) < 2 {
		u := g.appendUpdate(n, false)
		if !g.emit(op{Kind: "SAVE", Ups: []update{u}}) {
			return
		}
		g.nmuts++
	}
	pick := func() uint64 {
		lo, hi := nd.marker+1, nd.last()
		var c []uint64
		c = append(c, lo, hi, hi-1, lo+uint64(g.r.Intn(int(hi-lo+1))))
		if s := nd.ssidx(); s >= lo && s <= hi {
			c = append(c, s, s)
		}
		for b := (lo/g.bs + 1) * g.bs; b <= hi+1; b += g.bs {
			for _, x := range []uint64{b - 1, b, b + 1} {
				if x >= lo && x <= hi {
					c = append(c, x)
				}
			}
		}
		return c[g.r.Intn(len(c))]
	}
	rounds := 1 + g.r.Intn(2)
	for i := 0; i < rounds && len(nd.ents) > 0; i++ {
		if !g.emit(op{Kind: "REMTO", N: n, A: pick()}) {
			return
		}
		g.nmuts++
		g.ops = append(g.ops, op{Kind: "Q", N: n, A: nd.marker + 1, B: nd.last() + 1, C: ^uint64(0)},
			op{Kind: "RRS", N: n, A: nd.marker})
		switch g.r.Intn(6) {
		case 0:
			g.emit(op{Kind: "REOPEN"})
		case 1:
			if len(nd.ents) > 0 { // overwrite from the first retained entry
				if t := nd.ents[len(nd.ents)-1].Term; g.term[n] < t {
					g.term[n] = t
				}
				u := update{N: n, I0: nd.marker + 1, Ents: g.mkEnts(n, nd.marker+1, 1+g.r.Intn(len(nd.ents)+3), true)}
				if g.emit(op{Kind: "SAVE", Ups: []update{u}}) {
					g.nmuts++
				}
			}
		case 2:
			if g.emit(op{Kind: "SAVE", Ups: []update{g.appendUpdate(n, false)}}) {
				g.nmuts++
			}
		case 3:
			if nd.last() > nd.ssidx() {
				g.emit(op{Kind: "SNAP", N: n, Ss: snap{Index: nd.last(), Term: maxu(nd.lastTerm(), 1), Tag: g.nextTag()}})
			}
		}
		g.queries(n)
	}
}

func (g *gstate) step() {
	n := g.pickNode()
	if g.r.Chance(1, 12) {
		g.boundaryStep(n)
		return
	}
	if g.r.Chance(1, 16) {
		g.compactStep(n)
		return
	}
	if g.r.Chance(1, 12) {
		g.stateStep(n)
		return
	}
	if g.r.Chance(1, 14) {
		g.recreateStep(n)
		return
	}
	if g.r.Chance(1, 16) { // bootstrap record: saved when a replica is started, overwritten, listed
		if g.emit(op{Kind: "BOOT", N: n, A: uint64(g.r.Intn(2)), B: uint64(1 + g.r.Intn(3)), C: g.nextTag()}) {
			g.nmuts++
			g.ops = append(g.ops, op{Kind: "GB", N: n}, op{Kind: "LNI"})
			if g.r.Chance(1, 3) {
				g.emit(op{Kind: "REOPEN"})
				g.ops = append(g.ops, op{Kind: "GB", N: n}, op{Kind: "LNI"})
			}
		}
		return
	}
	nd := &g.ref.nodes[n]
	touched := []int{n}
	ok := false
	switch x := g.r.Intn(100); {
	case x < 36:
		ok = g.emit(op{Kind: "SAVE", Ups: []update{g.appendUpdate(n, false)}})
	case x < 50:
		ok = g.emit(op{Kind: "SAVE", Ups: []update{g.appendUpdate(n, true)}})
	case x < 56: // hard state only
		u := update{N: n}
		t := g.term[n] + uint64(g.r.Intn(2))
		if t == 0 {
			t = 1
		}
		g.term[n] = t
		u.St = hstate{Term: t, Vote: uint64(g.r.Intn(4)), Commit: nd.marker + uint64(g.r.Intn(len(nd.ents)+1))}
		ok = g.emit(op{Kind: "SAVE", Ups: []update{u}})
	case x < 63: // locally created snapshot
		s := nd.marker + uint64(g.r.Intn(len(nd.ents)+1))
		if g.r.Chance(1, 5) && nd.ssidx() > 1 {
			s = 1 + uint64(g.r.Intn(int(nd.ssidx()))) // older or equal
		}
		ss := snap{Index: s, Term: 1 + uint64(g.r.Intn(5)), Tag: g.nextTag()}
		if s == nd.ssidx() && nd.ss != nil {
			ss = *nd.ss
		}
		ok = g.emit(op{Kind: "SNAP", N: n, Ss: ss})
	case x < 70: // snapshot received from the leader: the log restarts at its index
		s := nd.last()
		switch g.r.Intn(4) {
		case 0:
			s += uint64(g.r.Intn(3))
		case 1:
			s = (s/g.bs+1)*g.bs - 2 + uint64(g.r.Intn(4)) // next to a batch boundary
		default:
			s += uint64(1 + g.r.Intn(120))
		}
		g.term[n] = maxu(maxu(g.term[n], nd.lastTerm()), 1) + uint64(g.r.Intn(2))
		u := update{N: n, Ss: snap{Index: s, Term: g.term[n], Tag: g.nextTag()}}
		if g.r.Bool() {
			u.I0 = s + 1
			u.Ents = g.mkEnts(n, s+1, g.count(), g.r.Chance(1, 3))
		}
		u.St = hstate{Term: maxu(g.term[n], 1), Vote: uint64(g.r.Intn(4)), Commit: s}
		ok = g.emit(op{Kind: "SAVE", Ups: []update{u}})
	case x < 78:
		idx := nd.marker + uint64(g.r.Intn(len(nd.ents)+1))
		if g.r.Bool() && nd.ssidx() >= nd.marker && nd.ssidx() <= nd.last() {
			idx = nd.ssidx()
		}
		ok = g.emit(op{Kind: "REMTO", N: n, A: idx})
	case x < 80:
		ok = g.emit(op{Kind: "REMNODE", N: n})
		g.term[n] = 0
	case x < 82:
		s := 1 + uint64(g.r.Intn(int(nd.last())+50))
		t := maxu(nd.lastTerm(), 1) + uint64(g.r.Intn(3))
		ok = g.emit(op{Kind: "IMPORT", N: n, Ss: snap{Index: s, Term: t, Tag: g.nextTag()}})
		g.term[n] = t
	case x < 89:
		ok = g.emit(op{Kind: "REOPEN"})
		touched = []int{0, 1, 2, 3}
	default: // several replicas in one SaveRaftState call
		var ups []update
		touched = nil
		for _, m := range []int{0, 1, 2} {
			if g.r.Chance(2, 3) {
				ups = append(ups, g.appendUpdate(m, g.r.Chance(1, 4)))
				touched = append(touched, m)
			}
		}
		if len(ups) > 0 {
			ok = g.emit(op{Kind: "SAVE", Ups: ups})
		}
	}
	if ok {
		g.nmuts++
		for _, m := range touched {
			if len(touched) == 1 || g.r.Chance(1, 2) {
				g.queries(m)
			}
		}
		// another replica sharing the store must be unaffected
		if g.r.Chance(1, 4) {
			g.queries(g.r.Intn(numNodes))
		}
	}
}

func maxu(a, b uint64) uint64 {
	if a > b {
		return a
	}
	return b
}

func genSeq(r *vh.Rand, big bool, nonCmd uint64) []op {
	g := &gstate{r: r, ref: &ref{nonCmd: nonCmd}, big: big, bs: hooks.BatchSize()}
	target := 12 + r.Intn(30)
	if big {
		target = 10 + r.Intn(10)
	}
	for tries := 0; g.nmuts < target && tries < 400; tries++ {
		g.step()
	}
	return g.ops
}

func gen(a vh.Args) {
	n := 120
	if a.Tier == "thorough" {
		n = 1500
	}
	if a.N > 0 {
		n = a.N
	}
	r := vh.NewRand(a.Seed)
	w := vh.Create(a.Cases)
	nonCmd := uint64((&pb.Entry{}).SizeUpperLimit())
	for i := 0; i < n; i++ {
		big := i%12 == 11
		ops := genSeq(r, big, nonCmd)
		var s []string
		for _, o := range ops {
			s = append(s, o.String())
		}
		body := strings.Join(s, " ; ")
		mlfs := []int64{700, 2048, 16384, 0}[r.Intn(4)]
		if big {
			mlfs = 300000
		}
		for _, kind := range []string{"plain", "batched", "tan", "tanmux"} {
			w.Printf("%s %s %d | %s\n", fmt.Sprintf("s%d.%s", i, kind), kind, mlfs, body)
		}
	}
	nidx := 150
	if a.Tier == "thorough" {
		nidx = 20000
	}
	for i := 0; i < nidx; i++ {
		w.Printf("x%d tanidx 0 | %s\n", i, genTanIdx(r))
	}
	w.Close()
}
