package main

import (
	"fmt"
	"strings"
)

// The property monitor's reference: a plain Go logical log per (shard,
// replica), written independently of the Coq spec (Model/LogStoreSpec.v) that
// it mirrors. It decides which operations/queries are inside the contract
// (wf*), and what a correct store must answer.

type rnode struct {
	marker uint64 // everything <= marker is compacted / covered by a snapshot
	mterm  uint64 // term of the marker entry / snapshot (terms never decrease along the log)
	ents   []ent  // indexes marker+1 .. marker+len(ents)
	st     *hstate
	ss     *snap
	// lowW: the lowest entry index saved for the replica since its data was last
	// removed (0 = nothing saved). Nothing below it can be stored: whatever
	// existed before was removed by RemoveNodeData. ImportSnapshot keeps the old
	// entries of the Pebble stores physically, so it does not reset it.
	lowW uint64
}

func (n *rnode) last() uint64 { return n.marker + uint64(len(n.ents)) }
func (n *rnode) lastTerm() uint64 {
	if l := len(n.ents); l > 0 {
		return n.ents[l-1].Term
	}
	return n.mterm
}
func (n *rnode) ssidx() uint64 {
	if n.ss == nil {
		return 0
	}
	return n.ss.Index
}

// the bootstrap record of a replica: written by SaveBootstrapInfo and by
// ImportSnapshot (Join, the snapshot's state machine type, no addresses),
// removed by RemoveNodeData
type bootrec struct {
	join, typ uint64
	tag       int64 // -1: no addresses
}

func (b bootrec) String() string { return fmt.Sprintf("%d %d %d", b.join, b.typ, b.tag) }

type ref struct {
	boot   [numNodes]*bootrec
	nodes  [numNodes]rnode
	nonCmd uint64
}

const maxIndex = uint64(1) << 62
const maxLen = uint64(1) << 20

func (r *ref) wfUpdate(u update) bool {
	n := r.nodes[u.N] // copy; slices are not mutated below
	marker, last := n.marker, n.last()
	if u.Ss.Index > 0 {
		s := u.Ss.Index
		if s >= maxIndex {
			return false
		}
		newer := s > n.ssidx() && s >= last
		same := n.ss != nil && *n.ss == u.Ss && s == last
		if !newer && !same {
			return false
		}
		if u.Ss.Term < n.lastTerm() {
			return false
		}
		marker, last = s, s
	}
	if len(u.Ents) > 0 {
		if !(marker < u.I0 && u.I0 <= last+1) || u.I0+uint64(len(u.Ents)) >= maxIndex {
			return false
		}
		prev := n.mterm
		if u.Ss.Index > 0 {
			prev = u.Ss.Term
		} else if u.I0-1 > n.marker {
			prev = n.ents[u.I0-1-n.marker-1].Term
		}
		if prev < 1 {
			prev = 1
		}
		// an overwrite carries a term at least as new as everything it truncates
		if u.Ss.Index == 0 && u.I0 <= n.last() && prev < n.lastTerm() {
			prev = n.lastTerm()
		}
		for _, e := range u.Ents {
			if e.Term < prev || e.Len < 8 || e.Len > maxLen {
				return false
			}
			prev = e.Term
		}
	}
	return true
}

func (r *ref) applyUpdate(u update) {
	n := &r.nodes[u.N]
	if u.Ss.Index > 0 {
		if u.Ss.Index > n.ssidx() {
			ss := u.Ss
			n.ss = &ss
		}
		n.marker = u.Ss.Index
		n.mterm = u.Ss.Term
		n.ents = nil
	}
	if !u.St.empty() {
		st := u.St
		n.st = &st
	}
	if len(u.Ents) > 0 {
		keep := u.I0 - n.marker - 1
		n.ents = append(append([]ent{}, n.ents[:keep]...), u.Ents...)
		if n.lowW == 0 || u.I0 < n.lowW {
			n.lowW = u.I0
		}
	}
}

// absentQuery: an IterateEntries below everything saved since the replica's
// data was removed (also at or below the marker, i.e. outside the contract of
// the refinement theorems). A store that really removed the node data must
// answer with nothing. The single-entry shape (high = low+1) is left out: the
// plain format reads the missing record and panics there by design.
func (r *ref) absentQuery(o op) bool {
	if o.bad || o.Kind != "Q" {
		return false
	}
	n := &r.nodes[o.N]
	return o.A <= o.B && o.B != o.A+1 && o.B <= maxIndex && (n.lowW == 0 || o.A < n.lowW)
}

// wf reports whether the operation is inside the contract in the current state.
func (r *ref) wf(o op) bool {
	if o.bad {
		return false
	}
	switch o.Kind {
	case "SAVE":
		seen := map[int]bool{}
		for _, u := range o.Ups {
			if seen[u.N] || !r.wfUpdate(u) {
				return false
			}
			seen[u.N] = true
		}
		// one SaveRaftState call addresses one partition of the store
		if len(o.Ups) > 1 {
			for _, u := range o.Ups {
				if u.N > 2 {
					return false
				}
			}
		}
		return true
	case "SNAP":
		n := &r.nodes[o.N]
		s := o.Ss.Index
		if s == 0 || s > n.last() {
			return false
		}
		return s != n.ssidx() || *n.ss == o.Ss
	case "REMTO":
		// index 0 is never compacted (and Pebble's Compact refuses an empty key range)
		return o.A >= 1 && o.A <= r.nodes[o.N].last()
	case "IMPORT":
		return o.Ss.Index > 0 && o.Ss.Index < maxIndex && o.Ss.Term >= r.nodes[o.N].lastTerm()
	case "Q":
		return r.nodes[o.N].marker < o.A && o.A <= o.B && o.B <= maxIndex && o.C >= 1
	case "RRS":
		n := &r.nodes[o.N]
		return n.marker <= o.A && o.A <= n.last()
	}
	return true
}

func (r *ref) apply(o op) {
	switch o.Kind {
	case "SAVE":
		for _, u := range o.Ups {
			r.applyUpdate(u)
		}
	case "SNAP":
		n := &r.nodes[o.N]
		if o.Ss.Index > n.ssidx() {
			ss := o.Ss
			n.ss = &ss
		}
	case "REMTO":
		n := &r.nodes[o.N]
		if o.A > n.marker {
			n.mterm = n.ents[o.A-n.marker-1].Term
			n.ents = append([]ent{}, n.ents[o.A-n.marker:]...)
			n.marker = o.A
		}
	case "BOOT":
		r.boot[o.N] = &bootrec{join: o.A, typ: o.B, tag: int64(o.C)}
	case "REMNODE":
		r.boot[o.N] = nil
		r.nodes[o.N] = rnode{}
	case "IMPORT":
		ss := o.Ss
		r.boot[o.N] = &bootrec{join: 1, typ: 1, tag: -1}
		r.nodes[o.N] = rnode{lowW: r.nodes[o.N].lowW, marker: ss.Index, mterm: ss.Term, st: &hstate{Term: ss.Term, Commit: ss.Index}, ss: &ss}
	}
}

// query answers

func (r *ref) query(o op) string {
	if o.Kind == "LNI" {
		var l []string
		for i, b := range r.boot {
			if b != nil {
				l = append(l, fmt.Sprint(i))
			}
		}
		return "[" + strings.Join(l, " ") + "]"
	}
	n := &r.nodes[o.N]
	switch o.Kind {
	case "GB":
		if r.boot[o.N] == nil {
			return "none"
		}
		return r.boot[o.N].String()
	case "Q":
		var out []ent
		size := uint64(0)
		for i := o.A; i < o.B && i <= n.last(); i++ {
			e := n.ents[i-n.marker-1]
			out = append(out, e)
			size += r.nonCmd + e.Len
			if size > o.C {
				break
			}
		}
		return fmt.Sprintf("%s %d", showEnts(out), size)
	case "RRS":
		if n.st == nil {
			return "nostate"
		}
		if n.last() > o.A {
			return fmt.Sprintf("st=%d,%d,%d first=%d count=%d", n.st.Term, n.st.Vote, n.st.Commit, o.A+1, n.last()-o.A)
		}
		return fmt.Sprintf("st=%d,%d,%d count=0", n.st.Term, n.st.Vote, n.st.Commit)
	case "GS":
		if n.ss == nil {
			return "none"
		}
		return fmt.Sprintf("%d %d %d", n.ss.Index, n.ss.Term, n.ss.Tag)
	}
	return "?"
}
