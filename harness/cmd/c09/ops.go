package main

import (
	"fmt"
	"strconv"
	"strings"
)

// The case format (one case per line):
//
//	<caseid> <kind> <mlfs> | op ; op ; ...
//
// kind: plain | batched | tan | tanmux (which real store is driven)
// mlfs: MaxLogFileSize used for the tan kinds (0 = default)
//
// Nodes are addressed by a small index n, see nodeIDs.
//
//	SAVE u [+ u ...]   one SaveRaftState call; u = n term vote commit ssidx ssterm sstag i0 k (term tag len){k}
//	SNAP n idx term tag            SaveSnapshots with one update
//	REMTO n idx                    RemoveEntriesTo followed by CompactEntriesTo (waited for)
//	REMNODE n                      RemoveNodeData
//	IMPORT n idx term tag          close/reopen, ImportSnapshot, close/reopen (what tools/import.go does)
//	REOPEN                         close/reopen
//	Q n low high maxsize           IterateEntries
//	RRS n arg                      ReadRaftState(arg)
//	GS n                           GetSnapshot
//	BOOT n join type tag           SaveBootstrapInfo (join 0|1, state machine type 1..3, tag -> addresses)
//	GB n                           GetBootstrapInfo
//	LNI                            ListNodeInfo

type ent struct {
	Index, Term, Tag, Len uint64
}

type hstate struct{ Term, Vote, Commit uint64 }

func (s hstate) empty() bool { return s.Term == 0 && s.Vote == 0 && s.Commit == 0 }

type snap struct{ Index, Term, Tag uint64 }

type update struct {
	N    int
	St   hstate
	Ss   snap
	I0   uint64
	Ents []ent
}

type op struct {
	Kind string
	Ups  []update // SAVE
	N    int
	Ss   snap   // SNAP, IMPORT
	A    uint64 // REMTO idx, RRS arg, Q low
	B    uint64 // Q high
	C    uint64 // Q maxsize
	bad  bool
}

type nodeID struct{ Shard, Replica uint64 }

// nodes 0,1,2 share a Pebble shard (LogDB.Shards = 2) and a multiplexed tan db
// (shardID % 16 == 1); node 3 lives elsewhere.
var nodeIDs = []nodeID{{1, 1}, {17, 1}, {1, 2}, {2, 1}}

const numNodes = 4

func (u update) String() string {
	var b strings.Builder
	fmt.Fprintf(&b, "%d %d %d %d %d %d %d %d %d", u.N, u.St.Term, u.St.Vote, u.St.Commit,
		u.Ss.Index, u.Ss.Term, u.Ss.Tag, u.I0, len(u.Ents))
	for _, e := range u.Ents {
		fmt.Fprintf(&b, " %d %d %d", e.Term, e.Tag, e.Len)
	}
	return b.String()
}

func (o op) String() string {
	switch o.Kind {
	case "SAVE":
		var s []string
		for _, u := range o.Ups {
			s = append(s, u.String())
		}
		return "SAVE " + strings.Join(s, " + ")
	case "SNAP", "IMPORT":
		return fmt.Sprintf("%s %d %d %d %d", o.Kind, o.N, o.Ss.Index, o.Ss.Term, o.Ss.Tag)
	case "REMTO", "RRS":
		return fmt.Sprintf("%s %d %d", o.Kind, o.N, o.A)
	case "REMNODE", "GS", "GB":
		return fmt.Sprintf("%s %d", o.Kind, o.N)
	case "BOOT":
		return fmt.Sprintf("BOOT %d %d %d %d", o.N, o.A, o.B, o.C)
	case "LNI":
		return "LNI"
	case "REOPEN":
		return "REOPEN"
	case "Q":
		return fmt.Sprintf("Q %d %d %d %d", o.N, o.A, o.B, o.C)
	}
	return "?"
}

func pu(s string) (uint64, bool) {
	v, err := strconv.ParseUint(s, 10, 64)
	return v, err == nil
}

func parseOp(text string) op {
	f := strings.Fields(text)
	bad := op{Kind: "?", bad: true}
	if len(f) == 0 {
		return bad
	}
	nums := func(ss []string) ([]uint64, bool) {
		out := make([]uint64, len(ss))
		for i, s := range ss {
			v, ok := pu(s)
			if !ok {
				return nil, false
			}
			out[i] = v
		}
		return out, true
	}
	node := func(v uint64) (int, bool) { return int(v), v < numNodes }
	switch f[0] {
	case "SAVE":
		o := op{Kind: "SAVE"}
		for _, part := range strings.Split(strings.Join(f[1:], " "), "+") {
			v, ok := nums(strings.Fields(part))
			if !ok || len(v) < 9 || uint64(len(v)) != 9+3*v[8] {
				return bad
			}
			n, ok := node(v[0])
			if !ok {
				return bad
			}
			u := update{N: n, St: hstate{v[1], v[2], v[3]}, Ss: snap{v[4], v[5], v[6]}, I0: v[7]}
			for i := uint64(0); i < v[8]; i++ {
				u.Ents = append(u.Ents, ent{Index: u.I0 + i, Term: v[9+3*i], Tag: v[10+3*i], Len: v[11+3*i]})
			}
			o.Ups = append(o.Ups, u)
		}
		if len(o.Ups) == 0 {
			return bad
		}
		return o
	case "SNAP", "IMPORT":
		v, ok := nums(f[1:])
		if !ok || len(v) != 4 {
			return bad
		}
		n, ok := node(v[0])
		if !ok {
			return bad
		}
		return op{Kind: f[0], N: n, Ss: snap{v[1], v[2], v[3]}}
	case "REMTO", "RRS":
		v, ok := nums(f[1:])
		if !ok || len(v) != 2 {
			return bad
		}
		n, ok := node(v[0])
		if !ok {
			return bad
		}
		return op{Kind: f[0], N: n, A: v[1]}
	case "LNI":
		return op{Kind: "LNI"}
	case "BOOT":
		v, ok := nums(f[1:])
		if !ok || len(v) != 4 || v[1] > 1 || v[2] < 1 || v[2] > 3 {
			return bad
		}
		n, ok := node(v[0])
		if !ok {
			return bad
		}
		return op{Kind: "BOOT", N: n, A: v[1], B: v[2], C: v[3]}
	case "REMNODE", "GS", "GB":
		v, ok := nums(f[1:])
		if !ok || len(v) != 1 {
			return bad
		}
		n, ok := node(v[0])
		if !ok {
			return bad
		}
		return op{Kind: f[0], N: n}
	case "REOPEN":
		return op{Kind: "REOPEN"}
	case "Q":
		v, ok := nums(f[1:])
		if !ok || len(v) != 4 {
			return bad
		}
		n, ok := node(v[0])
		if !ok {
			return bad
		}
		return op{Kind: "Q", N: n, A: v[1], B: v[2], C: v[3]}
	}
	return bad
}

type tcase struct {
	ID   string
	Kind string
	Mlfs int64
	Ops  []op
	Line string
}

func parseCase(line string) (tcase, bool) {
	head, body, ok := strings.Cut(line, " | ")
	if !ok {
		head, body = strings.TrimSuffix(strings.TrimSpace(line), " |"), ""
	}
	hf := strings.Fields(head)
	if len(hf) != 3 {
		return tcase{}, false
	}
	m, err := strconv.ParseInt(hf[2], 10, 64)
	if err != nil {
		return tcase{}, false
	}
	c := tcase{ID: hf[0], Kind: hf[1], Mlfs: m, Line: line}
	for _, t := range strings.Split(body, " ; ") {
		if strings.TrimSpace(t) == "" {
			continue
		}
		c.Ops = append(c.Ops, parseOp(t))
	}
	return c, true
}

func showEnts(es []ent) string {
	if len(es) == 0 {
		return "[]"
	}
	var s []string
	for _, e := range es {
		s = append(s, fmt.Sprintf("%d:%d:%d:%d", e.Index, e.Term, e.Tag, e.Len))
	}
	return "[" + strings.Join(s, " ") + "]"
}
