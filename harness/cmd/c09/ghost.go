package main

import (
	"fmt"
	"strings"
)

// ghost: what a replica held when its data was removed on the multiplexed tan
// store. The KNOWN FINDING tanmux-removal-not-durable is exactly this data
// coming back after a close/reopen; a wrong answer is attributed to the finding
// only when it is fully explained by it (see explains), everything else about a
// removed replica is judged like any other answer.
type ghost struct {
	ents     map[ent]bool    // entries saved before the removal (the tan index also keeps compacted ones)
	idx      map[uint64]bool // their indexes
	sts      map[string]bool // hard states (rendered)
	sss      map[string]bool // snapshot records (rendered)
	marker   uint64          // highest compaction marker of a removed incarnation
	reopened bool            // a reopen happened since the (last) removal
}

func newGhost() *ghost {
	return &ghost{ents: map[ent]bool{}, idx: map[uint64]bool{}, sts: map[string]bool{}, sss: map[string]bool{}}
}

func showState(s hstate) string { return fmt.Sprintf("st=%d,%d,%d", s.Term, s.Vote, s.Commit) }

// absorb records the reference node right before its data is removed.
func (g *ghost) absorb(n *rnode, ever []ent, everSt []hstate, everSs []snap) {
	// index files written at earlier rollovers bring back OLDER records as well
	for _, st := range everSt {
		g.sts[showState(st)] = true
	}
	for _, ss := range everSs {
		g.sss[fmt.Sprintf("%d %d %d", ss.Index, ss.Term, ss.Tag)] = true
	}
	for _, e := range ever {
		g.ents[e] = true
		g.idx[e.Index] = true
	}
	for _, e := range n.ents {
		g.ents[e] = true
		g.idx[e.Index] = true
	}
	if n.st != nil {
		g.sts[showState(*n.st)] = true
	}
	if n.ss != nil {
		g.sss[fmt.Sprintf("%d %d %d", n.ss.Index, n.ss.Term, n.ss.Tag)] = true
	}
	if n.marker > g.marker {
		g.marker = n.marker
	}
	g.reopened = false
}

func parseEnts(s string) ([]ent, bool) {
	i, j := strings.Index(s, "["), strings.Index(s, "]")
	if i != 0 || j < 0 || strings.Contains(s, "corrupt") {
		return nil, false
	}
	var out []ent
	for _, f := range strings.Fields(s[1:j]) {
		var e ent
		if _, err := fmt.Sscanf(f, "%d:%d:%d:%d", &e.Index, &e.Term, &e.Tag, &e.Len); err != nil {
			return nil, false
		}
		out = append(out, e)
	}
	return out, true
}

func parseRRS(s string) (st string, first, count uint64, ok bool) {
	if s == "nostate" {
		return "nostate", 0, 0, true
	}
	f := strings.Fields(s)
	if len(f) == 2 && f[1] == "count=0" {
		return f[0], 0, 0, true
	}
	if len(f) == 3 {
		if _, err := fmt.Sscanf(f[1]+" "+f[2], "first=%d count=%d", &first, &count); err == nil {
			return f[0], first, count, true
		}
	}
	return "", 0, 0, false
}

// explains reports whether the wrong answer `got` (the logical log says `want`)
// is the known finding's signature: after a reopen, the answer is the right one
// plus data of the removed incarnation (its entries after the expected ones, its
// hard state / snapshot record where none or an older one was saved since, its
// compaction marker hiding a range), and nothing else.
func (g *ghost) explains(o op, got, want string, absentQ bool, cur map[ent]bool) bool {
	if g == nil || !g.reopened || got == want {
		return false
	}
	switch o.Kind {
	case "Q":
		ge, ok1 := parseEnts(got)
		we, ok2 := parseEnts(want)
		if !ok1 || !ok2 {
			return false
		}
		if len(ge) == 0 {
			return o.A <= g.marker // hidden by the removed incarnation's compaction marker
		}
		if len(ge) < len(we) {
			// cut short where the removed incarnation's compaction marker (reloaded
			// with its index) hides or has compacted away the new entries
			for i, e := range ge {
				if e != we[i] {
					return false
				}
			}
			return we[len(ge)].Index <= g.marker
		}
		// inside the contract the expected answer comes first; every other entry is
		// one of the removed incarnation or a current entry of the replica (a range
		// starting below the new log runs from old entries into the new ones)
		for i, e := range ge {
			if i < len(we) && !absentQ {
				if e != we[i] {
					return false
				}
			} else if !g.ents[e] && !cur[e] {
				return false
			}
		}
		return true
	case "RRS":
		if got == "err" && want == "nostate" {
			// the removed incarnation's state record is indexed again but its log
			// file has been deleted in the meantime
			return true
		}
		gs, gf, gc, ok1 := parseRRS(got)
		ws, wf, wc, ok2 := parseRRS(want)
		if !ok1 || !ok2 {
			return false
		}
		if gs != ws && !(g.sts[gs] && ws == "nostate") && !g.sts[gs] {
			return false
		}
		if gs == "nostate" {
			return false
		}
		if ws == "nostate" {
			return true // a removed incarnation's state answers; the range then is whatever its index holds
		}
		if gc < wc {
			return o.A+gc+1 <= g.marker && (gc == 0 || gf == wf) // compacted away by the reloaded marker
		}
		if wc > 0 && gc > 0 && gf != wf {
			return false
		}
		// the extra positions are positions of the removed incarnation
		for i := o.A + wc + 1; i <= o.A+gc && i-o.A-wc < 1<<16; i++ {
			if !g.idx[i] {
				return false
			}
		}
		return true
	case "GS":
		return g.sss[got]
	}
	return false
}
