// C09 harness: the REAL log stores of /repo (sharded Pebble LogDB in the plain
// and the batched entry format, Tan regular and multiplexed), driven through
// raftio.ILogDB over an in-memory file system, versus the Coq spec/model.
package main

import (
	"fmt"
	"strings"

	pb "github.com/lni/dragonboat/v4/raftpb"
	"github.com/lni/dragonboat/v4/logger"
	hooks "github.com/lni/dragonboat/v4/verifhooks/c09"
	"verif/harness/vh"
)

// kinds for which the extracted FAITHFUL model (not only the spec) is compared:
// raw observations, also outside the contract.
var rawKinds = map[string]bool{"plain": true, "batched": true}

func curEnts(n *rnode) map[ent]bool {
	m := map[ent]bool{}
	for _, e := range n.ents {
		m[e] = true
	}
	return m
}

func isQuery(o op) bool { return o.Kind == "Q" || o.Kind == "RRS" || o.Kind == "GS" }

func runCase(c tcase, obs *vh.LineWriter, st *vh.Stats, nonCmd uint64) {
	r := &ref{nonCmd: nonCmd}
	s, err := openStore(c.Kind, c.Mlfs)
	if err != nil {
		obs.Printf("%s openfail\n", c.ID)
		st.Violation(c.ID, "cannot open store: "+err.Error())
		return
	}
	defer func() {
		if p := vh.Catch(func() { _ = s.close() }); p != "" {
			st.Violation(c.ID, "close panicked: "+p)
		}
	}()
	nontrivial := map[string]bool{}
	violated := false
	// KNOWN FINDING (findings/known.txt, tanmux-removal-not-durable): in the
	// multiplexed tan mode RemoveNodeData/ImportSnapshot are not durable for the
	// removed replica. Only a wrong answer that is fully explained by the removed
	// incarnation's data coming back after a reopen (ghost.explains) is reported,
	// once, under the known finding's name; the reference answer is then written
	// to impl.obs so that the rest of the case is still compared. Any other wrong
	// answer about a removed replica is an ordinary violation.
	ghosts := map[int]*ghost{}
	ever := map[int][]ent{} // every entry ever saved per replica (the tan index keeps compacted ones too)
	everSt := map[int][]hstate{}
	everSs := map[int][]snap{}
	taintReported := false
	boundaryEnd := map[int]int{} // replica -> op index of a save that ended on the last slot of a batch
	for k, o := range c.Ops {
		if o.bad {
			obs.Printf("%s %d ? bad\n", c.ID, k)
			continue
		}
		st.Count("op." + o.Kind)
		if o.Kind == "GB" || o.Kind == "LNI" {
			got, want := s.bootQuery(o), r.query(o)
			obs.Printf("%s %d %s %s\n", c.ID, k, o.Kind, got)
			if got != want && !violated {
				violated = true
				st.Violation(c.ID, fmt.Sprintf("store=%s op#%d %s: store answered {%s} but the bootstrap records saved say {%s}", c.Kind, k, o.String(), got, want))
			}
			continue
		}
		wf := r.wf(o)
		if isQuery(o) {
			absent := !wf && r.absentQuery(o)
			if absent {
				// monitor only (the model line stays "unspec"): nothing of a removed
				// incarnation may be served
				st.Count("query.below-everything-saved-since-removal")
				_, got := s.query(o)
				if got != "[] 0" {
					msg := fmt.Sprintf("op#%d %s: store answered {%s} but nothing at or above index %d was saved for this replica since its data was removed", k, o.String(), got, o.A)
					if ghosts[o.N].explains(o, got, "[] 0", true, curEnts(&r.nodes[o.N])) {
						st.Count("known.tanmux-tainted-answers")
						if !taintReported {
							taintReported = true
							st.Violation(c.ID, "tanmux-removal-not-durable: "+msg)
						}
					} else if !violated {
						violated = true
						st.Violation(c.ID, fmt.Sprintf("store=%s %s", c.Kind, msg))
					}
				}
			}
			if !wf && !rawKinds[c.Kind] {
				// outside the contract the stores are only compared with their
				// faithful model (tan panics while holding its mutex on high < low)
				st.Count("query.outside-contract")
				obs.Printf("%s %d %s unspec\n", c.ID, k, o.Kind)
				continue
			}
			raw, canon := s.query(o)
			if wf {
				want := r.query(o)
				if canon != want && ghosts[o.N].explains(o, canon, want, false, curEnts(&r.nodes[o.N])) {
					st.Count("known.tanmux-tainted-answers")
					if !taintReported {
						taintReported = true
						st.Violation(c.ID, fmt.Sprintf("tanmux-removal-not-durable: op#%d %s: store answered {%s} but the logical log says {%s}", k, o.String(), canon, want))
					}
					canon = want
				}
				obs.Printf("%s %d %s %s\n", c.ID, k, o.Kind, canon)
				if canon != want && !violated {
					violated = true
					st.Violation(c.ID, fmt.Sprintf("store=%s op#%d %s: store answered {%s} but the logical log says {%s}", c.Kind, k, o.String(), canon, want))
				}
				if o.Kind == "Q" && ghosts[o.N] == nil && o.A < o.B && o.B <= r.nodes[o.N].last()+1 {
					// the same range through the real LogReader (what the raft core calls):
					// entries up to the size limit, the one exceeding it dropped, at least one
					n := &r.nodes[o.N]
					var exp []ent
					size := uint64(0)
					for i := o.A; i < o.B; i++ {
						e := n.ents[i-n.marker-1]
						size += nonCmd + e.Len
						if size > o.C && len(exp) > 0 {
							break
						}
						exp = append(exp, e)
						if size > o.C {
							break
						}
					}
					st.Count("query.through-logreader")
					got, _ := s.readerEntries(o.N, n.marker, maxu(n.mterm, 1), uint64(len(n.ents)), o.A, o.B, o.C)
					if got != showEnts(exp) && !violated {
						violated = true
						st.Violation(c.ID, fmt.Sprintf("store=%s op#%d %s: LogReader.Entries on top of the store returned {%s} but the logical log says {%s}", c.Kind, k, o.String(), got, showEnts(exp)))
					}
				}
				if o.Kind == "Q" && strings.Contains(canon, ":") {
					n := &r.nodes[o.N]
					if o.B > n.last()+1 {
						nontrivial["clamp"] = true
					}
					if o.C < 1<<40 {
						nontrivial["sizelimit"] = true
					}
				}
			} else {
				st.Count("query.outside-contract")
				obs.Printf("%s %d %s unspec\n", c.ID, k, o.Kind)
			}
			if rawKinds[c.Kind] {
				obs.Printf("%s %d RAW %s\n", c.ID, k, raw)
			}
			continue
		}
		if !wf {
			st.Count("op.skipped-nonwf")
			obs.Printf("%s %d %s nonwf\n", c.ID, k, o.Kind)
			continue
		}
		// coverage bookkeeping (before the reference moves on)
		if o.Kind == "SAVE" {
			for _, u := range o.Ups {
				n := &r.nodes[u.N]
				if len(u.Ents) > 0 && u.Ss.Index == 0 && u.I0 <= n.last() {
					nontrivial["overwrite"] = true
					if u.I0+uint64(len(u.Ents))-1 < n.last() {
						nontrivial["shorter-suffix"] = true
						st.Count("save.overwrite-shorter")
					} else {
						st.Count("save.overwrite")
					}
				}
				if len(u.Ents) > 0 {
					bs := hooks.BatchSize()
					if u.I0/bs != (u.I0+uint64(len(u.Ents))-1)/bs {
						st.Count("save.straddles-batch")
						nontrivial["straddle"] = true
					}
					if (u.I0+uint64(len(u.Ents)))%bs == 0 {
						st.Count("save.ends-on-last-slot-of-batch")
						boundaryEnd[u.N] = k
					} else if u.Ss.Index == 0 && u.I0 <= n.last() && u.I0%bs != 0 {
						if k0, ok := boundaryEnd[u.N]; ok && k0 >= 0 {
							st.Count("save.midbatch-overwrite-right-after-boundary-save")
						}
						boundaryEnd[u.N] = -1
					} else {
						boundaryEnd[u.N] = -1
					}
				}
				if u.Ss.Index > 0 {
					st.Count("save.with-snapshot")
				}
			}
			if len(o.Ups) > 1 {
				st.Count("save.multi-update")
			}
		}
		if c.Kind == "tanmux" && (o.Kind == "REMNODE" || o.Kind == "IMPORT") {
			if ghosts[o.N] == nil {
				ghosts[o.N] = newGhost()
			}
			ghosts[o.N].absorb(&r.nodes[o.N], ever[o.N], everSt[o.N], everSs[o.N])
		}
		switch o.Kind {
		case "SAVE":
			for _, u := range o.Ups {
				ever[u.N] = append(ever[u.N], u.Ents...)
				if !u.St.empty() {
					everSt[u.N] = append(everSt[u.N], u.St)
				}
				if u.Ss.Index > 0 {
					everSs[u.N] = append(everSs[u.N], u.Ss)
				}
			}
		case "SNAP":
			everSs[o.N] = append(everSs[o.N], o.Ss)
		case "IMPORT":
			everSs[o.N] = append(everSs[o.N], o.Ss)
			everSt[o.N] = append(everSt[o.N], hstate{Term: o.Ss.Term, Commit: o.Ss.Index})
		}
		res, detail := s.exec(o)
		r.apply(o)
		if o.Kind == "REOPEN" || o.Kind == "IMPORT" {
			for _, g := range ghosts {
				g.reopened = true
			}
		}
		obs.Printf("%s %d %s %s\n", c.ID, k, o.Kind, res)
		if res != "ok" && !violated {
			violated = true
			st.Violation(c.ID, fmt.Sprintf("store=%s op#%d %s: %s: %s", c.Kind, k, o.String(), res, detail))
		}
		if o.Kind == "REOPEN" || o.Kind == "IMPORT" {
			nontrivial["reopen"] = true
		}
	}
	nt := (nontrivial["overwrite"] || nontrivial["straddle"]) && (nontrivial["clamp"] || nontrivial["sizelimit"])
	key := c.Line
	if i := strings.Index(key, " "); i > 0 {
		key = key[i:]
	}
	st.Case(key, nt, c.Line)
	st.Count("store." + c.Kind)
	if nontrivial["shorter-suffix"] {
		st.Count("case.with-shorter-suffix-overwrite")
	}
	if nontrivial["reopen"] {
		st.Count("case.with-reopen")
	}
}

func main() {
	logger.GetLogger("logdb").SetLevel(logger.ERROR)
	logger.GetLogger("tan").SetLevel(logger.ERROR)
	logger.GetLogger("pebblekv").SetLevel(logger.ERROR)
	logger.GetLogger("config").SetLevel(logger.ERROR)
	a := vh.ParseArgs()
	switch a.Mode {
	case "gen":
		gen(a)
	case "run":
		st := vh.NewStats("operation sequences over 4 (shard,replica) pairs sharing a store (3 in one Pebble shard / one multiplexed tan db): appends, suffix overwrites with a newer term incl. shorter suffixes, hard-state updates, snapshot records (SaveSnapshots and snapshot-carrying updates), RemoveEntriesTo+compaction, RemoveNodeData, ImportSnapshot, close/reopen; every sequence is run on all four store kinds; after every mutation IterateEntries/ReadRaftState/GetSnapshot with boundary-biased ranges and size limits. non-trivial = the case contains a suffix overwrite or a save straddling the batched-format batch size AND a query whose answer was clamped by the logical end or cut by the size limit; distinct by full case text")
		nonCmd := uint64((&pb.Entry{}).SizeUpperLimit())
		st.Notes["entry_non_cmd_fields_size"] = fmt.Sprint(nonCmd)
		st.Notes["batch_size"] = fmt.Sprint(hooks.BatchSize())
		st.Notes["tan_index_block_size"] = fmt.Sprint(hooks.TanIndexBlockSize())
		obs := vh.Create(a.Out + "/impl.obs")
		for _, line := range vh.ReadLines(a.Cases) {
			if hf := strings.Fields(line); len(hf) >= 2 && hf[1] == "tanidx" {
				_, body, _ := strings.Cut(line, " | ")
				var ops []string
				for _, t := range strings.Split(body, " ; ") {
					if strings.TrimSpace(t) != "" {
						ops = append(ops, t)
					}
				}
				runTanIdx(tcase{ID: hf[0], Kind: "tanidx", Line: line}, ops, obs, st)
				continue
			}
			c, ok := parseCase(line)
			if !ok {
				obs.Printf("%s badcase\n", strings.Fields(line)[0])
				continue
			}
			runCase(c, obs, st, nonCmd)
		}
		obs.Close()
		st.Write(a.Out)
	}
}
