package main

import (
	"fmt"
	"strings"

	hooks "github.com/lni/dragonboat/v4/verifhooks/c09"
	"verif/harness/vh"
)

// White-box cases for tan's entry index (internal/tan/index.go):
//
//	<caseid> tanidx 0 | U start end file pos len ; IQ low high ; ...
//
// U = index.update(indexEntry{...}); IQ = index.query(low, high).

func showIndex(es []hooks.IndexEntry) string {
	if len(es) == 0 {
		return "[]"
	}
	var s []string
	for _, e := range es {
		s = append(s, fmt.Sprintf("%d-%d@%d:%d+%d", e.Start, e.End, e.FileNum, e.Pos, e.Length))
	}
	return "[" + strings.Join(s, " ") + "]"
}

type idxLoc struct {
	file uint64
	pos  int64
}

func runTanIdx(c tcase, bodyOps []string, obs *vh.LineWriter, st *vh.Stats) {
	var idx []hooks.IndexEntry
	ref := map[uint64]idxLoc{} // position -> the record that wrote it last
	violated := false
	viol := func(k int, msg string) {
		if !violated {
			violated = true
			st.Violation(c.ID, fmt.Sprintf("tanidx op#%d %s: %s", k, bodyOps[k], msg))
		}
	}
	merged, partial, cut := false, false, false
	for k, text := range bodyOps {
		f := strings.Fields(text)
		v := make([]uint64, 0, 5)
		okp := len(f) >= 1
		for _, x := range f[1:] {
			n, ok := pu(x)
			okp = okp && ok
			v = append(v, n)
		}
		switch {
		case okp && f[0] == "U" && len(v) == 5 && v[0] <= v[1] && v[1]-v[0] < 4096 && v[1] < 1<<62:
			st.Count("op.U")
			e := hooks.IndexEntry{Start: v[0], End: v[1], FileNum: v[2], Pos: int64(v[3]), Length: int64(v[4])}
			before := len(idx)
			var lastStart, lastEnd uint64
			if before > 0 {
				lastStart, lastEnd = idx[before-1].Start, idx[before-1].End
			}
			p := vh.Catch(func() { idx = hooks.TanIndexUpdate(idx, e) })
			if p != "" {
				obs.Printf("%s %d U panic\n", c.ID, k)
				viol(k, "update panicked: "+p)
				continue
			}
			obs.Printf("%s %d U %s\n", c.ID, k, showIndex(idx))
			if before > 0 {
				if len(idx) == before && e.Start == lastEnd+1 {
					merged = true
					st.Count("idx.merge")
				}
				if e.Start > lastStart && e.Start <= lastEnd {
					partial = true
					st.Count("idx.partial-overwrite")
				}
				if e.Start < lastStart {
					cut = true
					st.Count("idx.cut")
				}
			}
			// monitor: latest writer wins, sorted and disjoint
			for x := range ref {
				if x >= e.Start {
					delete(ref, x)
				}
			}
			for x := e.Start; x <= e.End; x++ {
				ref[x] = idxLoc{e.FileNum, e.Pos}
			}
			covered := 0
			for i, ie := range idx {
				if ie.Start > ie.End || (i > 0 && idx[i-1].End >= ie.Start) {
					viol(k, "index not sorted/disjoint: "+showIndex(idx))
				}
				for x := ie.Start; x <= ie.End && x-ie.Start < 1<<16; x++ {
					covered++
					l, ok := ref[x]
					if !ok {
						viol(k, fmt.Sprintf("position %d is indexed (%s) but was overwritten/truncated", x, showIndex(idx)))
					} else if l.file != ie.FileNum || l.pos < ie.Pos || l.pos > ie.Pos+ie.Length {
						viol(k, fmt.Sprintf("position %d is indexed by %s but its latest writer is file %d pos %d", x, showIndex(idx), l.file, l.pos))
					}
				}
			}
			if covered != len(ref) {
				viol(k, fmt.Sprintf("%d positions indexed, %d expected: %s", covered, len(ref), showIndex(idx)))
			}
		case okp && f[0] == "IQ" && len(v) == 2:
			st.Count("op.IQ")
			var res []hooks.IndexEntry
			var ok bool
			p := vh.Catch(func() { res, ok = hooks.TanIndexQuery(idx, v[0], v[1]) })
			if p != "" {
				obs.Printf("%s %d IQ panic\n", c.ID, k)
				if v[1] >= v[0] {
					viol(k, "query panicked: "+p)
				}
				continue
			}
			obs.Printf("%s %d IQ %s %v\n", c.ID, k, showIndex(res), ok)
			// monitor: the result is the contiguous run of indexed positions from low
			want := uint64(0)
			for x := v[0]; x < v[1]; x++ {
				if _, in := ref[x]; !in {
					break
				}
				want++
			}
			got := uint64(0)
			for i, ie := range res {
				if i > 0 && res[i-1].End+1 != ie.Start {
					viol(k, "gap inside the query result "+showIndex(res))
				}
				if i == 0 && !(ie.Start <= v[0] && v[0] <= ie.End) {
					viol(k, "query result does not start at low: "+showIndex(res))
				}
				lo, hi := ie.Start, ie.End+1
				if lo < v[0] {
					lo = v[0]
				}
				if hi > v[1] {
					hi = v[1]
				}
				if hi > lo {
					got += hi - lo
				}
			}
			if got != want && !(want == 0 && len(res) <= 1 && got == 0) {
				viol(k, fmt.Sprintf("query covers %d positions from low, the index holds %d contiguous ones: %s", got, want, showIndex(res)))
			}
		default:
			obs.Printf("%s %d ? bad\n", c.ID, k)
		}
	}
	key := c.Line
	if i := strings.Index(key, " "); i > 0 {
		key = key[i:]
	}
	st.Case(key, (merged || partial) && cut, c.Line)
	st.Count("store.tanidx")
}

// genTanIdx: records as tan writes them (increasing offsets inside a file, roll
// over to a new file), with the lengths set (so that merge fires) or 0 (as the
// production code leaves them).
func genTanIdx(r *vh.Rand) string {
	var ops []string
	file, pos := uint64(1+r.Intn(3)), int64(0)
	last := uint64(r.Intn(3))
	ibs := hooks.TanIndexBlockSize()
	withLen := r.Chance(2, 3)
	n := 8 + r.Intn(30)
	for i := 0; i < n; i++ {
		var start uint64
		switch x := r.Intn(10); {
		case x < 5:
			start = last + 1
		case x < 7 && last > 0: // overwrite reaching back
			start = last - uint64(r.Intn(int(min64(last, 12))))
			if start == 0 {
				start = 1
			}
		case x < 8 && last > 20:
			start = 1 + uint64(r.Intn(int(last)))
		case x < 9:
			start = last + 2 + uint64(r.Intn(5)) // gap (snapshot)
		default:
			start = last + 1
		}
		cnt := uint64(1 + r.Intn(6))
		end := start + cnt - 1
		ln := int64(20 + r.Intn(200))
		switch r.Intn(8) {
		case 0:
			file++
			pos = 0
		case 1: // jump next to an index block boundary
			pos = (pos/ibs+1)*ibs - int64(r.Intn(3))*ln
			if pos < 0 {
				pos = 0
			}
		}
		l := ln
		if !withLen {
			l = 0
		}
		ops = append(ops, fmt.Sprintf("U %d %d %d %d %d", start, end, file, pos, l))
		pos += ln
		last = end
		for q := r.Intn(3); q > 0; q-- {
			low := uint64(r.Intn(int(last) + 3))
			high := low + uint64(r.Intn(12))
			if r.Chance(1, 12) && low > 0 {
				high = low - 1 // panics in the code and in the model
			}
			if r.Chance(1, 4) {
				high = last + 1 + uint64(r.Intn(3))
				if high < low {
					high = low
				}
			}
			ops = append(ops, fmt.Sprintf("IQ %d %d", low, high))
		}
	}
	return strings.Join(ops, " ; ")
}
