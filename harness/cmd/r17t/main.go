// R17T harness: the per-target send queue of the real transport.Transport over an in-memory
// transport module (C17: a connected replica's messages get through; a quiet period must not
// leave a queue without a worker).
//
//	case: <id> | S <n> ; I ; F ; ...
//	  S n  n sends, each retried until accepted, then wait until all are delivered
//	  I    no traffic for several idle time-outs (the worker ends gracefully)
//	  F    the next write on the connection fails: one send, wait for the Unreachable report
//	obs:  <id> <i>:<op> ok=<0|1> unreachable=<0|1> orphaned=<0|1>
//	monitor (implementation alone): every accepted message is delivered within the time-out
//	unless a connection failure was injected; after an idle period no queue stays registered
//	without a worker (observed as: registered queue and the next messages not delivered).
package main

import (
	"context"
	"errors"
	"fmt"
	"os"
	"strconv"
	"strings"
	"sync"
	"sync/atomic"
	"time"

	"github.com/lni/dragonboat/v4/config"
	"github.com/lni/dragonboat/v4/raftio"
	pb "github.com/lni/dragonboat/v4/raftpb"
	r17 "github.com/lni/dragonboat/v4/verifhooks/r17"
	"verif/harness/vh"
)

const idle = 100 * time.Millisecond

type memTransport struct {
	delivered uint64
	failNext  uint32
	failed    uint64
}
type memConn struct{ t *memTransport }

func (c *memConn) Close() {}
func (c *memConn) SendMessageBatch(b pb.MessageBatch) error {
	if atomic.CompareAndSwapUint32(&c.t.failNext, 1, 0) {
		atomic.AddUint64(&c.t.failed, uint64(len(b.Requests)))
		return errors.New("injected write failure")
	}
	atomic.AddUint64(&c.t.delivered, uint64(len(b.Requests)))
	return nil
}

type memSSConn struct{}

func (memSSConn) Close()                       {}
func (memSSConn) SendChunk(pb.Chunk) error     { return nil }
func (g *memTransport) Name() string           { return "r17t-mem" }
func (g *memTransport) Start() error           { return nil }
func (g *memTransport) Close() error           { return nil }
func (g *memTransport) GetConnection(context.Context, string) (raftio.IConnection, error) {
	return &memConn{t: g}, nil
}
func (g *memTransport) GetSnapshotConnection(context.Context, string) (raftio.ISnapshotConnection, error) {
	return memSSConn{}, nil
}

type memFactory struct{ t *memTransport }

func (f *memFactory) Create(config.NodeHostConfig, raftio.MessageHandler, raftio.ChunkHandler) raftio.ITransport {
	return f.t
}
func (f *memFactory) Validate(string) bool { return true }

func gen(a vh.Args) {
	n := 10
	if a.Tier == "thorough" {
		n = 120
	}
	if a.N > 0 {
		n = a.N
	}
	w := vh.Create(a.Cases)
	defer w.Close()
	// the two shapes every run contains, then random ones
	w.Printf("g%d_a | S 5 ; I ; S 10 ; S 3\n", a.Seed)
	w.Printf("g%d_b | S 2 ; F ; S 4 ; I ; S 2\n", a.Seed)
	for i := 0; i < n; i++ {
		r := vh.NewRand(a.Seed*1000003 + uint64(i))
		var ops []string
		for k := 0; k < 3+r.Intn(5); k++ {
			switch x := r.Intn(10); {
			case x < 5:
				ops = append(ops, fmt.Sprintf("S %d", 1+r.Intn(20)))
			case x < 8:
				ops = append(ops, "I")
			default:
				ops = append(ops, "F")
			}
		}
		ops = append(ops, fmt.Sprintf("S %d", 1+r.Intn(5)))
		w.Printf("g%d_%d | %s\n", a.Seed, i, strings.Join(ops, " ; "))
	}
}

type result struct {
	lines []string
	viol  []string
	idles int
	fails int
	retries int
}

func waitFor(d time.Duration, f func() bool) bool {
	end := time.Now().Add(d)
	for {
		if f() {
			return true
		}
		if time.Now().After(end) {
			return false
		}
		time.Sleep(2 * time.Millisecond)
	}
}

func runCase(line string, port int) (res result) {
	parts := strings.SplitN(line, " | ", 2)
	id := strings.Fields(parts[0])[0]
	mem := &memTransport{}
	sink := &r17.Sink{}
	c := config.NodeHostConfig{
		RaftAddress: fmt.Sprintf("localhost:%d", 20000+port),
		Expert:      config.ExpertConfig{TransportFactory: &memFactory{t: mem}},
	}
	tt, nodes, closer, err := r17.NewTransport(c, sink)
	if err != nil {
		res.viol = append(res.viol, "cannot build transport: "+err.Error())
		return
	}
	defer closer()
	nodes.Add(100, 2, fmt.Sprintf("localhost:%d", 30000+port))
	next := uint64(0)
	send := func() bool {
		next++
		m := pb.Message{Type: pb.Replicate, From: 1, To: 2, ShardID: 100, Entries: []pb.Entry{{Index: next, Term: 1}}}
		return waitFor(5*time.Second, func() bool { return tt.Send(m) })
	}
	for i, o := range strings.Split(parts[1], " ; ") {
		f := strings.Fields(o)
		orphaned, ok := 0, 1
		switch f[0] {
		case "S":
			// n messages have to get through. A message accepted while the worker of its queue
			// is just ending is dropped with that queue (message loss, the sender retries as raft
			// does); a queue that stays registered and delivers nothing is the orphan.
			n, _ := strconv.Atoi(f[1])
			target := atomic.LoadUint64(&mem.delivered) + uint64(n)
			done := false
			for attempt := 0; attempt < 6 && !done; attempt++ {
				need := int(target - atomic.LoadUint64(&mem.delivered))
				for k := 0; k < need; k++ {
					if !send() {
						res.viol = append(res.viol, fmt.Sprintf("op %d: Send refused for 5s although the target is connected", i))
					}
				}
				done = waitFor(1500*time.Millisecond, func() bool { return atomic.LoadUint64(&mem.delivered) >= target })
				if !done && r17.QueueCount(tt) > 0 {
					break
				}
				if !done {
					res.retries++
				}
			}
			if !done {
				ok = 0
				if r17.QueueCount(tt) > 0 {
					orphaned = 1
				}
				res.viol = append(res.viol, fmt.Sprintf("op %d: accepted messages not delivered (delivered %d, wanted %d, registered queues %d, no failure injected)",
					i, atomic.LoadUint64(&mem.delivered), target, r17.QueueCount(tt)))
			}
		case "I":
			res.idles++
			time.Sleep(6 * idle)
			if !waitFor(2*time.Second, func() bool { return r17.QueueCount(tt) == 0 }) {
				orphaned = 1
			}
		case "F":
			res.fails++
			before := atomic.LoadUint64(&sink.Unreachable)
			atomic.StoreUint32(&mem.failNext, 1)
			send()
			if !waitFor(3*time.Second, func() bool { return atomic.LoadUint64(&sink.Unreachable) > before }) {
				// the armed failure hits the first write: if the message was dropped with an
				// ending worker nothing was written yet, send again
				send()
				if !waitFor(3*time.Second, func() bool { return atomic.LoadUint64(&sink.Unreachable) > before }) {
					ok = 0
					res.viol = append(res.viol, fmt.Sprintf("op %d: connection failure not reported as Unreachable", i))
				}
			}
			atomic.StoreUint32(&mem.failNext, 0)
			waitFor(2*time.Second, func() bool { return r17.QueueCount(tt) == 0 })
		}
		un := 0
		if atomic.LoadUint64(&sink.Unreachable) > 0 {
			un = 1
		}
		res.lines = append(res.lines, fmt.Sprintf("%s %d:%s ok=%d unreachable=%d orphaned=%d", id, i, f[0], ok, un, orphaned))
	}
	return
}

func main() {
	a := vh.ParseArgs()
	switch a.Mode {
	case "gen":
		gen(a)
	case "run":
		old := r17.SetIdleTimeout(idle)
		defer r17.SetIdleTimeout(old)
		st := vh.NewStats("non-trivial: a case with at least one idle period followed by traffic")
		lines := vh.ReadLines(a.Cases)
		results := make([]result, len(lines))
		var wg sync.WaitGroup
		sem := make(chan struct{}, 8)
		for i, l := range lines {
			wg.Add(1)
			sem <- struct{}{}
			go func(i int, l string) {
				defer wg.Done()
				defer func() { <-sem }()
				results[i] = runCase(l, i)
			}(i, l)
		}
		wg.Wait()
		out := vh.Create(a.Out + "/impl.obs")
		for i, r := range results {
			id := strings.Fields(lines[i])[0]
			for _, ln := range r.lines {
				out.Printf("%s\n", ln)
			}
			for _, v := range r.viol {
				st.Violation(id, v)
			}
			st.Distribution["idle_periods"] += r.idles
			st.Distribution["injected_failures"] += r.fails
			st.Distribution["resent_after_benign_loss"] += r.retries
			st.Case(lines[i], r.idles > 0, lines[i])
		}
		out.Close()
		st.Write(a.Out)
	default:
		fmt.Fprintln(os.Stderr, "unknown mode")
		os.Exit(2)
	}
}
