package main

// Restart dimension of C07: a real rsm.StateMachine over an on disk state
// machine. Replica A applies the log and never restarts. Replica B applies the
// same log, records metadata-only snapshots (`snap`), and restarts (`restart
// <lag>`): a new StateMachine over the same "disk" (Open reports the index of
// the last update the disk kept), recovery from the latest snapshot record and
// replay of the log after it. B must end with A's membership and verdicts.
// The same log is also fed to a replica started with config.IsNonVoting and one
// started with config.IsWitness: verdict and membership after every entry must
// be those of the full member (the rules do not depend on the replica's kind).
//
// case line:   <id> sm ordered=<0|1> | op ; op ; ...
// ops:         c <type> <replica> <addrhex> <ccid> <init>     config change entry at the next index
//              u                                              ordinary update entry at the next index
//              snap                                           snapshot record of B at its applied index
//              restart <lag>                                  restart B; Open = max(snapshot's on disk index, last update index - lag)
// observation: <id> <n> A|R <membership of A> / <id> <n> U / <id> <n> SNAP <index>
//              <id> <n> RESTART ss=<s> open=<k> v=<verdicts of the replayed changes> <membership of B after the replay>

import (
	"errors"
	"fmt"
	"io"
	"sort"
	"strconv"
	"strings"

	"github.com/lni/dragonboat/v4/client"
	"github.com/lni/dragonboat/v4/config"
	pb "github.com/lni/dragonboat/v4/raftpb"
	sm "github.com/lni/dragonboat/v4/statemachine"
	hooks "github.com/lni/dragonboat/v4/verifhooks/c07"
	"verif/harness/vh"
)

// what the on disk state machine keeps on its own disk (survives a restart)
type smDisk struct {
	applied uint64 // index of the last update applied
	count   uint64
	twice   []uint64 // indexes handed to Update although already applied
}

type smDiskSM struct{ disk *smDisk }

func (s *smDiskSM) Open(<-chan struct{}) (uint64, error) { return s.disk.applied, nil }
func (s *smDiskSM) Update(ents []sm.Entry) ([]sm.Entry, error) {
	for i := range ents {
		if ents[i].Index <= s.disk.applied {
			s.disk.twice = append(s.disk.twice, ents[i].Index)
		} else {
			s.disk.applied = ents[i].Index
		}
		s.disk.count++
		ents[i].Result = sm.Result{Value: s.disk.count}
	}
	return ents, nil
}
func (s *smDiskSM) Lookup(interface{}) (interface{}, error) { return s.disk.count, nil }
func (s *smDiskSM) Sync() error                             { return nil }
func (s *smDiskSM) PrepareSnapshot() (interface{}, error)   { return nil, nil }
func (s *smDiskSM) Close() error                            { return nil }
func (s *smDiskSM) SaveSnapshot(interface{}, io.Writer, <-chan struct{}) error {
	return errors.New("not used")
}
func (s *smDiskSM) RecoverFromSnapshot(io.Reader, <-chan struct{}) error {
	return errors.New("not used")
}

// stands for node.go + the raft peer: the voting members raft was told about
// and the reported outcome of every config change entry
type smNode struct {
	replicaID uint64
	voters    map[uint64]bool
	rejected  map[uint64]bool // entry key (= index) -> rejected
}

func newSMNode(id uint64) *smNode {
	return &smNode{replicaID: id, voters: map[uint64]bool{}, rejected: map[uint64]bool{}}
}
func (n *smNode) StepReady()                                        {}
func (n *smNode) ShouldStop() <-chan struct{}                       { return nil }
func (n *smNode) ReplicaID() uint64                                 { return n.replicaID }
func (n *smNode) ShardID() uint64                                   { return 1 }
func (n *smNode) ApplyUpdate(pb.Entry, sm.Result, bool, bool, bool) {}
func (n *smNode) RestoreRemotes(ss pb.Snapshot) error {
	n.voters = map[uint64]bool{}
	for id := range ss.Membership.Addresses {
		n.voters[id] = true
	}
	return nil
}
func (n *smNode) ApplyConfigChange(cc pb.ConfigChange, key uint64, rejected bool) error {
	n.rejected[key] = rejected
	if !rejected {
		switch cc.Type {
		case pb.AddNode:
			n.voters[cc.ReplicaID] = true
		case pb.RemoveNode:
			delete(n.voters, cc.ReplicaID)
		}
	}
	return nil
}
func (n *smNode) voterList() string {
	r := make([]uint64, 0, len(n.voters))
	for id := range n.voters {
		r = append(r, id)
	}
	sort.Slice(r, func(i, j int) bool { return r[i] < r[j] })
	return fmt.Sprint(r)
}

var errSMNoSnapshot = errors.New("no snapshot")

type smSnapshotter struct {
	ss     pb.Snapshot
	loadOK bool // Load succeeds without doing anything (node dimension: the user state machine has no state)
}

func (s *smSnapshotter) GetSnapshot() (pb.Snapshot, error) {
	if pb.IsEmptySnapshot(s.ss) {
		return pb.Snapshot{}, errSMNoSnapshot
	}
	return s.ss, nil
}
func (s *smSnapshotter) IsNoSnapshotError(err error) bool { return err == errSMNoSnapshot }
func (s *smSnapshotter) Shrunk(pb.Snapshot) (bool, error) { return false, nil }
func (s *smSnapshotter) Stream(hooks.IStreamable, hooks.SSMeta, pb.IChunkSink) error {
	return errors.New("not used")
}
func (s *smSnapshotter) Save(hooks.ISavable, hooks.SSMeta) (pb.Snapshot, hooks.SSEnv, error) {
	return pb.Snapshot{}, hooks.SSEnv{}, errors.New("not used")
}
func (s *smSnapshotter) Load(pb.Snapshot, hooks.ILoadable, hooks.IRecoverable) error {
	if s.loadOK {
		return nil
	}
	return errors.New("not used")
}

type smReplica struct {
	s    *hooks.StateMachine
	node *smNode
	disk *smDisk
}

func newSMReplica(id uint64, ordered bool, disk *smDisk, ss pb.Snapshot) (*smReplica, error) {
	return newSMReplicaOfKind(id, ordered, "full", disk, ss)
}

// kind: "full", "nonvoting" (config.IsNonVoting) or "witness" (config.IsWitness)
func newSMReplicaOfKind(id uint64, ordered bool, kind string, disk *smDisk, ss pb.Snapshot) (*smReplica, error) {
	cfg := config.Config{ShardID: 1, ReplicaID: id, OrderedConfigChange: ordered,
		IsNonVoting: kind == "nonvoting", IsWitness: kind == "witness"}
	node := newSMNode(id)
	s := hooks.NewOnDiskStateMachine(cfg, &smDiskSM{disk: disk}, &smSnapshotter{ss: ss}, node)
	if _, err := s.OpenOnDiskStateMachine(); err != nil {
		return nil, err
	}
	return &smReplica{s: s, node: node, disk: disk}, nil
}

func (r *smReplica) apply(e pb.Entry) error {
	r.s.TaskQ().Add(hooks.Task{Entries: []pb.Entry{e}})
	_, err := r.s.Handle(make([]hooks.Task, 0), make([]sm.Entry, 0))
	return err
}

func smUpdateEntry(index uint64) pb.Entry {
	return pb.Entry{Type: pb.ApplicationEntry, Index: index, Term: 1, ClientID: 123,
		SeriesID: client.NoOPSeriesID, Cmd: []byte("x")}
}

func smChangeEntry(index uint64, cc pb.ConfigChange) pb.Entry {
	return pb.Entry{Type: pb.ConfigChangeEntry, Index: index, Term: 1, Key: index, Cmd: pb.MustMarshal(&cc)}
}

func verdictWord(rejected bool) string {
	if rejected {
		return "rejected"
	}
	return "applied"
}

func ccOf(e pb.Entry) pb.ConfigChange {
	var cc pb.ConfigChange
	pb.MustUnmarshal(&cc, e.Cmd)
	return cc
}

func verdictChar(rejected bool) string {
	if rejected {
		return "R"
	}
	return "A"
}

func runSMCase(id, head, body, line string, obs *vh.LineWriter, st *vh.Stats) {
	ordered := strings.Contains(head, "ordered=1")
	diskA, diskB := &smDisk{}, &smDisk{}
	a, errA := newSMReplica(1, ordered, diskA, pb.Snapshot{})
	b, errB := newSMReplica(2, ordered, diskB, pb.Snapshot{})
	// the same log on replicas started as non-voting and as witness (never restarted)
	nv, errC := newSMReplicaOfKind(3, ordered, "nonvoting", &smDisk{}, pb.Snapshot{})
	wi, errD := newSMReplicaOfKind(4, ordered, "witness", &smDisk{}, pb.Snapshot{})
	if errA != nil || errB != nil || errC != nil || errD != nil {
		obs.Printf("%s 0 OPENFAILED\n", id)
		return
	}
	kinds := []struct {
		name string
		r    *smReplica
	}{{"non-voting", nv}, {"witness", wi}}
	var log []pb.Entry // log[i] has index i+1
	var ss pb.Snapshot
	restarts, replayedCC, coveredCC := 0, 0, 0
	bad := func(n int, msg string) { st.Violation(id, fmt.Sprintf("op %d: %s", n, msg)) }
	compare := func(n int, what string) {
		ma, mb := showMembership(a.s.GetMembership()), showMembership(b.s.GetMembership())
		if ma != mb {
			bad(n, fmt.Sprintf("%s: membership of the restarted replica differs from the never-restarted one: %s vs %s", what, mb, ma))
		}
		if a.node.voterList() != b.node.voterList() {
			bad(n, fmt.Sprintf("%s: voting members handed to raft differ: restarted %s, never restarted %s", what, b.node.voterList(), a.node.voterList()))
		}
	}
	for n, op := range strings.Split(body, " ; ") {
		f := strings.Fields(op)
		if len(f) == 0 {
			continue
		}
		index := uint64(len(log) + 1)
		switch f[0] {
		case "u", "c":
			var e pb.Entry
			if f[0] == "u" {
				e = smUpdateEntry(index)
			} else {
				cc, _ := parseCC(append(f, "0"))
				e = smChangeEntry(index, cc)
			}
			log = append(log, e)
			before := a.s.GetMembership()
			var ea, eb error
			p := vh.Catch(func() { ea = a.apply(e) })
			p2 := vh.Catch(func() { eb = b.apply(e) })
			for _, k := range kinds {
				ek := e
				if k.name == "witness" && f[0] == "u" {
					// a witness is sent the metadata of ordinary entries only
					ek = pb.Entry{Type: pb.MetadataEntry, Index: index, Term: 1}
				}
				var err error
				pk := vh.Catch(func() { err = k.r.apply(ek) })
				if pk != p || (err != nil) != (ea != nil) {
					bad(n, fmt.Sprintf("replica started as %s fails differently from a full member: %q %v / %q %v", k.name, pk, err, p, ea))
				}
			}
			if p != "" || p2 != "" || ea != nil || eb != nil {
				if p != p2 {
					bad(n, "the two replicas do not fail alike: "+p+" / "+p2)
				}
				if p != "" && !strings.Contains(p, "unknown config change type") {
					bad(n, "panic while applying a config change entry: "+p)
				}
				obs.Printf("%s %d %s\n", id, n, panicTag(p))
				st.Case(line, restarts > 0 && coveredCC > 0, line)
				return
			}
			if f[0] == "u" {
				st.Count("sm.update")
				obs.Printf("%s %d U\n", id, n)
			} else {
				ra, oka := a.node.rejected[index]
				rb, okb := b.node.rejected[index]
				if !oka || !okb {
					bad(n, "config change entry not reported to the node (ApplyConfigChange not called)")
				} else if ra != rb {
					bad(n, "config change entry accepted on one replica and rejected on the other")
				}
				for _, k := range kinds {
					rk, ok := k.r.node.rejected[index]
					if !ok {
						bad(n, "config change entry not reported to the node on the replica started as "+k.name)
					} else if rk != ra {
						bad(n, fmt.Sprintf("config change entry %s on a full member but %s on the replica started as %s (ordered=%v, request id %d, membership at %d)",
							verdictWord(ra), verdictWord(rk), k.name, ordered, ccOf(e).ConfigChangeId, before.ConfigChangeId))
					}
				}
				st.Count("sm.change." + verdictChar(ra))
				obs.Printf("%s %d %s %s\n", id, n, verdictChar(ra), showMembership(a.s.GetMembership()))
			}
			compare(n, "after entry "+strconv.FormatUint(index, 10))
			ma := showMembership(a.s.GetMembership())
			for _, k := range kinds {
				if mk := showMembership(k.r.s.GetMembership()); mk != ma {
					bad(n, fmt.Sprintf("after entry %d: membership of the replica started as %s differs from a full member's: %s vs %s", index, k.name, mk, ma))
				}
			}
		case "snap":
			k := b.s.GetLastApplied()
			if k == 0 || k == ss.Index {
				obs.Printf("%s %d SNAP -\n", id, n)
				continue
			}
			ss = pb.Snapshot{Index: k, Term: 1, Dummy: true, OnDiskIndex: diskB.applied,
				Type: pb.OnDiskStateMachine, Membership: b.s.GetMembership()}
			st.Count("sm.snap")
			obs.Printf("%s %d SNAP %d\n", id, n, k)
		case "restart":
			lag := u64(f[1])
			k := uint64(len(log))
			open := diskB.applied
			if lag < open {
				open -= lag
			} else {
				open = 0
			}
			if open < ss.OnDiskIndex {
				open = ss.OnDiskIndex
			}
			diskB.applied = open // what the disk kept
			diskB.twice = nil
			nb, err := newSMReplica(2, ordered, diskB, ss)
			if err != nil {
				obs.Printf("%s %d OPENFAILED\n", id, n)
				return
			}
			b = nb
			var rerr error
			p := vh.Catch(func() { _, rerr = b.s.Recover(hooks.Task{Recover: true, Initial: true}) })
			if p != "" || rerr != nil {
				bad(n, fmt.Sprintf("recovery from the snapshot record failed: %s %v", p, rerr))
				obs.Printf("%s %d RECOVERFAILED\n", id, n)
				return
			}
			if b.s.GetLastApplied() != ss.Index {
				bad(n, fmt.Sprintf("applied index %d after recovery, snapshot record at %d", b.s.GetLastApplied(), ss.Index))
			}
			var vs strings.Builder
			for i := ss.Index; i < k; i++ {
				e := log[i]
				var err error
				p := vh.Catch(func() { err = b.apply(e) })
				if p != "" || err != nil {
					bad(n, fmt.Sprintf("replay of entry %d failed: %s %v", e.Index, p, err))
					obs.Printf("%s %d REPLAYFAILED\n", id, n)
					return
				}
				if e.Type == pb.ConfigChangeEntry {
					replayedCC++
					if e.Index <= open {
						coveredCC++
					}
					rb, ok := b.node.rejected[e.Index]
					if !ok {
						bad(n, fmt.Sprintf("replayed config change entry %d was not applied by the restarted replica (on disk index %d)", e.Index, open))
						vs.WriteString("-")
						continue
					}
					if rb != a.node.rejected[e.Index] {
						bad(n, fmt.Sprintf("replayed config change entry %d: verdict differs from the never-restarted replica", e.Index))
					}
					vs.WriteString(verdictChar(rb))
				}
			}
			if b.s.GetLastApplied() != k {
				bad(n, fmt.Sprintf("applied index %d after the replay, log ends at %d", b.s.GetLastApplied(), k))
			}
			if len(diskB.twice) > 0 {
				bad(n, fmt.Sprintf("updates %v handed to the on disk state machine twice", diskB.twice))
			}
			if diskB.applied != diskA.applied {
				bad(n, fmt.Sprintf("on disk state machine at %d after the replay, the never-restarted one at %d", diskB.applied, diskA.applied))
			}
			compare(n, "after restart")
			restarts++
			st.Count("sm.restart")
			v := vs.String()
			if v == "" {
				v = "-"
			}
			obs.Printf("%s %d RESTART ss=%d open=%d v=%s %s\n", id, n, ss.Index, open, v, showMembership(b.s.GetMembership()))
		default:
			obs.Printf("%s %d BADOP\n", id, n)
		}
	}
	st.Count(fmt.Sprintf("sm.replayed_changes<=%d", bucket(replayedCC)))
	st.Case(line, restarts > 0 && coveredCC > 0, line)
}

func bucket(n int) int {
	for _, b := range []int{0, 1, 2, 4, 8, 16} {
		if n <= b {
			return b
		}
	}
	return 1 << 30
}

// ---------------------------------------------------------------- generator

func genSMCase(r *vh.Rand) string {
	ordered := r.Intn(5) < 2
	shadow := hooks.NewMembership(1, 1, ordered) // tracks ConfigChangeId for ordered requests
	var ops []string
	index := uint64(0)
	emitCC := func(cc pb.ConfigChange) {
		index++
		ops = append(ops, fmt.Sprintf("c %d %d %s %d %d", int32(cc.Type), cc.ReplicaID, vh.Hex([]byte(cc.Address)),
			cc.ConfigChangeId, b2i(cc.Initialize)))
		vh.Catch(func() { shadow.HandleConfigChange(cc, index) })
	}
	for i, n := 0, 1+r.Intn(4); i < n; i++ {
		emitCC(pb.ConfigChange{Type: pb.AddNode, ReplicaID: uint64(i + 1), Address: hosts[i], Initialize: true})
	}
	nops := 4 + r.Intn(30)
	for len(ops) < nops {
		cur := shadow.Get()
		switch k := r.Intn(100); {
		case k < 40:
			index++
			ops = append(ops, "u")
		case k < 50:
			ops = append(ops, "snap")
		case k < 62:
			lag := 0
			if r.Chance(1, 4) {
				lag = r.Intn(6)
			}
			ops = append(ops, fmt.Sprintf("restart %d", lag))
		default:
			cc := pb.ConfigChange{Type: pb.ConfigChangeType([]int32{0, 0, 0, 1, 1, 2, 2, 3}[r.Intn(8)]),
				ReplicaID: uint64(1 + r.Intn(8)), Address: genAddr(r)}
			switch r.Intn(6) {
			case 0:
				if id, ok := pickKey(r, cur.NonVotings); ok {
					cc = pb.ConfigChange{Type: pb.AddNode, ReplicaID: id, Address: variant(r, cur.NonVotings[id])}
				}
			case 1:
				if id, ok := pickKey(r, cur.Removed); ok {
					cc.ReplicaID = id
				}
			case 2:
				if id, ok := pickKey(r, cur.Addresses); ok {
					cc = pb.ConfigChange{Type: pb.RemoveNode, ReplicaID: id}
				}
			}
			cc.ConfigChangeId = cur.ConfigChangeId
			if r.Chance(1, 5) {
				cc.ConfigChangeId = uint64(r.Intn(int(index) + 2))
			}
			emitCC(cc)
			if r.Chance(1, 6) { // a concurrent request built on the same membership view
				emitCC(pb.ConfigChange{Type: pb.ConfigChangeType([]int32{0, 1, 2, 3}[r.Intn(4)]), ReplicaID: uint64(1 + r.Intn(8)),
					Address: genAddr(r), ConfigChangeId: cur.ConfigChangeId})
			}
			if r.Chance(2, 3) { // an update after the change: the disk's index moves past it
				index++
				ops = append(ops, "u")
			}
		}
	}
	if r.Chance(2, 3) {
		ops = append(ops, "restart 0")
	}
	return "sm ordered=" + fmt.Sprint(b2i(ordered)) + " | " + strings.Join(ops, " ; ")
}
