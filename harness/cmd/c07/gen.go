package main

import (
	"fmt"
	"sort"
	"strings"

	pb "github.com/lni/dragonboat/v4/raftpb"
	hooks "github.com/lni/dragonboat/v4/verifhooks/c07"
	"verif/harness/vh"
)

var hosts = []string{"host1:9001", "host2:9002", "h3.example.com:63000", "10.0.0.4:7", "node-e:1", "Zz:90", "[::1]:26000"}

func variant(r *vh.Rand, s string) string {
	switch r.Intn(10) {
	case 0:
		return strings.ToUpper(s)
	case 1:
		return " " + s
	case 2:
		return s + "\t"
	case 3:
		return "\n " + strings.ToUpper(s) + " \r"
	case 4:
		b := []byte(s)
		for i := range b {
			if r.Bool() && b[i] >= 'a' && b[i] <= 'z' {
				b[i] -= 32
			}
		}
		return string(b)
	case 5:
		return "\v\f" + s + "  "
	}
	return s
}

func genAddr(r *vh.Rand) string {
	switch r.Intn(40) {
	case 0:
		return ""
	case 1:
		return " \t"
	case 2:
		// white space inside is not trimmed; '@' '[' '`' '{' are next to the letter ranges
		return []string{"host1 :9001", "@[`{:1", "HOST1:9001x", "host1:900", "h\tost1:9001"}[r.Intn(5)]
	case 3:
		b := make([]byte, 1+r.Intn(6))
		for i := range b {
			b[i] = byte(r.Intn(128))
		}
		return string(b)
	}
	return variant(r, hosts[r.Intn(len(hosts))])
}

func genID(r *vh.Rand) uint64 {
	switch r.Intn(40) {
	case 0:
		return 0
	case 1:
		return 1<<64 - 1
	case 2:
		return r.BiasedU64()
	}
	return uint64(1 + r.Intn(8))
}

func genType(r *vh.Rand) int32 {
	switch r.Intn(400) {
	case 0:
		return 4
	case 1:
		return -1
	case 2:
		return int32(r.U64())
	}
	// adds more frequent than removes so that memberships grow
	return []int32{0, 0, 0, 1, 1, 2, 2, 3}[r.Intn(8)]
}

// pickKey draws a key of a map deterministically from the seeded generator
func pickKey[V any](r *vh.Rand, m map[uint64]V) (uint64, bool) {
	if len(m) == 0 {
		return 0, false
	}
	ks := make([]uint64, 0, len(m))
	for k := range m {
		ks = append(ks, k)
	}
	sort.Slice(ks, func(i, j int) bool { return ks[i] < ks[j] })
	return ks[r.Intn(len(ks))], true
}

func fmtCC(cc pb.ConfigChange, index uint64) string {
	return fmt.Sprintf("cc %d %d %s %d %d %d", int32(cc.Type), cc.ReplicaID, vh.Hex([]byte(cc.Address)),
		cc.ConfigChangeId, b2i(cc.Initialize), index)
}

// a well-formed membership as a snapshot would carry it
func genMembership(r *vh.Rand, wf bool) pb.Membership {
	m := pb.Membership{ConfigChangeId: uint64(r.Intn(50)), Addresses: map[uint64]string{},
		NonVotings: map[uint64]string{}, Witnesses: map[uint64]string{}, Removed: map[uint64]bool{}}
	ids := r.Intn(9)
	used := map[string]bool{}
	for i := 0; i < ids; i++ {
		id := genID(r)
		a := genAddr(r)
		if wf {
			if used[normAddr(a)] {
				continue
			}
			_, x := m.Addresses[id]
			_, y := m.NonVotings[id]
			_, z := m.Witnesses[id]
			if x || y || z || m.Removed[id] {
				continue
			}
		}
		used[normAddr(a)] = true
		switch r.Intn(6) {
		case 0:
			m.NonVotings[id] = a
		case 1:
			m.Witnesses[id] = a
		case 2:
			m.Removed[id] = true
		default:
			m.Addresses[id] = a
		}
	}
	return m
}

func genCase(r *vh.Rand) string {
	ordered := r.Intn(5) < 2
	m := hooks.NewMembership(1, 1, ordered)
	var ops []string
	var history []pb.ConfigChange
	index := uint64(1 + r.Intn(3))
	nops := 1 + r.Intn(30)
	if r.Chance(1, 6) {
		nops += r.Intn(30)
	}
	monotone := !r.Chance(1, 25)
	emit := func(cc pb.ConfigChange) bool {
		ops = append(ops, fmtCC(cc, index))
		history = append(history, cc)
		p := vh.Catch(func() { m.HandleConfigChange(cc, index) })
		if monotone {
			index += uint64(1 + r.Intn(3))
		} else {
			index = uint64(r.Intn(40))
		}
		return p == ""
	}
	// bootstrap: the initial members arrive as Initialize entries
	if r.Chance(3, 4) {
		for i, n := 0, 1+r.Intn(4); i < n; i++ {
			if !emit(pb.ConfigChange{Type: pb.AddNode, ReplicaID: uint64(i + 1), Address: hosts[i], Initialize: true}) {
				return "ordered=" + fmt.Sprint(b2i(ordered)) + " | " + strings.Join(ops, " ; ")
			}
		}
	}
	for len(ops) < nops {
		cur := m.Get()
		switch k := r.Intn(100); {
		case k < 3:
			ops = append(ops, "snap")
			m.Set(m.Get())
			continue
		case k < 5:
			pm := genMembership(r, !r.Chance(1, 5))
			ops = append(ops, fmt.Sprintf("set %d %s %s %s %s", pm.ConfigChangeId, fmtMap(pm.Addresses),
				fmtMap(pm.NonVotings), fmtMap(pm.Witnesses), fmtSet(pm.Removed)))
			m.Set(pm)
			continue
		}
		cc := pb.ConfigChange{Type: pb.ConfigChangeType(genType(r)), ReplicaID: genID(r), Address: genAddr(r)}
		// targeted shapes
		switch r.Intn(12) {
		case 0: // promotion of a non-voting member with (a variant of) its own address
			if id, ok := pickKey(r, cur.NonVotings); ok {
				cc = pb.ConfigChange{Type: pb.AddNode, ReplicaID: id, Address: variant(r, cur.NonVotings[id])}
			}
		case 1: // re-add a removed id
			if id, ok := pickKey(r, cur.Removed); ok {
				cc.ReplicaID = id
				if cc.Type == pb.RemoveNode {
					cc.Type = pb.AddNode
				}
			}
		case 2: // remove a voting member (the last one when there is only one)
			if id, ok := pickKey(r, cur.Addresses); ok {
				cc = pb.ConfigChange{Type: pb.RemoveNode, ReplicaID: id}
			}
		case 3: // fresh id, address of an existing member in another spelling
			if id, ok := pickKey(r, cur.Addresses); ok {
				cc.Address = variant(r, cur.Addresses[id])
			}
		case 4: // existing member under another kind
			if id, ok := pickKey(r, cur.Witnesses); ok {
				cc.ReplicaID, cc.Address = id, cur.Witnesses[id]
			}
			if r.Bool() {
				if id, ok := pickKey(r, cur.Addresses); ok {
					cc.ReplicaID, cc.Address = id, cur.Addresses[id]
				}
			}
		case 5: // retry of an earlier request
			if len(history) > 0 {
				cc = history[r.Intn(len(history))]
			}
		}
		cc.ConfigChangeId = cur.ConfigChangeId
		switch r.Intn(10) {
		case 0:
			cc.ConfigChangeId = 0
		case 1:
			cc.ConfigChangeId = uint64(r.Intn(int(index) + 2))
		case 2:
			cc.ConfigChangeId = r.BiasedU64()
		}
		cc.Initialize = r.Chance(1, 25)
		if !emit(cc) {
			break
		}
		// concurrent requests: others built on the same membership view
		if r.Chance(1, 6) {
			for j, n := 0, 1+r.Intn(2); j < n && len(ops) < nops; j++ {
				c2 := pb.ConfigChange{Type: pb.ConfigChangeType(genType(r)), ReplicaID: genID(r), Address: genAddr(r),
					ConfigChangeId: cur.ConfigChangeId}
				if r.Chance(1, 3) {
					c2 = cc
				}
				if !emit(c2) {
					return "ordered=" + fmt.Sprint(b2i(ordered)) + " | " + strings.Join(ops, " ; ")
				}
			}
		}
	}
	return "ordered=" + fmt.Sprint(b2i(ordered)) + " | " + strings.Join(ops, " ; ")
}
