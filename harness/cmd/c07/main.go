// C07 harness (membership rules): drives the real rsm.membership of /repo
// white-box (through the verif hooks) with sequences of config change requests
// and prints, per request, the verdict and the complete membership afterwards. The same cases are run by the Coq model extracted to
// OCaml (ocaml/c07/driver.ml); bin/check compares the two outputs.
//
// case line:   <id> ordered=<0|1> | op ; op ; ...
// ops:         cc <type> <replica> <addrhex> <ccid> <init> <index>
//
//	snap                                   m.set(m.get())
//	set <ccid> <addresses> <nonvotings> <witnesses> <removed>
//	         maps: id:hex,id:hex or - ; removed: id,id or -
//
// observation: <id> <opno> A|R|P<tag> ccid=.. a=[..] n=[..] w=[..] r=[..]
//
//	(a panic ends the case) / <id> <opno> S ...
package main

import (
	"fmt"
	"sort"
	"strconv"
	"strings"

	"github.com/lni/dragonboat/v4/logger"
	pb "github.com/lni/dragonboat/v4/raftpb"
	hooks "github.com/lni/dragonboat/v4/verifhooks/c07"
	"verif/harness/vh"
)

var typeNames = map[int32]string{0: "AddNode", 1: "RemoveNode", 2: "AddNonVoting", 3: "AddWitness"}

// ---------------------------------------------------------------- printing

func showMap(m map[uint64]string) string {
	ks := make([]uint64, 0, len(m))
	for k := range m {
		ks = append(ks, k)
	}
	sort.Slice(ks, func(i, j int) bool { return ks[i] < ks[j] })
	var sb strings.Builder
	sb.WriteString("[")
	for i, k := range ks {
		if i > 0 {
			sb.WriteString(",")
		}
		fmt.Fprintf(&sb, "%d:%s", k, vh.Hex([]byte(m[k])))
	}
	sb.WriteString("]")
	return sb.String()
}

func showSet(m map[uint64]bool) string {
	ks := make([]uint64, 0, len(m))
	for k := range m {
		ks = append(ks, k)
	}
	sort.Slice(ks, func(i, j int) bool { return ks[i] < ks[j] })
	s := make([]string, len(ks))
	for i, k := range ks {
		s[i] = strconv.FormatUint(k, 10)
	}
	return "[" + strings.Join(s, ",") + "]"
}

func showMembership(m pb.Membership) string {
	return fmt.Sprintf("ccid=%d a=%s n=%s w=%s r=%s", m.ConfigChangeId,
		showMap(m.Addresses), showMap(m.NonVotings), showMap(m.Witnesses), showSet(m.Removed))
}

func panicTag(p string) string {
	switch {
	case strings.Contains(p, "not suppose to reach here"):
		return "P1"
	case strings.Contains(p, "unknown config change type"):
		return "P2"
	case strings.Contains(p, "rejected for unknown reasons"):
		return "P3"
	}
	return "P?" + strings.ReplaceAll(p, " ", "_")
}

// ---------------------------------------------------------------- parsing

func parseMap(s string) map[uint64]string {
	m := map[uint64]string{}
	if s == "-" {
		return m
	}
	for _, kv := range strings.Split(s, ",") {
		p := strings.SplitN(kv, ":", 2)
		k, err := strconv.ParseUint(p[0], 10, 64)
		if err != nil {
			panic(err)
		}
		m[k] = string(vh.UnHex(p[1]))
	}
	return m
}

func parseSet(s string) map[uint64]bool {
	m := map[uint64]bool{}
	if s == "-" {
		return m
	}
	for _, x := range strings.Split(s, ",") {
		k, err := strconv.ParseUint(x, 10, 64)
		if err != nil {
			panic(err)
		}
		m[k] = true
	}
	return m
}

func fmtMap(m map[uint64]string) string {
	if len(m) == 0 {
		return "-"
	}
	s := showMap(m)
	return s[1 : len(s)-1]
}

func fmtSet(m map[uint64]bool) string {
	if len(m) == 0 {
		return "-"
	}
	s := showSet(m)
	return s[1 : len(s)-1]
}

func u64(s string) uint64 {
	v, err := strconv.ParseUint(s, 10, 64)
	if err != nil {
		panic(err)
	}
	return v
}

func parseCC(f []string) (pb.ConfigChange, uint64) {
	t, err := strconv.ParseInt(f[1], 10, 32)
	if err != nil {
		panic(err)
	}
	return pb.ConfigChange{
		Type:           pb.ConfigChangeType(t),
		ReplicaID:      u64(f[2]),
		Address:        string(vh.UnHex(f[3])),
		ConfigChangeId: u64(f[4]),
		Initialize:     f[5] == "1",
	}, u64(f[6])
}

// ---------------------------------------------------------------- monitor

// the harness' own address normal form (independent of the code under test)
func normAddr(s string) string {
	return strings.ToLower(strings.Trim(s, "\t\n\v\f\r "))
}

type member struct {
	kind string
	addr string
}

func members(m pb.Membership) (map[uint64][]member, int) {
	out := map[uint64][]member{}
	n := 0
	for k, a := range m.Addresses {
		out[k] = append(out[k], member{"voting", a})
		n++
	}
	for k, a := range m.NonVotings {
		out[k] = append(out[k], member{"nonvoting", a})
		n++
	}
	for k, a := range m.Witnesses {
		out[k] = append(out[k], member{"witness", a})
		n++
	}
	return out, n
}

func kindsDisjoint(m pb.Membership) bool {
	ms, _ := members(m)
	for _, l := range ms {
		if len(l) > 1 {
			return false
		}
	}
	return true
}

func removedDisjoint(m pb.Membership) bool {
	ms, _ := members(m)
	for id := range m.Removed {
		if _, ok := ms[id]; ok {
			return false
		}
	}
	return true
}

func addressesUnique(m pb.Membership) bool {
	seen := map[string]bool{}
	ms, _ := members(m)
	for _, l := range ms {
		for _, x := range l {
			k := normAddr(x.addr)
			if seen[k] {
				return false
			}
			seen[k] = true
		}
	}
	return true
}

// monitorStep evaluates the property's rules on one handled request of the
// implementation alone. Invariants are checked as "held before => holds after".
func monitorStep(ordered bool, before, after pb.Membership, cc pb.ConfigChange, index uint64,
	acceptedV bool, panicked string) []string {
	var v []string
	if panicked != "" {
		if !strings.Contains(panicked, "unknown config change type") {
			v = append(v, "panic in handleConfigChange: "+panicked)
		}
		return v
	}
	if !acceptedV {
		if showMembership(before) != showMembership(after) {
			v = append(v, "rejected request changed the membership")
		}
	} else if after.ConfigChangeId != index {
		v = append(v, fmt.Sprintf("accepted at index %d but ConfigChangeId=%d", index, after.ConfigChangeId))
	}
	if ordered && !cc.Initialize && cc.ConfigChangeId != before.ConfigChangeId && acceptedV {
		v = append(v, fmt.Sprintf("stale ConfigChangeID %d accepted (membership at %d, ordered)",
			cc.ConfigChangeId, before.ConfigChangeId))
	}
	bm, _ := members(before)
	am, _ := members(after)
	if removedDisjoint(before) {
		for id := range before.Removed {
			if _, ok := am[id]; ok {
				v = append(v, fmt.Sprintf("removed replica %d admitted again", id))
			}
			if !after.Removed[id] {
				v = append(v, fmt.Sprintf("replica %d dropped from the removed set", id))
			}
		}
		if !removedDisjoint(after) {
			v = append(v, "a removed replica is a member")
		}
	}
	if len(before.Addresses) > 0 && len(after.Addresses) == 0 {
		v = append(v, "last voting member removed")
	}
	if kindsDisjoint(before) {
		if !kindsDisjoint(after) {
			v = append(v, "a replica has two kinds")
		}
		for id, b := range bm {
			a, ok := am[id]
			if !ok || len(a) != 1 {
				continue
			}
			if a[0].kind != b[0].kind {
				okPromo := b[0].kind == "nonvoting" && a[0].kind == "voting" &&
					acceptedV && cc.Type == pb.AddNode && cc.ReplicaID == id
				if !okPromo {
					v = append(v, fmt.Sprintf("replica %d changed kind %s -> %s", id, b[0].kind, a[0].kind))
				}
			}
			if normAddr(a[0].addr) != normAddr(b[0].addr) {
				v = append(v, fmt.Sprintf("replica %d changed address", id))
			}
		}
	}
	if addressesUnique(before) && !addressesUnique(after) {
		v = append(v, "address in use added twice")
	}
	return v
}

// ---------------------------------------------------------------- run

type replica struct {
	m *hooks.Membership
}

func runCase(line string, obs *vh.LineWriter, st *vh.Stats) {
	id := strings.SplitN(line, " ", 2)[0]
	rest := strings.TrimSpace(line[len(id):])
	head, body := rest, ""
	if i := strings.Index(rest, "|"); i >= 0 {
		head, body = strings.TrimSpace(rest[:i]), strings.TrimSpace(rest[i+1:])
	}
	if strings.HasPrefix(head, "node ") {
		runNodeCase(id, head, body, line, obs, st)
		return
	}
	if strings.HasPrefix(head, "sm ") {
		runSMCase(id, head, body, line, obs, st)
		return
	}
	ordered := strings.Contains(head, "ordered=1")
	m := hooks.NewMembership(1, 1, ordered)
	twin := hooks.NewMembership(77, 5, ordered) // a second replica of another shard/replica id fed the same log
	acceptedN, rejectedRule, promos := 0, 0, 0
	everRemoved := map[uint64]bool{} // the harness' own record of accepted removals since the last installed membership
	if body == "" {
		obs.Printf("%s 0 EMPTY\n", id)
		st.Case(rest, false, line)
		return
	}
	for n, op := range strings.Split(body, " ; ") {
		f := strings.Fields(op)
		if len(f) == 0 {
			continue
		}
		switch f[0] {
		case "snap":
			m.Set(m.Get())
			twin.Set(twin.Get())
			st.Count("op.snap")
			obs.Printf("%s %d S %s\n", id, n, showMembership(m.Get()))
		case "set":
			pm := pb.Membership{ConfigChangeId: u64(f[1]), Addresses: parseMap(f[2]),
				NonVotings: parseMap(f[3]), Witnesses: parseMap(f[4]), Removed: parseSet(f[5])}
			m.Set(pm)
			twin.Set(pm)
			everRemoved = map[uint64]bool{}
			pms, _ := members(pm)
			for k := range pm.Removed {
				if _, isMember := pms[k]; !isMember { // malformed installed memberships are only compared, not monitored
					everRemoved[k] = true
				}
			}
			st.Count("op.set")
			obs.Printf("%s %d S %s\n", id, n, showMembership(m.Get()))
		case "cc":
			cc, index := parseCC(f)
			before := m.Get()
			var acc, tacc bool
			p := vh.Catch(func() { acc = m.HandleConfigChange(cc, index) })
			tp := vh.Catch(func() { tacc = twin.HandleConfigChange(cc, index) })
			after := m.Get()
			for _, msg := range monitorStep(ordered, before, after, cc, index, acc, p) {
				st.Violation(id, fmt.Sprintf("op %d: %s", n, msg))
			}
			if p == "" && acc && cc.Type == pb.RemoveNode {
				everRemoved[cc.ReplicaID] = true
			}
			if p == "" {
				am, _ := members(after)
				for k := range everRemoved {
					if _, ok := am[k]; ok {
						st.Violation(id, fmt.Sprintf("op %d: replica %d was removed earlier and is a member again", n, k))
					}
				}
			}
			if tp != p || tacc != acc || (p == "" && showMembership(twin.Get()) != showMembership(after)) {
				st.Violation(id, fmt.Sprintf("op %d: two replicas applying the same log disagree", n))
			}
			tn := typeNames[int32(cc.Type)]
			if tn == "" {
				tn = "badtype"
			}
			if p != "" {
				st.Count("panic." + panicTag(p))
				obs.Printf("%s %d %s\n", id, n, panicTag(p))
				st.Case(rest, acceptedN > 0 && rejectedRule > 0, line)
				return
			}
			res := "R"
			if acc {
				res = "A"
				acceptedN++
				if _, was := before.NonVotings[cc.ReplicaID]; was && cc.Type == pb.AddNode {
					promos++
					st.Count("accept.promotion")
				} else {
					st.Count("accept." + tn)
				}
			} else {
				first := classifyReject(ordered, before, cc)
				if first != "stale-id" {
					rejectedRule++
				}
				st.Count("reject." + first)
			}
			obs.Printf("%s %d %s %s\n", id, n, res, showMembership(after))
		default:
			obs.Printf("%s %d BADOP\n", id, n)
		}
	}
	st.Case(rest, acceptedN > 0 && rejectedRule > 0, line)
}

func b2i(b bool) int {
	if b {
		return 1
	}
	return 0
}

func main() {
	a := vh.ParseArgs()
	for _, pkg := range []string{"rsm", "raft", "dragonboat", "logdb", "registry", "transport", "config"} {
		logger.GetLogger(pkg).SetLevel(logger.CRITICAL)
	}
	switch a.Mode {
	case "gen":
		n := 12000
		if a.Tier == "thorough" {
			n = 400000
		}
		if a.N > 0 {
			n = a.N
		}
		r := vh.NewRand(a.Seed)
		w := vh.Create(a.Cases)
		for i := 0; i < n; i++ {
			w.Printf("g%d %s\n", i, genCase(r))
		}
		// restart dimension: real rsm.StateMachine over an on disk state machine
		for i := 0; i < n/6; i++ {
			w.Printf("s%d %s\n", i, genSMCase(r))
		}
		// node.go dimension: real *node, raft.Peer, registry, pendingConfigChange
		for i := 0; i < n/4; i++ {
			w.Printf("n%d %s\n", i, genNodeCase(r))
		}
		w.Close()
	case "run":
		st := vh.NewStats("sequences of 1..60 config change requests on the real rsm.membership (ordered on/off): replica ids 1..8 plus 0 and 2^64-1, " +
			"addresses from a pool of 7 hosts in case/white-space variants plus empty/blank, types 0..3 plus invalid, ConfigChangeId current/stale/concurrent duplicates, " +
			"retries of earlier requests, get/set snapshots and installed memberships in between. non-trivial = the case has at least one accepted change AND " +
			"at least one rejection by a rule other than the ordered-id check; distinct by full case text. " +
			"restart dimension (cases s*, n/6 of them): a real rsm.StateMachine over an on disk state machine applies a log of config changes and updates, takes metadata-only snapshot records, " +
			"restarts (Open = index of the last update the disk kept, optionally lagging), recovers from the latest record and replays the log; compared after every entry and every restart with a never-restarted twin " +
			"and with the model (sm_run); non-trivial there = at least one restart replayed a config change at or below the on disk index. " +
			"node.go dimension (cases n*, n/4 of them): a real node with raft.Peer, node registry and pendingConfigChange; local requests (valid, refused targets, pending + busy, ordered ids), entries of other requests while one is pending, " +
			"promotions in other spellings, own removal, the node started as full / non-voting / witness, entries lagging in the apply queue, snapshots restored through StateMachine.Recover -> RestoreRemotes; non-trivial there = at least one local request was committed and applied")
		obs := vh.Create(a.Out + "/impl.obs")
		for _, line := range vh.ReadLines(a.Cases) {
			runCase(line, obs, st)
		}
		obs.Close()
		st.Write(a.Out)
	default:
		panic("mode must be gen or run")
	}
}

// classifyReject names, for the statistics only, why the harness expects a
// request to be refused (its own reading of the property, not the code's rules).
func classifyReject(ordered bool, before pb.Membership, cc pb.ConfigChange) string {
	ms, _ := members(before)
	cur, isMember := ms[cc.ReplicaID]
	isAdd := cc.Type == pb.AddNode || cc.Type == pb.AddNonVoting || cc.Type == pb.AddWitness
	switch {
	case ordered && !cc.Initialize && cc.ConfigChangeId != before.ConfigChangeId:
		return "stale-id"
	case isAdd && before.Removed[cc.ReplicaID]:
		return "removed-id"
	case cc.Type == pb.RemoveNode:
		return "last-voter"
	case isAdd && isMember:
		want := map[pb.ConfigChangeType]string{pb.AddNode: "voting", pb.AddNonVoting: "nonvoting", pb.AddWitness: "witness"}[cc.Type]
		if cur[0].kind == want {
			return "existing-id"
		}
		if cur[0].kind == "nonvoting" && want == "voting" {
			return "promotion-other-address"
		}
		return "kind-change." + cur[0].kind + "-to-" + want
	case isAdd:
		return "address-in-use"
	}
	return "other"
}
